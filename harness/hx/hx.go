// Package hx holds what every property harness shares: the PRNG, the Coq
// case printer, and the meta/evidence writer.
package hx

import (
	"encoding/hex"
	"encoding/json"
	"fmt"
	"os"
	"path/filepath"
	"sort"
	"strings"
)

// SplitMix64: every random choice of a run derives from one state seeded by VERIF_SEED.
type Rand struct{ s uint64 }

func NewRand(seed int64) *Rand { return &Rand{uint64(seed)*0x9E3779B97F4A7C15 + 0x1234567} }
func (r *Rand) U64() uint64 {
	r.s += 0x9E3779B97F4A7C15
	z := r.s
	z = (z ^ (z >> 30)) * 0xBF58476D1CE4E5B9
	z = (z ^ (z >> 27)) * 0x94D049BB133111EB
	return z ^ (z >> 31)
}
func (r *Rand) Intn(n int) int {
	if n <= 0 {
		return 0
	}
	return int(r.U64() % uint64(n))
}
func (r *Rand) Bool() bool              { return r.U64()&1 == 1 }
func (r *Rand) Chance(p int) bool       { return r.Intn(100) < p }
func (r *Rand) Range(lo, hi int) int    { return lo + r.Intn(hi-lo+1) }
func (r *Rand) Pick(xs []string) string { return xs[r.Intn(len(xs))] }
func (r *Rand) Pick3(a, b, c int) int {
	return []int{a, b, c}[r.Intn(3)]
}
func (r *Rand) Bytes(n int) []byte {
	b := make([]byte, n)
	for i := range b {
		b[i] = byte(r.U64())
	}
	return b
}

// ---- Coq term printing ----

func Z(v int64) string {
	if v < 0 {
		return fmt.Sprintf("(%d)", v)
	}
	return fmt.Sprintf("%d", v)
}
func ZU(v uint64) string { return fmt.Sprintf("%d", v) }
func B(b bool) string {
	if b {
		return "true"
	}
	return "false"
}

// Str prints a byte string as a Coq string term: a literal when printable, hex otherwise.
func Str(s string) string {
	plain := true
	for i := 0; i < len(s); i++ {
		if s[i] < 0x20 || s[i] > 0x7e || s[i] == '"' {
			plain = false
			break
		}
	}
	if plain {
		return "\"" + s + "\""
	}
	return "(unhex \"" + hex.EncodeToString([]byte(s)) + "\")"
}
func Hex(b []byte) string { return "(unhexb \"" + hex.EncodeToString(b) + "\")" }
func OptStr(s *string) string {
	if s == nil {
		return "None"
	}
	return "(Some " + Str(*s) + ")"
}
func List(items []string) string { return "[" + strings.Join(items, "; ") + "]" }
func StrList(xs []string) string {
	out := make([]string, len(xs))
	for i, x := range xs {
		out[i] = Str(x)
	}
	return List(out)
}

// MD prints metadata as list (string * list string), keys sorted.
func MD(md map[string][]string) string {
	keys := make([]string, 0, len(md))
	for k := range md {
		keys = append(keys, k)
	}
	sort.Strings(keys)
	items := make([]string, len(keys))
	for i, k := range keys {
		items[i] = "(" + Str(k) + ", " + StrList(md[k]) + ")"
	}
	return List(items)
}

// ---- output ----

type Violation struct {
	What  string      `json:"what"`
	Input interface{} `json:"input"`
	Got   interface{} `json:"observed"`
	Want  interface{} `json:"expected,omitempty"`
}

type Out struct {
	Prop     string
	Dir      string
	Imports  string // e.g. "corr.C14"
	Preamble string // extra Coq definitions (cfg ...)
	Check    string // e.g. "check_case" or "(check_case cfg)"
	Oracle   string // e.g. "oracle_case"
	Finding  string // e.g. "finding_case" or ""
	terms    []string
	descs    []interface{}
	kinds    map[string]int
	distinct map[string]bool
	Samples  []interface{}
	GoViol   []Violation
	Switches map[string]interface{} // finding switch -> {on, witness, observed}
	Stats    map[string]interface{}
	Shard    int
	cur      *os.File
}

func NewOut(prop, dir string) *Out {
	return &Out{Prop: prop, Dir: dir, Imports: "corr." + prop, Check: "check_case", Oracle: "oracle_case",
		kinds: map[string]int{}, distinct: map[string]bool{}, Switches: map[string]interface{}{}, Stats: map[string]interface{}{}, Shard: 400}
}

// Case adds one case: its kind (for the distribution), its Coq term, and a
// JSON-able description sufficient to replay it.
func (o *Out) Case(kind, term string, desc interface{}) {
	o.terms = append(o.terms, term)
	o.descs = append(o.descs, map[string]interface{}{"kind": kind, "case": desc, "coq": term})
	o.kinds[kind]++
	o.distinct[term] = true
	if o.kinds[kind] <= 2 && len(o.Samples) < 12 {
		o.Samples = append(o.Samples, map[string]interface{}{"kind": kind, "case": desc})
	}
}
func (o *Out) N() int { return len(o.terms) }

// Each visits the cases collected so far (kind, Coq term, description)
func (o *Out) Each(f func(kind, term string, desc interface{})) {
	for i, t := range o.terms {
		d := o.descs[i].(map[string]interface{})
		f(d["kind"].(string), t, d["case"])
	}
}

// Begin records the input about to be run, so that if the library crashes the
// whole process (a panic on one of its own goroutines cannot be recovered by
// the harness) the driver still knows which input did it.
func (o *Out) Begin(desc interface{}) {
	if o.cur == nil {
		os.MkdirAll(o.Dir, 0o755)
		f, err := os.Create(filepath.Join(o.Dir, "current.json"))
		if err != nil {
			return
		}
		o.cur = f
	}
	b, _ := json.Marshal(desc)
	o.cur.Truncate(0)
	o.cur.WriteAt(b, 0)
}

func (o *Out) Violate(what string, input, got, want interface{}) {
	o.GoViol = append(o.GoViol, Violation{what, input, got, want})
}

func (o *Out) Switch(name string, on bool, witness, observed interface{}) {
	o.Switches[name] = map[string]interface{}{"on": on, "witness": witness, "observed": observed}
}

func (o *Out) Write() error {
	if err := os.MkdirAll(o.Dir, 0o755); err != nil {
		return err
	}
	old, _ := filepath.Glob(filepath.Join(o.Dir, "cases_*.v"))
	for _, f := range old {
		os.Remove(f)
	}
	nsh := 0
	bases := []int{}
	// a shard holds at most o.Shard cases and (beyond its first case) at most shardBytes of terms:
	// coqc needs about 80 us per byte of a long byte-string literal
	const shardBytes = 300000
	for start := 0; start < len(o.terms) || nsh == 0; {
		end, sz := start, 0
		for end < len(o.terms) && end-start < o.Shard && (end == start || sz+len(o.terms[end]) <= shardBytes) {
			sz += len(o.terms[end])
			end++
		}
		bases = append(bases, start)
		var sb strings.Builder
		sb.WriteString("(* written by the harness: inputs and what /repo did on them *)\n")
		sb.WriteString("From Coq Require Import ZArith String List Bool.\nImport ListNotations.\n")
		sb.WriteString("From Grpchan Require Import lib.Cases lib.Hex " + o.Imports + ".\n")
		sb.WriteString("Open Scope Z_scope.\nOpen Scope string_scope.\n")
		sb.WriteString(o.Preamble + "\n")
		sb.WriteString("Definition cases : list case := [\n")
		for i := start; i < end; i++ {
			sb.WriteString("  " + o.terms[i])
			if i+1 < end {
				sb.WriteString(";")
			}
			sb.WriteString("\n")
		}
		sb.WriteString("].\n")
		fmt.Fprintf(&sb, "Definition M := Eval vm_compute in failing %s cases.\nPrint M.\n", o.Check)
		fmt.Fprintf(&sb, "Definition V := Eval vm_compute in failing %s cases.\nPrint V.\n", o.Oracle)
		if o.Finding != "" {
			fmt.Fprintf(&sb, "Definition K := Eval vm_compute in tagged %s cases.\nPrint K.\n", o.Finding)
		}
		if err := os.WriteFile(filepath.Join(o.Dir, fmt.Sprintf("cases_%d.v", nsh)), []byte(sb.String()), 0o644); err != nil {
			return err
		}
		nsh++
		if end >= len(o.terms) {
			break
		}
		start = end
	}
	meta := map[string]interface{}{
		"property": o.Prop, "cases": o.descs, "kinds": o.kinds, "distinct": len(o.distinct), "samples": o.Samples,
		"go_violations": o.GoViol, "switches": o.Switches, "stats": o.Stats, "shards": nsh, "shard_size": o.Shard, "shard_bases": bases,
	}
	b, err := json.Marshal(meta)
	if err != nil {
		return err
	}
	return os.WriteFile(filepath.Join(o.Dir, "meta.json"), b, 0o644)
}
