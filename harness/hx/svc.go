package hx

import (
	"context"

	"google.golang.org/grpc"

	"github.com/fullstorydev/grpchan/grpchantesting"
)

// Msg is the message type used by all scripted services.
type Msg = grpchantesting.Message

// Svc is a scripted service: the behaviour of each method is a closure.
type Svc struct {
	Unary  func(ctx context.Context, req *Msg) (*Msg, error)
	Stream func(kind string, ss grpc.ServerStream) error // kind: CS, SS, BD
}

type SvcIface interface{}

const SvcName = "verif.Svc"

// Desc builds a service description at run time (no generated code): one unary
// method U and the three streaming kinds CS, SS, BD.
func Desc(name string) *grpc.ServiceDesc {
	stream := func(kind string) grpc.StreamHandler {
		return func(srv interface{}, ss grpc.ServerStream) error {
			return srv.(*Svc).Stream(kind, ss)
		}
	}
	return &grpc.ServiceDesc{
		ServiceName: name,
		HandlerType: (*SvcIface)(nil),
		Methods: []grpc.MethodDesc{{
			MethodName: "U",
			Handler: func(srv interface{}, ctx context.Context, dec func(interface{}) error, interceptor grpc.UnaryServerInterceptor) (interface{}, error) {
				in := new(Msg)
				if err := dec(in); err != nil {
					return nil, err
				}
				h := func(ctx context.Context, req interface{}) (interface{}, error) {
					r, err := srv.(*Svc).Unary(ctx, req.(*Msg))
					if r == nil {
						// keep a typed nil out of the interface
						return nil, err
					}
					return r, err
				}
				if interceptor == nil {
					return h(ctx, in)
				}
				return interceptor(ctx, in, &grpc.UnaryServerInfo{Server: srv, FullMethod: "/" + name + "/U"}, h)
			},
		}},
		Streams: []grpc.StreamDesc{
			{StreamName: "CS", Handler: stream("CS"), ClientStreams: true},
			{StreamName: "SS", Handler: stream("SS"), ServerStreams: true},
			{StreamName: "BD", Handler: stream("BD"), ClientStreams: true, ServerStreams: true},
		},
		Metadata: "verif.proto",
	}
}

// StreamDescOf returns the client-side stream descriptor for a kind.
func StreamDescOf(kind string) *grpc.StreamDesc {
	switch kind {
	case "CS":
		return &grpc.StreamDesc{StreamName: "CS", ClientStreams: true}
	case "SS":
		return &grpc.StreamDesc{StreamName: "SS", ServerStreams: true}
	default:
		return &grpc.StreamDesc{StreamName: "BD", ClientStreams: true, ServerStreams: true}
	}
}
