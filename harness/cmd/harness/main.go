// harness runs the real grpchan code (the working tree of /repo, through the
// replace directive of go.mod) on generated inputs, schedules and histories and
// writes what it observed as Coq case files plus a JSON description.
package main

import (
	"flag"
	"fmt"
	"os"
	"sort"
	"time"

	"verifharness/hx"
)

type runner func(o *hx.Out, r *hx.Rand, thorough bool)

var runners = map[string]runner{}

func main() {
	if len(os.Args) < 2 {
		fmt.Fprintln(os.Stderr, "usage: harness <property> -seed N -tier quick|thorough -out DIR")
		os.Exit(2)
	}
	prop := os.Args[1]
	if prop == "C06codec" { // child process of the C06 runner
		c06CodecChild()
		return
	}
	fs := flag.NewFlagSet("harness", flag.ExitOnError)
	seed := fs.Int64("seed", 1, "PRNG seed")
	tier := fs.String("tier", "quick", "quick or thorough")
	out := fs.String("out", "", "output directory")
	fs.Parse(os.Args[2:])
	run, ok := runners[prop]
	if !ok {
		var names []string
		for k := range runners {
			names = append(names, k)
		}
		sort.Strings(names)
		fmt.Fprintf(os.Stderr, "unknown property %s (have %v)\n", prop, names)
		os.Exit(2)
	}
	o := hx.NewOut(prop, *out)
	t0 := time.Now()
	run(o, hx.NewRand(*seed), *tier == "thorough")
	o.Stats["harness_wall_s"] = time.Since(t0).Seconds()
	if err := o.Write(); err != nil {
		fmt.Fprintln(os.Stderr, "write:", err)
		os.Exit(3)
	}
	fmt.Printf("harness %s: %d cases, %d go-side violations\n", prop, o.N(), len(o.GoViol))
}
