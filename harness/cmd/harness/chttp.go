package main

// Schedules for the receive side of an HTTP client stream, checked by trace inclusion in the LTS of
// coq/model/HttpClient.v: the reply body is delivered frame by frame by the executor (a scripted transport),
// the caller's RecvMsg calls and the end of the context are interleaved with the deliveries, and after every
// step the executor waits until every goroutine is parked and records what returned.

import (
	"context"
	"encoding/binary"
	"errors"
	"fmt"
	"io"
	"net/http"
	"net/url"
	"runtime"
	"sync"

	"google.golang.org/grpc/status"
	"google.golang.org/protobuf/proto"

	"github.com/fullstorydev/grpchan/httpgrpc"
	"verifharness/hx"
)

// gatedBody is a reply body whose bytes the executor releases chunk by chunk; reads fail once the request's
// context has ended, as a real transport's do
type gatedBody struct {
	mu     sync.Mutex
	cond   *sync.Cond
	buf    []byte
	ended  bool
	endErr error
	ctx    context.Context
	wake   chan struct{}
}

func newGatedBody(ctx context.Context) *gatedBody {
	b := &gatedBody{ctx: ctx, wake: make(chan struct{}, 1)}
	return b
}
func (b *gatedBody) push(p []byte) {
	b.mu.Lock()
	b.buf = append(b.buf, p...)
	b.mu.Unlock()
	select {
	case b.wake <- struct{}{}:
	default:
	}
}
func (b *gatedBody) end(err error) {
	b.mu.Lock()
	b.ended, b.endErr = true, err
	b.mu.Unlock()
	select {
	case b.wake <- struct{}{}:
	default:
	}
}
func (b *gatedBody) Read(p []byte) (int, error) {
	for {
		b.mu.Lock()
		if len(b.buf) > 0 {
			n := copy(p, b.buf)
			b.buf = b.buf[n:]
			b.mu.Unlock()
			return n, nil
		}
		if b.ended {
			err := b.endErr
			b.mu.Unlock()
			if err == nil {
				return 0, io.EOF
			}
			return 0, err
		}
		b.mu.Unlock()
		select {
		case <-b.wake:
		case <-b.ctx.Done():
			// bytes that have already arrived may still be read; otherwise the read fails
			b.mu.Lock()
			empty := len(b.buf) == 0
			b.mu.Unlock()
			if empty {
				return 0, b.ctx.Err()
			}
		}
	}
}
func (b *gatedBody) Close() error { return nil }

type gatedRT struct {
	mk func(ctx context.Context) *gatedBody
}

func (g gatedRT) RoundTrip(r *http.Request) (*http.Response, error) {
	if r.Body != nil {
		go func() { io.Copy(io.Discard, r.Body); r.Body.Close() }()
	}
	h := http.Header{}
	h.Set("Content-Type", httpgrpc.StreamRpcContentType_V1)
	return &http.Response{StatusCode: 200, Status: "200 OK", Proto: "HTTP/1.1", ProtoMajor: 1, ProtoMinor: 1, Header: h,
		ContentLength: -1, Body: g.mk(r.Context()), Request: r}, nil
}

type hev struct {
	kind string // EData ETrailer EBad EBadTrailer
	x    int64
}

func (e hev) coq() string {
	switch e.kind {
	case "EData", "ETrailer":
		return fmt.Sprintf("(HttpClient.%s %s)", e.kind, hx.Z(e.x))
	}
	return "HttpClient." + e.kind
}
func (e hev) bytes() []byte {
	fr := func(p []byte, neg bool) []byte {
		b := make([]byte, 4)
		n := int32(len(p))
		if neg {
			n = -n
		}
		binary.BigEndian.PutUint32(b, uint32(n))
		return append(b, p...)
	}
	switch e.kind {
	case "EData":
		p, _ := proto.Marshal(&hx.Msg{Count: int32(e.x), Payload: []byte("p")})
		return fr(p, false)
	case "ETrailer":
		p, _ := proto.Marshal(&httpgrpc.HttpTrailer{Code: int32(e.x), Message: "m"})
		return fr(p, true)
	case "EBad":
		return []byte{0x7f, 0xff, 0xff, 0xff} // a size no message may have
	default: // a trailer frame whose payload is not a trailer message
		return fr([]byte{0xff, 0xff, 0xff}, true)
	}
}

type hRound struct {
	start string
	rets  []string
}

type hSched struct {
	respStream bool
	body       []hev
	abrupt     bool
	rounds     []hRound
	unsettled  bool
	panicked   bool
}

func hRes(err error, m *hx.Msg) string {
	switch {
	case err == nil:
		return fmt.Sprintf("(HttpClient.RMsg %d)", m.Count)
	case err == io.EOF:
		return "HttpClient.REOF"
	case err == io.ErrUnexpectedEOF:
		return "(HttpClient.RRaw (-1))"
	}
	if st, ok := status.FromError(err); ok {
		return fmt.Sprintf("(HttpClient.RStatus %d)", uint32(st.Code()))
	}
	return "(HttpClient.RRaw (-2))"
}

// runHTTPSchedule executes starts (Recv, Deliver, EndBody, Cancel, Deadline) chosen by next
func runHTTPSchedule(respStream bool, body []hev, abrupt bool, next func(busy bool, delivered int, ended bool, round int) string) hSched {
	res := hSched{respStream: respStream, body: body, abrupt: abrupt}
	self := curGoroutineID()
	var mu sync.Mutex
	var results []string
	nDone := func() int { mu.Lock(); defer mu.Unlock(); return len(results) }
	var gb *gatedBody
	made := make(chan struct{})
	base, _ := url.Parse("http://scripted.invalid/")
	ch := &httpgrpc.Channel{Transport: gatedRT{func(ctx context.Context) *gatedBody { gb = newGatedBody(ctx); close(made); return gb }}, BaseURL: base}
	mctx := newManualCtx()
	kind := "BD"
	if !respStream {
		kind = "CS"
	}
	cs, err := ch.NewStream(mctx, hx.StreamDescOf(kind), "/verif.Svc/"+kind)
	if err != nil {
		res.unsettled = true
		return res
	}
	cs.CloseSend()
	<-made
	cmd := make(chan struct{})
	go func() {
		for range cmd {
			var r string
			func() {
				defer func() {
					if p := recover(); p != nil {
						mu.Lock()
						res.panicked = true
						mu.Unlock()
						r = "(HttpClient.RRaw (-9))"
					}
				}()
				m := &hx.Msg{}
				r = hRes(cs.RecvMsg(m), m)
			}()
			mu.Lock()
			results = append(results, r)
			mu.Unlock()
		}
	}()
	if !waitSettled(self, nDone) {
		res.unsettled = true
	}
	busy, delivered, ended, taken := false, 0, false, 0
	for round := 0; !res.unsettled; round++ {
		st := next(busy, delivered, ended, round)
		if st == "" {
			break
		}
		switch st {
		case "Recv":
			busy = true
			cmd <- struct{}{}
		case "Deliver":
			gb.push(body[delivered].bytes())
			delivered++
		case "EndBody":
			ended = true
			if abrupt {
				gb.end(errors.New("connection reset by peer"))
			} else {
				gb.end(nil)
			}
		case "Cancel":
			mctx.end(context.Canceled)
		case "Deadline":
			mctx.end(context.DeadlineExceeded)
		}
		if !waitSettled(self, nDone) {
			res.unsettled = true
			break
		}
		mu.Lock()
		rd := hRound{start: st, rets: append([]string{}, results[taken:]...)}
		taken = len(results)
		mu.Unlock()
		if len(rd.rets) > 0 {
			busy = false
		}
		res.rounds = append(res.rounds, rd)
	}
	// wind down
	mctx.end(context.Canceled)
	if gb != nil {
		gb.end(errors.New("closed"))
	}
	close(cmd)
	runtime.KeepAlive(cs)
	return res
}

func (s hSched) term() string {
	var evs, rs []string
	for _, e := range s.body {
		evs = append(evs, e.coq())
	}
	for _, r := range s.rounds {
		var rets []string
		for _, x := range r.rets {
			rets = append(rets, x)
		}
		rs = append(rs, fmt.Sprintf("(HttpClient.%s, %s)", r.start, hx.List(rets)))
	}
	end := "HttpClient.EndClean"
	if s.abrupt {
		end = "HttpClient.EndAbrupt"
	}
	return fmt.Sprintf("HttpSched.HSched %s %s %s %s %s", hx.B(s.respStream), hx.List(evs), end, hx.List(rs), hx.B(s.panicked))
}
func (s hSched) desc() map[string]interface{} {
	var evs, rs []string
	for _, e := range s.body {
		evs = append(evs, e.coq())
	}
	for _, r := range s.rounds {
		rs = append(rs, fmt.Sprintf("%s => %v", r.start, r.rets))
	}
	return map[string]interface{}{"transport": "httpgrpc", "side": "client stream, scripted transport", "response_stream": s.respStream, "reply_frames": evs, "abrupt_end": s.abrupt, "rounds": rs, "panicked": s.panicked}
}

// httpClientSchedules runs n random schedules; wrap names the constructor that embeds the case ("" for none)
func httpClientSchedules(o *hx.Out, r *hx.Rand, n int, wrap string) {
	unsettled := 0
	for i := 0; i < n; i++ {
		respStream := r.Chance(65)
		var body []hev
		nd := r.Intn(4)
		for k := 0; k < nd; k++ {
			body = append(body, hev{"EData", int64(k + 1)})
		}
		switch r.Intn(8) {
		case 0:
			body = append(body, hev{"EBad", 0})
		case 1:
			body = append(body, hev{"EBadTrailer", 0})
		case 2: // no trailer at all
		default:
			body = append(body, hev{"ETrailer", []int64{0, 0, 0, 5, 13}[r.Intn(5)]})
			if r.Chance(10) {
				body = append(body, hev{"EData", 99})
			}
		}
		abrupt := r.Chance(30)
		total := r.Range(4, 14)
		cancelAt := -1
		if r.Chance(35) {
			cancelAt = r.Intn(total)
		}
		cancelled := false
		s := runHTTPSchedule(respStream, body, abrupt, func(busy bool, delivered int, ended bool, round int) string {
			if round >= total {
				return ""
			}
			if round == cancelAt && !cancelled {
				cancelled = true
				return r.Pick([]string{"Cancel", "Cancel", "Deadline"})
			}
			var cand []string
			if !busy {
				cand = append(cand, "Recv", "Recv")
			}
			if delivered < len(body) && !ended {
				cand = append(cand, "Deliver", "Deliver")
			}
			if !ended && (delivered == len(body) || r.Chance(10)) {
				cand = append(cand, "EndBody")
			}
			if len(cand) == 0 {
				return ""
			}
			return cand[r.Intn(len(cand))]
		})
		if s.unsettled {
			unsettled++
			continue
		}
		if s.panicked {
			o.Violate("RecvMsg of an HTTP client stream panicked", s.desc(), "panic", nil)
		}
		t := s.term()
		if wrap != "" {
			t = wrap + " (" + t + ")"
		}
		o.Case("http_client_schedule", t, s.desc())
	}
	o.Stats["unsettled_http_schedules_skipped"] = unsettled
}

func init() {
	runners["HTTPC"] = func(o *hx.Out, r *hx.Rand, thorough bool) {
		o.Imports = "corr.HttpSched"
		n := 300
		if thorough {
			n = 3000
		}
		httpClientSchedules(o, r, n, "")
		o.Shard = 100
	}
}
