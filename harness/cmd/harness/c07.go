package main

import (
	"bytes"
	"context"
	"encoding/binary"
	"encoding/hex"
	"errors"
	"fmt"
	"io"
	"math"
	"net/http"
	"net/http/httptest"
	"net/url"
	"runtime"
	"strings"

	"google.golang.org/grpc"
	"google.golang.org/grpc/codes"
	"google.golang.org/grpc/status"
	"google.golang.org/protobuf/proto"

	"github.com/fullstorydev/grpchan/httpgrpc"
	"verifharness/hx"
)

func init() { runners["C07"] = runC07 }

var errAbrupt = errors.New("verif: connection reset (abrupt end of body)")

// body replays bytes and then ends cleanly (io.EOF) or abruptly (another error)
type replayBody struct {
	r      *bytes.Reader
	abrupt bool
}

func (b *replayBody) Read(p []byte) (int, error) {
	n, err := b.r.Read(p)
	if err == io.EOF {
		if n > 0 {
			return n, nil
		}
		if b.abrupt {
			return 0, errAbrupt
		}
	}
	return n, err
}
func (b *replayBody) Close() error { return nil }

type replayRT struct {
	body   []byte
	abrupt bool
}

func (s replayRT) RoundTrip(r *http.Request) (*http.Response, error) {
	if r.Body != nil {
		go func() { io.Copy(io.Discard, r.Body); r.Body.Close() }()
	}
	h := http.Header{}
	h.Set("Content-Type", httpgrpc.StreamRpcContentType_V1)
	return &http.Response{StatusCode: 200, Status: "200 OK", Proto: "HTTP/1.1", ProtoMajor: 1, ProtoMinor: 1,
		Header: h, Body: &replayBody{bytes.NewReader(s.body), s.abrupt}, Request: r}, nil
}

func frame(b []byte) []byte {
	out := make([]byte, 4, 4+len(b))
	binary.BigEndian.PutUint32(out, uint32(int32(len(b))))
	return append(out, b...)
}
func trailerFrame(b []byte) []byte {
	out := make([]byte, 4, 4+len(b))
	binary.BigEndian.PutUint32(out, uint32(int32(-len(b))))
	return append(out, b...)
}

// finClass: 0 io.EOF, 1 io.ErrUnexpectedEOF, 100+c status, 2 anything else
func finClass(err error) int64 {
	switch {
	case err == io.EOF:
		return 0
	case err == io.ErrUnexpectedEOF:
		return 1
	}
	if st, ok := status.FromError(err); ok {
		return 100 + int64(st.Code())
	}
	return 2
}

func hexList(bs [][]byte) string {
	items := make([]string, len(bs))
	for i, b := range bs {
		items[i] = hx.Hex(b)
	}
	return hx.List(items)
}
func hexStrs(bs [][]byte) []string {
	out := make([]string, len(bs))
	for i, b := range bs {
		out[i] = hex.EncodeToString(b)
	}
	return out
}

// the harness's own walk over a body: the trailer byte strings a decoder could reach,
// with the code the real codec decodes from them (-1 = does not unmarshal)
func trailerCandidates(body []byte) string {
	var items []string
	pos := 0
	for pos+4 <= len(body) {
		sz := int32(binary.BigEndian.Uint32(body[pos:]))
		pos += 4
		if sz < 0 {
			n := int(-int64(sz))
			if sz == -sz || n > len(body)-pos {
				break
			}
			t := body[pos : pos+n]
			var tr httpgrpc.HttpTrailer
			code := int64(-1)
			if err := proto.Unmarshal(t, &tr); err == nil {
				code = int64(uint32(tr.Code))
			}
			items = append(items, "("+hx.Hex(t)+", "+hx.Z(code)+")")
			break
		}
		if int(sz) > len(body)-pos {
			break
		}
		pos += int(sz)
	}
	return hx.List(items)
}

func runClientBody(body []byte, abrupt bool) (msgs [][]byte, fin int64, panicked interface{}) {
	base, _ := url.Parse("http://replay.invalid/")
	ch := &httpgrpc.Channel{Transport: replayRT{body, abrupt}, BaseURL: base}
	defer func() {
		if p := recover(); p != nil {
			panicked = p
		}
	}()
	cs, err := ch.NewStream(context.Background(), hx.StreamDescOf("BD"), "/verif.Svc/BD", clientCallOpts...)
	if err != nil {
		return nil, finClass(err), nil
	}
	defer runtime.KeepAlive(cs)
	cs.CloseSend()
	var m RawMsg // one destination for every receive
	for {
		err := cs.RecvMsg(&m)
		if err != nil {
			return msgs, finClass(err), nil
		}
		msgs = append(msgs, append([]byte{}, m.B...))
		if len(msgs) > 10000 {
			return msgs, 2, "runaway"
		}
	}
}

// call options for runClientBody (the per-call size options must not loosen the fixed per-message limit)
var clientCallOpts []grpc.CallOption

// runClientSingle: the client of a single-response method receives once
func runClientSingle(body []byte, abrupt bool) (ok bool, msg []byte, panicked interface{}) {
	base, _ := url.Parse("http://replay.invalid/")
	ch := &httpgrpc.Channel{Transport: replayRT{body, abrupt}, BaseURL: base}
	defer func() {
		if p := recover(); p != nil {
			panicked = p
		}
	}()
	cs, err := ch.NewStream(context.Background(), hx.StreamDescOf("CS"), "/verif.Svc/CS")
	if err != nil {
		return false, nil, nil
	}
	defer runtime.KeepAlive(cs)
	cs.CloseSend()
	var m RawMsg
	if err := cs.RecvMsg(&m); err != nil {
		return false, nil, nil
	}
	return true, m.B, nil
}

func runServerBody(kind string, body []byte, abrupt bool) (msgs [][]byte, fin int64, panicked interface{}) {
	desc := hx.Desc(hx.SvcName)
	var sd *grpc.StreamDesc
	for i := range desc.Streams {
		if desc.Streams[i].StreamName == kind {
			sd = &desc.Streams[i]
		}
	}
	svc := &hx.Svc{Stream: func(_ string, ss grpc.ServerStream) error {
		var m RawMsg // ONE destination for every receive: each frame replaces what the previous one left
		for {
			err := ss.RecvMsg(&m)
			if err != nil {
				fin = finClass(err)
				return nil
			}
			msgs = append(msgs, append([]byte{}, m.B...))
			if len(msgs) > 10000 {
				fin = 2
				return nil
			}
		}
	}}
	h := httpgrpc.HandleStream(svc, hx.SvcName, sd, nil)
	req := httptest.NewRequest("POST", "/verif.Svc/"+kind, &replayBody{bytes.NewReader(body), abrupt})
	req.Header.Set("Content-Type", httpgrpc.StreamRpcContentType_V1)
	rec := httptest.NewRecorder()
	func() {
		defer func() {
			if p := recover(); p != nil {
				panicked = p
			}
		}()
		h(rec, req)
	}()
	return
}

func runC07(o *hx.Out, r *hx.Rand, thorough bool) {
	installRawCodec()
	mkTrailer := func(code int32, msg string, md map[string][]string) []byte {
		tr := &httpgrpc.HttpTrailer{Code: code, Message: msg, Metadata: map[string]*httpgrpc.TrailerValues{}}
		for k, v := range md {
			tr.Metadata[k] = &httpgrpc.TrailerValues{Values: v}
		}
		b, err := proto.Marshal(tr)
		if err != nil {
			panic(err)
		}
		return b
	}
	randMsg := func() []byte {
		switch r.Intn(10) {
		case 0:
			return []byte{}
		case 1:
			return r.Bytes(r.Range(1, 4))
		case 2:
			return r.Bytes(r.Range(200, 70000))
		default:
			return r.Bytes(r.Range(1, 60))
		}
	}
	alloc := func(f func()) uint64 {
		var a, b runtime.MemStats
		runtime.ReadMemStats(&a)
		f()
		runtime.ReadMemStats(&b)
		return b.TotalAlloc - a.TotalAlloc
	}
	const allocLimit = uint64(httpgrpc.VerifMaxMessageSize) + 64<<20
	nPanic := 0
	cli := func(kind string, body []byte, abrupt, cut bool) {
		var msgs [][]byte
		var fin int64
		var p interface{}
		var used uint64
		o.Begin(map[string]interface{}{"side": "client", "body_hex": hex.EncodeToString(body), "abrupt": abrupt})
		if len(body) <= 16 {
			used = alloc(func() { msgs, fin, p = runClientBody(body, abrupt) })
		} else {
			msgs, fin, p = runClientBody(body, abrupt)
		}
		desc := map[string]interface{}{"side": "client", "body_hex": hex.EncodeToString(body), "abrupt": abrupt, "cut": cut,
			"delivered": hexStrs(msgs), "final": fin}
		if len(body) > 400 {
			desc["body_hex"] = hex.EncodeToString(body[:200]) + "...(" + fmt.Sprint(len(body)) + " bytes)"
			desc["delivered"] = len(msgs)
		}
		if p != nil {
			nPanic++
			o.Violate("client decoder panicked", desc, fmt.Sprint(p), nil)
		}
		if used > allocLimit {
			o.Violate("client allocated far more than the per-message limit on the strength of a length prefix", desc, used, allocLimit)
		}
		if cut && fin == 0 {
			o.Violate("a cut reply was reported as success", desc, fin, "an error")
		}
		o.Case(kind, fmt.Sprintf("Cli %s %s %s %s %s %s", hx.Hex(body), hx.B(abrupt), hx.B(cut), trailerCandidates(body), hexList(msgs), hx.Z(fin)), desc)
		// the same reply read by the client of a single-response method
		if len(body) <= 4096 {
			ok, m, p := runClientSingle(body, abrupt)
			d1 := map[string]interface{}{"side": "client of a single-response method", "body_hex": desc["body_hex"], "abrupt": abrupt, "cut": cut, "success": ok, "message": hex.EncodeToString(m)}
			if p != nil {
				o.Violate("client decoder panicked", d1, fmt.Sprint(p), nil)
			}
			if cut && ok {
				o.Violate("a cut reply was reported as success by a single-response receive", d1, "success", "an error")
			}
			o.Case(kind+"_single", fmt.Sprintf("CliSingle %s %s %s %s %s %s", hx.Hex(body), hx.B(abrupt), hx.B(cut), trailerCandidates(body), hx.B(ok), hx.Hex(m)), d1)
		}
	}
	srv := func(kind string, single bool, body []byte, abrupt bool) {
		sk := "CS"
		if single {
			sk = "SS"
		}
		o.Begin(map[string]interface{}{"side": "server", "single_request": single, "body_hex": hex.EncodeToString(body), "abrupt": abrupt})
		var msgs [][]byte
		var fin int64
		var p interface{}
		used := alloc(func() { msgs, fin, p = runServerBody(sk, body, abrupt) })
		desc := map[string]interface{}{"side": "server", "single_request": single, "allocated": used, "body_hex": hex.EncodeToString(body), "abrupt": abrupt,
			"delivered": hexStrs(msgs), "final": fin}
		if len(body) > 400 {
			desc["body_hex"] = hex.EncodeToString(body[:200]) + "...(" + fmt.Sprint(len(body)) + " bytes)"
			desc["delivered"] = len(msgs)
		}
		if p != nil {
			nPanic++
			o.Violate("server decoder panicked", desc, fmt.Sprint(p), nil)
		}
		if used > allocLimit {
			o.Violate("the server (a handler from httpgrpc.HandleStream) allocated far more than the per-message limit on the strength of a length prefix", desc, used, allocLimit)
		}
		o.Case(kind, fmt.Sprintf("Srv %s %s %s %s %s", hx.B(single), hx.Hex(body), hx.B(abrupt), hexList(msgs), hx.Z(fin)), desc)
	}

	{
		rid := 9500
		replyAsYouGo(o, &rid, func(o *hx.Out, kind string, id int, ok bool, d map[string]interface{}) {
			o.Case(kind, fmt.Sprintf("GoSide %s %d %s", hx.Str(kind), id, hx.B(ok)), d)
		})
	}
	// corpus: the witnesses of defects that were repaired (they must stay repaired)
	hostile := [][]byte{
		{0x7f, 0xff, 0xff, 0xff},       // 2 GiB prefix (was: client allocates 2 GiB)
		{0x80, 0x00, 0x00, 0x00},       // MinInt32: -sz overflows
		{0xff, 0xff, 0xff, 0xff},       // -1: one-byte trailer, missing
		{0x00, 0x00, 0x00, 0x00},       // empty message then EOF
		{0x06, 0x40, 0x00, 0x00},       // max_size exactly
		{0x06, 0x40, 0x00, 0x01},       // max_size + 1
		{0xf9, 0xc0, 0x00, 0x00},       // -max_size
		{0xf9, 0xbf, 0xff, 0xff},       // -(max_size+1)
		{}, {0x00}, {0x00, 0x00, 0x00}, // short prefaces
		{0x00, 0x00, 0x00, 0x05, 1, 2},       // short payload
		{0x7f, 0xff, 0xff, 0xff, 1, 2, 3, 4}, // big prefix with a little data
		{0x80, 0x00, 0x00, 0x00, 9, 9, 9},
	}
	// the same prefixes with per-call size limits far above the fixed limit: nothing may change (the
	// fixed limit bounds what is allocated on the strength of an unverified prefix, whatever the call asks)
	for _, opts := range [][]grpc.CallOption{
		{grpc.MaxCallRecvMsgSize(math.MaxInt32)},
		{grpc.MaxCallRecvMsgSize(1 << 30), grpc.MaxCallSendMsgSize(math.MaxInt32)},
	} {
		clientCallOpts = opts
		for _, b := range hostile {
			cli("hostile_prefix_with_call_size_options", b, false, false)
		}
		cli("hostile_prefix_with_call_size_options", []byte{0x10, 0x00, 0x00, 0x00, 1, 2, 3, 4, 5, 6, 7, 8, 9, 10, 11, 12}, true, false)
		clientCallOpts = nil
	}
	for _, b := range hostile {
		for _, ab := range []bool{false, true} {
			cli("hostile_prefix", b, ab, false)
			srv("hostile_prefix_srv", false, b, ab)
			srv("hostile_prefix_srv1", true, b, ab)
		}
	}
	// bodies with large frames followed by smaller large ones and by small ones (a decoder that keeps a buffer
	// between frames must not read past the frame it is decoding).  Too large to be re-evaluated as Coq terms:
	// the expectation (exactly the frames that were written, then a clean end) is computed here.
	gid := int64(0)
	for _, sizes := range [][]int{{9000, 5000, 4200, 10, 0}, {4096, 4097, 4095, 1}, {20000, 8000}, {5000, 5000, 5000}} {
		var body []byte
		var want [][]byte
		for _, n := range sizes {
			m := r.Bytes(n)
			want = append(want, m)
			body = append(body, frame(m)...)
		}
		same := func(got [][]byte) bool {
			if len(got) != len(want) {
				return false
			}
			for i := range got {
				if !bytes.Equal(got[i], want[i]) {
					return false
				}
			}
			return true
		}
		for _, ab := range []bool{false, true} {
			msgs, fin, p := runServerBody("BD", body, ab)
			gid++
			ok := p == nil && same(msgs) && (fin == 0 || ab) // a body that breaks off, even at a frame boundary, ends in an error
			d := map[string]interface{}{"side": "server", "frame_sizes": sizes, "abrupt_end": ab, "delivered": len(msgs), "final": fin}
			if !ok {
				o.Violate("a well-formed request body of large frames was not decoded to the frames written", d, len(msgs), len(want))
			}
			o.Case("large_request", fmt.Sprintf("GoSide %s %d %s", hx.Str("large_request"), gid, hx.B(ok)), d)
			msgs, fin, p = runClientBody(append(append([]byte{}, body...), trailerFrame(mkTrailer(0, "OK", nil))...), ab)
			gid++
			ok = p == nil && same(msgs) && fin == 0
			d = map[string]interface{}{"side": "client", "frame_sizes": sizes, "abrupt_end": ab, "delivered": len(msgs), "final": fin}
			if !ok {
				o.Violate("a well-formed reply of large frames was not decoded to the frames written", d, len(msgs), len(want))
			}
			o.Case("large_reply", fmt.Sprintf("GoSide %s %d %s", hx.Str("large_reply"), gid, hx.B(ok)), d)
		}
	}
	// a reply that ends cleanly at a frame boundary without trailer (was: success)
	cli("no_trailer", frame([]byte("abc")), false, true)
	cli("no_trailer", append(frame([]byte("abc")), frame(nil)...), false, true)

	nStreams := 12
	if thorough {
		nStreams = 150
	}
	for i := 0; i < nStreams; i++ {
		var body []byte
		n := r.Intn(5)
		// keep most streams small so that every cut offset is run; the number of large ones is bounded
		// (their case terms are megabytes of bytes for the Coq side to parse)
		small := i%3 != 2 || i >= 24
		for j := 0; j < n; j++ {
			m := randMsg()
			if small && len(m) > 40 {
				m = m[:r.Range(0, 40)]
			}
			body = append(body, frame(m)...)
		}
		reqBody := append([]byte{}, body...)
		code := int32(0)
		msg := "OK"
		if r.Chance(40) {
			code = int32(r.Range(1, 16))
			msg = "failed: " + r.Pick([]string{"x", "y:z", "%", ""})
		}
		var md map[string][]string
		if r.Chance(50) {
			md = map[string][]string{"k": {"v1", "v2"}}
		}
		tr := mkTrailer(code, msg, md)
		body = append(body, trailerFrame(tr)...)
		for _, ab := range []bool{false, true} {
			cli("valid_stream", body, ab, false)
			srv("valid_request", false, reqBody, ab)
			srv("valid_request_single", true, reqBody, ab)
		}
		// every truncation offset (sampled for long bodies), both endings
		step := 1
		if len(body) > 300 {
			step = len(body)/120 + 1
		}
		for k := 0; k < len(body); k += step {
			cli("truncated", body[:k], k%2 == 0, true)
			if thorough && small {
				cli("truncated", body[:k], k%2 != 0, true)
			}
		}
		for k := 0; k < len(reqBody); k += step {
			srv("truncated_request", r.Chance(30), reqBody[:k], k%2 == 0)
		}
		// mutations of the length prefixes: single bits and bytes
		nm := 6
		if thorough && small {
			nm = 40
		}
		for j := 0; j < nm; j++ {
			mb := append([]byte{}, body...)
			// find a prefix position by walking
			pos, positions := 0, []int{}
			for pos+4 <= len(mb) {
				positions = append(positions, pos)
				sz := int32(binary.BigEndian.Uint32(mb[pos:]))
				if sz < 0 {
					break
				}
				pos += 4 + int(sz)
			}
			p := positions[r.Intn(len(positions))]
			if r.Bool() {
				mb[p+r.Intn(4)] ^= 1 << uint(r.Intn(8))
			} else {
				mb[p+r.Intn(4)] = byte(r.U64())
			}
			cli("mutated_prefix", mb, r.Bool(), false)
			if len(reqBody) > 0 {
				rb := append([]byte{}, reqBody...)
				rb[r.Intn(min(4, len(rb)))] ^= 1 << uint(r.Intn(8))
				srv("mutated_request", r.Chance(30), rb, r.Bool())
			}
		}
	}
	nr := 40
	if thorough {
		nr = 1500
	}
	for i := 0; i < nr; i++ {
		b := r.Bytes(r.Range(0, 40))
		if r.Chance(50) && len(b) >= 4 { // small plausible sizes
			b[0], b[1], b[2] = 0, 0, 0
			b[3] = byte(r.Intn(12))
			if r.Chance(20) {
				b[0], b[1], b[2], b[3] = 0xff, 0xff, 0xff, byte(256-r.Range(1, 12))
			}
		}
		cli("random_bytes", b, r.Bool(), false)
		srv("random_request", r.Chance(30), b, r.Bool())
	}
	// trailer that does not unmarshal / garbage after the trailer
	cli("bad_trailer", append(frame([]byte("m")), trailerFrame([]byte{0xff, 0xff, 0xff})...), false, false)
	cli("after_trailer", append(trailerFrame(mkTrailer(0, "OK", nil)), 1, 2, 3), false, false)
	cli("status_trailer", trailerFrame(mkTrailer(int32(codes.NotFound), strings.Repeat("x", 300), nil)), false, false)
	o.Stats["panics"] = nPanic
	o.Shard = 250
}

func min(a, b int) int {
	if a < b {
		return a
	}
	return b
}
