package main

import (
	"bytes"
	"context"
	"encoding/binary"
	"fmt"
	"github.com/fullstorydev/grpchan"
	"io"
	"net/http"
	"net/http/httptest"
	"net/url"
	"runtime"
	"sort"
	"sync"
	"sync/atomic"
	"time"

	"google.golang.org/grpc"
	"google.golang.org/grpc/codes"
	"google.golang.org/grpc/metadata"
	"google.golang.org/grpc/status"
	"google.golang.org/protobuf/proto"

	"github.com/fullstorydev/grpchan/httpgrpc"
	"github.com/fullstorydev/grpchan/inprocgrpc"
	"verifharness/hx"
)

func isCtxStatus(err error, want codes.Code) bool {
	st, ok := status.FromError(err)
	return ok && st.Code() == want
}

func init() {
	runners["C04"] = func(o *hx.Out, r *hx.Rand, thorough bool) {
		o.Imports = "model.InprocStream corr.Stream corr.C04"
		n := 120
		if thorough {
			n = 1200
		}
		// 1. in-process streams: cancellation / deadline at every position of random schedules
		ltsCases(o, r, profile{name: "cancel", rounds: [2]int{5, 14}, cancel: 100, handlerEnd: 35, headers: 30, kinds: []string{"BD", "SS", "CS"}, returnCodes: []int64{0, 5, -2, -1}}, n)
		// 1b. a handler that returns a bare context error (of a context of its own, the call's being live):
		// the client sees the Canceled / DeadlineExceeded status whichever receive or Header() call meets it
		ltsCases(o, r, profile{name: "raw_ctx_error", rounds: [2]int{4, 10}, cancel: 10, handlerEnd: 80, headers: 70, kinds: []string{"BD", "SS", "CS"}, returnCodes: []int64{-3, -4, -3, -4, -2}}, n/2)
		// written-out schedules: the handler's failure is the first frame and meets Header() or RecvMsg
		var corpus [][]sOp
		H := func(k string, x int64) sOp { return sOp{actor: "H", kind: k, x: x} }
		CR := func(k string) sOp { return sOp{actor: "CR", kind: k} }
		for _, code := range []int64{-3, -4, -2, -1, 5} {
			corpus = append(corpus,
				[]sOp{H("HReturn", code), CR("CHeader"), CR("CRecv"), CR("CRecv"), CR("CTrailer")},
				[]sOp{CR("CHeader"), H("HReturn", code), CR("CRecv"), CR("CHeader"), CR("CRecv")},
				[]sOp{H("HReturn", code), CR("CRecv"), CR("CHeader"), CR("CRecv")},
				[]sOp{CR("CRecv"), H("HReturn", code), CR("CRecv"), CR("CHeader")},
				[]sOp{{actor: "H", kind: "HSetTrailer", md: []int64{1}}, H("HReturn", code), CR("CHeader"), CR("CRecv"), CR("CTrailer")},
				[]sOp{{actor: "H", kind: "HSetHeader", md: []int64{1}}, H("HReturn", code), CR("CHeader"), CR("CRecv"), CR("CRecv")},
				[]sOp{H("HSend", 101), H("HReturn", code), CR("CHeader"), CR("CRecv"), CR("CRecv"), CR("CRecv")},
				[]sOp{H("HReturn", code), {actor: "ENV", kind: "Cancel"}, CR("CHeader"), CR("CRecv"), CR("CRecv")},
			)
		}
		ltsFixed(o, "first_frame_failure", []string{"BD", "SS", "CS"}, corpus)
		// the HTTP client stream against a scripted transport: deliveries, receives and the end of the context interleaved
		httpClientSchedules(o, r, n, "HLts")
		id := 0
		// 2. in-process unary: cancellation racing completion -- the complete result or the status, never a mixture
		iters := 3000
		if thorough {
			iters = 30000
		}
		hdr, tlr := metadata.Pairs("h", "1"), metadata.Pairs("t", "1")
		svc := &hx.Svc{Unary: func(ctx context.Context, req *hx.Msg) (*hx.Msg, error) {
			grpc.SetHeader(ctx, hdr)
			grpc.SetTrailer(ctx, tlr)
			for i := int32(0); i < req.DelayMillis; i++ {
				runtime.Gosched()
			}
			if req.Code != 0 {
				return nil, status.Error(codes.Code(req.Code), "scripted")
			}
			return &hx.Msg{Count: req.Count, Payload: []byte("complete")}, nil
		}}
		ipc := &inprocgrpc.Channel{}
		ipc.RegisterService(hx.Desc(hx.SvcName), svc)
		outcomes := map[string]int{}
		bad := 0
		for i := 0; i < iters; i++ {
			ctx, cancel := context.WithCancel(context.Background())
			var gh, gt metadata.MD
			out := &hx.Msg{}
			spin := r.Intn(40)
			go func() {
				for k := 0; k < spin; k++ {
					runtime.Gosched()
				}
				cancel()
			}()
			code := int32(0)
			if r.Chance(25) {
				code = 5
			}
			err := ipc.Invoke(ctx, "/verif.Svc/U", &hx.Msg{Count: int32(i), DelayMillis: int32(r.Intn(6)), Code: code}, out, grpc.Header(&gh), grpc.Trailer(&gt))
			cancel()
			var what string
			switch {
			case err == nil:
				what = "success"
				if out.Count != int32(i) || string(out.Payload) != "complete" || len(gh["h"]) != 1 || len(gt["t"]) != 1 {
					what = "MIXTURE: success without the complete response, headers and trailers"
				}
			case isCtxStatus(err, codes.Canceled):
				what = "canceled"
			case code != 0 && isCtxStatus(err, codes.Code(code)):
				what = "handler status"
				if len(gt["t"]) != 1 {
					what = "handler status (trailers not delivered)"
				}
			default:
				what = "BAD: " + err.Error()
			}
			outcomes[what]++
			if len(what) > 3 && (what[:3] == "BAD" || what[:3] == "MIX") {
				bad++
				if bad <= 3 {
					o.Violate("in-process unary call racing with cancellation returned neither the complete result nor the cancellation status",
						map[string]interface{}{"iteration": i, "cancel_after_yields": spin}, what, "success with everything, or status Canceled")
				}
			}
		}
		o.Stats["inproc_unary_cancel_race_outcomes"] = outcomes
		id++
		checked(o, "inproc_unary_cancel_race", id, bad == 0, map[string]interface{}{"iterations": iters, "outcomes": outcomes})

		// 3. a handler that returns a context error is reported with the matching code (both transports, unary and stream)
		var ret error
		retSvc := &hx.Svc{
			Unary:  func(ctx context.Context, req *hx.Msg) (*hx.Msg, error) { return nil, ret },
			Stream: func(kind string, ss grpc.ServerStream) error { return ret },
		}
		for _, t := range bothTransports(retSvc) {
			for _, c := range []struct {
				e    error
				want codes.Code
			}{{context.Canceled, codes.Canceled}, {context.DeadlineExceeded, codes.DeadlineExceeded}} {
				ret = c.e
				err := t.ch.Invoke(context.Background(), "/verif.Svc/U", &hx.Msg{}, &hx.Msg{})
				ok := isCtxStatus(err, c.want)
				id++
				d := map[string]interface{}{"transport": t.name, "kind": "unary", "handler_returns": c.e.Error(), "client_error": fmt.Sprint(err)}
				if !ok {
					o.Violate("a handler returning a context error was not reported with the matching code", d, fmt.Sprint(err), c.want.String())
				}
				checked(o, "handler_ctx_error_"+t.name, id, ok, d)
				cs, e2 := t.ch.NewStream(context.Background(), hx.StreamDescOf("BD"), "/verif.Svc/BD")
				if e2 == nil {
					cs.CloseSend()
					e2 = cs.RecvMsg(&hx.Msg{})
					runtime.KeepAlive(cs)
				}
				ok = isCtxStatus(e2, c.want)
				id++
				d = map[string]interface{}{"transport": t.name, "kind": "stream", "handler_returns": c.e.Error(), "client_error": fmt.Sprint(e2)}
				if !ok {
					o.Violate("a stream handler returning a context error was not reported with the matching code", d, fmt.Sprint(e2), c.want.String())
				}
				checked(o, "handler_ctx_error_"+t.name, id, ok, d)
			}
			t.stop()
		}

		// 4. HTTP: calls whose context ends while the handler is running; the handler's context ends too
		var handlerSawDone int32
		blockSvc := &hx.Svc{
			Unary: func(ctx context.Context, req *hx.Msg) (*hx.Msg, error) {
				select {
				case <-ctx.Done():
					atomic.AddInt32(&handlerSawDone, 1)
					return nil, ctx.Err() // a handler that honours its context
				case <-time.After(5 * time.Second):
				}
				return &hx.Msg{}, nil
			},
			Stream: func(kind string, ss grpc.ServerStream) error {
				ss.SendMsg(&hx.Msg{Count: 1})
				select {
				case <-ss.Context().Done():
					atomic.AddInt32(&handlerSawDone, 1)
					return ss.Context().Err()
				case <-time.After(5 * time.Second):
				}
				return nil
			},
		}
		for _, t := range bothTransports(blockSvc) {
			for _, useDeadline := range []bool{false, true} {
				want := codes.Canceled
				mk := func() (context.Context, context.CancelFunc) {
					if useDeadline {
						return context.WithTimeout(context.Background(), 60*time.Millisecond)
					}
					ctx, cancel := context.WithCancel(context.Background())
					time.AfterFunc(60*time.Millisecond, cancel)
					return ctx, cancel
				}
				if useDeadline {
					want = codes.DeadlineExceeded
				}
				before := atomic.LoadInt32(&handlerSawDone)
				ctx, cancel := mk()
				t0 := time.Now()
				err := t.ch.Invoke(ctx, "/verif.Svc/U", &hx.Msg{}, &hx.Msg{})
				el := time.Since(t0)
				cancel()
				ok := isCtxStatus(err, want) && el < 2*time.Second
				id++
				d := map[string]interface{}{"transport": t.name, "kind": "unary, handler blocked", "deadline": useDeadline, "client_error": fmt.Sprint(err), "returned_after": el.String()}
				if !ok {
					o.Violate("a unary call whose context ended did not return promptly with the matching status", d, fmt.Sprint(err), want.String())
				}
				checked(o, "ctx_end_unary_"+t.name, id, ok, d)
				// stream: one message, then the context ends; the pending and the later receive
				ctx, cancel = mk()
				cs, e2 := t.ch.NewStream(ctx, hx.StreamDescOf("BD"), "/verif.Svc/BD")
				ok = e2 == nil
				var e3, e4 error
				if ok {
					cs.CloseSend()
					e2 = cs.RecvMsg(&hx.Msg{})
					e3 = cs.RecvMsg(&hx.Msg{}) // pending when the context ends
					e4 = cs.RecvMsg(&hx.Msg{}) // issued after it ended
					runtime.KeepAlive(cs)
					ok = e2 == nil && isCtxStatus(e3, want) && isCtxStatus(e4, want)
				}
				cancel()
				id++
				d = map[string]interface{}{"transport": t.name, "kind": "stream, handler blocked", "deadline": useDeadline, "first": fmt.Sprint(e2), "pending_receive": fmt.Sprint(e3), "later_receive": fmt.Sprint(e4)}
				if !ok {
					o.Violate("stream receives after the context ended did not return the matching status", d, fmt.Sprint(e3)+" / "+fmt.Sprint(e4), want.String())
				}
				checked(o, "ctx_end_stream_"+t.name, id, ok, d)
				// the handler's context must have ended as well
				deadline := time.Now().Add(2 * time.Second)
				for atomic.LoadInt32(&handlerSawDone) < before+2 && time.Now().Before(deadline) {
					time.Sleep(2 * time.Millisecond)
				}
				ok = atomic.LoadInt32(&handlerSawDone) >= before+2
				id++
				d = map[string]interface{}{"transport": t.name, "deadline": useDeadline, "handlers_that_saw_ctx_done": atomic.LoadInt32(&handlerSawDone) - before}
				if !ok {
					o.Violate("the handler's context was not cancelled when the caller's ended", d, nil, nil)
				}
				checked(o, "handler_ctx_cancelled_"+t.name, id, ok, d)
			}
			t.stop()
		}

		// 4a. a handler that has written nothing yet and waits for its context, on every stream kind; the caller
		// half-closes a little after its request and then cancels: the handler's context must end.  The handler
		// either reads its requests to the end first or stops after the first one (KNOWN FINDING F24: over HTTP
		// the second kind of handler is not told, unless the library itself read ahead as it does for SS)
		readAll := false
		for _, t := range bothTransports(&hx.Svc{Stream: func(kind string, ss grpc.ServerStream) error {
			ss.RecvMsg(&hx.Msg{})
			for readAll && ss.RecvMsg(&hx.Msg{}) == nil {
			}
			select {
			case <-ss.Context().Done():
				atomic.AddInt32(&handlerSawDone, 1)
				return ss.Context().Err()
			case <-time.After(3 * time.Second):
			}
			return nil
		}}) {
			for _, all := range []bool{true, false} {
				for _, kind := range []string{"SS", "BD", "CS"} {
					readAll = all
					before := atomic.LoadInt32(&handlerSawDone)
					ctx, cancel := context.WithCancel(context.Background())
					cs, e := t.ch.NewStream(ctx, hx.StreamDescOf(kind), "/verif.Svc/"+kind)
					var e1 error
					if e == nil {
						cs.SendMsg(&hx.Msg{})
						time.Sleep(80 * time.Millisecond)
						cs.CloseSend()
						time.Sleep(40 * time.Millisecond)
						cancel()
						e1 = cs.RecvMsg(&hx.Msg{})
						runtime.KeepAlive(cs)
					}
					cancel()
					deadline := time.Now().Add(1500 * time.Millisecond)
					for atomic.LoadInt32(&handlerSawDone) == before && time.Now().Before(deadline) {
						time.Sleep(2 * time.Millisecond)
					}
					ended := atomic.LoadInt32(&handlerSawDone) > before
					ok := e == nil && isCtxStatus(e1, codes.Canceled) && ended
					id++
					d := map[string]interface{}{"transport": t.name, "kind": kind, "handler_reads_requests_to_the_end": all,
						"scenario": "handler has sent nothing and waits on its context; request, pause, CloseSend, pause, cancel", "client_receive": fmt.Sprint(e1), "handler_context_ended_within_1.5s": ended}
					name := "cancel_reaches_idle_handler_" + t.name
					if t.name == "httpgrpc" && !all && kind != "SS" {
						name = "F24"
					} else if !ok {
						o.Violate("the handler's context did not end when the caller cancelled (or the caller did not get Canceled)", d, nil, nil)
					}
					checked(o, name, id, ok, d)
				}
			}
			t.stop()
		}

		// 4b. short deadlines, many times: over HTTP the server's own timer (from GRPC-Timeout) and the caller's
		// deadline end within a millisecond of each other, in either order; whichever the client meets first,
		// the pending and the later receive return DeadlineExceeded as a status
		honour := &hx.Svc{Stream: func(kind string, ss grpc.ServerStream) error {
			<-ss.Context().Done()
			return ss.Context().Err()
		}}
		for _, t := range bothTransports(honour) {
			rounds := 12
			if thorough {
				rounds = 60
			}
			for _, kind := range []string{"SS", "CS"} {
				bad := ""
				for k := 0; k < rounds && bad == ""; k++ {
					ctx, cancel := context.WithTimeout(context.Background(), 20*time.Millisecond)
					cs, e := t.ch.NewStream(ctx, hx.StreamDescOf(kind), "/verif.Svc/"+kind)
					if e == nil {
						cs.SendMsg(&hx.Msg{})
						cs.CloseSend()
						e1 := cs.RecvMsg(&hx.Msg{})
						e2 := cs.RecvMsg(&hx.Msg{})
						runtime.KeepAlive(cs)
						if !isCtxStatus(e1, codes.DeadlineExceeded) || !isCtxStatus(e2, codes.DeadlineExceeded) {
							bad = fmt.Sprintf("round %d: pending receive %v, later receive %v", k, e1, e2)
						}
					} else if !isCtxStatus(e, codes.DeadlineExceeded) {
						bad = fmt.Sprintf("round %d: NewStream %v", k, e)
					}
					cancel()
				}
				id++
				d := map[string]interface{}{"transport": t.name, "kind": kind, "deadline": "20ms", "rounds": rounds, "handler": "returns its context's error as soon as that context ends", "first_bad": bad}
				if bad != "" {
					o.Violate("a receive on a call whose deadline passed did not return the DeadlineExceeded status", d, bad, "DeadlineExceeded")
				}
				checked(o, "short_deadline_"+t.name, id, bad == "", d)
			}
			t.stop()
		}

		// 5. HTTP stream: the reply stalls at every byte offset, then the context ends: the receive
		// must return the cancellation status wherever the reader was (size preface, payload, trailer)
		tr, _ := proto.Marshal(&httpgrpc.HttpTrailer{Code: 0, Message: "OK", Metadata: map[string]*httpgrpc.TrailerValues{"k": {Values: []string{"v"}}}})
		m1, _ := proto.Marshal(&hx.Msg{Count: 1, Payload: []byte("hello")})
		var reply []byte
		pre := make([]byte, 4)
		binary.BigEndian.PutUint32(pre, uint32(len(m1)))
		reply = append(append(reply, pre...), m1...)
		binary.BigEndian.PutUint32(pre, uint32(int32(-len(tr))))
		reply = append(append(reply, pre...), tr...)
		var stallAt int32
		var mu sync.Mutex
		raw := httptest.NewServer(http.HandlerFunc(func(w http.ResponseWriter, rq *http.Request) {
			io.Copy(io.Discard, rq.Body)
			w.Header().Set("Content-Type", httpgrpc.StreamRpcContentType_V1)
			w.WriteHeader(200)
			mu.Lock()
			k := int(stallAt)
			mu.Unlock()
			w.Write(reply[:k])
			w.(http.Flusher).Flush()
			<-rq.Context().Done()
		}))
		u, _ := url.Parse(raw.URL)
		hc := &httpgrpc.Channel{Transport: &http.Transport{}, BaseURL: u}
		step := 1
		if !thorough {
			step = 3
		}
		for k := 0; k < len(reply); k += step {
			mu.Lock()
			stallAt = int32(k)
			mu.Unlock()
			ctx, cancel := context.WithCancel(context.Background())
			cs, err := hc.NewStream(ctx, hx.StreamDescOf("BD"), "/verif.Svc/BD")
			var res []string
			ok := err == nil
			if ok {
				cs.CloseSend()
				time.AfterFunc(25*time.Millisecond, cancel)
				for j := 0; j < 3; j++ {
					e := cs.RecvMsg(&hx.Msg{})
					res = append(res, fmt.Sprint(e))
					if e != nil && !isCtxStatus(e, codes.Canceled) {
						ok = false
					}
				}
				runtime.KeepAlive(cs)
			}
			cancel()
			id++
			d := map[string]interface{}{"transport": "httpgrpc", "reply_stalls_after_bytes": k, "reply_bytes": len(reply), "receives": res}
			if !ok {
				o.Violate("after the context ended an HTTP stream receive returned something other than the Canceled status", d, res, "status Canceled")
			}
			checked(o, "http_stalled_reply_then_cancel", id, ok, d)
		}
		raw.Close()

		// 5b. the same with a LARGE response message (100 KB) stalling part-way through its body, and receives
		// made again once the stream has wound down: each of them returns the status, none a bare end of stream
		{
			big, _ := proto.Marshal(&hx.Msg{Count: 2, Payload: bytes.Repeat([]byte{0x5a}, 100_000)})
			var breply []byte
			binary.BigEndian.PutUint32(pre, uint32(len(big)))
			breply = append(append(breply, pre...), big...)
			var bstall int32
			braw := httptest.NewServer(http.HandlerFunc(func(w http.ResponseWriter, rq *http.Request) {
				io.Copy(io.Discard, rq.Body)
				w.Header().Set("Content-Type", httpgrpc.StreamRpcContentType_V1)
				w.WriteHeader(200)
				w.Write(breply[:int(atomic.LoadInt32(&bstall))])
				w.(http.Flusher).Flush()
				<-rq.Context().Done()
			}))
			bu, _ := url.Parse(braw.URL)
			bc := &httpgrpc.Channel{Transport: &http.Transport{}, BaseURL: bu}
			for _, k := range []int{4, 5000, 70_000, len(breply) - 1} {
				for _, how := range []string{"cancel", "deadline"} {
					atomic.StoreInt32(&bstall, int32(k))
					var ctx context.Context
					var cancel context.CancelFunc
					want := codes.Canceled
					if how == "cancel" {
						ctx, cancel = context.WithCancel(context.Background())
						time.AfterFunc(40*time.Millisecond, cancel)
					} else {
						ctx, cancel = context.WithTimeout(context.Background(), 40*time.Millisecond)
						want = codes.DeadlineExceeded
					}
					cs, err := bc.NewStream(ctx, hx.StreamDescOf("BD"), "/verif.Svc/BD")
					var res []string
					ok := err == nil
					if ok {
						cs.CloseSend()
						for j := 0; j < 4; j++ {
							e := cs.RecvMsg(&hx.Msg{})
							res = append(res, fmt.Sprint(e))
							if !isCtxStatus(e, want) {
								ok = false
							}
							time.Sleep(40 * time.Millisecond)
						}
						runtime.KeepAlive(cs)
					}
					cancel()
					id++
					d := map[string]interface{}{"transport": "httpgrpc", "response_message_bytes": len(big), "reply_stalls_after_bytes": k, "context_ends_by": how, "receives": res}
					if !ok {
						o.Violate("after the context ended while a large response message was arriving, a receive returned something other than the context's status", d, res, want.String())
					}
					checked(o, "http_stalled_large_message_"+how, id, ok, d)
				}
			}
			braw.Close()
		}

		// 5c. a stream client interceptor (grpchan.InterceptClientConn) is the caller of the channel below it: the
		// context IT passes decides the call: when that context's deadline passes or it is cancelled, pending
		// receives return the status and the handler's context ends
		for _, t := range bothTransports(&hx.Svc{Stream: func(kind string, ss grpc.ServerStream) error {
			<-ss.Context().Done()
			return status.FromContextError(ss.Context().Err()).Err()
		}}) {
			for _, how := range []string{"deadline", "cancel"} {
				var keep context.CancelFunc
				ich := grpchan.InterceptClientConn(t.ch, nil, func(ctx context.Context, desc *grpc.StreamDesc, cc *grpc.ClientConn, method string, streamer grpc.Streamer, opts ...grpc.CallOption) (grpc.ClientStream, error) {
					var c2 context.Context
					if how == "deadline" {
						c2, keep = context.WithTimeout(ctx, 120*time.Millisecond)
					} else {
						c2, keep = context.WithCancel(ctx)
						time.AfterFunc(120*time.Millisecond, keep)
					}
					return streamer(c2, desc, cc, method, opts...)
				})
				outer, outerCancel := context.WithTimeout(context.Background(), 3*time.Second)
				want := codes.DeadlineExceeded
				if how == "cancel" {
					want = codes.Canceled
				}
				start := time.Now()
				cs, err := ich.NewStream(outer, hx.StreamDescOf("BD"), "/verif.Svc/BD")
				var e error = err
				if err == nil {
					e = cs.RecvMsg(&hx.Msg{})
					runtime.KeepAlive(cs) // (the HTTP stream wrapper's finalizer would cancel the receive in flight: F14)
				}
				took := time.Since(start)
				outerCancel()
				if keep != nil {
					keep()
				}
				ok := isCtxStatus(e, want) && took < 1500*time.Millisecond
				id++
				d := map[string]interface{}{"transport": t.name, "kind": "BD through grpchan.InterceptClientConn", "interceptor_context_ends_by": how, "after_ms": 120, "outer_context_ms": 3000, "receive": fmt.Sprint(e), "took_ms": took.Milliseconds()}
				if !ok {
					o.Violate("a receive did not return the status of the context the stream interceptor made the call with", d, fmt.Sprint(e), want.String())
				}
				checked(o, "interceptor_context_decides_"+t.name+"_"+how, id, ok, d)
			}
			t.stop()
		}

		// 5d. the context ends while the caller is BETWEEN receives (processing a message) and the next response has
		// already been sent: every receive made after that returns the status, none hands out a message read ahead
		for _, t := range bothTransports(&hx.Svc{Stream: func(kind string, ss grpc.ServerStream) error {
			for i := 1; i <= 3; i++ {
				if err := ss.SendMsg(&hx.Msg{Count: int32(i)}); err != nil {
					return err
				}
			}
			<-ss.Context().Done()
			return status.FromContextError(ss.Context().Err()).Err()
		}}) {
			for _, how := range []string{"cancel", "deadline"} {
				var ctx context.Context
				var cancel context.CancelFunc
				want := codes.Canceled
				if how == "cancel" {
					ctx, cancel = context.WithCancel(context.Background())
				} else {
					ctx, cancel = context.WithTimeout(context.Background(), 150*time.Millisecond)
					want = codes.DeadlineExceeded
				}
				cs, err := t.ch.NewStream(ctx, hx.StreamDescOf("SS"), "/verif.Svc/SS")
				var res []string
				ok := err == nil
				if ok {
					cs.SendMsg(&hx.Msg{})
					cs.CloseSend()
					first := &hx.Msg{}
					e1 := cs.RecvMsg(first)
					ok = e1 == nil && first.Count == 1
					time.Sleep(60 * time.Millisecond) // the caller is busy with message 1; message 2 has been sent
					if how == "cancel" {
						cancel()
					}
					time.Sleep(160 * time.Millisecond) // the context has ended and the stream has noticed
					for j := 0; j < 3; j++ {
						m := &hx.Msg{}
						e := cs.RecvMsg(m)
						if e == nil {
							res = append(res, fmt.Sprintf("message %d", m.Count))
						} else {
							res = append(res, e.Error())
						}
						if !isCtxStatus(e, want) {
							ok = false
						}
					}
					runtime.KeepAlive(cs)
				}
				cancel()
				id++
				d := map[string]interface{}{"transport": t.name, "kind": "SS, the handler sends three responses at once", "context_ends_by": how, "when": "after the first receive returned, before the second is made", "receives_after_the_context_ended": res}
				if !ok {
					o.Violate("a receive made after the context had ended returned something other than the context's status", d, res, want.String())
				}
				checked(o, "context_ends_between_receives_"+t.name+"_"+how, id, ok, d)
			}
			t.stop()
		}

		// 6. HTTP unary: the reply (headers with a Content-Length, small and large) stalls in the middle of
		// its body, then the context ends (cancelled, deadline): the call must return the status, every time
		// (two things become ready together when the read is aborted; no choice among them may surface the
		// raw context error)
		for _, size := range []int{64, 3000, 20000} {
			body := make([]byte, size)
			var sent int32
			rawU := httptest.NewServer(http.HandlerFunc(func(w http.ResponseWriter, rq *http.Request) {
				io.Copy(io.Discard, rq.Body)
				w.Header().Set("Content-Type", httpgrpc.UnaryRpcContentType_V1)
				w.Header().Set("Content-Length", fmt.Sprint(size))
				w.WriteHeader(200)
				w.Write(body[:int(atomic.LoadInt32(&sent))])
				w.(http.Flusher).Flush()
				<-rq.Context().Done()
			}))
			uu, _ := url.Parse(rawU.URL)
			hcu := &httpgrpc.Channel{Transport: &http.Transport{}, BaseURL: uu}
			for _, how := range []string{"cancel", "deadline"} {
				rounds := 14
				if thorough {
					rounds = 60
				}
				var results []string
				ok := true
				for k := 0; k < rounds; k++ {
					atomic.StoreInt32(&sent, int32((k*7)%size))
					var ctx context.Context
					var cancel context.CancelFunc
					want := codes.Canceled
					if how == "cancel" {
						ctx, cancel = context.WithCancel(context.Background())
						time.AfterFunc(15*time.Millisecond, cancel)
					} else {
						ctx, cancel = context.WithTimeout(context.Background(), 15*time.Millisecond)
						want = codes.DeadlineExceeded
					}
					e := hcu.Invoke(ctx, "/verif.Svc/U", &hx.Msg{}, &hx.Msg{})
					cancel()
					if !isCtxStatus(e, want) {
						ok = false
						results = append(results, fmt.Sprintf("round %d (stalled after %d bytes): %v", k, (k*7)%size, e))
					}
				}
				id++
				d := map[string]interface{}{"transport": "httpgrpc", "kind": "unary", "reply_content_length": size, "context_ends_by": how, "rounds": rounds, "not_the_status": results}
				if !ok {
					o.Violate("a unary HTTP call whose context ended while its reply body stalled did not return the context's status", d, results, how)
				}
				checked(o, "http_unary_stalled_reply_"+how, id, ok, d)
			}
			rawU.Close()
		}

		// 6b. the same race with the window forced open: the context ends at the very moment the reply's headers
		// are handed over (inside RoundTrip, just before it returns), and the body read fails with the context's
		// error as the standard transport's does: the reading goroutine and ctx.Done() are ready together
		for _, how := range []string{"cancel", "deadline"} {
			var results []string
			ok := true
			tailOutcomes := map[string]int{}
			for k := 0; k < 40; k++ {
				var ctx context.Context
				var cancel context.CancelFunc
				want := codes.Canceled
				if how == "cancel" {
					ctx, cancel = context.WithCancel(context.Background())
				} else {
					ctx, cancel = context.WithDeadline(context.Background(), time.Now().Add(-time.Second))
					want = codes.DeadlineExceeded
				}
				base, _ := url.Parse("http://scripted.invalid/")
				rc := &httpgrpc.Channel{BaseURL: base, Transport: endsAtHeadersRT{ctx: ctx, cancel: cancel, honourDone: how == "deadline"}}
				// (the caller asks for the reply's headers, of which there are many: collecting them takes the
				// calling goroutine longer than the failed read takes the reading one)
				var hmd metadata.MD
				e := rc.Invoke(ctx, "/verif.Svc/U", &hx.Msg{}, &hx.Msg{}, grpc.Header(&hmd))
				cancel()
				if !isCtxStatus(e, want) {
					ok = false
					results = append(results, fmt.Sprintf("round %d: %v", k, e))
				}
				// the outcome in the vocabulary of model/HttpUnary.v
				oc := "HttpUnary.ONet"
				switch {
				case e == nil:
					oc = "HttpUnary.OSuccess"
				case e == context.Canceled:
					oc = "(HttpUnary.ORawCtx 1)"
				case e == context.DeadlineExceeded:
					oc = "(HttpUnary.ORawCtx 2)"
				case isCtxStatus(e, codes.Canceled):
					oc = "(HttpUnary.OStatus 1)"
				case isCtxStatus(e, codes.DeadlineExceeded):
					oc = "(HttpUnary.OStatus 4)"
				}
				tailOutcomes[oc]++
			}
			// every outcome observed must be one the LTS of the call's tail can produce (proofs/HttpUnary.v)
			var ocs []string
			for oc := range tailOutcomes {
				ocs = append(ocs, oc)
			}
			sort.Strings(ocs)
			for _, oc := range ocs {
				id++
				o.Case("http_unary_tail_"+how, fmt.Sprintf("Checked %s %d (HttpUnary.possible true %s)", hx.Str("http_unary_tail"), id, oc),
					map[string]interface{}{"transport": "httpgrpc (scripted RoundTripper)", "kind": "unary", "context_ends": "as the reply headers are handed over, by " + how, "outcome": oc, "times": tailOutcomes[oc]})
			}
			id++
			d := map[string]interface{}{"transport": "httpgrpc (scripted RoundTripper)", "kind": "unary", "context_ends": "as the reply headers are handed over, by " + how, "rounds": 40, "not_the_status": results}
			if !ok {
				o.Violate("a unary HTTP call whose context ended as its reply headers arrived returned the bare context error", d, results, how)
			}
			checked(o, "http_unary_context_ends_at_headers_"+how, id, ok, d)
		}

		// 7. contexts that end with a CAUSE (WithCancelCause, WithTimeoutCause, an ancestor cancelled with a
		// cause): ctx.Err() is still Canceled / DeadlineExceeded, and that is what the caller must get
		causeSvc := &hx.Svc{
			Unary: func(ctx context.Context, req *hx.Msg) (*hx.Msg, error) {
				<-ctx.Done()
				return nil, ctx.Err()
			},
			Stream: func(kind string, ss grpc.ServerStream) error {
				for ss.RecvMsg(&hx.Msg{}) == nil { // to the end of the requests (over HTTP: see F24)
				}
				<-ss.Context().Done()
				return ss.Context().Err()
			},
		}
		for _, t := range bothTransports(causeSvc) {
			for _, mk := range []struct {
				name string
				want codes.Code
				mk   func() (context.Context, func())
			}{
				{"WithCancelCause, cancelled with a custom error", codes.Canceled, func() (context.Context, func()) {
					c, cancel := context.WithCancelCause(context.Background())
					time.AfterFunc(15*time.Millisecond, func() { cancel(fmt.Errorf("operator gave up")) })
					return c, func() { cancel(nil) }
				}},
				{"child of a context cancelled with a custom error", codes.Canceled, func() (context.Context, func()) {
					p, cancel := context.WithCancelCause(context.Background())
					c, cancel2 := context.WithCancel(p)
					time.AfterFunc(15*time.Millisecond, func() { cancel(fmt.Errorf("shutting down")) })
					return c, func() { cancel2(); cancel(nil) }
				}},
				{"WithTimeoutCause", codes.DeadlineExceeded, func() (context.Context, func()) {
					c, cancel := context.WithTimeoutCause(context.Background(), 15*time.Millisecond, fmt.Errorf("budget exhausted"))
					return c, cancel
				}},
			} {
				for _, kind := range []string{"unary", "SS", "BD"} {
					ctx, done := mk.mk()
					var res []string
					ok := true
					if kind == "unary" {
						e := t.ch.Invoke(ctx, "/verif.Svc/U", &hx.Msg{}, &hx.Msg{})
						res = append(res, fmt.Sprint(e))
						ok = isCtxStatus(e, mk.want)
					} else {
						cs, e := t.ch.NewStream(ctx, hx.StreamDescOf(kind), "/verif.Svc/"+kind)
						if e != nil {
							res = append(res, fmt.Sprint(e))
							ok = isCtxStatus(e, mk.want)
						} else {
							cs.SendMsg(&hx.Msg{})
							cs.CloseSend()
							for j := 0; j < 2; j++ {
								e := cs.RecvMsg(&hx.Msg{})
								res = append(res, fmt.Sprint(e))
								if !isCtxStatus(e, mk.want) {
									ok = false
								}
							}
							runtime.KeepAlive(cs)
						}
					}
					done()
					id++
					d := map[string]interface{}{"transport": t.name, "kind": kind, "context": mk.name, "results": res}
					if !ok {
						o.Violate("a call whose context ended with a cause did not return the Canceled / DeadlineExceeded status", d, res, mk.want.String())
					}
					checked(o, "context_with_cause_"+t.name, id, ok, d)
				}
			}
			t.stop()
		}
		// 8. a context that is done BEFORE the call is made, with and without per-RPC credentials among the call
		// options (whose code runs first): unary and stream, both transports: the status, never the bare error
		okSvc := &hx.Svc{
			Unary:  func(ctx context.Context, req *hx.Msg) (*hx.Msg, error) { return &hx.Msg{}, nil },
			Stream: func(kind string, ss grpc.ServerStream) error { return nil },
		}
		for _, t := range bothTransports(okSvc) {
			for _, how := range []string{"cancelled", "expired"} {
				for _, creds := range []bool{false, true} {
					for _, kind := range []string{"unary", "BD"} {
						var ctx context.Context
						var cancel context.CancelFunc
						want := codes.Canceled
						if how == "cancelled" {
							ctx, cancel = context.WithCancel(context.Background())
							cancel()
						} else {
							ctx, cancel = context.WithDeadline(context.Background(), time.Now().Add(-time.Second))
							want = codes.DeadlineExceeded
						}
						var copts []grpc.CallOption
						if creds {
							copts = append(copts, grpc.PerRPCCredentials(mapCreds{"authorization": "token"}))
						}
						var res []string
						ok := true
						if kind == "unary" {
							e := t.ch.Invoke(ctx, "/verif.Svc/U", &hx.Msg{}, &hx.Msg{}, copts...)
							res = append(res, fmt.Sprint(e))
							ok = isCtxStatus(e, want)
						} else {
							cs, e := t.ch.NewStream(ctx, hx.StreamDescOf(kind), "/verif.Svc/"+kind, copts...)
							if e != nil {
								res = append(res, "NewStream: "+fmt.Sprint(e))
								ok = isCtxStatus(e, want)
							} else {
								e = cs.RecvMsg(&hx.Msg{})
								res = append(res, "RecvMsg: "+fmt.Sprint(e))
								ok = isCtxStatus(e, want)
								runtime.KeepAlive(cs)
							}
						}
						cancel()
						id++
						d := map[string]interface{}{"transport": t.name, "kind": kind, "context": how + " before the call", "per_rpc_credentials": creds, "results": res}
						if !ok {
							o.Violate("a call made on a context that had already ended did not return the Canceled / DeadlineExceeded status", d, res, want.String())
						}
						checked(o, "context_done_before_call_"+t.name, id, ok, d)
					}
				}
			}
			t.stop()
		}
		o.Check, o.Oracle, o.Finding = "check_c04", "oracle_c04", "finding_c04"
		o.Shard = 60
	}
}

// endsAtHeadersRT answers every request with 200 and a body whose reads fail with the context's error; the
// context is ended just before RoundTrip returns (for a deadline it has already passed: a scripted transport
// may still deliver headers that were on their way)
type endsAtHeadersRT struct {
	ctx        context.Context
	cancel     context.CancelFunc
	honourDone bool
}

type ctxErrBody struct{ ctx context.Context }

func (b ctxErrBody) Read(p []byte) (int, error) { <-b.ctx.Done(); return 0, b.ctx.Err() }
func (b ctxErrBody) Close() error               { return nil }

func (t endsAtHeadersRT) RoundTrip(rq *http.Request) (*http.Response, error) {
	if rq.Body != nil {
		io.Copy(io.Discard, rq.Body)
		rq.Body.Close()
	}
	if !t.honourDone {
		t.cancel()
	}
	h := http.Header{}
	h.Set("Content-Type", httpgrpc.UnaryRpcContentType_V1)
	for i := 0; i < 3000; i++ {
		h.Add(fmt.Sprintf("X-Note-%d", i%300), fmt.Sprint("value ", i))
	}
	return &http.Response{StatusCode: 200, Status: "200 OK", Proto: "HTTP/1.1", ProtoMajor: 1, ProtoMinor: 1, Header: h,
		ContentLength: 64, Body: ctxErrBody{t.ctx}, Request: rq}, nil
}
