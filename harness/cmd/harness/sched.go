package main

// A schedule executor for in-process streams: operations are started one at a time on named
// actors; after each start the executor waits until the whole process is settled (every
// goroutine other than the executor is parked in a blocking primitive), then records which
// operations have returned.  No sleep decides an outcome.

import (
	"bytes"
	"context"
	"fmt"
	"io"
	"regexp"
	"runtime"
	"sort"
	"strconv"
	"strings"
	"sync"
	"time"

	"google.golang.org/grpc"
	"google.golang.org/grpc/codes"
	"google.golang.org/grpc/metadata"
	"google.golang.org/grpc/status"

	"github.com/fullstorydev/grpchan/inprocgrpc"
	"verifharness/hx"
)

// manualCtx is a context whose end (and the kind of end) the executor decides.
type manualCtx struct {
	mu   sync.Mutex
	done chan struct{}
	err  error
}

func newManualCtx() *manualCtx                     { return &manualCtx{done: make(chan struct{})} }
func (c *manualCtx) Deadline() (time.Time, bool)   { return time.Time{}, false }
func (c *manualCtx) Done() <-chan struct{}         { return c.done }
func (c *manualCtx) Value(interface{}) interface{} { return nil }
func (c *manualCtx) Err() error                    { c.mu.Lock(); defer c.mu.Unlock(); return c.err }
func (c *manualCtx) end(err error) {
	c.mu.Lock()
	defer c.mu.Unlock()
	if c.err == nil {
		c.err = err
		close(c.done)
	}
}

var goroutineHdr = regexp.MustCompile(`(?m)^goroutine (\d+) \[([^\]]*)\]:`)

func curGoroutineID() int {
	b := make([]byte, 64)
	b = b[:runtime.Stack(b, false)]
	m := goroutineHdr.FindSubmatch(b)
	id, _ := strconv.Atoi(string(m[1]))
	return id
}

// snapshotGoroutines returns goroutine id -> wait state for all goroutines
func snapshotGoroutines() map[int]string {
	buf := make([]byte, 1<<20)
	for {
		n := runtime.Stack(buf, true)
		if n < len(buf) {
			buf = buf[:n]
			break
		}
		buf = make([]byte, 2*len(buf))
	}
	out := map[int]string{}
	for _, m := range goroutineHdr.FindAllSubmatch(buf, -1) {
		id, _ := strconv.Atoi(string(m[1]))
		out[id] = string(m[2])
	}
	return out
}

func parked(state string) bool {
	s := strings.SplitN(state, ",", 2)[0]
	switch s {
	case "running", "runnable", "syscall", "waiting", "copystack", "preempted", "dead", "idle", "moribund", "enqueue":
		return false
	}
	return true
}

// waitSettled returns true when every other goroutine is parked in two consecutive samples
// with the same number of completed results
func waitSettled(self int, completed func() int) bool {
	deadline := time.Now().Add(3 * time.Second)
	stable, last := 0, -1
	for time.Now().Before(deadline) {
		runtime.Gosched()
		all := true
		for id, st := range snapshotGoroutines() {
			if id == self {
				continue
			}
			if !parked(st) {
				all = false
				break
			}
		}
		c := completed()
		if all && c == last {
			stable++
			if stable >= 2 {
				return true
			}
		} else {
			stable = 0
		}
		last = c
		if !all {
			time.Sleep(50 * time.Microsecond)
		}
	}
	return false
}

type sOp struct {
	actor string // CS CC CR H HR ENV
	kind  string // CSend CClose CRecv CHeader CTrailer HRecv HSend HSetHeader HSendHeader HSetTrailer HReturn Cancel Deadline
	x     int64  // payload id / return code
	md    []int64
}

func (o sOp) coqOp() string {
	mdT := func() string {
		var s []string
		for _, i := range o.md {
			s = append(s, hx.Z(i))
		}
		return hx.List(s)
	}
	switch o.kind {
	case "CSend", "HSend":
		return fmt.Sprintf("(%s %s)", o.kind, hx.Z(o.x))
	case "HReturn":
		return fmt.Sprintf("(HReturn %s)", hx.Z(o.x))
	case "HSetHeader", "HSendHeader", "HSetTrailer":
		return fmt.Sprintf("(%s %s)", o.kind, mdT())
	}
	return o.kind
}
func (o sOp) coqStart() string {
	if o.actor == "ENV" {
		return o.kind
	}
	return fmt.Sprintf("(Call %s %s)", o.actor, o.coqOp())
}
func (o sOp) String() string {
	switch o.kind {
	case "CSend", "HSend", "HReturn":
		return fmt.Sprintf("%s.%s(%d)", o.actor, o.kind, o.x)
	case "HSetHeader", "HSendHeader", "HSetTrailer":
		return fmt.Sprintf("%s.%s(%v)", o.actor, o.kind, o.md)
	}
	return o.actor + "." + o.kind
}

type sRet struct {
	actor string
	res   string // Coq term
}

type roundT struct {
	start sOp
	rets  []sRet
}

func mdOf(ids []int64, prefix string) metadata.MD {
	md := metadata.MD{}
	for _, i := range ids {
		md[fmt.Sprintf("%s%d", prefix, i)] = []string{fmt.Sprintf("v%d", i)}
	}
	return md
}
func idsOf(md metadata.MD) string {
	var ids []int
	for k := range md {
		if len(k) > 1 {
			if n, err := strconv.Atoi(k[1:]); err == nil {
				ids = append(ids, n)
			}
		}
	}
	sort.Ints(ids)
	var s []string
	for _, i := range ids {
		s = append(s, fmt.Sprint(i))
	}
	return hx.List(s)
}

// errRes canonicalises an operation's error
func errRes(err error) string {
	switch {
	case err == nil:
		return "RNil"
	case err == io.EOF:
		return "REOF"
	case err == context.Canceled:
		return "(RCtx 1)"
	case err == context.DeadlineExceeded:
		return "(RCtx 2)"
	}
	if st, ok := status.FromError(err); ok {
		return fmt.Sprintf("(RStatus %d)", uint32(st.Code()))
	}
	switch err.Error() {
	case "send closed":
		return "(ROther 1)"
	case "headers already sent":
		return "(ROther 2)"
	}
	return "(ROther 9)"
}

type schedResult struct {
	rounds    []roundT
	panicked  bool
	unsettled bool
	leaked    bool
}

// runSchedule executes ops on a fresh in-process channel; kind is CS, SS or BD
func runSchedule(kind string, next func(busy map[string]bool, round int) *sOp) schedResult {
	var res schedResult
	self := curGoroutineID()
	var mu sync.Mutex
	var results []sRet
	emit := func(a, r string) { mu.Lock(); results = append(results, sRet{a, r}); mu.Unlock() }
	nDone := func() int { mu.Lock(); defer mu.Unlock(); return len(results) }
	panicSeen := false
	guard := func(actor string) {
		if p := recover(); p != nil {
			mu.Lock()
			panicSeen = true
			mu.Unlock()
			emit(actor, "(ROther 99)")
		}
	}

	base := runtime.NumGoroutine()
	mctx := newManualCtx()
	hCmd := make(chan sOp)
	hrCmd := make(chan sOp) // a second goroutine of the handler that only receives
	handlerGID := 0
	handlerStarted := make(chan struct{})
	svc := &hx.Svc{Stream: func(_ string, ss grpc.ServerStream) error {
		handlerGID = curGoroutineID()
		go func() {
			for range hrCmd {
				var r string
				func() {
					defer guard("HR")
					m := &hx.Msg{}
					if err := ss.RecvMsg(m); err != nil {
						r = errRes(err)
					} else {
						r = fmt.Sprintf("(RMsg %d)", m.Count)
					}
				}()
				emit("HR", r)
			}
		}()
		close(handlerStarted)
		for op := range hCmd {
			var r string
			func() {
				defer guard("H")
				switch op.kind {
				case "HRecv":
					m := &hx.Msg{}
					if err := ss.RecvMsg(m); err != nil {
						r = errRes(err)
					} else {
						r = fmt.Sprintf("(RMsg %d)", m.Count)
					}
				case "HSend":
					r = errRes(ss.SendMsg(&hx.Msg{Count: int32(op.x)}))
				case "HSetHeader":
					r = errRes(ss.SetHeader(mdOf(op.md, "h")))
				case "HSendHeader":
					r = errRes(ss.SendHeader(mdOf(op.md, "h")))
				case "HSetTrailer":
					ss.SetTrailer(mdOf(op.md, "t"))
					r = "RNil"
				}
			}()
			if op.kind == "HReturn" {
				switch {
				case op.x == 0:
					return nil
				case op.x == -1:
					return io.EOF
				case op.x == -2:
					return ss.Context().Err()
				case op.x == -3: // the error of some other context the handler used, not a status
					return context.Canceled
				case op.x == -4:
					return context.DeadlineExceeded
				default:
					return status.Error(codeOf(op.x), "scripted")
				}
			}
			emit("H", r)
		}
		return nil
	}}
	ch := &inprocgrpc.Channel{}
	ch.RegisterService(hx.Desc(hx.SvcName), svc)
	cs, err := ch.NewStream(mctx, hx.StreamDescOf(kind), "/verif.Svc/"+kind)
	if err != nil {
		res.unsettled = true
		return res
	}
	<-handlerStarted
	mkActor := func(name string) chan sOp {
		c := make(chan sOp)
		go func() {
			for op := range c {
				var r string
				func() {
					defer guard(name)
					switch op.kind {
					case "CSend":
						r = errRes(cs.SendMsg(&hx.Msg{Count: int32(op.x)}))
					case "CClose":
						r = errRes(cs.CloseSend())
					case "CRecv":
						m := &hx.Msg{}
						if err := cs.RecvMsg(m); err != nil {
							r = errRes(err)
						} else {
							r = fmt.Sprintf("(RMsg %d)", m.Count)
						}
					case "CHeader":
						md, err := cs.Header()
						if err != nil {
							r = errRes(err)
						} else {
							r = "(RMd " + idsOf(md) + ")"
						}
					case "CTrailer":
						r = "(RMd " + idsOf(cs.Trailer()) + ")"
					}
				}()
				emit(name, r)
			}
		}()
		return c
	}
	actors := map[string]chan sOp{"CS": mkActor("CS"), "CC": mkActor("CC"), "CR": mkActor("CR"), "H": hCmd, "HR": hrCmd}
	returnIssued, returnReported := false, false
	taken := 0
	if !waitSettled(self, nDone) {
		res.unsettled = true
	}
	busy := map[string]bool{}
	for round := 0; ; round++ {
		if res.unsettled {
			break
		}
		nx := next(busy, round)
		if nx == nil {
			break
		}
		op := *nx
		if op.actor != "ENV" {
			busy[op.actor] = true
		}
		switch op.actor {
		case "ENV":
			if op.kind == "Cancel" {
				mctx.end(context.Canceled)
			} else {
				mctx.end(context.DeadlineExceeded)
			}
		default:
			select {
			case actors[op.actor] <- op:
			case <-time.After(2 * time.Second):
				res.unsettled = true
			}
			if op.kind == "HReturn" {
				returnIssued = true
			}
		}
		if !waitSettled(self, nDone) {
			res.unsettled = true
			break
		}
		if returnIssued && !returnReported {
			if _, alive := snapshotGoroutines()[handlerGID]; !alive {
				returnReported = true
				emit("H", "RNil")
			}
		}
		mu.Lock()
		rd := roundT{start: op, rets: append([]sRet{}, results[taken:]...)}
		taken = len(results)
		mu.Unlock()
		for _, x := range rd.rets {
			busy[x.actor] = false
		}
		res.rounds = append(res.rounds, rd)
	}
	mu.Lock()
	res.panicked = panicSeen
	mu.Unlock()
	// wind down: end the context, let the handler return, stop the actors
	mctx.end(context.Canceled)
	if !returnIssued {
		select {
		case hCmd <- sOp{actor: "H", kind: "HReturn"}:
		case <-time.After(500 * time.Millisecond):
		}
	}
	for _, n := range []string{"CS", "CC", "CR", "HR"} {
		c := actors[n]
		go func() { defer func() { recover() }(); close(c) }()
	}
	runtime.KeepAlive(cs)
	// after the call has completed no goroutine of the library should remain
	deadline := time.Now().Add(500 * time.Millisecond)
	for runtime.NumGoroutine() > base && time.Now().Before(deadline) {
		time.Sleep(time.Millisecond)
	}
	res.leaked = runtime.NumGoroutine() > base
	return res
}

func codeOf(x int64) codes.Code { return codes.Code(uint32(x)) }

func roundsTerm(rs []roundT) string {
	var items []string
	for _, r := range rs {
		var rets []string
		for _, x := range r.rets {
			rets = append(rets, "("+x.actor+", "+x.res+")")
		}
		items = append(items, fmt.Sprintf("{| r_start := %s; r_rets := %s |}", r.start.coqStart(), hx.List(rets)))
	}
	return hx.List(items)
}
func roundsDesc(rs []roundT) []string {
	var out []string
	for _, r := range rs {
		var b bytes.Buffer
		b.WriteString(r.start.String() + " =>")
		for _, x := range r.rets {
			b.WriteString(" " + x.actor + ":" + x.res)
		}
		out = append(out, b.String())
	}
	return out
}
