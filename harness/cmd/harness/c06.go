package main

import (
	"bytes"
	"context"
	"encoding/json"
	"fmt"
	"google.golang.org/protobuf/types/known/anypb"
	"google.golang.org/protobuf/types/known/durationpb"
	"google.golang.org/protobuf/types/known/wrapperspb"
	"os"
	"os/exec"
	"runtime"
	"sync"
	"time"

	protov1 "github.com/golang/protobuf/proto"
	"github.com/jhump/protoreflect/desc"
	"github.com/jhump/protoreflect/dynamic"
	"google.golang.org/grpc"
	"google.golang.org/grpc/encoding"
	"google.golang.org/protobuf/proto"

	"github.com/fullstorydev/grpchan"
	"github.com/fullstorydev/grpchan/inprocgrpc"
	"verifharness/hx"
)

// gateCloner wraps a cloner: reads of the watched request made from another goroutine than the
// caller's wait until the call has returned, and are recorded
type gateCloner struct {
	inner     inprocgrpc.Cloner
	mu        sync.Mutex
	watched   interface{}
	callerGID int
	returned  chan struct{}
	lateReads int
}

func (g *gateCloner) touch(in interface{}) {
	g.mu.Lock()
	w, gid, ch := g.watched, g.callerGID, g.returned
	g.mu.Unlock()
	if w == nil || in != w || curGoroutineID() == gid {
		return
	}
	select {
	case <-ch:
		g.mu.Lock()
		g.lateReads++
		g.mu.Unlock()
	case <-time.After(300 * time.Millisecond):
	}
}
func (g *gateCloner) Copy(out, in interface{}) error { g.touch(in); return g.inner.Copy(out, in) }
func (g *gateCloner) Clone(in interface{}) (interface{}, error) {
	g.touch(in)
	return g.inner.Clone(in)
}

func init() {
	runners["C06"] = func(o *hx.Out, r *hx.Rand, thorough bool) {
		codec := encoding.GetCodec("proto")
		cloners := []struct {
			name string
			mk   func() inprocgrpc.Cloner
		}{
			{"default", func() inprocgrpc.Cloner { return nil }},
			{"codec", func() inprocgrpc.Cloner { return inprocgrpc.CodecCloner(codec) }},
			{"clone-func", func() inprocgrpc.Cloner { return inprocgrpc.CloneFunc(grpchan.VerifCloneMessage) }},
			{"copy-func", func() inprocgrpc.Cloner { return inprocgrpc.CopyFunc(grpchan.VerifCopyMessage) }},
			// a copy function that is a correct deep copy but fills the destination in place, reusing what it holds
			{"copy-func (field by field, in place)", func() inprocgrpc.Cloner { return inprocgrpc.CopyFunc(fieldwiseCopy) }},
		}
		msgDesc, _ := desc.LoadMessageDescriptorForMessage(protov1.MessageV1(&hx.Msg{}))
		mkMsg := func(empty bool) *hx.Msg {
			if empty {
				return &hx.Msg{}
			}
			return &hx.Msg{Payload: r.Bytes(r.Range(1, 30)), Count: int32(r.Range(1, 99)), Headers: map[string][]byte{"h": r.Bytes(4), "g": r.Bytes(2)},
				Trailers: map[string][]byte{"t": r.Bytes(3)}}
		}
		asDyn := func(m *hx.Msg) *dynamic.Message {
			dm := dynamic.NewMessage(msgDesc)
			dm.ConvertFrom(protov1.MessageV1(m))
			return dm
		}
		rep := 3
		if thorough {
			rep = 30
		}
		for rp := 0; rp < rep; rp++ {
			for ci, cl := range cloners {
				for _, dyn := range []bool{false, true} {
					if dyn {
						// ---------- unary with dynamic messages on the caller's side (request and response): the
						// handler works on generated messages, so both copies cross representations ----------
						var hReq, hResp *hx.Msg
						dsvc := &hx.Svc{Unary: func(ctx context.Context, req *hx.Msg) (*hx.Msg, error) {
							hReq = req
							hResp = mkMsg(false)
							return hResp, nil
						}}
						dch := (&inprocgrpc.Channel{}).WithCloner(cl.mk())
						dch.RegisterService(hx.Desc(hx.SvcName), dsvc)
						dreq := asDyn(mkMsg(false))
						dreqSnap := snapshot(dreq)
						dout := asDyn(&hx.Msg{Payload: []byte("old"), Headers: map[string][]byte{"old": []byte("o")}, Count: 77})
						derr := dch.Invoke(context.Background(), "/verif.Svc/U", dreq, dout)
						diso, dow := derr == nil && hReq != nil, true
						if diso {
							respSnap := snapshot(hResp)
							dow = sameAs(dout, respSnap)
							diso = sameAs(hReq, dreqSnap)
							mutateInPlace(hReq) // the handler changes its request in place
							diso = diso && sameAs(dreq, dreqSnap)
							mutateInPlace(dout) // the caller changes the response it received
							diso = diso && sameAs(hResp, respSnap)
							s2 := snapshot(dout)
							mutateInPlace(hResp) // the handler keeps and changes what it returned
							diso = diso && sameAs(dout, s2)
						}
						dd := map[string]interface{}{"cloner": cl.name, "rpc": "unary; the caller's request and response are dynamic messages, the handler's generated ones", "dynamic_messages": true, "isolated": diso, "destination_overwritten": dow, "error": fmt.Sprint(derr)}
						o.Case("unary_dynamic_caller_"+cl.name, fmt.Sprintf("Iso %d %s true %s %s", ci, hx.Str("unary, dynamic caller"), hx.B(diso), hx.B(dow)), dd)
					}
					if dyn && (ci == 1 || ci == 3 || ci == 4) {
						// Clone of a dynamic message through the codec / copy-func strategies panics (C18 finding F18),
						// so a stream cannot even send one: nothing to probe here
						o.Stats["skipped_dynamic_with_"+cl.name] = "Clone panics (C18 F18)"
						continue
					}
					// ---------- streams of every kind: client -> handler and handler -> client ----------
					for _, kind := range []string{"BD", "SS", "CS"} {
						var hGot, hSent interface{}
						var hGotSnap, hSentSnap proto.Message
						gate := make(chan struct{})
						hDone := make(chan struct{})
						svc := &hx.Svc{Stream: func(kind string, ss grpc.ServerStream) error {
							defer close(hDone)
							<-gate // the caller mutates its message before the handler receives
							var in interface{} = &hx.Msg{Payload: []byte("stale"), Headers: map[string][]byte{"stale": []byte("x")}}
							if dyn {
								in = asDyn(&hx.Msg{Payload: []byte("stale"), Headers: map[string][]byte{"stale": []byte("x")}})
							}
							if err := ss.RecvMsg(in); err != nil {
								return err
							}
							hGot, hGotSnap = in, snapshot(in)
							var out interface{} = mkMsg(false)
							if dyn {
								out = asDyn(mkMsg(false))
							}
							hSentSnapBefore := snapshot(out)
							if err := ss.SendMsg(out); err != nil {
								return err
							}
							hSent, hSentSnap = out, hSentSnapBefore
							return nil
						}}
						ch := (&inprocgrpc.Channel{}).WithCloner(cl.mk())
						ch.RegisterService(hx.Desc(hx.SvcName), svc)
						cs, err := ch.NewStream(context.Background(), hx.StreamDescOf(kind), "/verif.Svc/"+kind)
						iso, ow := err == nil, true
						if err == nil {
							var req interface{} = mkMsg(false)
							if dyn {
								req = asDyn(mkMsg(false))
							}
							reqSnap := snapshot(req)
							err = cs.SendMsg(req)
							mutateInPlace(req) // after SendMsg returned the caller may reuse its message
							close(gate)
							cs.CloseSend()
							var resp interface{} = &hx.Msg{Payload: []byte("old"), Trailers: map[string][]byte{"old": []byte("o")}, Count: 77}
							if dyn {
								resp = asDyn(&hx.Msg{Payload: []byte("old"), Trailers: map[string][]byte{"old": []byte("o")}, Count: 77})
							}
							if err == nil {
								err = cs.RecvMsg(resp)
							}
							<-hDone
							runtime.KeepAlive(cs)
							if err != nil {
								iso = false
							} else {
								// the handler saw the request as it was when sent, although the caller changed it since
								iso = iso && sameAs(hGot, reqSnap) && hGotSnap != nil
								// the caller received the response as it was when sent, although the handler changed it since;
								// nothing of the destination's previous content is left
								ow = sameAs(resp, hSentSnap)
								// the handler reuses its message after the send returned: the caller's copy is unaffected
								respSnap := snapshot(resp)
								mutateInPlace(hSent)
								iso = iso && sameAs(resp, respSnap)
								// mutating what was received does not reach the peer's object
								afterH := snapshot(hSent)
								mutateInPlace(resp)
								iso = iso && sameAs(hSent, afterH)
								afterReq := snapshot(req)
								mutateInPlace(hGot)
								iso = iso && sameAs(req, afterReq)
							}
						}
						d := map[string]interface{}{"cloner": cl.name, "rpc": kind + " stream, both directions", "dynamic_messages": dyn, "isolated": iso, "destination_overwritten": ow, "error": fmt.Sprint(err)}
						o.Case("stream_"+kind+"_"+cl.name, fmt.Sprintf("Iso %d %s %s %s %s", ci, hx.Str(kind+" stream both directions"), hx.B(dyn), hx.B(iso), hx.B(ow)), d)
					}

					// ---------- unary: request and response ----------
					var err error
					var iso, ow bool
					var d map[string]interface{}
					var uReq, uResp *hx.Msg
					usvc := &hx.Svc{Unary: func(ctx context.Context, req *hx.Msg) (*hx.Msg, error) {
						uReq = req
						uResp = mkMsg(rp%2 == 1)
						return uResp, nil
					}}
					uch := (&inprocgrpc.Channel{}).WithCloner(cl.mk())
					uch.RegisterService(hx.Desc(hx.SvcName), usvc)
					req := mkMsg(false)
					reqSnap := snapshot(req)
					out := &hx.Msg{Payload: []byte("old"), Headers: map[string][]byte{"old": []byte("o")}, Count: 77}
					err = uch.Invoke(context.Background(), "/verif.Svc/U", req, out)
					iso, ow = err == nil, true
					if err == nil {
						respSnap := snapshot(uResp)
						ow = sameAs(out, respSnap)
						mutateInPlace(uReq) // the handler's view of the request
						iso = sameAs(req, reqSnap)
						mutateInPlace(out)
						iso = iso && sameAs(uResp, respSnap)
						s2 := snapshot(out)
						mutateInPlace(uResp)
						iso = iso && sameAs(out, s2)
					}
					if !dyn {
						d = map[string]interface{}{"cloner": cl.name, "rpc": "unary", "response_empty": rp%2 == 1, "isolated": iso, "destination_overwritten": ow, "error": fmt.Sprint(err)}
						o.Case("unary_"+cl.name, fmt.Sprintf("Iso %d %s false %s %s", ci, hx.Str("unary"), hx.B(iso), hx.B(ow)), d)
					}
				}
				// ---------- unary calls with messages that have only scalar-looking fields (a bytes field, a type URL
				// and bytes): nothing of them may be shared either ----------
				for _, shape := range []string{"BytesValue", "Any"} {
					mk := func(fill byte) proto.Message {
						if shape == "BytesValue" {
							return wrapperspb.Bytes(bytes.Repeat([]byte{fill}, 12))
						}
						return &anypb.Any{TypeUrl: "type.googleapis.com/x.Y", Value: bytes.Repeat([]byte{fill}, 12)}
					}
					scramble := func(m proto.Message) {
						switch v := m.(type) {
						case *wrapperspb.BytesValue:
							for i := range v.Value {
								v.Value[i] ^= 0x5a
							}
						case *anypb.Any:
							for i := range v.Value {
								v.Value[i] ^= 0x5a
							}
						}
					}
					cached := mk(0x22)
					cachedSnap := proto.Clone(cached)
					var hReq proto.Message
					fd := &grpc.ServiceDesc{ServiceName: "flat.Svc", HandlerType: (*hx.SvcIface)(nil), Methods: []grpc.MethodDesc{{MethodName: "U",
						Handler: func(srv interface{}, ctx context.Context, dec func(interface{}) error, _ grpc.UnaryServerInterceptor) (interface{}, error) {
							in := mk(0)
							if err := dec(in); err != nil {
								return nil, err
							}
							hReq = in
							scramble(in) // the handler works on its request in place
							return cached, nil
						}}}}
					fch := (&inprocgrpc.Channel{}).WithCloner(cl.mk())
					fch.RegisterService(fd, &hx.Svc{})
					req := mk(0x11)
					reqSnap := proto.Clone(req)
					out := mk(0x33)
					err := fch.Invoke(context.Background(), "/flat.Svc/U", req, out)
					iso, ow := err == nil && hReq != nil, true
					if iso {
						iso = proto.Equal(req, reqSnap) // the handler's scrambling did not reach the caller's request
						ow = proto.Equal(out, cachedSnap)
						scramble(out) // the caller changes the response it received
						iso = iso && proto.Equal(cached, cachedSnap)
					}
					d := map[string]interface{}{"cloner": cl.name, "rpc": "unary with " + shape + " messages; the handler changes its request in place and returns a cached response", "isolated": iso, "destination_overwritten": ow, "error": fmt.Sprint(err)}
					o.Case("unary_flat_"+shape+"_"+cl.name, fmt.Sprintf("Iso %d %s false %s %s", ci, hx.Str("unary, "+shape), hx.B(iso), hx.B(ow)), d)
				}
				// ---------- a method handler that RECYCLES its request object (a pool, or defaults filled in before
				// decoding): decoding the request is a receive like any other and overwrites what the object held ----------
				{
					recycled := &hx.Msg{}
					var seenReq []*hx.Msg
					rd := &grpc.ServiceDesc{ServiceName: "pool.Svc", HandlerType: (*hx.SvcIface)(nil), Methods: []grpc.MethodDesc{{MethodName: "U",
						Handler: func(srv interface{}, ctx context.Context, dec func(interface{}) error, _ grpc.UnaryServerInterceptor) (interface{}, error) {
							if err := dec(recycled); err != nil {
								return nil, err
							}
							seenReq = append(seenReq, proto.Clone(recycled).(*hx.Msg))
							return &hx.Msg{}, nil
						}}}}
					rch := (&inprocgrpc.Channel{}).WithCloner(cl.mk())
					rch.RegisterService(rd, &hx.Svc{})
					reqs := []*hx.Msg{mkMsg(false), {Count: 5}, {Headers: map[string][]byte{"only": []byte("this")}}, {}}
					ow := true
					var rerr error
					for i, rq := range reqs {
						if rerr = rch.Invoke(context.Background(), "/pool.Svc/U", rq, &hx.Msg{}); rerr != nil || len(seenReq) != i+1 || !proto.Equal(seenReq[i], rq) {
							ow = false
							break
						}
					}
					d := map[string]interface{}{"cloner": cl.name, "rpc": "unary, four calls; the method handler decodes every request into the same recycled message", "destination_overwritten": ow, "error": fmt.Sprint(rerr), "handler_saw": fmt.Sprint(seenReq)}
					o.Case("unary_recycled_request_"+cl.name, fmt.Sprintf("Iso %d %s false true %s", ci, hx.Str("unary, recycled request object"), hx.B(ow)), d)
				}
				// ---------- a codec cloner around a codec whose Marshal result ALIASES the message (a pass-through codec for
				// pre-encoded payloads: legal for a gRPC codec): a sender that reuses its buffer after SendMsg returned
				// must not change what the peer receives, in either direction ----------
				if ci == 1 {
					ach := (&inprocgrpc.Channel{}).WithCloner(inprocgrpc.CodecCloner(rawCodec{base: codec}))
					var hGot [][]byte
					ach.RegisterService(hx.Desc(hx.SvcName), &hx.Svc{Stream: func(k string, ss grpc.ServerStream) error {
						time.Sleep(30 * time.Millisecond) // a slow receiver: the request sits in the queue
						for {
							m := &RawMsg{}
							if err := ss.RecvMsg(m); err != nil {
								break
							}
							hGot = append(hGot, m.B)
						}
						buf := []byte("response-one")
						out := &RawMsg{B: buf}
						if err := ss.SendMsg(out); err != nil {
							return err
						}
						copy(buf, "RESPONSE-TWO") // the handler reuses its buffer for the next message
						return ss.SendMsg(out)
					}})
					ctx, cancel := context.WithTimeout(context.Background(), 3*time.Second)
					cs, err := ach.NewStream(ctx, hx.StreamDescOf("BD"), "/verif.Svc/BD")
					iso := err == nil
					var cGot []string
					if iso {
						buf := []byte("request-one")
						cs.SendMsg(&RawMsg{B: buf})
						copy(buf, "SCRIBBLED!!") // the caller reuses its buffer once SendMsg has returned
						cs.CloseSend()
						time.Sleep(60 * time.Millisecond) // a slow receiver here too
						for {
							m := &RawMsg{}
							if e := cs.RecvMsg(m); e != nil {
								break
							}
							cGot = append(cGot, string(m.B))
						}
						runtime.KeepAlive(cs)
						iso = len(hGot) == 1 && string(hGot[0]) == "request-one" && fmt.Sprint(cGot) == "[response-one RESPONSE-TWO]"
					}
					cancel()
					var hs []string
					for _, b := range hGot {
						hs = append(hs, string(b))
					}
					d := map[string]interface{}{"cloner": "codec cloner over a pass-through codec (Marshal returns the message's own bytes)", "rpc": "BD; both sides reuse their buffer after SendMsg returned, both receive late", "handler_received": hs, "caller_received": cGot, "isolated": iso}
					o.Case("stream_aliasing_codec", fmt.Sprintf("Iso %d %s false %s true", ci, hx.Str("stream, aliasing codec"), hx.B(iso)), d)
				}
				// ---------- a receive whose copy FAILS (a destination of another message type) reports the failure:
				// "overwritten" or an error, never success with the destination left as it was.  Single-response and
				// streaming receives.  (Not through the codec cloner: other types' bytes may parse, finding F20.) ----------
				if ci != 1 {
					for _, kind := range []string{"CS", "SS"} {
						wch := (&inprocgrpc.Channel{}).WithCloner(cl.mk())
						wch.RegisterService(hx.Desc(hx.SvcName), &hx.Svc{Stream: func(k string, ss grpc.ServerStream) error {
							for ss.RecvMsg(&hx.Msg{}) == nil {
							}
							return ss.SendMsg(mkMsg(false))
						}})
						ctx, cancel := context.WithTimeout(context.Background(), 3*time.Second)
						cs, err := wch.NewStream(ctx, hx.StreamDescOf(kind), "/verif.Svc/"+kind)
						var rerr error
						dst := durationpb.New(42 * time.Second)
						if err == nil {
							cs.SendMsg(&hx.Msg{})
							cs.CloseSend()
							rerr = cs.RecvMsg(dst)
							runtime.KeepAlive(cs)
						}
						cancel()
						ok := err == nil && rerr != nil
						d := map[string]interface{}{"cloner": cl.name, "rpc": kind + ": the caller receives into a message of another type (google.protobuf.Duration)", "receive_result": fmt.Sprint(rerr), "destination_after": dst.String()}
						o.Case("receive_into_wrong_type_"+kind+"_"+cl.name, fmt.Sprintf("Iso %d %s false %s true", ci, hx.Str(kind+" receive into another type"), hx.B(ok)), d)
					}
				}
				// ---------- the library must not read the request after a unary call returned ----------
				for _, cancelled := range []bool{false, true} {
					inner := cl.mk()
					if inner == nil {
						inner = inprocgrpc.ProtoCloner{}
					}
					g := &gateCloner{inner: inner, returned: make(chan struct{})}
					lch := (&inprocgrpc.Channel{}).WithCloner(g)
					lch.RegisterService(hx.Desc(hx.SvcName), &hx.Svc{Unary: func(ctx context.Context, req *hx.Msg) (*hx.Msg, error) { return &hx.Msg{}, nil }})
					req := mkMsg(false)
					g.mu.Lock()
					g.watched, g.callerGID = req, curGoroutineID()
					g.mu.Unlock()
					ctx, cancel := context.WithCancel(context.Background())
					if cancelled {
						cancel()
					}
					lch.Invoke(ctx, "/verif.Svc/U", req, &hx.Msg{})
					close(g.returned)
					cancel()
					time.Sleep(20 * time.Millisecond)
					g.mu.Lock()
					late := g.lateReads > 0
					g.mu.Unlock()
					d := map[string]interface{}{"cloner": cl.name, "rpc": "unary", "context_cancelled_before_call": cancelled, "request_read_after_return": late}
					o.Case("late_read_"+cl.name, fmt.Sprintf("Late %d %s %s", ci, hx.B(cancelled), hx.B(late)), d)
				}
				// ---------- the same for a STREAM send that is cut short: the handler is parked in RecvMsg, the caller's
				// context ends while SendMsg is in flight: once SendMsg has returned the library reads the message no more
				// (unlike the unary case above, which is the listed finding F13, a stream send clones before it returns) ----------
				{
					inner := cl.mk()
					if inner == nil {
						inner = inprocgrpc.ProtoCloner{}
					}
					g := &gateCloner{inner: inner, returned: make(chan struct{})}
					sch := (&inprocgrpc.Channel{}).WithCloner(g)
					parked := make(chan struct{})
					sch.RegisterService(hx.Desc(hx.SvcName), &hx.Svc{Stream: func(k string, ss grpc.ServerStream) error {
						close(parked)
						ss.RecvMsg(&hx.Msg{})
						return nil
					}})
					ctx, cancel := context.WithCancel(context.Background())
					cs, err := sch.NewStream(ctx, hx.StreamDescOf("BD"), "/verif.Svc/BD")
					late := false
					if err == nil {
						<-parked
						time.Sleep(20 * time.Millisecond)                                                                                                // the handler is inside RecvMsg now
						req := &hx.Msg{Count: 9, Payload: []byte("a request the caller goes on to reuse"), Headers: map[string][]byte{"h": []byte("v")}} // (fixed: no draw from the generator)
						g.mu.Lock()
						g.watched, g.callerGID = req, curGoroutineID()
						g.mu.Unlock()
						time.AfterFunc(30*time.Millisecond, cancel)
						cs.SendMsg(req)
						close(g.returned)
						time.Sleep(20 * time.Millisecond)
						g.mu.Lock()
						late = g.lateReads > 0
						g.mu.Unlock()
						runtime.KeepAlive(cs)
					}
					cancel()
					d := map[string]interface{}{"cloner": cl.name, "rpc": "BD: the handler waits in RecvMsg, the context is cancelled while SendMsg is in flight", "request_read_after_SendMsg_returned": late}
					o.Case("late_read_stream_"+cl.name, fmt.Sprintf("Iso %d %s false %s true", ci, hx.Str("stream send cut short by cancellation"), hx.B(!late)), d)
				}
				// ---------- a handler that keeps the response it returned (a cached value): no later traffic may change it ----------
				{
					cached := mkMsg(false)
					cachedSnap := proto.Clone(cached)
					lch := &inprocgrpc.Channel{}
					if c := cl.mk(); c != nil {
						lch.WithCloner(c)
					}
					lch.RegisterService(hx.Desc(hx.SvcName), &hx.Svc{
						Unary: func(ctx context.Context, req *hx.Msg) (*hx.Msg, error) { return cached, nil },
						Stream: func(kind string, ss grpc.ServerStream) error {
							for {
								m := &hx.Msg{}
								if err := ss.RecvMsg(m); err != nil {
									return nil
								}
								ss.SendMsg(&hx.Msg{Count: m.Count + 1, Payload: []byte("stream answer")})
							}
						},
					})
					out := &hx.Msg{}
					err := lch.Invoke(context.Background(), "/verif.Svc/U", mkMsg(false), out)
					got1 := proto.Equal(out, cachedSnap)
					halfDuplex(lch, "BD", []*hx.Msg{mkMsg(false), mkMsg(false), mkMsg(true)})
					lch.Invoke(context.Background(), "/verif.Svc/U", mkMsg(false), &hx.Msg{})
					halfDuplex(lch, "BD", []*hx.Msg{mkMsg(false)})
					same := proto.Equal(cached, cachedSnap)
					d := map[string]interface{}{"cloner": cl.name, "rpc": "unary whose handler returns a cached message, then stream traffic of the same type", "first_call_ok": err == nil && got1, "cached_value_unchanged": same}
					o.Case("cached_response_"+cl.name, fmt.Sprintf("Iso %d %s false %s true", ci, hx.Str("handler's retained response"), hx.B(same && got1 && err == nil)), d)
				}
				// ---------- nor write the caller's response after an abandoned unary call returned ----------
				{
					lch := &inprocgrpc.Channel{}
					if c := cl.mk(); c != nil {
						lch.WithCloner(c)
					}
					started, release, finished := make(chan struct{}), make(chan struct{}), make(chan struct{})
					lch.RegisterService(hx.Desc(hx.SvcName), &hx.Svc{Unary: func(ctx context.Context, req *hx.Msg) (*hx.Msg, error) {
						defer close(finished)
						close(started)
						<-release
						return &hx.Msg{Count: 4242, Payload: []byte("late answer")}, nil
					}})
					resp := &hx.Msg{Count: 1, Payload: []byte("caller's own")}
					ctx, cancel := context.WithCancel(context.Background())
					go func() { <-started; cancel() }()
					err := lch.Invoke(ctx, "/verif.Svc/U", mkMsg(false), resp)
					snap := proto.Clone(resp)
					close(release)
					select {
					case <-finished:
					case <-time.After(2 * time.Second):
					}
					written := false
					for k := 0; k < 20 && !written; k++ { // the server goroutine's work after the handler returned
						time.Sleep(2 * time.Millisecond)
						written = !proto.Equal(resp, snap)
					}
					d := map[string]interface{}{"cloner": cl.name, "rpc": "unary, cancelled while the handler runs; the handler answers afterwards", "invoke_error": fmt.Sprint(err), "response_written_after_return": written}
					o.Case("late_write_"+cl.name, fmt.Sprintf("LateWrite %d %s %s", ci, hx.B(err != nil), hx.B(written)), d)
				}
			}
		}
		// ---------- the same overwrite probes in a process whose registered "proto" codec does not reset the
		// destination on Unmarshal (as vtprotobuf's does not): the in-process channel's default cloner copies
		// messages itself, so a receive still overwrites.  Run in a child process: codec registration is global.
		if out, err := exec.Command(os.Args[0], "C06codec").Output(); err != nil {
			o.Violate("the child process with a replaced proto codec failed", map[string]interface{}{"error": err.Error(), "output": string(out)}, nil, nil)
		} else {
			var res []struct {
				Rpc         string `json:"rpc"`
				Overwritten bool   `json:"destination_overwritten"`
				Err         string `json:"error"`
			}
			json.Unmarshal(out, &res)
			if len(res) == 0 {
				o.Violate("the child process with a replaced proto codec reported nothing", map[string]interface{}{"output": string(out)}, nil, nil)
			}
			for _, x := range res {
				d := map[string]interface{}{"cloner": "default", "process": "a codec named proto that merges on Unmarshal is registered", "rpc": x.Rpc, "destination_overwritten": x.Overwritten, "error": x.Err}
				o.Case("replaced_codec_"+x.Rpc, fmt.Sprintf("Iso 0 %s false %s %s", hx.Str("replaced proto codec: "+x.Rpc), hx.B(x.Err == ""), hx.B(x.Overwritten)), d)
			}
		}
		o.Finding = "finding_case"
		o.Shard = 100
	}
}

// fieldwiseCopy is a copy function for hx.Msg that deep-copies field by field into the destination,
// reusing the destination's own slices and maps (other types: the library's own copy)
func fieldwiseCopy(out, in interface{}) error {
	o, ok1 := out.(*hx.Msg)
	i, ok2 := in.(*hx.Msg)
	if !ok1 || !ok2 {
		return grpchan.VerifCopyMessage(out, in)
	}
	o.Payload = append(o.Payload[:0], i.Payload...)
	if i.Payload == nil {
		o.Payload = nil
	}
	o.Count, o.Code, o.DelayMillis = i.Count, i.Code, i.DelayMillis
	cpMap := func(dst *map[string][]byte, src map[string][]byte) {
		if src == nil {
			*dst = nil
			return
		}
		if *dst == nil {
			*dst = map[string][]byte{}
		}
		for k := range *dst {
			delete(*dst, k)
		}
		for k, v := range src {
			(*dst)[k] = append([]byte(nil), v...)
		}
	}
	cpMap(&o.Headers, i.Headers)
	cpMap(&o.Trailers, i.Trailers)
	o.ErrorDetails = o.ErrorDetails[:0]
	for _, a := range i.ErrorDetails {
		o.ErrorDetails = append(o.ErrorDetails, proto.Clone(a).(*anypb.Any))
	}
	if len(i.ErrorDetails) == 0 {
		o.ErrorDetails = nil
	}
	o.ProtoReflect().SetUnknown(append([]byte(nil), i.ProtoReflect().GetUnknown()...))
	return nil
}

// mergingCodec is a "proto" codec whose Unmarshal merges into the destination without resetting it
type mergingCodec struct{}

func (mergingCodec) Name() string { return "proto" }
func (mergingCodec) Marshal(v interface{}) ([]byte, error) {
	return proto.Marshal(protov1.MessageV2(v))
}
func (mergingCodec) Unmarshal(data []byte, v interface{}) error {
	return proto.UnmarshalOptions{Merge: true}.Unmarshal(data, protov1.MessageV2(v))
}

// c06CodecChild runs in its own process (see the C06 runner) and prints its results as JSON
func c06CodecChild() {
	encoding.RegisterCodec(mergingCodec{})
	type resT struct {
		Rpc         string `json:"rpc"`
		Overwritten bool   `json:"destination_overwritten"`
		Err         string `json:"error"`
	}
	var res []resT
	n := int32(0)
	svc := &hx.Svc{
		Unary: func(ctx context.Context, req *hx.Msg) (*hx.Msg, error) {
			n++
			return &hx.Msg{Count: n, Headers: map[string][]byte{fmt.Sprint("k", n): {byte(n)}}}, nil
		},
		Stream: func(kind string, ss grpc.ServerStream) error {
			for ss.RecvMsg(&hx.Msg{}) == nil {
			}
			for i := int32(1); i <= 3; i++ {
				if err := ss.SendMsg(&hx.Msg{Count: i, Headers: map[string][]byte{fmt.Sprint("k", i): {byte(i)}}}); err != nil {
					return err
				}
			}
			return nil
		},
	}
	ch := &inprocgrpc.Channel{}
	ch.RegisterService(hx.Desc(hx.SvcName), svc)
	// unary: one destination reused across calls
	dst := &hx.Msg{Payload: []byte("stale"), Headers: map[string][]byte{"stale": []byte("x")}}
	ok, es := true, ""
	for i := int32(1); i <= 2 && es == ""; i++ {
		if err := ch.Invoke(context.Background(), "/verif.Svc/U", &hx.Msg{}, dst); err != nil {
			es = err.Error()
		} else if !proto.Equal(dst, &hx.Msg{Count: i, Headers: map[string][]byte{fmt.Sprint("k", i): {byte(i)}}}) {
			ok = false
		}
	}
	res = append(res, resT{"unary", ok, es})
	// stream: one destination reused across receives
	for _, kind := range []string{"BD", "SS"} {
		ok, es = true, ""
		cs, err := ch.NewStream(context.Background(), hx.StreamDescOf(kind), "/verif.Svc/"+kind)
		if err != nil {
			es = err.Error()
		} else {
			cs.SendMsg(&hx.Msg{})
			cs.CloseSend()
			d := &hx.Msg{Payload: []byte("stale"), Trailers: map[string][]byte{"stale": []byte("x")}}
			for i := int32(1); i <= 3 && es == ""; i++ {
				if err := cs.RecvMsg(d); err != nil {
					es = err.Error()
				} else if !proto.Equal(d, &hx.Msg{Count: i, Headers: map[string][]byte{fmt.Sprint("k", i): {byte(i)}}}) {
					ok = false
				}
			}
			runtime.KeepAlive(cs)
		}
		res = append(res, resT{kind + " stream", ok, es})
	}
	b, _ := json.Marshal(res)
	os.Stdout.Write(b)
}
