package main

import (
	"bytes"
	"context"
	"fmt"
	"io"
	"net"
	"net/http"
	"net/http/httptest"
	"net/url"
	"runtime"
	"sync"
	"sync/atomic"
	"syscall"
	"time"

	"google.golang.org/grpc"
	"google.golang.org/grpc/encoding"
	"google.golang.org/protobuf/encoding/protowire"
	"google.golang.org/protobuf/proto"
	"google.golang.org/protobuf/types/known/anypb"
	"google.golang.org/protobuf/types/known/wrapperspb"

	"github.com/fullstorydev/grpchan"
	"github.com/fullstorydev/grpchan/httpgrpc"
	"github.com/fullstorydev/grpchan/inprocgrpc"
	"verifharness/hx"
)

// echoSvc: unary echoes; CS counts and returns the last; SS sends req.Count copies; BD echoes each
// message after the client has closed its send side (half-duplex) or immediately (full duplex flag)
func echoSvc() *hx.Svc {
	return &hx.Svc{
		Unary: func(ctx context.Context, req *hx.Msg) (*hx.Msg, error) { return proto.Clone(req).(*hx.Msg), nil },
		Stream: func(kind string, ss grpc.ServerStream) error {
			var got []*hx.Msg
			for {
				m := &hx.Msg{}
				err := ss.RecvMsg(m)
				if err == io.EOF {
					break
				}
				if err != nil {
					return err
				}
				got = append(got, m)
			}
			switch kind {
			case "CS":
				out := &hx.Msg{Count: int32(len(got))}
				if len(got) > 0 {
					out.Payload = got[len(got)-1].Payload
				}
				return ss.SendMsg(out)
			case "SS":
				if len(got) == 1 {
					for i := int32(0); i < got[0].Count; i++ {
						if err := ss.SendMsg(&hx.Msg{Count: i, Payload: got[0].Payload}); err != nil {
							return err
						}
					}
				}
				return nil
			default:
				for _, m := range got {
					if err := ss.SendMsg(m); err != nil {
						return err
					}
				}
				return nil
			}
		},
	}
}

type transportT struct {
	name string
	ch   grpc.ClientConnInterface
	stop func()
}

func bothTransports(svc *hx.Svc) []transportT {
	ipc := &inprocgrpc.Channel{}
	ipc.RegisterService(hx.Desc(hx.SvcName), svc)
	hs := httpgrpc.NewServer()
	hs.RegisterService(hx.Desc(hx.SvcName), svc)
	ts := httptest.NewServer(hs)
	u, _ := url.Parse(ts.URL)
	return []transportT{
		{"inprocgrpc", ipc, func() {}},
		{"httpgrpc", &httpgrpc.Channel{Transport: &http.Transport{}, BaseURL: u}, ts.Close},
	}
}

// halfDuplex sends msgs, closes, and receives everything
func halfDuplex(ch grpc.ClientConnInterface, kind string, msgs []*hx.Msg) ([]*hx.Msg, error) {
	cs, err := ch.NewStream(context.Background(), hx.StreamDescOf(kind), "/verif.Svc/"+kind)
	if err != nil {
		return nil, err
	}
	defer runtime.KeepAlive(cs)
	for _, m := range msgs {
		if err := cs.SendMsg(m); err != nil {
			return nil, fmt.Errorf("send: %v", err)
		}
	}
	if err := cs.CloseSend(); err != nil {
		return nil, err
	}
	var out []*hx.Msg
	for {
		m := &hx.Msg{}
		err := cs.RecvMsg(m)
		if err == io.EOF {
			return out, nil
		}
		if err != nil {
			return out, err
		}
		out = append(out, m)
	}
}

func init() {
	runners["C01"] = func(o *hx.Out, r *hx.Rand, thorough bool) {
		o.Imports = "corr.C01"
		n := 90
		if thorough {
			n = 900
		}
		runStreamProfile(o, r, profile{name: "mixed", rounds: [2]int{4, 14}, cancel: 20, handlerEnd: 25, headers: 25, kinds: []string{"BD", "SS", "CS"}, returnCodes: []int64{0, 0, 5}}, n)
		// ---- the HTTP client stream against a scripted transport: deliveries, receives and the end of the context interleaved
		httpClientSchedules(o, r, n, "Http")
		// ---- message contents, both transports, all kinds (Go-side comparison with proto.Equal) ----
		unk := protowire.AppendVarint(protowire.AppendTag(nil, 77, protowire.VarintType), 5)
		anyv, _ := anypb.New(wrapperspb.String("in any"))
		big := 1 << 20
		if thorough {
			big = 8 << 20
		}
		contents := []*hx.Msg{
			{}, // zero-length encoding
			{Count: 1},
			{Payload: []byte{}},
			{Payload: []byte("x")},
			{Payload: r.Bytes(big)},
			{Headers: map[string][]byte{"a": []byte("1"), "": {}, "b-bin": {0, 255, 10}}, Trailers: map[string][]byte{"t": nil}},
			{ErrorDetails: []*anypb.Any{anyv, {TypeUrl: "x/y", Value: []byte{1, 2}}}},
			{Count: -1, Code: 2147483647, DelayMillis: -2147483648},
		}
		withUnknown := &hx.Msg{Count: 3}
		withUnknown.ProtoReflect().SetUnknown(unk)
		contents = append(contents, withUnknown)
		tr := bothTransports(echoSvc())
		// the in-process channel once more through each of the other cloner configurations: a message must
		// arrive intact (unknown fields, empty and nil values included) whichever way it is copied
		for _, cl := range []struct {
			name string
			c    inprocgrpc.Cloner
		}{
			{"inprocgrpc/codec-cloner", inprocgrpc.CodecCloner(encoding.GetCodec("proto"))},
			{"inprocgrpc/clone-func", inprocgrpc.CloneFunc(grpchan.VerifCloneMessage)},
			{"inprocgrpc/copy-func", inprocgrpc.CopyFunc(grpchan.VerifCopyMessage)},
		} {
			ipc := (&inprocgrpc.Channel{}).WithCloner(cl.c)
			ipc.RegisterService(hx.Desc(hx.SvcName), echoSvc())
			tr = append(tr, transportT{cl.name, ipc, func() {}})
		}
		id := 0
		for _, t := range tr {
			for ci, c := range contents {
				// unary
				out := &hx.Msg{Payload: []byte("stale content that must be overwritten")}
				err := t.ch.Invoke(context.Background(), "/verif.Svc/U", c, out)
				ok := err == nil && proto.Equal(c, out)
				d := map[string]interface{}{"transport": t.name, "kind": "unary", "content": ci, "error": fmt.Sprint(err)}
				if !ok {
					o.Violate("a unary message did not arrive equal to the one sent", d, fmt.Sprint(err), nil)
				}
				id++
				goChecked(o, "content_unary_"+t.name, id, ok, d)
				// streams: the message surrounded by others, including empty ones
				seq := []*hx.Msg{{Count: 100}, c, {}, c, {Count: 101}}
				got, err := halfDuplex(t.ch, "BD", seq)
				ok = err == nil && len(got) == len(seq)
				for i := 0; ok && i < len(seq); i++ {
					ok = proto.Equal(seq[i], got[i])
				}
				d = map[string]interface{}{"transport": t.name, "kind": "bidi half-duplex", "content": ci, "sent": len(seq), "received": len(got), "error": fmt.Sprint(err)}
				if !ok {
					o.Violate("a stream did not deliver exactly the messages sent, in order", d, fmt.Sprint(err), nil)
				}
				id++
				goChecked(o, "content_stream_"+t.name, id, ok, d)
			}
			// counts: 0..n requests on CS and BD, 0..n responses on SS
			for _, k := range []int{0, 1, 2, 5, 17} {
				var seq []*hx.Msg
				for i := 0; i < k; i++ {
					seq = append(seq, &hx.Msg{Count: int32(i), Payload: r.Bytes(r.Intn(20))})
				}
				got, err := halfDuplex(t.ch, "BD", seq)
				ok := err == nil && len(got) == k
				for i := 0; ok && i < k; i++ {
					ok = proto.Equal(seq[i], got[i])
				}
				id++
				goChecked(o, "count_bidi_"+t.name, id, ok, map[string]interface{}{"transport": t.name, "kind": "BD", "messages": k, "error": fmt.Sprint(err)})
				if !ok {
					o.Violate("bidi stream lost, duplicated or reordered messages", map[string]interface{}{"transport": t.name, "messages": k}, fmt.Sprint(err), nil)
				}
				got, err = halfDuplex(t.ch, "CS", seq)
				ok = err == nil && len(got) == 1 && int(got[0].Count) == k
				id++
				goChecked(o, "count_client_stream_"+t.name, id, ok, map[string]interface{}{"transport": t.name, "kind": "CS", "messages": k, "error": fmt.Sprint(err)})
				if !ok {
					o.Violate("client stream: the handler did not see every request exactly once", map[string]interface{}{"transport": t.name, "messages": k}, fmt.Sprint(err), nil)
				}
				got, err = halfDuplex(t.ch, "SS", []*hx.Msg{{Count: int32(k), Payload: []byte("p")}})
				ok = err == nil && len(got) == k
				for i := 0; ok && i < k; i++ {
					ok = int(got[i].Count) == i
				}
				id++
				goChecked(o, "count_server_stream_"+t.name, id, ok, map[string]interface{}{"transport": t.name, "kind": "SS", "messages": k, "error": fmt.Sprint(err)})
				if !ok {
					o.Violate("server stream lost, duplicated or reordered messages", map[string]interface{}{"transport": t.name, "messages": k}, fmt.Sprint(err), nil)
				}
			}
			// a handler that reuses one message value for every receive must still see each message as sent
			// (Unmarshal/Copy must overwrite, an empty message included)
			// ---- isolation: concurrent RPCs on one channel never see each other's messages ----
			for _, conc := range []int{2, 8} {
				var wg sync.WaitGroup
				okAll := true
				var mu sync.Mutex
				for c := 0; c < conc; c++ {
					wg.Add(1)
					go func(c int) {
						defer wg.Done()
						var seq []*hx.Msg
						for i := 0; i < 12; i++ {
							seq = append(seq, &hx.Msg{Count: int32(c*1000 + i)})
						}
						got, err := halfDuplex(t.ch, "BD", seq)
						ok := err == nil && len(got) == len(seq)
						for i := 0; ok && i < len(seq); i++ {
							ok = got[i].Count == seq[i].Count
						}
						out := &hx.Msg{}
						if e := t.ch.Invoke(context.Background(), "/verif.Svc/U", &hx.Msg{Count: int32(c)}, out); e != nil || out.Count != int32(c) {
							ok = false
						}
						mu.Lock()
						okAll = okAll && ok
						mu.Unlock()
					}(c)
				}
				wg.Wait()
				id++
				d := map[string]interface{}{"transport": t.name, "concurrent_rpcs": conc}
				if !okAll {
					o.Violate("concurrent RPCs on one channel observed each other's messages (or lost some)", d, nil, nil)
				}
				goChecked(o, "isolation_"+t.name, id, okAll, d)
			}
			t.stop()
		}
		// a unary reply that ends early is never delivered as a (shorter) message
		truncatedUnaryRepliesTo(o, goChecked)
		// a unary request larger than the transport's message limit, with a field boundary exactly at the
		// limit: the handler sees the whole message or the call fails; it never sees a clean prefix of it
		hugeUnaryRequest(o, &id)
		// a server-side receiver that reuses one message value across receives
		reuse := &hx.Svc{Stream: func(kind string, ss grpc.ServerStream) error {
			m := &hx.Msg{}
			var seen []*hx.Msg
			for {
				err := ss.RecvMsg(m)
				if err == io.EOF {
					break
				}
				if err != nil {
					return err
				}
				seen = append(seen, proto.Clone(m).(*hx.Msg))
			}
			for _, x := range seen {
				if err := ss.SendMsg(x); err != nil {
					return err
				}
			}
			return nil
		}}
		for _, t := range bothTransports(reuse) {
			seq := []*hx.Msg{{Count: 1, Payload: []byte("one")}, {}, {Count: 3, Headers: map[string][]byte{"k": []byte("v")}}, {}, {Payload: []byte("five")}}
			got, err := halfDuplex(t.ch, "BD", seq)
			ok := err == nil && len(got) == len(seq)
			for i := 0; ok && i < len(seq); i++ {
				ok = proto.Equal(seq[i], got[i])
			}
			id++
			d := map[string]interface{}{"transport": t.name, "receiver": "reuses one message value for every RecvMsg", "error": fmt.Sprint(err)}
			if !ok {
				o.Violate("a receive into a reused message value did not yield the message sent (previous content survived)", d, nil, nil)
			}
			goChecked(o, "reused_destination_"+t.name, id, ok, d)
			// client side as well: RecvMsg into the same value
			cs, err := t.ch.NewStream(context.Background(), hx.StreamDescOf("BD"), "/verif.Svc/BD")
			ok = err == nil
			if ok {
				for _, m := range seq {
					cs.SendMsg(m)
				}
				cs.CloseSend()
				m := &hx.Msg{}
				for i := 0; ok && i < len(seq); i++ {
					ok = cs.RecvMsg(m) == nil && proto.Equal(m, seq[i])
				}
				runtime.KeepAlive(cs)
			}
			id++
			if !ok {
				o.Violate("client RecvMsg into a reused message value did not yield the message sent", d, nil, nil)
			}
			goChecked(o, "reused_destination_client_"+t.name, id, ok, d)
			t.stop()
		}
		// a receiver that is behind when the call's context ends never sees a clean end of stream short of
		// the complete sequence
		cancelledBehind(o, &id)
		// the same bytes delivered in small pieces (a re-chunking proxy, a slow connection) decode to the same messages
		fragmentedDelivery(o, r, &id)
		lostReplies(o, &id)
		abandonedThenNext(o, &id)
		replyAsYouGo(o, &id, goChecked)
		emptyUnaryReply(o, &id)
		largeStreamedMessages(o, &id)
		o.Shard = 30
	}
}

// cancelledBehind: a server stream of n messages; the client receives k, the context ends (cancel or deadline)
// while further responses are already on their way, and the client goes on receiving: it gets more messages of
// the sequence, in order, or a status error -- never io.EOF before all n
func cancelledBehind(o *hx.Out, id *int) {
	const n = 5
	svc := &hx.Svc{Stream: func(kind string, ss grpc.ServerStream) error {
		ss.RecvMsg(&hx.Msg{})
		for i := 0; i < n; i++ {
			if err := ss.SendMsg(&hx.Msg{Count: int32(i)}); err != nil {
				return err
			}
		}
		return nil
	}}
	for _, t := range bothTransports(svc) {
		for _, deadline := range []bool{false, true} {
			for k := 0; k <= 2; k++ {
				ctx, cancel := context.WithCancel(context.Background())
				if deadline {
					cancel()
					ctx, cancel = context.WithTimeout(context.Background(), 150*time.Millisecond)
				}
				got, fin := 0, error(nil)
				inOrder := true
				cs, err := t.ch.NewStream(ctx, hx.StreamDescOf("SS"), "/verif.Svc/SS")
				if err == nil {
					cs.SendMsg(&hx.Msg{})
					cs.CloseSend()
					recv := func() bool {
						m := &hx.Msg{}
						if fin = cs.RecvMsg(m); fin != nil {
							return false
						}
						inOrder = inOrder && int(m.Count) == got
						got++
						return true
					}
					for i := 0; i < k && recv(); i++ {
					}
					time.Sleep(30 * time.Millisecond) // the rest of the reply arrives; the receiver is behind
					if deadline {
						<-ctx.Done()
					} else {
						cancel()
					}
					time.Sleep(30 * time.Millisecond)
					for fin == nil && recv() {
					}
					runtime.KeepAlive(cs)
				} else {
					fin = err
				}
				cancel()
				ok := inOrder && (fin != io.EOF || got == n)
				*id++
				d := map[string]interface{}{"transport": t.name, "kind": "SS", "handler_sends": n, "received_before_the_context_ended": k, "deadline": deadline,
					"received_in_all": got, "in_order": inOrder, "final": fmt.Sprint(fin)}
				if !ok {
					o.Violate("a stream whose context ended while the receiver was behind ended cleanly (io.EOF) short of the complete sequence", d, got, n)
				}
				goChecked(o, "cancelled_behind_"+t.name, *id, ok, d)
			}
		}
		t.stop()
	}
}

// pieces makes every Read return at most n bytes
type pieces struct {
	r io.ReadCloser
	n int
}

func (p pieces) Read(b []byte) (int, error) {
	if len(b) > p.n {
		b = b[:p.n]
	}
	return p.r.Read(b)
}
func (p pieces) Close() error { return p.r.Close() }

type piecesRT struct {
	inner http.RoundTripper
	n     int
}

func (p piecesRT) RoundTrip(rq *http.Request) (*http.Response, error) {
	resp, err := p.inner.RoundTrip(rq)
	if err == nil {
		resp.Body = pieces{resp.Body, p.n}
	}
	return resp, err
}

func fragmentedDelivery(o *hx.Out, r *hx.Rand, id *int) {
	hs := httpgrpc.NewServer()
	hs.RegisterService(hx.Desc(hx.SvcName), echoSvc())
	for _, n := range []int{1, 3, 7} {
		ts := httptest.NewServer(http.HandlerFunc(func(w http.ResponseWriter, rq *http.Request) {
			rq.Body = pieces{rq.Body, n}
			hs.ServeHTTP(w, rq)
		}))
		u, _ := url.Parse(ts.URL)
		ch := &httpgrpc.Channel{Transport: piecesRT{&http.Transport{}, n}, BaseURL: u}
		// sizes chosen so that large frames are followed by smaller large ones and by small ones
		seq := []*hx.Msg{{Count: 1}, {}, {Payload: r.Bytes(9000)}, {Payload: r.Bytes(5000)}, {Payload: r.Bytes(4200)}, {Count: 6, Payload: r.Bytes(300)}, {}, {Count: 8}}
		for _, kind := range []string{"BD", "CS"} {
			got, err := halfDuplex(ch, kind, seq)
			ok := err == nil
			if kind == "BD" {
				ok = ok && len(got) == len(seq)
				for i := 0; ok && i < len(seq); i++ {
					ok = proto.Equal(seq[i], got[i])
				}
			} else {
				ok = ok && len(got) == 1 && int(got[0].Count) == len(seq) && proto.Equal(&hx.Msg{Payload: got[0].Payload}, &hx.Msg{Payload: seq[len(seq)-1].Payload})
			}
			*id++
			d := map[string]interface{}{"transport": "httpgrpc", "kind": kind, "bytes_per_read_at_most": n, "messages": len(seq), "received": len(got), "error": fmt.Sprint(err)}
			if !ok {
				o.Violate("the same well-formed bytes delivered in small pieces did not decode to the messages sent", d, len(got), len(seq))
			}
			goChecked(o, "fragmented_"+kind, *id, ok, d)
		}
		out := &hx.Msg{}
		in := &hx.Msg{Count: 5, Payload: r.Bytes(6000)}
		err := ch.Invoke(context.Background(), "/verif.Svc/U", in, out)
		*id++
		goChecked(o, "fragmented_unary", *id, err == nil && proto.Equal(in, out), map[string]interface{}{"transport": "httpgrpc", "kind": "unary", "bytes_per_read_at_most": n, "error": fmt.Sprint(err)})
		ts.Close()
	}
	// whole reads, large frames followed by smaller large frames (buffer reuse in a decoder must not run past a frame)
	for _, t := range bothTransports(echoSvc()) {
		seq := []*hx.Msg{{Payload: r.Bytes(20000)}, {Payload: r.Bytes(9000)}, {Payload: r.Bytes(5000)}, {Payload: r.Bytes(4100)}, {Payload: r.Bytes(100)}, {Count: 9}}
		got, err := halfDuplex(t.ch, "BD", seq)
		ok := err == nil && len(got) == len(seq)
		for i := 0; ok && i < len(seq); i++ {
			ok = proto.Equal(seq[i], got[i])
		}
		*id++
		d := map[string]interface{}{"transport": t.name, "kind": "BD", "sizes": "20000, 9000, 5000, 4100, 100, small", "received": len(got), "error": fmt.Sprint(err)}
		if !ok {
			o.Violate("shrinking large messages were not delivered as sent", d, len(got), len(seq))
		}
		goChecked(o, "shrinking_"+t.name, *id, ok, d)
		t.stop()
	}
}

func hugeUnaryRequest(o *hx.Out, id *int) {
	type seenT struct {
		payload, count, headers int
	}
	var seen *seenT
	svc := &hx.Svc{Unary: func(ctx context.Context, req *hx.Msg) (*hx.Msg, error) {
		seen = &seenT{len(req.Payload), int(req.Count), len(req.Headers)}
		return &hx.Msg{Count: req.Count}, nil
	}}
	for _, t := range bothTransports(svc) {
		// encoding: tag(1) + 4-byte length + payload, then count, then one header entry
		for _, over := range []int{0} {
			n := httpgrpc.VerifMaxMessageSize - 5 + over
			req := &hx.Msg{Payload: make([]byte, n), Count: 77, Headers: map[string][]byte{"after-the-limit": []byte("x")}}
			seen = nil
			out := &hx.Msg{}
			err := t.ch.Invoke(context.Background(), "/verif.Svc/U", req, out)
			ok := err != nil || (seen != nil && seen.payload == n && seen.count == 77 && seen.headers == 1 && out.Count == 77)
			d := map[string]interface{}{"transport": t.name, "kind": "unary request above the message limit, field boundary at the limit", "payload_bytes": n,
				"encoded_bytes": proto.Size(req), "error": fmt.Sprint(err), "handler_saw": fmt.Sprintf("%+v", seen)}
			if !ok {
				o.Violate("the handler received a truncated unary request and the call succeeded", d, fmt.Sprintf("%+v", seen), "the whole message or an error")
			}
			*id++
			goChecked(o, "huge_unary_"+t.name, *id, ok, d)
		}
		t.stop()
	}
}

// faultRT lets the request reach the real server (so the handler runs and the reply is produced) and then
// loses the reply: the caller of RoundTrip sees the kind of error a connection that died at that moment gives
type faultRT struct {
	inner http.RoundTripper
	err   error
	left  int32 // how many replies to lose
}

func (f *faultRT) RoundTrip(rq *http.Request) (*http.Response, error) {
	resp, err := f.inner.RoundTrip(rq)
	if err != nil {
		return resp, err
	}
	if atomic.AddInt32(&f.left, -1) >= 0 {
		io.Copy(io.Discard, resp.Body)
		resp.Body.Close()
		return nil, f.err
	}
	return resp, nil
}

// lostReplies: one RPC hands its request messages to the handler at most once, also when the connection is
// lost after the handler ran and before the reply reached the client; the call then fails, and the channel
// stays usable (the next RPC is again delivered once)
func lostReplies(o *hx.Out, id *int) {
	faults := []struct {
		name string
		err  error
	}{
		{"EOF", io.EOF},
		{"unexpected EOF", io.ErrUnexpectedEOF},
		{"connection reset", &net.OpError{Op: "read", Net: "tcp", Err: syscall.ECONNRESET}},
		{"broken pipe", &net.OpError{Op: "write", Net: "tcp", Err: syscall.EPIPE}},
		{"server closed idle connection", fmt.Errorf("http: server closed idle connection")},
	}
	for _, f := range faults {
		for _, kind := range []string{"unary", "CS", "BD"} {
			var mu sync.Mutex
			var seen []int32
			svc := &hx.Svc{
				Unary: func(ctx context.Context, req *hx.Msg) (*hx.Msg, error) {
					mu.Lock()
					seen = append(seen, req.Count)
					mu.Unlock()
					return &hx.Msg{Count: req.Count}, nil
				},
				Stream: func(k string, ss grpc.ServerStream) error {
					n := int32(0)
					for {
						m := &hx.Msg{}
						if err := ss.RecvMsg(m); err != nil {
							break
						}
						mu.Lock()
						seen = append(seen, m.Count)
						mu.Unlock()
						n++
					}
					return ss.SendMsg(&hx.Msg{Count: n})
				},
			}
			hs := httpgrpc.NewServer()
			hs.RegisterService(hx.Desc(hx.SvcName), svc)
			ts := httptest.NewServer(hs)
			u, _ := url.Parse(ts.URL)
			base := &http.Transport{}
			ch := &httpgrpc.Channel{Transport: &faultRT{inner: base, err: f.err, left: 1}, BaseURL: u}
			call := func(first int32) error {
				ctx, cancel := context.WithTimeout(context.Background(), 5*time.Second)
				defer cancel()
				if kind == "unary" {
					return ch.Invoke(ctx, "/verif.Svc/U", &hx.Msg{Count: first}, &hx.Msg{})
				}
				cs, err := ch.NewStream(ctx, hx.StreamDescOf(kind), "/verif.Svc/"+kind)
				if err != nil {
					return err
				}
				for i := int32(0); i < 2; i++ {
					if err := cs.SendMsg(&hx.Msg{Count: first + i}); err != nil {
						break
					}
				}
				cs.CloseSend()
				err = cs.RecvMsg(&hx.Msg{})
				if err == nil && kind == "BD" {
					err = cs.RecvMsg(&hx.Msg{})
					if err == io.EOF {
						err = nil
					}
				}
				return err
			}
			err1 := call(100)
			mu.Lock()
			after1 := append([]int32(nil), seen...)
			mu.Unlock()
			err2 := call(200)
			mu.Lock()
			after2 := append([]int32(nil), seen...)
			mu.Unlock()
			want1, want2 := []int32{100}, []int32{100, 200}
			if kind != "unary" {
				want1, want2 = []int32{100, 101}, []int32{100, 101, 200, 201}
			}
			ok := err1 != nil && err2 == nil && fmt.Sprint(after1) == fmt.Sprint(want1) && fmt.Sprint(after2) == fmt.Sprint(want2)
			d := map[string]interface{}{"transport": "httpgrpc", "kind": kind, "fault": "the reply is lost after the handler ran: " + f.name,
				"first_call": fmt.Sprint(err1), "handler_saw_after_first_call": fmt.Sprint(after1), "second_call": fmt.Sprint(err2), "handler_saw_after_second_call": fmt.Sprint(after2)}
			if !ok {
				o.Violate("a request message was handed to the handler more than once (or the call whose reply was lost reported success, or the channel was left unusable)", d, fmt.Sprint(after2), nil)
			}
			*id++
			goChecked(o, "lost_reply_"+kind, *id, ok, d)
			ts.Close()
			base.CloseIdleConnections()
		}
	}
}

// gatedReply is a unary reply body that hands out its first part at once and the rest when released
type gatedReply struct {
	first, rest []byte
	release     chan struct{}
	state       int
}

func (g *gatedReply) Read(p []byte) (int, error) {
	switch {
	case len(g.first) > 0:
		n := copy(p, g.first)
		g.first = g.first[n:]
		return n, nil
	case g.state == 0:
		g.state = 1
		<-g.release
		fallthrough
	case len(g.rest) > 0:
		n := copy(p, g.rest)
		g.rest = g.rest[n:]
		return n, nil
	}
	return 0, io.EOF
}
func (g *gatedReply) Close() error { return nil }

type gatedReplyRT struct{ bodies chan *gatedReply }

func (t gatedReplyRT) RoundTrip(rq *http.Request) (*http.Response, error) {
	if rq.Body != nil {
		io.Copy(io.Discard, rq.Body)
		rq.Body.Close()
	}
	h := http.Header{}
	h.Set("Content-Type", httpgrpc.UnaryRpcContentType_V1)
	return &http.Response{StatusCode: 200, Status: "200 OK", Proto: "HTTP/1.1", ProtoMajor: 1, ProtoMinor: 1, Header: h, ContentLength: -1, Body: <-t.bodies, Request: rq}, nil
}

// abandonedThenNext: a unary call abandoned by its caller (deadline) while its reply is still on its way must
// leave nothing behind that a LATER call could receive: the later call's message arrives exactly once, intact,
// also when the caller reuses its response object and when the abandoned call's reply turns up meanwhile
func abandonedThenNext(o *hx.Out, id *int) {
	// in-process: the abandoned call's handler answers after the next call has completed into the same object
	for rounds := 0; rounds < 3; rounds++ {
		release := make(chan struct{})
		finished := make(chan struct{}, 4)
		ipc := &inprocgrpc.Channel{}
		ipc.RegisterService(hx.Desc(hx.SvcName), &hx.Svc{Unary: func(ctx context.Context, req *hx.Msg) (*hx.Msg, error) {
			defer func() { finished <- struct{}{} }()
			if req.Count == 1 {
				<-release
				return &hx.Msg{Count: 111, Payload: []byte("answer to the abandoned call")}, nil
			}
			return &hx.Msg{Count: 222, Payload: []byte("answer to the second call")}, nil
		}})
		resp := &hx.Msg{}
		ctx, cancel := context.WithTimeout(context.Background(), 30*time.Millisecond)
		e1 := ipc.Invoke(ctx, "/verif.Svc/U", &hx.Msg{Count: 1}, resp)
		cancel()
		e2 := ipc.Invoke(context.Background(), "/verif.Svc/U", &hx.Msg{Count: 2}, resp)
		<-finished
		want := proto.Clone(resp)
		close(release)
		select {
		case <-finished:
		case <-time.After(time.Second):
		}
		time.Sleep(20 * time.Millisecond)
		ok := e1 != nil && e2 == nil && want.(*hx.Msg).Count == 222 && proto.Equal(resp, want)
		d := map[string]interface{}{"transport": "inprocgrpc", "kind": "unary", "scenario": "call 1 times out while its handler runs; call 2 succeeds into the same response object; then call 1's handler returns",
			"first_call": fmt.Sprint(e1), "second_call": fmt.Sprint(e2), "response_after_second_call": want.(*hx.Msg).Count, "response_at_the_end": resp.Count}
		if !ok {
			o.Violate("the message a unary call delivered was replaced by the answer to an earlier, abandoned call", d, resp.Count, 222)
		}
		*id++
		goChecked(o, "abandoned_then_next_inprocgrpc", *id, ok, d)
	}
	// HTTP, scripted transport: the abandoned call's reply body turns up while the next call reads its own
	mA, _ := proto.Marshal(&hx.Msg{Count: 111, Payload: bytes.Repeat([]byte("A"), 3000)})
	mB, _ := proto.Marshal(&hx.Msg{Count: 222, Payload: bytes.Repeat([]byte("B"), 5000)})
	for rounds := 0; rounds < 6; rounds++ {
		runtime.GC()
		runtime.GC()
		bodies := make(chan *gatedReply, 2)
		r1 := &gatedReply{first: append([]byte{}, mA[:10]...), rest: append([]byte{}, mA[10:]...), release: make(chan struct{})}
		r2 := &gatedReply{first: append([]byte{}, mB[:2000]...), rest: append([]byte{}, mB[2000:]...), release: make(chan struct{})}
		bodies <- r1
		bodies <- r2
		base, _ := url.Parse("http://scripted.invalid/")
		ch := &httpgrpc.Channel{BaseURL: base, Transport: gatedReplyRT{bodies}}
		ctx, cancel := context.WithTimeout(context.Background(), 30*time.Millisecond)
		e1 := ch.Invoke(ctx, "/verif.Svc/U", &hx.Msg{Count: 1}, &hx.Msg{})
		cancel()
		go func() {
			time.Sleep(20 * time.Millisecond) // call 2 is in the middle of its body
			close(r1.release)                 // the rest of the abandoned reply turns up
			time.Sleep(20 * time.Millisecond)
			close(r2.release)
		}()
		out := &hx.Msg{}
		e2 := ch.Invoke(context.Background(), "/verif.Svc/U", &hx.Msg{Count: 2}, out)
		ok := e1 != nil && e2 == nil && proto.Equal(out, &hx.Msg{Count: 222, Payload: bytes.Repeat([]byte("B"), 5000)})
		d := map[string]interface{}{"transport": "httpgrpc (scripted RoundTripper)", "kind": "unary", "scenario": "call 1's deadline passes after 10 bytes of its reply; the rest arrives while call 2 is reading its own reply",
			"first_call": fmt.Sprint(e1), "second_call": fmt.Sprint(e2), "second_call_received_count": out.Count, "second_call_received_payload_bytes": len(out.Payload)}
		if !ok {
			o.Violate("a unary call received something other than its own reply after an earlier call was abandoned", d, out.Count, 222)
		}
		*id++
		goChecked(o, "abandoned_then_next_httpgrpc", *id, ok, d)
	}
}

// replyAsYouGo: a bidi handler that answers each request as it arrives, over a real HTTP/1.1 connection, against
// a half-duplex client (send everything, CloseSend, then receive).  net/http closes the request body when the
// handler first writes, discarding what was not read: the call must then FAIL (as the package documents), or
// deliver everything; it must never end successfully with the handler having been given only some of the requests.
func replyAsYouGo(o *hx.Out, id *int, emit func(*hx.Out, string, int, bool, map[string]interface{})) {
	for _, n := range []int{2, 5, 9} {
		var handlerGot int32
		svc := &hx.Svc{Stream: func(kind string, ss grpc.ServerStream) error {
			for {
				m := &hx.Msg{}
				if err := ss.RecvMsg(m); err != nil {
					if err == io.EOF {
						return nil
					}
					return err
				}
				atomic.AddInt32(&handlerGot, 1)
				if err := ss.SendMsg(&hx.Msg{Count: m.Count}); err != nil {
					return err
				}
			}
		}}
		hs := httpgrpc.NewServer()
		hs.RegisterService(hx.Desc(hx.SvcName), svc)
		ts := httptest.NewServer(hs)
		u, _ := url.Parse(ts.URL)
		ch := &httpgrpc.Channel{Transport: &http.Transport{}, BaseURL: u}
		ctx, cancel := context.WithTimeout(context.Background(), 5*time.Second)
		var seq []*hx.Msg
		for i := 1; i <= n; i++ {
			seq = append(seq, &hx.Msg{Count: int32(i), Payload: bytes.Repeat([]byte{byte(i)}, 200)})
		}
		got, err := halfDuplexCtx(ctx, ch, "BD", seq)
		cancel()
		ts.Close()
		hg := int(atomic.LoadInt32(&handlerGot))
		ok := err != nil || (len(got) == n && hg == n)
		d := map[string]interface{}{"transport": "httpgrpc over a real connection", "kind": "BD, handler replies to each request as it arrives, client sends all then receives",
			"requests_sent": n, "handler_received": hg, "replies_received": len(got), "call_result": fmt.Sprint(err)}
		if !ok {
			o.Violate("a call ended successfully although the handler was given only some of the request messages", d, hg, n)
		}
		*id++
		emit(o, "reply_as_you_go", *id, ok, d)
	}
}

func halfDuplexCtx(ctx context.Context, ch grpc.ClientConnInterface, kind string, msgs []*hx.Msg) ([]*hx.Msg, error) {
	cs, err := ch.NewStream(ctx, hx.StreamDescOf(kind), "/verif.Svc/"+kind)
	if err != nil {
		return nil, err
	}
	defer runtime.KeepAlive(cs)
	for _, m := range msgs {
		if err := cs.SendMsg(m); err != nil {
			break
		}
	}
	cs.CloseSend()
	var got []*hx.Msg
	for {
		m := &hx.Msg{}
		err := cs.RecvMsg(m)
		if err == io.EOF {
			return got, nil
		}
		if err != nil {
			return got, err
		}
		got = append(got, m)
	}
}

// emptyUnaryReply: a unary handler that answers a NON-empty request with a message whose encoding is empty (an
// acknowledgement with nothing set): the caller receives exactly that -- an empty message, not anything else
func emptyUnaryReply(o *hx.Out, id *int) {
	svc := &hx.Svc{Unary: func(ctx context.Context, req *hx.Msg) (*hx.Msg, error) { return &hx.Msg{}, nil }}
	for _, t := range bothTransports(svc) {
		out := &hx.Msg{}
		err := t.ch.Invoke(context.Background(), "/verif.Svc/U", &hx.Msg{Count: 41, Payload: []byte("a request with content")}, out)
		ok := err == nil && proto.Equal(out, &hx.Msg{})
		d := map[string]interface{}{"transport": t.name, "kind": "unary", "request": "count 41 and a payload", "handler_returns": "a message with nothing set", "received": out.String(), "error": fmt.Sprint(err)}
		if !ok {
			o.Violate("a unary call whose reply has an empty encoding delivered something else", d, out.String(), "")
		}
		*id++
		goChecked(o, "empty_unary_reply_"+t.name, *id, ok, d)
		t.stop()
	}
}

// largeStreamedMessages: several LARGE messages in a row (200-280 KB, each with its own content) in both directions
// of a stream: each is received equal to the one sent
func largeStreamedMessages(o *hx.Out, id *int) {
	mk := func(i int) *hx.Msg {
		b := make([]byte, 200_000+((7*i)%5)*15_000) // sizes go up and down
		for j := range b {
			b[j] = byte(i*31 + j*7 + 1)
		}
		return &hx.Msg{Count: int32(i), Payload: b}
	}
	const n = 10
	var handlerBad int32
	svc := &hx.Svc{Stream: func(kind string, ss grpc.ServerStream) error {
		i := 0
		for {
			m := &hx.Msg{}
			if err := ss.RecvMsg(m); err != nil {
				break
			}
			if !proto.Equal(m, mk(i)) {
				atomic.AddInt32(&handlerBad, 1)
			}
			i++
		}
		for j := 0; j < n; j++ {
			if err := ss.SendMsg(mk(j)); err != nil {
				return err
			}
		}
		return nil
	}}
	for _, t := range bothTransports(svc) {
		rounds := 40
		if t.name == "inprocgrpc" {
			rounds = 4
		}
		for round := 0; round < rounds; round++ {
			atomic.StoreInt32(&handlerBad, 0)
			ctx, cancel := context.WithTimeout(context.Background(), 10*time.Second)
			cs, err := t.ch.NewStream(ctx, hx.StreamDescOf("BD"), "/verif.Svc/BD")
			bad := ""
			got := 0
			if err == nil {
				for i := 0; i < n; i++ {
					cs.SendMsg(mk(i))
				}
				cs.CloseSend()
				for {
					m := &hx.Msg{}
					if e := cs.RecvMsg(m); e != nil {
						if e != io.EOF {
							bad += " final: " + e.Error()
						}
						break
					}
					if !proto.Equal(m, mk(got)) && bad == "" {
						bad += fmt.Sprintf(" response %d arrived with count %d, %d payload bytes, first byte %#x", got, m.Count, len(m.Payload), firstByte(m.Payload))
					}
					got++
				}
				runtime.KeepAlive(cs)
			} else {
				bad = err.Error()
			}
			cancel()
			hb := atomic.LoadInt32(&handlerBad)
			ok := bad == "" && got == n && hb == 0
			d := map[string]interface{}{"transport": t.name, "kind": "BD, ten messages of 200-280 KB each way, each with its own content", "responses_received": got, "first_wrong_response": bad, "requests_the_handler_found_changed": hb}
			if !ok {
				o.Violate("a large streamed message was not received equal to the one sent", d, bad, "")
			}
			*id++
			goChecked(o, "large_streamed_messages_"+t.name, *id, ok, d)
		}
		t.stop()
	}
}

func firstByte(b []byte) byte {
	if len(b) == 0 {
		return 0
	}
	return b[0]
}
