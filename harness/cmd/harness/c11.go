package main

import (
	"bytes"
	"context"
	"encoding/base64"
	"encoding/binary"
	"fmt"
	"io"
	"math"
	"mime"
	"net/http"
	"net/http/httptest"
	"strconv"
	"strings"

	"google.golang.org/grpc"
	"google.golang.org/grpc/codes"
	"google.golang.org/grpc/status"
	"google.golang.org/protobuf/encoding/protojson"
	"google.golang.org/protobuf/proto"

	"github.com/fullstorydev/grpchan/httpgrpc"
	"verifharness/hx"
)

func init() { runners["C11"] = runC11 }

func runC11(o *hx.Out, r *hx.Rand, thorough bool) {
	calls := 0
	var hcode int64
	nsend := 0
	svc := &hx.Svc{
		Unary: func(ctx context.Context, req *hx.Msg) (*hx.Msg, error) {
			calls++
			if hcode != 0 {
				return nil, status.Error(codes.Code(hcode), "scripted")
			}
			return &hx.Msg{Count: req.Count}, nil
		},
		Stream: func(kind string, ss grpc.ServerStream) error {
			calls++
			for i := 0; i < nsend; i++ {
				if err := ss.SendMsg(&hx.Msg{Count: int32(i)}); err != nil {
					return err
				}
			}
			if hcode != 0 {
				return status.Error(codes.Code(hcode), "scripted")
			}
			return nil
		},
	}
	desc := hx.Desc(hx.SvcName)
	hu := httpgrpc.HandleMethod(svc, hx.SvcName, &desc.Methods[0], nil)
	streamH := map[string]http.HandlerFunc{}
	for i := range desc.Streams {
		streamH[desc.Streams[i].StreamName] = httpgrpc.HandleStream(svc, hx.SvcName, &desc.Streams[i], nil)
	}
	server := httpgrpc.NewServer()
	server.RegisterService(desc, svc)

	methods := []string{"POST", "POST", "POST", "POST", "GET", "PUT", "post", "DELETE", "OPTIONS", "HEAD", "PATCH"}
	ctypes := []string{
		httpgrpc.UnaryRpcContentType_V1, httpgrpc.StreamRpcContentType_V1, httpgrpc.ApplicationJson,
		httpgrpc.UnaryRpcContentType_V1, httpgrpc.StreamRpcContentType_V1, httpgrpc.ApplicationJson,
		"application/x-protobuf; charset=utf-8", "APPLICATION/JSON", "Application/X-Protobuf", "application/json;charset=UTF-8",
		"application/x-httpgrpc-proto+v1; q=1", "application/x-httpgrpc-proto+v2", "application/grpc", "text/plain", "", "garbage", "application/json; =bad",
		"application/x-protobuf;", " application/json", "application/jsonx", "application/x-protobuf, application/json",
	}
	pb, _ := proto.Marshal(&hx.Msg{Count: 7, Payload: []byte("p")})
	bodies := [][]byte{pb, pb, pb, {}, {0xff, 0xff, 0xff}, []byte(`{"count": 7}`), []byte(`{"count": 7, "unknownField": 1}`), []byte(`{"count": "x"}`), []byte(`{`), []byte("garbage"), {0x08}}
	n := 500
	if thorough {
		n = 6000
	}
	// the last seven iterations are written out (see below); the generator's state is put back afterwards so
	// that what follows sees the same inputs as before they were added
	const nForced = 7
	var savedRand hx.Rand
	for it := 0; it < n+nForced; it++ {
		if it == n {
			savedRand = *r
		}
		method := methods[r.Intn(len(methods))]
		ct := ctypes[r.Intn(len(ctypes))]
		body := bodies[r.Intn(len(bodies))]
		hcode = 0
		if r.Chance(40) {
			hcode = int64(r.Range(1, 16))
			if it%7 == 3 {
				// grpc-go passes codes outside the seventeen defined ones through untouched
				// (chosen without drawing from the generator, so that the other inputs stay what they were)
				hcode = []int64{17, 42, 99, 1000}[(it/7)%4]
			}
		}
		hdr := http.Header{}
		binOK := true
		// the first iterations replay a fixed corpus of header sets on otherwise valid requests
		corpus := []http.Header{
			{"Grpc-Timeout": {""}}, {"Grpc-Timeout": {"", "5S"}}, {"Grpc-Timeout": {"S"}}, {"Grpc-Timeout": {"1"}},
			{"A-Bin": {"!!!"}, "B-Bin": {"YQ=="}, "C-Bin": {"YWI="}, "D-Bin": {"YWJj"}, "E-Bin": {""}},
			{"A-Bin": {"YQ=="}, "Zz-Bin": {"abc"}}, {"X-Data-Bin": {"YQ==", "!!!"}}, {"X-Data-Bin": {"!!!", "YQ=="}},
			{"Content-Length": {"3"}}, {"Te": {"trailers"}}, {"X-Plain": {"\xff\xfe"}},
		}
		if it < 4*len(corpus) {
			method, body = "POST", pb
			ct = []string{httpgrpc.UnaryRpcContentType_V1, httpgrpc.StreamRpcContentType_V1, httpgrpc.ApplicationJson, httpgrpc.StreamRpcContentType_V1}[it%4]
			if it%4 == 2 {
				body = []byte(`{"count": 7}`)
			}
		}
		binKeys := []string{"X-Data-Bin", "Trace-Bin", "A-Bin", "Zz-Bin", "x-other-bin"}
		nh := r.Intn(6)
		if it < 4*len(corpus) {
			nh = 0
			hdr = corpus[it/4].Clone()
		}
		for k := nh; k > 0; k-- {
			switch r.Intn(5) {
			case 0:
				hdr.Add(r.Pick(binKeys), base64.URLEncoding.EncodeToString(r.Bytes(r.Range(0, 5))))
			case 1:
				hdr.Add(r.Pick(binKeys), r.Pick([]string{"!!!", "abc", "YQ", "YQ==x", "+/+/"}))
			case 2:
				hdr.Add("X-Plain", "value")
			case 3:
				hdr.Add("Grpc-Timeout", r.Pick([]string{"", "abc", "5", "-1S", "999999999999999999999H", "10S", "H"}))
			default:
				hdr.Add("Authorization", "Bearer x")
			}
		}
		forcedStream := -1
		if k := it - n; k >= 0 {
			// a JSON (and a protobuf) unary request whose body has no bytes at all; streaming requests whose
			// GRPC-Timeout has expired by the time the handler returns (the reply still ends in its trailer)
			method, hdr = "POST", http.Header{}
			switch {
			case k < 3:
				ct, body, forcedStream = []string{httpgrpc.ApplicationJson, "APPLICATION/JSON", "application/json;charset=UTF-8"}[k], []byte{}, 0
			case k == 3:
				ct, body, forcedStream = httpgrpc.UnaryRpcContentType_V1, []byte{}, 0
			default:
				ct, body, forcedStream = httpgrpc.StreamRpcContentType_V1, pb, 1
				hdr.Set("Grpc-Timeout", []string{"1n", "1u", "0m"}[k-4])
			}
		}
		for k, vs := range hdr {
			if strings.HasSuffix(strings.ToLower(k), "-bin") {
				for _, v := range vs {
					if _, err := base64.URLEncoding.DecodeString(v); err != nil {
						binOK = false
					}
				}
			}
		}
		if ct != "" || r.Bool() {
			hdr.Set("Content-Type", ct)
		}
		media, _, _ := mime.ParseMediaType(hdr.Get("Content-Type"))
		stream := r.Chance(40)
		if forcedStream >= 0 {
			stream = forcedStream == 1
		}
		mk := func(path string) (*httptest.ResponseRecorder, bool) {
			req := httptest.NewRequest("POST", path, bytes.NewReader(body))
			req.Method = method
			req.Header = hdr.Clone()
			rec := httptest.NewRecorder()
			calls = 0
			panicked := false
			func() {
				defer func() {
					if recover() != nil {
						panicked = true
					}
				}()
				if stream {
					kind := strings.TrimPrefix(path, "/verif.Svc/")
					streamH[kind](rec, req)
				} else {
					hu(rec, req)
				}
			}()
			return rec, panicked
		}
		reqTerm := func(bodyOK bool) string {
			return fmt.Sprintf("{| is_post := %s; media := %s; bin_ok := %s; body_ok := %s |}", hx.B(method == "POST"), hx.Str(media), hx.B(binOK), hx.B(bodyOK))
		}
		d := map[string]interface{}{"method": method, "content-type": ct, "headers": hdr, "body": string(body), "handler_code": hcode}
		o.Begin(d)
		if !stream {
			bodyOK := false
			switch media {
			case httpgrpc.UnaryRpcContentType_V1:
				bodyOK = proto.Unmarshal(body, new(hx.Msg)) == nil
			case httpgrpc.ApplicationJson:
				bodyOK = protojson.UnmarshalOptions{DiscardUnknown: true}.Unmarshal(body, new(hx.Msg)) == nil
			}
			rec, panicked := mk("/verif.Svc/U")
			gc := "None"
			if v := rec.Header().Get("X-GRPC-Status"); v != "" {
				if c, err := strconv.Atoi(strings.SplitN(v, ":", 2)[0]); err == nil {
					gc = fmt.Sprintf("(Some %d)", c)
				}
			}
			echo := rec.Code == 200 && rec.Header().Get("Content-Type") == hdr.Get("Content-Type")
			d["status"], d["user_calls"], d["x-grpc-status"] = rec.Code, calls, rec.Header().Get("X-GRPC-Status")
			if panicked {
				o.Violate("unary HTTP handler panicked", d, "panic", nil)
			}
			o.Case("unary", fmt.Sprintf("UReq %s %d {| u_status := %d; u_allow_post := %s; u_user_calls := %d; u_grpc_code := %s; u_echo_ctype := %s |} %s",
				reqTerm(bodyOK), hcode, rec.Code, hx.B(strings.Contains(rec.Header().Get("Allow"), "POST")), calls, gc, hx.B(echo), hx.B(panicked)), d)
		} else {
			kind := r.Pick([]string{"CS", "SS", "BD"})
			nsend = r.Intn(4)
			rec, panicked := mk("/verif.Svc/" + kind)
			// walk the reply frames
			b := rec.Body.Bytes()
			nd, nt := 0, 0
			tl := false
			tc := int64(-1)
			for pos := 0; pos+4 <= len(b); {
				sz := int32(binary.BigEndian.Uint32(b[pos:]))
				pos += 4
				if sz < 0 {
					nt++
					end := pos + int(-sz)
					if end > len(b) {
						break
					}
					var tr httpgrpc.HttpTrailer
					if proto.Unmarshal(b[pos:end], &tr) == nil {
						tc = int64(tr.Code)
					}
					pos = end
					tl = pos == len(b)
				} else {
					nd++
					pos += int(sz)
					tl = false
				}
			}
			if rec.Code != 200 {
				nd, nt, tl, tc = 0, 0, false, -1
			}
			d["kind"], d["nsend"], d["status"], d["user_calls"], d["data_frames"], d["trailer_frames"] = kind, nsend, rec.Code, calls, nd, nt
			if panicked {
				o.Violate("streaming HTTP handler panicked", d, "panic", nil)
			}
			o.Case("stream_"+kind, fmt.Sprintf("SReq %s %d %d %d %s %d %d %d %s %s %s",
				reqTerm(false), nsend, hcode, rec.Code, hx.B(strings.Contains(rec.Header().Get("Allow"), "POST")), calls, nd, nt, hx.B(tl), hx.Z(tc), hx.B(panicked)), d)
		}
	}
	*r = savedRand
	// streaming request bodies, frame by frame: a handler that reads its requests to the end sees exactly the
	// well-formed messages before the first malformed frame, and a malformed frame (undecodable payload, payload
	// shorter than its size preface, size preface cut short) ends the call with a non-OK status
	{
		seen := 0
		var rerr error
		reader := &hx.Svc{Stream: func(kind string, ss grpc.ServerStream) error {
			for {
				m := &hx.Msg{}
				if err := ss.RecvMsg(m); err != nil {
					if err == io.EOF {
						return nil
					}
					rerr = err
					return err
				}
				seen++
			}
		}}
		rdesc := hx.Desc(hx.SvcName)
		frameOf := func(p []byte) []byte {
			b := make([]byte, 4)
			binary.BigEndian.PutUint32(b, uint32(len(p)))
			return append(b, p...)
		}
		good := [][]byte{pb, {}, pb}
		type tailT struct {
			name string
			b    []byte
			ok   bool
		}
		big, _ := proto.Marshal(&hx.Msg{Count: 9, Payload: []byte("123456789")})
		tails := []tailT{
			{"nothing (clean end)", nil, true},
			{"one more good frame", frameOf(pb), true},
			{"undecodable payload", frameOf([]byte{0xff, 0xff, 0xff}), false},
			{"payload two bytes short of its size", frameOf(big)[:4+len(big)-2], false},
			{"payload cut at a field boundary", frameOf(big)[:4+2], false},
			{"size preface only, no payload", frameOf(big)[:4], false},
			{"half a size preface", frameOf(big)[:2], false},
		}
		for _, kind := range []string{"BD", "CS"} {
			var sd *grpc.StreamDesc
			for i := range rdesc.Streams {
				if rdesc.Streams[i].StreamName == kind {
					sd = &rdesc.Streams[i]
				}
			}
			h := httpgrpc.HandleStream(reader, hx.SvcName, sd, nil)
			for ngood := 0; ngood <= 3; ngood++ {
				for _, tl := range tails {
					var body []byte
					for i := 0; i < ngood; i++ {
						body = append(body, frameOf(good[i])...)
					}
					body = append(body, tl.b...)
					want := ngood
					if tl.name == "one more good frame" {
						want++
					}
					seen, rerr = 0, nil
					req := httptest.NewRequest("POST", "/verif.Svc/"+kind, bytes.NewReader(body))
					req.Header.Set("Content-Type", httpgrpc.StreamRpcContentType_V1)
					rec := httptest.NewRecorder()
					h(rec, req)
					// the trailer's code
					tc := int64(-1)
					b := rec.Body.Bytes()
					for pos := 0; pos+4 <= len(b); {
						sz := int32(binary.BigEndian.Uint32(b[pos:]))
						pos += 4
						if sz < 0 {
							var tr httpgrpc.HttpTrailer
							if pos+int(-sz) <= len(b) && proto.Unmarshal(b[pos:pos+int(-sz)], &tr) == nil {
								tc = int64(tr.Code)
							}
							break
						}
						pos += int(sz)
					}
					d := map[string]interface{}{"kind": kind, "good_frames": ngood, "then": tl.name, "handler_received": seen, "handler_receive_error": fmt.Sprint(rerr), "status": rec.Code, "trailer_code": tc}
					if tl.ok != (tc == 0) {
						o.Violate("a streaming request body and the status the call ended with do not agree", d, tc, map[bool]string{true: "OK", false: "a non-OK status"}[tl.ok])
					}
					o.Case("stream_body_"+kind, fmt.Sprintf("SBody %s %d %d %d %s", hx.B(tl.ok), want, seen, rec.Code, hx.Z(tc)), d)
				}
			}
		}
	}
	// a declared Content-Length far beyond the body that follows (the peer controls that number): no panic, no
	// handler call, an error status
	for _, cl := range []int64{1 << 62, math.MaxInt64} {
		for _, ct := range []string{httpgrpc.UnaryRpcContentType_V1, httpgrpc.ApplicationJson} {
			req := httptest.NewRequest("POST", "/verif.Svc/U", bytes.NewReader(pb))
			req.Header.Set("Content-Type", ct)
			req.ContentLength = cl
			rec := httptest.NewRecorder()
			calls, hcode = 0, 0
			o.Begin(map[string]interface{}{"content_type": ct, "declared_content_length": cl, "body_bytes": len(pb)})
			panicked := ""
			func() {
				defer func() {
					if p := recover(); p != nil {
						panicked = fmt.Sprint(p)
					}
				}()
				hu(rec, req)
			}()
			// (handed over by httptest the body simply ends after its five bytes, which decode: the handler may run)
			ok := panicked == "" && ((calls == 1 && rec.Code == 200) || (calls == 0 && rec.Code >= 400))
			d := map[string]interface{}{"content_type": ct, "declared_content_length": cl, "body_bytes": len(pb), "status": rec.Code, "user_calls": calls, "panic": panicked}
			if !ok {
				o.Violate("a request whose declared length exceeds its body made the server panic (or answered inconsistently)", d, panicked, nil)
			}
			o.Case("declared_length_beyond_body", fmt.Sprintf("GoSide %s %s", hx.Str("declared length beyond body"), hx.B(ok)), d)
		}
	}
	// a server with a base path: names outside it are unknown, whatever else they look like
	{
		bsrv := httpgrpc.NewServer(httpgrpc.WithBasePath("/api/v1/"))
		bsrv.RegisterService(desc, svc)
		for _, p := range []string{"/verif.Svc/U", "/verif.Svc/BD", "/verif.Svc/SS", "/api/verif.Svc/U", "/v1/verif.Svc/U", "/api/v1verif.Svc/U", "/api/v2/verif.Svc/U"} {
			for _, ct := range []string{httpgrpc.UnaryRpcContentType_V1, httpgrpc.StreamRpcContentType_V1} {
				req := httptest.NewRequest("POST", p, bytes.NewReader(pb))
				req.Header.Set("Content-Type", ct)
				rec := httptest.NewRecorder()
				calls = 0
				bsrv.ServeHTTP(rec, req)
				o.Case("outside_base_path", fmt.Sprintf("NotFoundCase %d %d", rec.Code, calls), map[string]interface{}{"server_base_path": "/api/v1/", "path": p, "content_type": ct, "status": rec.Code, "user_calls": calls})
			}
		}
		// control: inside the base path the handler runs
		req := httptest.NewRequest("POST", "/api/v1/verif.Svc/U", bytes.NewReader(pb))
		req.Header.Set("Content-Type", httpgrpc.UnaryRpcContentType_V1)
		rec := httptest.NewRecorder()
		calls, hcode = 0, 0
		bsrv.ServeHTTP(rec, req)
		if rec.Code != 200 || calls != 1 {
			o.Violate("a server with a base path did not serve a registered method under it", map[string]interface{}{"path": "/api/v1/verif.Svc/U", "status": rec.Code, "user_calls": calls}, rec.Code, 200)
		}
	}
	// two JSON unary calls whose replies overlap: the second request is served from inside the first
	// reply's Write (as a concurrent request would be between encoding and writing); each caller must get
	// its own reply, in JSON as in protobuf
	for _, ct := range []string{httpgrpc.ApplicationJson, httpgrpc.UnaryRpcContentType_V1} {
		mk := func(count int32) *http.Request {
			var body []byte
			if ct == httpgrpc.ApplicationJson {
				body = []byte(fmt.Sprintf(`{"count": %d, "payload": "%s"}`, count, base64.StdEncoding.EncodeToString(bytes.Repeat([]byte{byte(count)}, int(count)))))
			} else {
				body, _ = proto.Marshal(&hx.Msg{Count: count})
			}
			rq := httptest.NewRequest("POST", "/verif.Svc/U", bytes.NewReader(body))
			rq.Header.Set("Content-Type", ct)
			return rq
		}
		decode := func(b []byte) int32 {
			m := &hx.Msg{}
			if ct == httpgrpc.ApplicationJson {
				if protojson.Unmarshal(b, m) != nil {
					return -1
				}
			} else if proto.Unmarshal(b, m) != nil {
				return -1
			}
			return m.Count
		}
		hcode = 0
		inner := httptest.NewRecorder()
		outer := &nestingWriter{ResponseRecorder: httptest.NewRecorder(), nested: func() { hu(inner, mk(200)) }}
		hu(outer, mk(3))
		got1, got2 := decode(outer.Body.Bytes()), decode(inner.Body.Bytes())
		ok := outer.Code == 200 && inner.Code == 200 && got1 == 3 && got2 == 200
		d := map[string]interface{}{"content_type": ct, "first_reply_count": got1, "second_reply_count": got2, "first_status": outer.Code, "second_status": inner.Code,
			"scenario": "the second request is handled while the first reply is being written"}
		if !ok {
			o.Violate("overlapping unary calls did not each get their own reply", d, []int32{got1, got2}, []int32{3, 200})
		}
		o.Case("overlapping_replies", fmt.Sprintf("GoSide %s %s", hx.Str("overlapping replies, "+ct), hx.B(ok)), d)
	}
	// a service whose message types implement only the ORIGINAL protobuf Go API (Reset/String/ProtoMessage, fields
	// described by struct tags: older protoc-gen-go, gogo/protobuf, hand-written): its JSON-encoded request is
	// handled exactly like its protobuf-encoded one
	{
		var saw []int32
		ld := &grpc.ServiceDesc{ServiceName: "legacy.Svc", HandlerType: (*interface{})(nil), Methods: []grpc.MethodDesc{{MethodName: "U",
			Handler: func(srv interface{}, ctx context.Context, dec func(interface{}) error, _ grpc.UnaryServerInterceptor) (interface{}, error) {
				in := &legacyMsg{}
				if err := dec(in); err != nil {
					return nil, err
				}
				saw = append(saw, in.Count)
				return &legacyMsg{Count: in.Count + 1}, nil
			}}}}
		lh := httpgrpc.HandleMethod(struct{}{}, "legacy.Svc", &ld.Methods[0], nil)
		type reply struct {
			code int
			body string
		}
		var got []reply
		for _, rq := range []struct{ ct, body string }{{httpgrpc.UnaryRpcContentType_V1, "\x08\x05"}, {httpgrpc.ApplicationJson, `{"count":5}`}} {
			rec := httptest.NewRecorder()
			hr, _ := http.NewRequest("POST", "/legacy.Svc/U", strings.NewReader(rq.body))
			hr.Header.Set("Content-Type", rq.ct)
			func() {
				defer func() {
					if p := recover(); p != nil {
						rec.Code = -1
					}
				}()
				lh(rec, hr)
			}()
			got = append(got, reply{rec.Code, rec.Body.String()})
		}
		ok := fmt.Sprint(saw) == "[5 5]" && got[0].code == 200 && got[1].code == 200 && got[0].body == "\x08\x06" && strings.Contains(strings.ReplaceAll(got[1].body, " ", ""), `"count":6`)
		d := map[string]interface{}{"scenario": "messages of the original (APIv1) protobuf Go API; the same request as protobuf and as JSON", "handler_saw_counts": saw,
			"protobuf_status": got[0].code, "json_status": got[1].code, "json_reply": got[1].body}
		if !ok {
			o.Violate("a JSON-encoded unary request was not handled like its protobuf encoding", d, fmt.Sprint(got), "200 for both, the handler given count 5 twice")
		}
		o.Case("legacy_messages_json", fmt.Sprintf("GoSide %s %s", hx.Str("APIv1 messages, JSON like protobuf"), hx.B(ok)), d)
	}
	// unknown paths through the server's mux
	for _, p := range []string{"/", "/verif.Svc", "/verif.Svc/", "/verif.Svc/Nope", "/other.Svc/U", "/verif.Svc/U/x", "/verif.svc/u"} {
		req := httptest.NewRequest("POST", p, bytes.NewReader(pb))
		req.Header.Set("Content-Type", httpgrpc.UnaryRpcContentType_V1)
		rec := httptest.NewRecorder()
		calls = 0
		server.ServeHTTP(rec, req)
		o.Case("unknown_path", fmt.Sprintf("NotFoundCase %d %d", rec.Code, calls), map[string]interface{}{"path": p, "status": rec.Code, "user_calls": calls})
	}
	o.Shard = 200
}

// nestingWriter runs nested() once, at the first Write, before the bytes are written
type nestingWriter struct {
	*httptest.ResponseRecorder
	nested func()
	done   bool
}

func (w *nestingWriter) Write(b []byte) (int, error) {
	if !w.done {
		w.done = true
		w.nested()
	}
	return w.ResponseRecorder.Write(b)
}

// legacyMsg implements only the original protobuf Go API
type legacyMsg struct {
	Count int32 `protobuf:"varint,1,opt,name=count,proto3" json:"count,omitempty"`
}

func (m *legacyMsg) Reset()         { *m = legacyMsg{} }
func (m *legacyMsg) String() string { return fmt.Sprintf("count:%d", m.Count) }
func (*legacyMsg) ProtoMessage()    {}
