package main

import (
	"context"
	"fmt"
	"io"
	"net/http"
	"net/http/httptest"
	"net/url"
	"reflect"
	"runtime"
	"strings"
	"sync"

	"google.golang.org/grpc"
	"google.golang.org/grpc/codes"
	"google.golang.org/grpc/status"

	"github.com/fullstorydev/grpchan"
	"github.com/fullstorydev/grpchan/httpgrpc"
	"github.com/fullstorydev/grpchan/inprocgrpc"
	"verifharness/hx"
)

func init() { runners["C16"] = runC16 }

type ctxKeyT struct{}

func ctxVal(ctx context.Context) int64 {
	v, _ := ctx.Value(ctxKeyT{}).(int64)
	return v
}
func withVal(ctx context.Context, v int64) context.Context {
	return context.WithValue(ctx, ctxKeyT{}, v)
}

type script struct{ Tag, DReq, DCtx, Calls, DResp, Fail int64 }

func (s script) coq() string {
	return fmt.Sprintf("{| sc_tag := %d; sc_dreq := %s; sc_dctx := %s; sc_calls := %d; sc_dresp := %s; sc_fail := %d |}",
		s.Tag, hx.Z(s.DReq), hx.Z(s.DCtx), s.Calls, hx.Z(s.DResp), s.Fail)
}

type evlog struct {
	mu sync.Mutex
	ev []string
}

func (l *evlog) add(s string) { l.mu.Lock(); l.ev = append(l.ev, s); l.mu.Unlock() }
func (l *evlog) take() []string {
	l.mu.Lock()
	defer l.mu.Unlock()
	out := l.ev
	l.ev = nil
	return out
}

func infoTerm(method string, cs, ss bool) string {
	return fmt.Sprintf("{| i_method := %s; i_cs := %s; i_ss := %s |}", hx.Str(method), hx.B(cs), hx.B(ss))
}

func (s script) unary(l *evlog) grpc.UnaryServerInterceptor {
	return func(ctx context.Context, req interface{}, info *grpc.UnaryServerInfo, handler grpc.UnaryHandler) (interface{}, error) {
		m := req.(*hx.Msg)
		c := ctxVal(ctx)
		l.add(fmt.Sprintf("Enter %d %s %s %s", s.Tag, infoTerm(info.FullMethod, false, false), hx.Z(c), hx.Z(int64(m.Count))))
		if s.Calls == 0 {
			l.add(fmt.Sprintf("Leave %d", s.Tag))
			if s.Fail != 0 {
				return nil, status.Error(codes.Code(s.Fail), "scripted")
			}
			return &hx.Msg{Count: int32(s.DResp)}, nil
		}
		ctx2, req2 := ctx, req
		if s.DCtx != 0 {
			ctx2 = withVal(ctx, c+s.DCtx)
		}
		if s.DReq != 0 {
			req2 = &hx.Msg{Count: m.Count + int32(s.DReq)}
		}
		resp, err := handler(ctx2, req2)
		if s.Calls == 2 {
			resp, err = handler(ctx2, req2)
		}
		l.add(fmt.Sprintf("Leave %d", s.Tag))
		if s.Fail != 0 {
			return nil, status.Error(codes.Code(s.Fail), "scripted")
		}
		if err != nil {
			return nil, err
		}
		if s.DResp != 0 {
			return &hx.Msg{Count: resp.(*hx.Msg).Count + int32(s.DResp)}, nil
		}
		return resp, nil
	}
}

type ctxStream struct {
	grpc.ServerStream
	ctx context.Context
}

func (c ctxStream) Context() context.Context { return c.ctx }

func (s script) stream(l *evlog) grpc.StreamServerInterceptor {
	return func(srv interface{}, ss grpc.ServerStream, info *grpc.StreamServerInfo, handler grpc.StreamHandler) error {
		c := ctxVal(ss.Context())
		l.add(fmt.Sprintf("Enter %d %s %s 0", s.Tag, infoTerm(info.FullMethod, info.IsClientStream, info.IsServerStream), hx.Z(c)))
		if s.Calls == 0 {
			l.add(fmt.Sprintf("Leave %d", s.Tag))
			if s.Fail != 0 {
				return status.Error(codes.Code(s.Fail), "scripted")
			}
			return nil
		}
		ss2 := ss
		if s.DCtx != 0 {
			ss2 = ctxStream{ss, withVal(ss.Context(), c+s.DCtx)}
		}
		err := handler(srv, ss2)
		if s.Calls == 2 {
			err = handler(srv, ss2)
		}
		l.add(fmt.Sprintf("Leave %d", s.Tag))
		if s.Fail != 0 {
			return status.Error(codes.Code(s.Fail), "scripted")
		}
		return err
	}
}

func outcomeTerm(resp *hx.Msg, err error) string {
	if err == context.Canceled {
		return "(Err (-3))" // the bare context error value, not a status
	}
	if err == context.DeadlineExceeded {
		return "(Err (-4))"
	}
	if err != nil {
		return fmt.Sprintf("(Err %d)", uint32(status.Code(err)))
	}
	return fmt.Sprintf("(Ok %s)", hx.Z(int64(resp.Count)))
}

// fakeSS is the stream a transport would hand to a stream handler
type fakeSS struct {
	grpc.ServerStream
	ctx context.Context
}

func (f fakeSS) Context() context.Context { return f.ctx }

type nullStream struct{ ctx context.Context }

func (n nullStream) SetHeader(map[string][]string) error { return nil }

func descSnapshot(d *grpc.ServiceDesc) string {
	var sb strings.Builder
	fmt.Fprintf(&sb, "%s|%v|%v|", d.ServiceName, d.HandlerType, d.Metadata)
	for _, m := range d.Methods {
		fmt.Fprintf(&sb, "%s@%x;", m.MethodName, reflect.ValueOf(m.Handler).Pointer())
	}
	for _, s := range d.Streams {
		fmt.Fprintf(&sb, "%s@%x/%v/%v;", s.StreamName, reflect.ValueOf(s.Handler).Pointer(), s.ClientStreams, s.ServerStreams)
	}
	return sb.String()
}

func runC16(o *hx.Out, r *hx.Rand, thorough bool) {
	l := &evlog{}
	streamRet := int64(0) // what the stream handler returns
	svc := &hx.Svc{
		Unary: func(ctx context.Context, req *hx.Msg) (*hx.Msg, error) {
			c := ctxVal(ctx)
			l.add(fmt.Sprintf("Handled \"U\" %s %s", hx.Z(c), hx.Z(int64(req.Count))))
			return &hx.Msg{Count: req.Count*2 + int32(c)}, nil
		},
		Stream: func(kind string, ss grpc.ServerStream) error {
			l.add(fmt.Sprintf("Handled %s %s 0", hx.Str(kind), hx.Z(ctxVal(ss.Context()))))
			switch {
			case streamRet == -3:
				return context.Canceled // the bare error value of some context
			case streamRet == -4:
				return context.DeadlineExceeded
			case streamRet > 0:
				return status.Error(codes.Code(streamRet), "handler failed")
			}
			return nil
		},
	}
	randScript := func(tag int64) script {
		s := script{Tag: tag, Calls: 1}
		if r.Chance(55) {
			return s // transparent
		}
		if r.Chance(40) {
			s.DReq = int64(r.Range(1, 9))
		}
		if r.Chance(40) {
			s.DCtx = int64(r.Range(1, 9)) * 100
		}
		if r.Chance(30) {
			s.DResp = int64(r.Range(1, 9)) * 1000
		}
		switch r.Intn(8) {
		case 0:
			s.Calls = 0
		case 1:
			s.Calls = 2
		}
		if r.Chance(15) {
			s.Fail = int64(r.Range(1, 16))
		}
		return s
	}
	optTerm := func(s *script) string {
		if s == nil {
			return "None"
		}
		return "(Some " + s.coq() + ")"
	}
	n := 60
	if thorough {
		n = 600
	}
	kinds := []string{"CS", "SS", "BD"}
	flags := map[string][2]bool{"CS": {true, false}, "SS": {false, true}, "BD": {true, true}}
	for it := 0; it < n; it++ {
		depth := r.Intn(4)
		var decor []script
		for i := 0; i < depth; i++ {
			decor = append(decor, randScript(int64(10+i)))
		}
		var transport *script
		if r.Chance(65) {
			t := randScript(1)
			transport = &t
		}
		var decTerms []string
		for _, d := range decor {
			decTerms = append(decTerms, d.coq())
		}
		req := int64(r.Range(1, 50))
		svcName := r.Pick([]string{"verif.Svc", "a.b.C", "X"})
		base := hx.Desc(svcName)
		before := descSnapshot(base)
		// decorate: innermost first; for streams use the same scripts
		du, ds := base, base
		for _, d := range decor {
			du = grpchan.InterceptServer(du, d.unary(l), nil)
			ds = grpchan.InterceptServer(ds, nil, d.stream(l))
		}
		both := base
		for _, d := range decor {
			both = grpchan.InterceptServer(both, d.unary(l), d.stream(l))
		}
		if len(decor) == 0 {
			if grpchan.InterceptServer(base, nil, nil) != base {
				o.Violate("InterceptServer with no interceptors did not return the original description", map[string]interface{}{"svc": svcName}, "different pointer", "same")
			}
		}
		var tu grpc.UnaryServerInterceptor
		var tst grpc.StreamServerInterceptor
		if transport != nil {
			tu, tst = transport.unary(l), transport.stream(l)
		}
		kind := kinds[r.Intn(3)]
		si := map[string]int{"CS": 0, "SS": 1, "BD": 2}[kind]

		// carrier 1: the decorated description called directly
		ctx0 := int64(r.Intn(3))
		l.take()
		resp, err := du.Methods[0].Handler(svc, withVal(context.Background(), ctx0), func(m interface{}) error { m.(*hx.Msg).Count = int32(req); return nil }, tu)
		var rm *hx.Msg
		if resp != nil {
			rm = resp.(*hx.Msg)
		}
		desc := map[string]interface{}{"carrier": "direct", "svc": svcName, "transport": transport, "decor_innermost_first": decor, "ctx": ctx0, "req": req}
		o.Case("unary_direct", fmt.Sprintf("UCase \"direct\" %s \"U\" %s %s %s %s %s %s", hx.Str(svcName), optTerm(transport), hx.List(decTerms), hx.Z(ctx0), hx.Z(req), outcomeTerm(rm, err), hx.List(l.take())), desc)
		if after := descSnapshot(base); after != before {
			o.Violate("InterceptServer modified the description it was given", desc, after, before)
		}
		// the SAME decorated description dispatched again by another carrier with its own (or no)
		// transport-level interceptor: nothing of the first dispatch may stick to it
		for rep := 0; rep < 2; rep++ {
			var transport2 *script
			var tu2 grpc.UnaryServerInterceptor
			if r.Chance(70) {
				t := randScript(int64(2 + rep))
				transport2, tu2 = &t, t.unary(l)
			}
			l.take()
			// the second of these dispatches runs under a context that has already ended: whether the handler runs
			// is decided by the interceptors calling onward, not by the state of the context
			dctx := withVal(context.Background(), ctx0)
			if rep == 1 {
				c, cancel := context.WithCancel(dctx)
				cancel()
				dctx = c
			}
			resp, err = du.Methods[0].Handler(svc, dctx, func(m interface{}) error { m.(*hx.Msg).Count = int32(req); return nil }, tu2)
			rm = nil
			if resp != nil {
				rm = resp.(*hx.Msg)
			}
			descb := map[string]interface{}{"carrier": "direct, dispatched again with another transport interceptor", "svc": svcName, "transport": transport2, "decor_innermost_first": decor, "ctx": ctx0, "req": req}
			o.Case("unary_direct_again", fmt.Sprintf("UCase \"direct\" %s \"U\" %s %s %s %s %s %s", hx.Str(svcName), optTerm(transport2), hx.List(decTerms), hx.Z(ctx0), hx.Z(req), outcomeTerm(rm, err), hx.List(l.take())), descb)
		}

		// carrier 2: registry decorated with WithInterceptor (outermost registry applies first = innermost)
		hm := grpchan.HandlerMap{}
		var reg grpc.ServiceRegistrar = hm
		// each registry view intercepts unary calls, streams or both
		masks := make([]int, len(decor))
		var decU, decS []string
		for i := range decor {
			masks[i] = r.Intn(3) // 0 both, 1 unary only, 2 stream only
			if masks[i] != 2 {
				decU = append(decU, decor[i].coq())
			}
			if masks[i] != 1 {
				decS = append(decS, decor[i].coq())
			}
		}
		for i := len(decor) - 1; i >= 0; i-- {
			var ui grpc.UnaryServerInterceptor
			var sti grpc.StreamServerInterceptor
			if masks[i] != 2 {
				ui = decor[i].unary(l)
			}
			if masks[i] != 1 {
				sti = decor[i].stream(l)
			}
			reg = grpchan.WithInterceptor(reg, ui, sti)
		}
		reg.RegisterService(base, svc)
		if after := descSnapshot(base); after != before {
			o.Violate("registering through WithInterceptor views modified the description it was given",
				map[string]interface{}{"carrier": "registry", "svc": svcName, "views_0both_1unary_2stream": masks}, after, before)
		}
		// ... and the caller's description still dispatches to the bare handler: no interceptor of the views runs
		l.take()
		if _, e0 := base.Methods[0].Handler(svc, withVal(context.Background(), 0), func(m interface{}) error { m.(*hx.Msg).Count = 1; return nil }, nil); e0 != nil || len(l.take()) != 1 {
			o.Violate("the caller's own description runs interceptors after it was registered through WithInterceptor views",
				map[string]interface{}{"carrier": "registry", "svc": svcName, "views_0both_1unary_2stream": masks}, fmt.Sprint(e0), "only the handler")
		}
		l.take()
		if e0 := base.Streams[si].Handler(svc, fakeSS{ctx: withVal(context.Background(), 0)}); e0 != nil || len(l.take()) != 1 {
			o.Violate("the caller's own description runs stream interceptors after it was registered through WithInterceptor views",
				map[string]interface{}{"carrier": "registry", "svc": svcName, "views_0both_1unary_2stream": masks, "stream": kind}, fmt.Sprint(e0), "only the handler")
		}
		rd, _ := hm.QueryService(svcName)
		l.take()
		resp, err = rd.Methods[0].Handler(svc, withVal(context.Background(), ctx0), func(m interface{}) error { m.(*hx.Msg).Count = int32(req); return nil }, tu)
		rm = nil
		if resp != nil {
			rm = resp.(*hx.Msg)
		}
		desc2 := map[string]interface{}{"carrier": "registry", "svc": svcName, "transport": transport, "decor_innermost_first": decor, "views_0both_1unary_2stream": masks, "ctx": ctx0, "req": req}
		// WithInterceptor(reg_k ... ) registers InterceptServer(desc, u_k) into the inner registry: decor[0] is applied first
		o.Case("unary_registry", fmt.Sprintf("UCase \"registry\" %s \"U\" %s %s %s %s %s %s", hx.Str(svcName), optTerm(transport), hx.List(decU), hx.Z(ctx0), hx.Z(req), outcomeTerm(rm, err), hx.List(l.take())), desc2)
		// a stream method of the same registered description, dispatched the way a transport does
		l.take()
		serr := rd.Streams[si].Handler(svc, fakeSS{ctx: withVal(context.Background(), ctx0)})
		desc2s := map[string]interface{}{"carrier": "registry", "svc": svcName, "stream": kind, "decor_innermost_first": decor, "views_0both_1unary_2stream": masks, "ctx": ctx0}
		o.Case("stream_registry", fmt.Sprintf("SCase \"registry\" %s %s %s %s None %s %s %s %s", hx.Str(svcName), hx.Str(kind), hx.B(flags[kind][0]), hx.B(flags[kind][1]),
			hx.List(decS), hx.Z(ctx0), outcomeTerm(&hx.Msg{}, serr), hx.List(l.take())), desc2s)
		// the same dispatch with a handler that fails, with a status or with a bare context error
		streamRet = []int64{-3, -4, 5, 14, -3}[r.Intn(5)]
		l.take()
		serr = rd.Streams[si].Handler(svc, fakeSS{ctx: withVal(context.Background(), ctx0)})
		desc2r := map[string]interface{}{"carrier": "registry", "svc": svcName, "stream": kind, "decor_innermost_first": decor, "views_0both_1unary_2stream": masks, "ctx": ctx0, "handler_returns": streamRet, "dispatcher_got": fmt.Sprint(serr)}
		o.Case("stream_registry_failing", fmt.Sprintf("SRet \"registry\" %s %s %s %s None %s %s %s %s %s", hx.Str(svcName), hx.Str(kind), hx.B(flags[kind][0]), hx.B(flags[kind][1]),
			hx.List(decS), hx.Z(ctx0), hx.Z(streamRet), outcomeTerm(&hx.Msg{}, serr), hx.List(l.take())), desc2r)
		streamRet = 0

		// carrier 3: in-process channel, transport-level interceptors on the channel
		ipc := &inprocgrpc.Channel{}
		// the channel's interceptors are those configured when the RPC is made: configured before the service
		// is registered, after it, or replacing others configured earlier
		order := it % 3
		if order == 1 {
			ipc.RegisterService(both, svc)
		}
		if order == 2 {
			ipc.WithServerUnaryInterceptor(func(ctx context.Context, req interface{}, info *grpc.UnaryServerInfo, h grpc.UnaryHandler) (interface{}, error) {
				l.add("(an interceptor that was replaced)")
				return h(ctx, req)
			})
			ipc.WithServerStreamInterceptor(func(srv interface{}, ss grpc.ServerStream, info *grpc.StreamServerInfo, h grpc.StreamHandler) error {
				l.add("(an interceptor that was replaced)")
				return h(srv, ss)
			})
			ipc.RegisterService(both, svc)
		}
		ipc.WithServerUnaryInterceptor(tu)
		ipc.WithServerStreamInterceptor(tst)
		if order == 0 {
			ipc.RegisterService(both, svc)
		}
		l.take()
		out := &hx.Msg{}
		err = ipc.Invoke(context.Background(), "/"+svcName+"/U", &hx.Msg{Count: int32(req)}, out)
		desc3 := map[string]interface{}{"carrier": "inprocgrpc", "svc": svcName, "transport": transport, "decor_innermost_first": decor, "req": req}
		o.Case("unary_inproc", fmt.Sprintf("UCase \"inproc\" %s \"U\" %s %s 0 %s %s %s", hx.Str(svcName), optTerm(transport), hx.List(decTerms), hx.Z(req), outcomeTerm(out, err), hx.List(l.take())), desc3)
		// stream through the in-process channel; the caller uses a generic bidi descriptor
		// (the in-process channel accepts a method name without its leading slash; interceptors are still told
		// the full method name)
		slash := "/"
		runStream := func(ch grpc.ClientConnInterface) error {
			cs, err := ch.NewStream(context.Background(), &grpc.StreamDesc{ClientStreams: true, ServerStreams: true}, slash+svcName+"/"+kind)
			if err != nil {
				return err
			}
			defer runtime.KeepAlive(cs)
			cs.CloseSend()
			for {
				err := cs.RecvMsg(&hx.Msg{})
				if err == io.EOF {
					return nil
				}
				if err != nil {
					return err
				}
			}
		}
		// another service on the same channel has streams of the same names (with other streaming flags) and is
		// called first: what the interceptor is told about THIS call is this call's method
		{
			od := &grpc.ServiceDesc{ServiceName: "other." + svcName, HandlerType: base.HandlerType}
			for _, sd := range base.Streams {
				od.Streams = append(od.Streams, grpc.StreamDesc{StreamName: sd.StreamName, ClientStreams: !sd.ClientStreams, ServerStreams: !sd.ServerStreams,
					Handler: func(srv interface{}, ss grpc.ServerStream) error { return nil }})
			}
			ipc.RegisterService(od, svc)
			if cs0, e0 := ipc.NewStream(context.Background(), &grpc.StreamDesc{ClientStreams: true, ServerStreams: true}, "/other."+svcName+"/"+kind); e0 == nil {
				cs0.CloseSend()
				for cs0.RecvMsg(&hx.Msg{}) == nil {
				}
				runtime.KeepAlive(cs0)
			}
			l.take()
		}
		if it%3 == 1 {
			slash = ""
		}
		err = runStream(ipc)
		desc4 := map[string]interface{}{"carrier": "inprocgrpc", "svc": svcName, "stream": kind, "transport": transport, "decor_innermost_first": decor, "method_name_given_without_leading_slash": slash == ""}
		slash = "/"
		o.Case("stream_inproc", fmt.Sprintf("SCase \"inproc\" %s %s %s %s %s %s 0 %s %s", hx.Str(svcName), hx.Str(kind), hx.B(flags[kind][0]), hx.B(flags[kind][1]),
			optTerm(transport), hx.List(decTerms), outcomeTerm(&hx.Msg{}, err), hx.List(l.take())), desc4)

		// carrier 4: HTTP server over loopback
		if it%3 == 0 || thorough {
			var opts []httpgrpc.ServerOption
			if tu != nil {
				opts = append(opts, httpgrpc.WithServerUnaryInterceptor(tu))
			}
			if tst != nil {
				opts = append(opts, httpgrpc.WithServerStreamInterceptor(tst))
			}
			// mounted under a base path or not: interceptors are told the method's name, never the URL path
			bp := r.Pick([]string{"", "/", "/foo/", "/api/v1", "/a/b/"})
			if bp != "" {
				opts = append(opts, httpgrpc.WithBasePath(bp))
			}
			// an error renderer among the options, before or after the interceptors: it decides how failures are
			// rendered and nothing else
			switch it % 4 {
			case 0:
				opts = append(opts, httpgrpc.ErrorRenderer(httpgrpc.DefaultErrorRenderer))
			case 2:
				opts = append([]httpgrpc.ServerOption{httpgrpc.ErrorRenderer(httpgrpc.DefaultErrorRenderer)}, opts...)
			}
			hs := httpgrpc.NewServer(opts...)
			hs.RegisterService(both, svc)
			ts := httptest.NewServer(hs)
			u, _ := url.Parse(ts.URL + bp)
			hc := &httpgrpc.Channel{Transport: &http.Transport{}, BaseURL: u}
			l.take()
			out := &hx.Msg{}
			err = hc.Invoke(context.Background(), "/"+svcName+"/U", &hx.Msg{Count: int32(req)}, out)
			desc5 := map[string]interface{}{"carrier": "httpgrpc", "base_path": bp, "svc": svcName, "transport": transport, "decor_innermost_first": decor, "req": req}
			o.Case("unary_http", fmt.Sprintf("UCase \"http\" %s \"U\" %s %s 0 %s %s %s", hx.Str(svcName), optTerm(transport), hx.List(decTerms), hx.Z(req), outcomeTerm(out, err), hx.List(l.take())), desc5)
			err = runStream(hc)
			desc6 := map[string]interface{}{"carrier": "httpgrpc", "base_path": bp, "svc": svcName, "stream": kind, "transport": transport, "decor_innermost_first": decor}
			o.Case("stream_http", fmt.Sprintf("SCase \"http\" %s %s %s %s %s %s 0 %s %s", hx.Str(svcName), hx.Str(kind), hx.B(flags[kind][0]), hx.B(flags[kind][1]),
				optTerm(transport), hx.List(decTerms), outcomeTerm(&hx.Msg{}, err), hx.List(l.take())), desc6)
			ts.Close()
		}
		_ = si
		_ = ds
	}
	o.Shard = 120
}
