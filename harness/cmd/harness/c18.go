package main

import (
	"bytes"
	"fmt"
	"reflect"
	"sync"
	"sync/atomic"

	protov1 "github.com/golang/protobuf/proto"
	"github.com/jhump/protoreflect/desc"
	"github.com/jhump/protoreflect/dynamic"
	"google.golang.org/grpc/encoding"
	_ "google.golang.org/grpc/encoding/proto"
	"google.golang.org/protobuf/encoding/protowire"
	"google.golang.org/protobuf/proto"
	"google.golang.org/protobuf/reflect/protoreflect"
	"google.golang.org/protobuf/types/known/anypb"
	"google.golang.org/protobuf/types/known/emptypb"
	"google.golang.org/protobuf/types/known/wrapperspb"

	"github.com/fullstorydev/grpchan"
	"github.com/fullstorydev/grpchan/httpgrpc"
	"github.com/fullstorydev/grpchan/inprocgrpc"
	"verifharness/hx"
)

func init() { runners["C18"] = runC18 }

type notProto struct{ X int }

func hasUnknown(m interface{}) bool {
	g := toGen(m)
	return g != nil && len(g.ProtoReflect().GetUnknown()) > 0
}

// toGen gives a generated-message view of a value (dynamic messages are converted)
func toGen(m interface{}) proto.Message {
	switch v := m.(type) {
	case *dynamic.Message:
		var out proto.Message
		if v == nil || v.GetMessageDescriptor() == nil {
			return nil // a dynamic message without a type: not a usable copy
		}
		switch v.GetMessageDescriptor().GetFullyQualifiedName() {
		case "grpchantesting.Message":
			out = &hx.Msg{}
		default:
			out = &httpgrpc.HttpTrailer{}
		}
		if err := v.ConvertTo(protov1.MessageV1(out)); err != nil {
			return nil
		}
		return out
	case proto.Message:
		return v
	}
	return nil
}

func snapshot(m interface{}) proto.Message {
	g := toGen(m)
	if g == nil {
		return nil
	}
	return proto.Clone(g)
}

func sameAs(m interface{}, snap proto.Message) bool {
	g := toGen(m)
	return g != nil && snap != nil && proto.Equal(g, snap)
}

// mutateInPlace changes every mutable part of a message through memory it owns
func mutateInPlace(m interface{}) {
	switch v := m.(type) {
	case *dynamic.Message:
		if v == nil || v.GetMessageDescriptor() == nil {
			return
		}
		for _, fd := range v.GetKnownFields() {
			if !v.HasField(fd) {
				continue
			}
			mutateDyn(v.GetField(fd))
			if fd.GetType().String() == "TYPE_INT32" {
				v.SetField(fd, int32(-77))
			}
		}
	case proto.Message:
		mutateRefl(v.ProtoReflect())
	}
}

func mutateDyn(x interface{}) {
	switch t := x.(type) {
	case []byte:
		if len(t) > 0 {
			t[0] ^= 0xff
		}
	case []interface{}:
		for _, e := range t {
			mutateDyn(e)
		}
		if len(t) > 0 {
			if _, ok := t[0].(string); ok {
				t[0] = "mutated"
			}
		}
	case map[interface{}]interface{}:
		for k, e := range t {
			mutateDyn(e)
			if _, ok := e.(string); ok {
				t[k] = "mutated"
			}
		}
	case *dynamic.Message:
		mutateInPlace(t)
	case proto.Message:
		mutateRefl(t.ProtoReflect())
	}
}

func mutateRefl(m protoreflect.Message) {
	if u := m.GetUnknown(); len(u) > 0 {
		u[len(u)-1] ^= 0x01
	}
	m.Range(func(fd protoreflect.FieldDescriptor, v protoreflect.Value) bool {
		switch {
		case fd.IsMap():
			mp := v.Map()
			mp.Range(func(k protoreflect.MapKey, e protoreflect.Value) bool {
				switch fd.MapValue().Kind() {
				case protoreflect.BytesKind:
					if b := e.Bytes(); len(b) > 0 {
						b[0] ^= 0xff
					} else {
						mp.Set(k, protoreflect.ValueOfBytes([]byte("mutated")))
					}
				case protoreflect.MessageKind:
					mutateRefl(e.Message())
				case protoreflect.StringKind:
					mp.Set(k, protoreflect.ValueOfString("mutated"))
				}
				return true
			})
			mp.Set(protoreflect.ValueOfString("added-by-mutation").MapKey(), mp.NewValue())
		case fd.IsList():
			l := v.List()
			for i := 0; i < l.Len(); i++ {
				switch fd.Kind() {
				case protoreflect.BytesKind:
					if b := l.Get(i).Bytes(); len(b) > 0 {
						b[0] ^= 0xff
					}
				case protoreflect.MessageKind:
					mutateRefl(l.Get(i).Message())
				case protoreflect.StringKind:
					l.Set(i, protoreflect.ValueOfString("mutated"))
				}
			}
		case fd.Kind() == protoreflect.BytesKind:
			if b := v.Bytes(); len(b) > 0 {
				b[0] ^= 0xff
			}
		case fd.Kind() == protoreflect.MessageKind:
			mutateRefl(v.Message())
		case fd.Kind() == protoreflect.StringKind:
			m.Set(fd, protoreflect.ValueOfString(v.String()+"-mutated"))
		case fd.Kind() == protoreflect.Int32Kind:
			m.Set(fd, protoreflect.ValueOfInt32(int32(v.Int())+1000))
		case fd.Kind() == protoreflect.Int64Kind:
			m.Set(fd, protoreflect.ValueOfInt64(v.Int()+1000))
		}
		return true
	})
}

func runC18(o *hx.Out, r *hx.Rand, thorough bool) {
	codec := encoding.GetCodec("proto")
	adapters := []struct {
		name string
		c    inprocgrpc.Cloner
	}{
		{"ProtoCloner", inprocgrpc.ProtoCloner{}},
		{"CodecCloner", inprocgrpc.CodecCloner(codec)},
		{"CloneFunc", inprocgrpc.CloneFunc(grpchan.VerifCloneMessage)},
		{"CopyFunc", inprocgrpc.CopyFunc(grpchan.VerifCopyMessage)},
	}
	msgDesc, _ := desc.LoadMessageDescriptorForMessage(protov1.MessageV1(&hx.Msg{}))
	trDesc, _ := desc.LoadMessageDescriptorForMessage(protov1.MessageV1(&httpgrpc.HttpTrailer{}))
	rb := func(lo, hi int) []byte { return r.Bytes(r.Range(lo, hi)) }
	unknown := func() []byte {
		b := protowire.AppendTag(nil, 99, protowire.VarintType)
		b = protowire.AppendVarint(b, uint64(r.Range(1, 1000)))
		b = protowire.AppendTag(b, 98, protowire.BytesType)
		return protowire.AppendBytes(b, rb(1, 6))
	}
	randAny := func() *anypb.Any {
		a, _ := anypb.New(wrapperspb.Bytes(rb(1, 8)))
		return a
	}
	randMsg := func() *hx.Msg {
		m := &hx.Msg{Payload: rb(1, 40), Count: int32(r.Range(1, 99)), Code: int32(r.Intn(17)), DelayMillis: int32(r.Intn(5))}
		if r.Chance(70) {
			m.Headers = map[string][]byte{}
			for k := r.Range(1, 3); k > 0; k-- {
				m.Headers[fmt.Sprintf("h%d", r.Intn(5))] = rb(1, 10)
			}
		}
		if r.Chance(50) {
			m.Trailers = map[string][]byte{"t": rb(1, 4)}
		}
		for k := r.Intn(3); k > 0; k-- {
			m.ErrorDetails = append(m.ErrorDetails, randAny())
		}
		if r.Chance(50) {
			m.ProtoReflect().SetUnknown(unknown())
		}
		return m
	}
	randTrailer := func() *httpgrpc.HttpTrailer {
		t := &httpgrpc.HttpTrailer{Code: int32(r.Intn(17)), Message: r.Pick([]string{"", "boom", "x: y"})}
		if r.Chance(70) {
			t.Metadata = map[string]*httpgrpc.TrailerValues{"k": {Values: []string{"a", "b"}}, "z-bin": {Values: []string{"v"}}}
		}
		for k := r.Intn(3); k > 0; k-- {
			t.Details = append(t.Details, randAny())
		}
		return t
	}
	// (type id, dynamic?) -> a populated value and a pre-populated (different) value of the same kind
	type maker struct {
		ty   int64
		dyn  bool
		name string
		mk   func() interface{}
	}
	asDyn := func(md *desc.MessageDescriptor, g proto.Message) interface{} {
		dm := dynamic.NewMessage(md)
		if err := dm.ConvertFrom(protov1.MessageV1(g)); err != nil {
			panic(err)
		}
		return dm
	}
	// the same message types described by descriptors built at run time (from a FileDescriptorProto, as a
	// parser, server reflection or a descriptor set gives them): distinct descriptor objects, same types
	rebuilt := func(md *desc.MessageDescriptor) *desc.MessageDescriptor {
		fd := md.GetFile()
		fd2, err := desc.CreateFileDescriptor(fd.AsFileDescriptorProto(), fd.GetDependencies()...)
		if err != nil {
			panic(err)
		}
		return fd2.FindMessage(md.GetFullyQualifiedName())
	}
	msgDescRT, trDescRT := rebuilt(msgDesc), rebuilt(trDesc)
	makers := []maker{
		{1, false, "grpchantesting.Message", func() interface{} { return randMsg() }},
		{2, false, "HttpTrailer", func() interface{} { return randTrailer() }},
		{3, false, "StringValue", func() interface{} {
			return wrapperspb.String(r.Pick([]string{"abc", "x", "hello world", "\u00e9t\u00e9"}))
		}},
		{4, false, "BytesValue", func() interface{} { return wrapperspb.Bytes(rb(1, 9)) }},
		{5, false, "Any", func() interface{} { return randAny() }},
		{6, false, "Empty+unknown", func() interface{} { e := &emptypb.Empty{}; e.ProtoReflect().SetUnknown(unknown()); return e }},
		{1, true, "dynamic grpchantesting.Message", func() interface{} { return asDyn(msgDesc, randMsg()) }},
		{2, true, "dynamic HttpTrailer", func() interface{} { return asDyn(trDesc, randTrailer()) }},
		{1, true, "dynamic grpchantesting.Message (descriptor built at run time)", func() interface{} { return asDyn(msgDescRT, randMsg()) }},
		{2, true, "dynamic HttpTrailer (descriptor built at run time)", func() interface{} { return asDyn(trDescRT, randTrailer()) }},
		// sources whose encoding has no bytes at all: copying one must still replace the destination
		{1, false, "grpchantesting.Message (all fields zero)", func() interface{} { return &hx.Msg{} }},
		{2, false, "HttpTrailer (all fields zero)", func() interface{} { return &httpgrpc.HttpTrailer{} }},
		{3, false, "StringValue (empty)", func() interface{} { return wrapperspb.String("") }},
		{1, true, "dynamic grpchantesting.Message (all fields zero)", func() interface{} { return dynamic.NewMessage(msgDesc) }},
	}
	classify := func(f func() error) (cls int64) {
		defer func() {
			if recover() != nil {
				cls = 2
			}
		}()
		if err := f(); err != nil {
			return 1
		}
		return 0
	}
	rep := 2
	if thorough {
		rep = 25
	}
	for rp := 0; rp < rep; rp++ {
		for ai, ad := range adapters {
			for _, sm := range makers {
				// ---- Clone ----
				src := sm.mk()
				snapSrc := snapshot(src)
				var clone interface{}
				cls := classify(func() error { var err error; clone, err = ad.c.Clone(src); return err })
				eq, ind, same, repl := false, false, sameAs(src, snapSrc), true
				if cls == 0 {
					eq = sameAs(clone, snapSrc) && reflect.TypeOf(clone) == reflect.TypeOf(src)
					snapClone := snapshot(clone)
					mutateInPlace(clone)
					ind = sameAs(src, snapSrc)
					src2 := sm.mk() // fresh pair for the other direction
					snap2 := snapshot(src2)
					if c2, err := ad.c.Clone(src2); err == nil {
						sc2 := snapshot(c2)
						mutateInPlace(src2)
						ind = ind && sameAs(c2, sc2)
						_ = snap2
					}
					_ = snapClone
				}
				repl = eq
				d := map[string]interface{}{"adapter": ad.name, "op": "Clone", "source": sm.name, "outcome": cls, "equal": eq, "independent": ind, "source_unchanged": same}
				o.Begin(d)
				o.Case("clone_"+ad.name, fmt.Sprintf("Op %d false %d %d %s %s true false %s %s %d %s %s %s %s", ai, sm.ty, sm.ty, hx.B(sm.dyn), hx.B(sm.dyn), hx.B(hasUnknown(src)), hx.Str("Clone "+sm.name),
					cls, hx.B(eq), hx.B(ind), hx.B(same), hx.B(repl)), d)
				// ---- Copy into a pre-populated destination of each kind ----
				for _, dm := range makers {
					if !thorough && dm.ty != sm.ty && r.Chance(55) {
						continue
					}
					src := sm.mk()
					snapSrc := snapshot(src)
					dst := dm.mk() // pre-populated
					compat := false
					if sm.ty != dm.ty {
						if b, err := proto.Marshal(toGen(src)); err == nil {
							compat = proto.Unmarshal(b, proto.Clone(toGen(dm.mk()))) == nil
						}
					}
					cls := classify(func() error { return ad.c.Copy(dst, src) })
					if sm.ty != dm.ty && ai == 1 {
						// whether another type's parser accepts the bytes is the protobuf runtime's
						// decision (it differs between generated and dynamic parsers): an input of the model
						compat = cls == 0
					}
					eq, ind, same, repl := false, false, sameAs(src, snapSrc), false
					if cls == 0 {
						eq = sameAs(dst, snapSrc) || sm.ty != dm.ty
						repl = eq
						snapDst := snapshot(dst)
						mutateInPlace(dst)
						ind = sameAs(src, snapSrc)
						// other direction on a fresh pair
						src2, dst2 := sm.mk(), dm.mk()
						if ad.c.Copy(dst2, src2) == nil {
							sd2 := snapshot(dst2)
							mutateInPlace(src2)
							ind = ind && sameAs(dst2, sd2)
						}
						_ = snapDst
					}
					d := map[string]interface{}{"adapter": ad.name, "op": "Copy", "source": sm.name, "destination": dm.name + " (pre-populated)", "bytes_parse_as_destination": compat,
						"outcome": cls, "equal_and_replaced": eq, "independent": ind, "source_unchanged": same}
					o.Begin(d)
					o.Case("copy_"+ad.name, fmt.Sprintf("Op %d true %d %d %s %s true %s %s %s %d %s %s %s %s", ai, sm.ty, dm.ty, hx.B(sm.dyn), hx.B(dm.dyn), hx.B(compat), hx.B(hasUnknown(src)), hx.Str("Copy "+sm.name+" -> "+dm.name),
						cls, hx.B(eq), hx.B(ind), hx.B(same), hx.B(repl)), d)
				}
			}
			// pointers to something that is not a protobuf message
			np := &notProto{7}
			cls := classify(func() error { _, err := ad.c.Clone(np); return err })
			o.Case("non_proto_"+ad.name, fmt.Sprintf("Op %d false 9 9 false false false false false \"Clone *struct\" %d false false %s true", ai, cls, hx.B(np.X == 7)),
				map[string]interface{}{"adapter": ad.name, "op": "Clone", "source": "*struct{X int}", "outcome": cls})
			dst := &hx.Msg{Count: 5}
			cls = classify(func() error { return ad.c.Copy(dst, np) })
			o.Case("non_proto_"+ad.name, fmt.Sprintf("Op %d true 9 1 false false false false false \"Copy *struct -> Message\" %d false false %s false", ai, cls, hx.B(np.X == 7 && dst.Count == 5)),
				map[string]interface{}{"adapter": ad.name, "op": "Copy", "source": "*struct{X int}", "destination": "Message", "outcome": cls})
		}
	}
	// copies made at the same time by many goroutines (concurrent calls on one channel) are each faithful
	for _, cn := range []string{"codec", "default"} {
		var cl inprocgrpc.Cloner = inprocgrpc.ProtoCloner{}
		if cn == "codec" {
			cl = inprocgrpc.CodecCloner(encoding.GetCodec("proto"))
		}
		var wg sync.WaitGroup
		var wrong, failed int32
		for g := 0; g < 32; g++ {
			wg.Add(1)
			go func(g int) {
				defer wg.Done()
				src := &hx.Msg{Count: int32(g), Payload: bytes.Repeat([]byte{byte(g + 1)}, 20000+g*500)}
				for i := 0; i < 150; i++ {
					dst := &hx.Msg{}
					var err error
					if i%2 == 0 {
						err = cl.Copy(dst, src)
					} else {
						var c interface{}
						if c, err = cl.Clone(src); err == nil {
							dst = c.(*hx.Msg)
						}
					}
					if err != nil {
						atomic.AddInt32(&failed, 1)
					} else if !proto.Equal(dst, src) {
						atomic.AddInt32(&wrong, 1)
					}
				}
			}(g)
		}
		wg.Wait()
		if wrong+failed > 0 {
			o.Violate("copies made concurrently by several goroutines were not each equal to their source",
				map[string]interface{}{"cloner": cn, "goroutines": 32, "copies_each": 150, "message_bytes": "20000..35500, distinct per goroutine"},
				fmt.Sprintf("%d copies differed from their source, %d failed", wrong, failed), "every copy equal to its source")
		}
	}
	o.Oracle = "oracle_or_finding"
	o.Finding = "finding_case"
	o.Shard = 150
}
