package main

import (
	"context"
	"fmt"
	"reflect"
	"sort"
	"strings"
	"time"

	"google.golang.org/grpc"

	"github.com/fullstorydev/grpchan"
	"github.com/fullstorydev/grpchan/httpgrpc"
	"github.com/fullstorydev/grpchan/inprocgrpc"
	"verifharness/hx"
)

func init() { runners["C15"] = runC15 }

// handler interfaces and implementations of varying conformance
type ifaceA interface{ A(context.Context) error }
type ifaceB interface {
	B()
	C() int
}
type implA struct{ id int }

func (*implA) A(context.Context) error { return nil }

type implAB struct{ id int }

func (*implAB) A(context.Context) error { return nil }
func (*implAB) B()                      {}
func (*implAB) C() int                  { return 0 }

// a handler passed BY VALUE: a struct whose value-receiver methods implement both interfaces
type implV struct{ id int }

func (implV) A(context.Context) error { return nil }
func (implV) B()                      {}
func (implV) C() int                  { return 0 }

type implAstale struct{ id int } // same method name, stale signature

func (*implAstale) A() error { return nil }

type implBpartial struct{ id int } // one of two methods

func (*implBpartial) B() {}

type implNone struct{ id int }

type registrar interface {
	RegisterService(*grpc.ServiceDesc, interface{})
	GetServiceInfo() map[string]grpc.ServiceInfo
}

type carrier struct {
	name  string
	reg   registrar
	query func(string) (*grpc.ServiceDesc, interface{})
	each  func(func(*grpc.ServiceDesc, interface{}))
}

func runC15(o *hx.Out, r *hx.Rand, thorough bool) {
	metas := []interface{}{"file.proto", "", nil, 42, []byte("x"), struct{ A int }{7}, &struct{}{}, 3.5}
	metaID := func(v interface{}) int64 {
		for i, m := range metas {
			if reflect.DeepEqual(m, v) && reflect.TypeOf(m) == reflect.TypeOf(v) {
				if reflect.TypeOf(m) != nil && reflect.TypeOf(m).Kind() == reflect.Ptr && m != v {
					continue
				}
				return int64(i)
			}
		}
		return -1
	}
	names := []string{"a.A", "a.B", "b.A", "A", "a.a", "pkg.sub.Svc", "a.A ", ""}
	mnames := []string{"M", "N", "Get", "get", "Put", "S1", "S2"}
	hangs := 0
	nh := 150
	if thorough {
		nh = 400
	}
	for hi := 0; hi < nh; hi++ {
		// fresh carriers for each history
		hm := grpchan.HandlerMap{}
		ip := &inprocgrpc.Channel{}
		hs := httpgrpc.NewServer()
		carriers := []carrier{
			{"HandlerMap", hm, hm.QueryService, hm.ForEach},
			{"inprocgrpc.Channel", ip, nil, nil},
			{"httpgrpc.Server", hs, nil, nil},
		}
		// one history, replayed on each carrier
		type opT struct {
			kind    string
			desc    *grpc.ServiceDesc
			descID  int64
			handler interface{}
			hID     int64
			impl    bool
			name    string
		}
		var ops []opT
		nops := r.Range(3, 14)
		nextID := int64(1)
		var pool []*grpc.ServiceDesc
		poolID := map[*grpc.ServiceDesc]int64{}
		for k := 0; k < nops; k++ {
			switch r.Intn(10) {
			case 0, 1, 2, 3, 4:
				var d *grpc.ServiceDesc
				if len(pool) > 0 && r.Chance(20) {
					d = pool[r.Intn(len(pool))] // the very same descriptor again
				} else {
					d = &grpc.ServiceDesc{ServiceName: names[r.Intn(len(names))], Metadata: metas[r.Intn(len(metas))]}
					if r.Bool() {
						d.HandlerType = (*ifaceA)(nil)
					} else {
						d.HandlerType = (*ifaceB)(nil)
					}
					used := map[string]bool{}
					for j := r.Intn(4); j > 0; j-- {
						n := mnames[r.Intn(len(mnames))]
						if used[n] {
							continue
						}
						used[n] = true
						d.Methods = append(d.Methods, grpc.MethodDesc{MethodName: n, Handler: func(interface{}, context.Context, func(interface{}) error, grpc.UnaryServerInterceptor) (interface{}, error) {
							return &hx.Msg{}, nil
						}})
					}
					for j := r.Intn(4); j > 0; j-- {
						n := mnames[r.Intn(len(mnames))]
						if used[n] {
							continue
						}
						used[n] = true
						d.Streams = append(d.Streams, grpc.StreamDesc{StreamName: n, ClientStreams: r.Bool(), ServerStreams: r.Bool()})
					}
					pool = append(pool, d)
					poolID[d] = nextID
					nextID++
				}
				isA := d.HandlerType == interface{}((*ifaceA)(nil))
				var h interface{}
				impl := false
				hid := nextID
				nextID++
				switch r.Intn(8) {
				case 7:
					h, impl = implV{int(hid)}, true
				case 0, 1:
					h, impl = &implA{int(hid)}, isA
				case 2, 3:
					h, impl = &implAB{int(hid)}, true
				case 4:
					h, impl = &implAstale{int(hid)}, false
				case 5:
					h, impl = &implBpartial{int(hid)}, false
				default:
					if r.Bool() {
						h, impl = &implNone{int(hid)}, false
					} else {
						h, impl = nil, false
					}
				}
				ops = append(ops, opT{kind: "reg", desc: d, descID: poolID[d], handler: h, hID: hid, impl: impl})
			case 5, 6:
				qn := names[r.Intn(len(names))]
				if r.Chance(45) {
					// a name never registered but built from one that may be: full method names, slashes, suffixes
					qn = []string{"/" + qn, qn + "/", qn + "/M", "/" + qn + "/M", qn + "/v1", qn + ".", "." + qn, strings.ToUpper(qn) + "x", qn + "/" + qn}[r.Intn(9)]
				}
				ops = append(ops, opT{kind: "query", name: qn})
			case 7:
				ops = append(ops, opT{kind: "each"})
			default:
				ops = append(ops, opT{kind: "info"})
			}
		}
		ops = append(ops, opT{kind: "each"}, opT{kind: "info"})
		for _, n := range names[:4] {
			ops = append(ops, opT{kind: "query", name: n}, opT{kind: "query", name: "/" + n + "/M"}, opT{kind: "query", name: n + "/M"})
		}

		minfo := func(n string, cs, ss bool) string {
			return fmt.Sprintf("{| mi_name := %s; mi_cs := %s; mi_ss := %s |}", hx.Str(n), hx.B(cs), hx.B(ss))
		}
		descTerm := func(d *grpc.ServiceDesc, id int64) string {
			var ms, ss []string
			for _, m := range d.Methods {
				ms = append(ms, hx.Str(m.MethodName))
			}
			for _, s := range d.Streams {
				ss = append(ss, minfo(s.StreamName, s.ClientStreams, s.ServerStreams))
			}
			return fmt.Sprintf("{| d_id := %d; d_name := %s; d_methods := %s; d_streams := %s; d_meta := %s |}",
				id, hx.Str(d.ServiceName), hx.List(ms), hx.List(ss), hx.Z(metaID(d.Metadata)))
		}
		for _, c := range carriers {
			if c.query == nil && r.Chance(50) && !thorough {
				continue
			}
			hByPtr := map[interface{}]int64{}
			var opTerms, outTerms []string
			var opDesc []string
			var okDescs []*grpc.ServiceDesc
			var okHandlers []interface{}
			refNames := map[string]bool{}
			hung := false
			for _, op := range ops {
				op := op
				// every registry operation returns: a refused registration must not leave a lock behind
				finished := make(chan struct{})
				go func() {
					defer close(finished)
					switch op.kind {
					case "reg":
						if c.name == "httpgrpc.Server" && strings.ContainsAny(op.desc.ServiceName, " ") {
							// ServeMux (go 1.22+) rejects patterns with spaces; keep names mux-safe for this carrier
							return
						}
						panicked := false
						func() {
							defer func() {
								if recover() != nil {
									panicked = true
								}
							}()
							c.reg.RegisterService(op.desc, op.handler)
						}()
						if op.handler != nil {
							hByPtr[op.handler] = op.hID
						}
						// the reference gets what a standard server accepts: well-typed, name not yet taken
						// (decided here, not by what the library under test did)
						dup := refNames[op.desc.ServiceName]
						if op.impl && !dup {
							okDescs = append(okDescs, op.desc)
							okHandlers = append(okHandlers, op.handler)
							refNames[op.desc.ServiceName] = true
						}
						if !panicked && op.impl && dup {
							o.Violate("a second registration of a service name was accepted",
								map[string]interface{}{"carrier": c.name, "service": op.desc.ServiceName, "ops_so_far": opDesc}, "no panic", "panic")
						}
						if !panicked && !op.impl {
							o.Violate("a handler that does not implement the service's interface was accepted",
								map[string]interface{}{"carrier": c.name, "service": op.desc.ServiceName, "handler_type": fmt.Sprintf("%T", op.handler)}, "no panic", "panic")
						}
						opTerms = append(opTerms, fmt.Sprintf("Reg %s %d %s", descTerm(op.desc, op.descID), op.hID, hx.B(op.impl)))
						opDesc = append(opDesc, fmt.Sprintf("register(%q desc#%d, handler#%d %T)", op.desc.ServiceName, op.descID, op.hID, op.handler))
						if panicked {
							outTerms = append(outTerms, "OPanic")
						} else {
							outTerms = append(outTerms, "ODone")
						}
					case "query":
						if ipc, isChan := c.reg.(*inprocgrpc.Channel); isChan && c.query == nil {
							// the channel has no query operation: look the name up the way it does, by calling.  Exactly the
							// unary methods of the service registered under that name so far answer -- also when the same
							// names were called (and missed) before the registration
							var answers []string
							for _, m := range mnames {
								if ipc.Invoke(context.Background(), "/"+op.name+"/"+m, &hx.Msg{}, &hx.Msg{}) == nil {
									answers = append(answers, m)
								}
							}
							var want []string
							for i, d := range okDescs {
								_ = i
								if d.ServiceName == op.name {
									for _, m := range mnames {
										for _, md := range d.Methods {
											if md.MethodName == m {
												want = append(want, m)
											}
										}
									}
								}
							}
							if fmt.Sprint(answers) != fmt.Sprint(want) {
								o.Violate("calls through the in-process channel did not reach exactly the methods of the service registered under the name",
									map[string]interface{}{"carrier": c.name, "service": op.name, "ops_so_far": opDesc, "methods_that_answered": answers, "registered_unary_methods": want}, answers, want)
							}
							return
						}
						if c.query == nil {
							return
						}
						d, h := c.query(op.name)
						opTerms = append(opTerms, "Query "+hx.Str(op.name))
						opDesc = append(opDesc, fmt.Sprintf("query(%q)", op.name))
						if d == nil {
							outTerms = append(outTerms, "OQuery None")
						} else {
							id, ok := poolID[d]
							if !ok {
								id = -1
							}
							hid, ok := hByPtr[h]
							if !ok {
								hid = -1
							}
							outTerms = append(outTerms, fmt.Sprintf("OQuery (Some (%s, %s))", hx.Z(id), hx.Z(hid)))
						}
					case "each":
						if c.each == nil {
							return
						}
						var rows []string
						type row struct {
							n    string
							d, h int64
						}
						var rs []row
						c.each(func(d *grpc.ServiceDesc, h interface{}) {
							id, ok := poolID[d]
							if !ok {
								id = -1
							}
							hid, ok := hByPtr[h]
							if !ok {
								hid = -1
							}
							rs = append(rs, row{d.ServiceName, id, hid})
						})
						sort.SliceStable(rs, func(i, j int) bool { return rs[i].n < rs[j].n })
						for _, x := range rs {
							rows = append(rows, fmt.Sprintf("(%s, %s, %s)", hx.Str(x.n), hx.Z(x.d), hx.Z(x.h)))
						}
						opTerms = append(opTerms, "Each")
						opDesc = append(opDesc, "for-each")
						outTerms = append(outTerms, "OEach "+hx.List(rows))
					case "info":
						info := c.reg.GetServiceInfo()
						var ns []string
						for n := range info {
							ns = append(ns, n)
						}
						sort.Strings(ns)
						var rows []string
						for _, n := range ns {
							var ms []string
							for _, m := range info[n].Methods {
								ms = append(ms, minfo(m.Name, m.IsClientStream, m.IsServerStream))
							}
							rows = append(rows, fmt.Sprintf("(%s, %s, %s)", hx.Str(n), hx.List(ms), hx.Z(metaID(info[n].Metadata))))
						}
						opTerms = append(opTerms, "Info")
						opDesc = append(opDesc, "service-info")
						outTerms = append(outTerms, "OInfo "+hx.List(rows))
					}
				}()
				select {
				case <-finished:
				case <-time.After(3 * time.Second):
					hung = true
				}
				if hung {
					o.Violate("a registry operation did not return within 3s (after the operations listed)", map[string]interface{}{"carrier": c.name, "ops_so_far": opDesc, "stuck_in": op.kind}, "blocked", "returns")
					break
				}
			}
			if hung {
				hangs++
				if hangs >= 3 {
					o.Stats["stopped_after_hangs"] = hangs
					o.Shard = 120
					return // every further history on this carrier would wait 3s as well
				}
				continue
			}
			// reference: a standard gRPC server given the successful registrations
			ref := grpc.NewServer()
			for i, d := range okDescs {
				ref.RegisterService(d, okHandlers[i])
			}
			want, got := ref.GetServiceInfo(), c.reg.GetServiceInfo()
			canon := func(m map[string]grpc.ServiceInfo) string {
				var ns []string
				for n := range m {
					ns = append(ns, n)
				}
				sort.Strings(ns)
				var sb strings.Builder
				for _, n := range ns {
					ms := append([]grpc.MethodInfo{}, m[n].Methods...)
					sort.Slice(ms, func(i, j int) bool { return ms[i].Name < ms[j].Name })
					fmt.Fprintf(&sb, "%q:%v:%#v;", n, ms, m[n].Metadata)
				}
				return sb.String()
			}
			desc := map[string]interface{}{"carrier": c.name, "ops": opDesc}
			if canon(want) != canon(got) {
				o.Violate("service info differs from what a standard gRPC server reports for the same registrations", desc, canon(got), canon(want))
			}
			o.Case("history_"+c.name, fmt.Sprintf("Hist %s %s %s", hx.Str(c.name), hx.List(opTerms), hx.List(outTerms)), desc)
		}
	}
	o.Shard = 60
}
