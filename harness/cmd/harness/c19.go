package main

import (
	"bytes"
	"fmt"
	"go/ast"
	"go/parser"
	"go/token"
	"os"
	"os/exec"
	"path"
	"path/filepath"
	"strconv"
	"strings"

	"github.com/jhump/goprotoc/plugins"
	"google.golang.org/protobuf/proto"
	"google.golang.org/protobuf/reflect/protodesc"
	"google.golang.org/protobuf/reflect/protoreflect"
	"google.golang.org/protobuf/types/descriptorpb"
	"google.golang.org/protobuf/types/pluginpb"

	"github.com/fullstorydev/grpchan/grpchantesting"
	"verifharness/hx"
)

func init() { runners["C19"] = runC19 }

func buildPlugin(o *hx.Out) (string, error) {
	root := os.Getenv("VERIF_ROOT")
	if root == "" {
		root = "/verif"
	}
	out, _ := filepath.Abs(filepath.Join(o.Dir, "protoc-gen-grpchan"))
	cmd := exec.Command("go", "build", "-o", out, "github.com/fullstorydev/grpchan/cmd/protoc-gen-grpchan")
	cmd.Dir = filepath.Join(root, "harness")
	b, err := cmd.CombinedOutput()
	if err != nil {
		return "", fmt.Errorf("building the plugin from /repo: %v\n%s", err, b)
	}
	return out, nil
}

func runPlugin(bin string, req *pluginpb.CodeGeneratorRequest) (*pluginpb.CodeGeneratorResponse, error) {
	in, err := proto.Marshal(req)
	if err != nil {
		return nil, err
	}
	cmd := exec.Command(bin)
	cmd.Stdin = bytes.NewReader(in)
	var stdout, stderr bytes.Buffer
	cmd.Stdout, cmd.Stderr = &stdout, &stderr
	if err := cmd.Run(); err != nil {
		return nil, fmt.Errorf("plugin failed: %v: %s", err, stderr.String())
	}
	var resp pluginpb.CodeGeneratorResponse
	if err := proto.Unmarshal(stdout.Bytes(), &resp); err != nil {
		return nil, err
	}
	return &resp, nil
}

// closure of a file descriptor's imports, dependencies first
func fileClosure(fd protoreflect.FileDescriptor, seen map[string]bool, out *[]*descriptorpb.FileDescriptorProto) {
	if seen[fd.Path()] {
		return
	}
	seen[fd.Path()] = true
	imps := fd.Imports()
	for i := 0; i < imps.Len(); i++ {
		fileClosure(imps.Get(i).FileDescriptor, seen, out)
	}
	*out = append(*out, protodesc.ToFileDescriptorProto(fd))
}

type obsStub struct {
	goName, path, desc string
	shape              int
	index              *int
}
type obsSvc struct {
	register, regDesc string
	stubs             []obsStub
}

// extract the registration functions and the channel-client stubs from generated source
func extractGenerated(src string) (svcs []*obsSvc, err error) {
	fset := token.NewFileSet()
	f, err := parser.ParseFile(fset, "gen.go", src, 0)
	if err != nil {
		return nil, err
	}
	byRecv := map[string]*obsSvc{}
	var order []*obsSvc
	for _, d := range f.Decls {
		fd, ok := d.(*ast.FuncDecl)
		if !ok {
			continue
		}
		if fd.Recv == nil && strings.HasPrefix(fd.Name.Name, "RegisterHandler") {
			s := &obsSvc{register: fd.Name.Name}
			ast.Inspect(fd.Body, func(n ast.Node) bool {
				if call, ok := n.(*ast.CallExpr); ok {
					if sel, ok := call.Fun.(*ast.SelectorExpr); ok && sel.Sel.Name == "RegisterService" && len(call.Args) == 2 {
						if u, ok := call.Args[0].(*ast.UnaryExpr); ok {
							if id, ok := u.X.(*ast.Ident); ok {
								s.regDesc = id.Name
							}
						}
					}
				}
				return true
			})
			order = append(order, s)
			// the channel client type of this service, if any: lower-cased service name + ChannelClient
			svcName := strings.TrimPrefix(fd.Name.Name, "RegisterHandler")
			byRecv[strings.ToLower(svcName[:1])+svcName[1:]+"ChannelClient"] = s
			continue
		}
		if fd.Recv != nil && len(fd.Recv.List) == 1 {
			star, ok := fd.Recv.List[0].Type.(*ast.StarExpr)
			if !ok {
				continue
			}
			id, ok := star.X.(*ast.Ident)
			if !ok {
				continue
			}
			s := byRecv[id.Name]
			if s == nil {
				// gopoet may unexport differently; match case-insensitively
				for k, v := range byRecv {
					if strings.EqualFold(k, id.Name) {
						s = v
					}
				}
			}
			if s == nil {
				return nil, fmt.Errorf("method %s on unknown receiver %s", fd.Name.Name, id.Name)
			}
			st := obsStub{goName: fd.Name.Name, shape: -1}
			sendsIn := false
			wrapType := ""
			ast.Inspect(fd.Body, func(n ast.Node) bool {
				if cl, ok := n.(*ast.CompositeLit); ok && len(cl.Elts) == 1 {
					if e, ok := cl.Elts[0].(*ast.Ident); ok && e.Name == "stream" {
						if t, ok := cl.Type.(*ast.Ident); ok {
							wrapType = t.Name
						}
					}
				}
				call, ok := n.(*ast.CallExpr)
				if !ok {
					return true
				}
				sel, ok := call.Fun.(*ast.SelectorExpr)
				if !ok {
					return true
				}
				switch sel.Sel.Name {
				case "Invoke":
					if len(call.Args) >= 2 {
						if bl, ok := call.Args[1].(*ast.BasicLit); ok {
							st.path, _ = strconv.Unquote(bl.Value)
							st.shape = 0
						}
					}
				case "NewStream":
					if len(call.Args) >= 3 {
						if bl, ok := call.Args[2].(*ast.BasicLit); ok {
							st.path, _ = strconv.Unquote(bl.Value)
							st.shape = 2
						}
						if u, ok := call.Args[1].(*ast.UnaryExpr); ok {
							if ix, ok := u.X.(*ast.IndexExpr); ok {
								if bl, ok := ix.Index.(*ast.BasicLit); ok {
									k, _ := strconv.Atoi(bl.Value)
									st.index = &k
								}
								if se, ok := ix.X.(*ast.SelectorExpr); ok && se.Sel.Name == "Streams" {
									if id, ok := se.X.(*ast.Ident); ok {
										st.desc = id.Name
									}
								}
							}
						}
					}
				case "SendMsg":
					sendsIn = true
				}
				return true
			})
			if st.shape == 2 && sendsIn {
				st.shape = 1
			}
			// a streaming stub wraps the stream in the struct protoc-gen-go-grpc declares for the method:
			// <service, unexported><Method>Client; any other name is not declared in the package
			if want := strings.TrimSuffix(id.Name, "ChannelClient") + fd.Name.Name + "Client"; wrapType != "" && wrapType != want {
				return nil, fmt.Errorf("stub %s wraps its stream in %s, which the package does not declare (the generated gRPC code declares %s)", fd.Name.Name, wrapType, want)
			}
			s.stubs = append(s.stubs, st)
		}
	}
	return order, nil
}

func runC19(o *hx.Out, r *hx.Rand, thorough bool) {
	bin, err := buildPlugin(o)
	if err != nil {
		o.Violate("the plugin no longer builds", nil, err.Error(), nil)
		o.Case("build", "Regen false", map[string]interface{}{"error": err.Error()})
		return
	}
	// 1. regenerate the checked-in stubs of the repository's own test service
	var files []*descriptorpb.FileDescriptorProto
	fileClosure(grpchantesting.File_test_proto, map[string]bool{}, &files)
	for _, param := range []string{"legacy_stubs", "legacy_stubs,paths=source_relative"} {
		p := param
		resp, err := runPlugin(bin, &pluginpb.CodeGeneratorRequest{FileToGenerate: []string{"test.proto"}, Parameter: &p, ProtoFile: files})
		identical := false
		what := ""
		if err != nil {
			what = err.Error()
		} else if resp.Error != nil {
			what = *resp.Error
		} else if len(resp.File) == 1 {
			root := os.Getenv("VERIF_REPO")
			if root == "" {
				root = "/repo"
			}
			want, _ := os.ReadFile(filepath.Join(root, "grpchantesting", "test.pb.grpchan.go"))
			identical = resp.File[0].GetContent() == string(want)
			if !identical {
				what = "content differs from grpchantesting/test.pb.grpchan.go"
			}
		} else {
			what = fmt.Sprintf("%d files generated", len(resp.File))
		}
		desc := map[string]interface{}{"regenerate": "grpchantesting/test.proto", "parameter": param, "identical": identical, "detail": what}
		if !identical {
			o.Violate("regenerating the checked-in stubs does not reproduce them", desc, what, "byte-identical output")
		}
		o.Case("regenerate", "Regen "+hx.B(identical), desc)
	}

	// 2. random file descriptors
	names := plugins.GoNames{}
	svcNames := []string{"Alpha", "beta_service", "gammaSvc", "DELTA", "item_store", "X", "Echo2"}
	mNames := []string{"Get", "put_item", "listItems", "Watch", "upload_items", "Chat", "do_it", "A", "b", "Sync2", "stream_all", "Ping"}
	pkgs := []string{"a.b", "pkg", "x.y.z", ""}
	n := 60
	if thorough {
		n = 700
	}
	str := func(s string) *string { return &s }
	for it := 0; it < n; it++ {
		pkg := pkgs[r.Intn(len(pkgs))]
		fdp := &descriptorpb.FileDescriptorProto{
			Name: str(r.Pick([]string{"svc.proto", "dir/sub/api.proto", "x_y.proto"})), Syntax: str("proto3"),
			Options:     &descriptorpb.FileOptions{GoPackage: str(r.Pick([]string{"example.com/gen/ab;ab", "example.com/m/pkg", "example.com/other/v1;otherv1"}))},
			MessageType: []*descriptorpb.DescriptorProto{{Name: str("Req")}, {Name: str("Resp")}},
			Dependency:  []string{"google/protobuf/empty.proto"},
		}
		if pkg != "" {
			fdp.Package = str(pkg)
		}
		qual := func(n string) string {
			if pkg == "" {
				return "." + n
			}
			return "." + pkg + "." + n
		}
		nsvc := r.Intn(5)
		if r.Chance(60) {
			nsvc = r.Range(1, 3)
		}
		perm := r.Intn(len(svcNames))
		var svcTerms []string
		var svcDesc []interface{}
		for s := 0; s < nsvc; s++ {
			sn := svcNames[(perm+s)%len(svcNames)]
			sd := &descriptorpb.ServiceDescriptorProto{Name: str(sn)}
			nm := r.Intn(13)
			if r.Chance(50) {
				nm = r.Range(1, 6)
			}
			mperm := r.Intn(len(mNames))
			var mTerms []string
			var mDesc []string
			for m := 0; m < nm && m < len(mNames); m++ {
				mn := mNames[(mperm+m)%len(mNames)]
				cs, ss := r.Chance(35), r.Chance(35)
				in, out := qual("Req"), qual("Resp")
				if r.Chance(20) {
					in = ".google.protobuf.Empty"
				}
				sd.Method = append(sd.Method, &descriptorpb.MethodDescriptorProto{Name: str(mn), InputType: str(in), OutputType: str(out),
					ClientStreaming: proto.Bool(cs), ServerStreaming: proto.Bool(ss)})
				mTerms = append(mTerms, fmt.Sprintf("{| me_name := %s; me_cs := %s; me_ss := %s |}", hx.Str(mn), hx.B(cs), hx.B(ss)))
				mDesc = append(mDesc, fmt.Sprintf("%s(cs=%v,ss=%v)", mn, cs, ss))
			}
			fdp.Service = append(fdp.Service, sd)
			fq := sn
			if pkg != "" {
				fq = pkg + "." + sn
			}
			svcTerms = append(svcTerms, fmt.Sprintf("{| sv_fq := %s; sv_go := %s; sv_ms := %s |}", hx.Str(fq), hx.Str(names.CamelCase(sn)), hx.List(mTerms)))
			svcDesc = append(svcDesc, map[string]interface{}{"service": fq, "methods": mDesc})
		}
		legacy, legacyNames := r.Chance(75), r.Chance(30)
		var params []string
		if legacy {
			params = append(params, r.Pick([]string{"legacy_stubs", "legacy_stubs=true", "legacy_stubs=1"}))
		}
		if legacyNames {
			params = append(params, "legacy_desc_names")
		}
		switch r.Intn(5) {
		case 0:
			params = append(params, "paths=source_relative")
		case 1:
			params = append(params, "module=example.com")
		case 2:
			params = append(params, "paths=import")
		}
		if r.Chance(15) {
			params = append(params, "Mother.proto=example.com/o")
		}
		if it%3 == 1 {
			// options come in any order: a file-to-package mapping (of a file that is not part of the request) in
			// front of the others changes nothing
			params = append([]string{"Munrelated/thing.proto=example.com/unrelated/thing"}, params...)
		}
		param := strings.Join(params, ",")
		var deps []*descriptorpb.FileDescriptorProto
		fileClosure(grpchantesting.File_test_proto, map[string]bool{}, &deps) // brings in google/protobuf/empty.proto
		var all []*descriptorpb.FileDescriptorProto
		for _, d := range deps {
			if d.GetName() == "google/protobuf/empty.proto" {
				all = append(all, d)
			}
		}
		all = append(all, fdp)
		creq := &pluginpb.CodeGeneratorRequest{FileToGenerate: []string{fdp.GetName()}, ProtoFile: all}
		if param != "" { // protoc leaves the field unset when no parameter is given
			creq.Parameter = &param
		}
		resp, err := runPlugin(bin, creq)
		desc := map[string]interface{}{"file": fdp.GetName(), "package": pkg, "parameter": param, "services": svcDesc}
		valid := true
		var obs []*obsSvc
		if err != nil {
			valid = false
			desc["error"] = err.Error()
		} else if resp.Error != nil {
			valid = false
			desc["error"] = *resp.Error
		} else if len(resp.File) > 0 {
			obs, err = extractGenerated(resp.File[0].GetContent())
			if err != nil {
				valid = false
				desc["error"] = "generated code is not valid Go: " + err.Error()
			}
			// the stubs use unexported names of the package's other generated files: the file must land where those do,
			// as the paths / module options say (the rules of protoc-gen-go): next to the source, or under the Go
			// import path, minus the module prefix
			imp := strings.SplitN(fdp.GetOptions().GetGoPackage(), ";", 2)[0]
			baseName := strings.TrimSuffix(path.Base(fdp.GetName()), ".proto") + ".pb.grpchan.go"
			wantName := path.Join(imp, baseName)
			switch {
			case strings.Contains(param, "paths=source_relative"):
				wantName = path.Join(path.Dir(fdp.GetName()), baseName)
			case strings.Contains(param, "module=example.com"):
				wantName = path.Join(strings.TrimPrefix(imp, "example.com/"), baseName)
			}
			if got := resp.File[0].GetName(); got != wantName && valid {
				valid = false
				desc["error"] = fmt.Sprintf("the stubs were written to %q; the package's generated code is at %q", got, wantName)
			}
		}
		if !valid {
			o.Violate("the plugin failed or emitted invalid Go", desc, desc["error"], nil)
		}
		var obsTerms []string
		for _, s := range obs {
			var st []string
			for _, x := range s.stubs {
				idx := "None"
				if x.index != nil {
					idx = fmt.Sprintf("(Some %d)", *x.index)
				}
				st = append(st, fmt.Sprintf("{| ob_path := %s; ob_shape := %s; ob_index := %s; ob_desc := %s |}", hx.Str(x.path), hx.Z(int64(x.shape)), idx, hx.Str(x.desc)))
			}
			obsTerms = append(obsTerms, fmt.Sprintf("{| ob_register := %s; ob_reg_desc := %s; ob_stubs := %s |}", hx.Str(s.register), hx.Str(s.regDesc), hx.List(st)))
		}
		o.Case("generate", fmt.Sprintf("Gen %s %s %s %s %s", hx.B(legacy), hx.B(legacyNames), hx.List(svcTerms), hx.B(valid), hx.List(obsTerms)), desc)
	}
	multiFile(o, r, bin, thorough)
	o.Shard = 100
}

// multiFile: one plugin invocation for several files -- some of them without services, listed in any order,
// services that use message types of another file, Go packages given by go_package or by import_path.
// Every file that declares services gets its registrations and stubs, in valid Go that imports only packages
// some file of the request maps to.
func multiFile(o *hx.Out, r *hx.Rand, bin string, thorough bool) {
	names := plugins.GoNames{}
	str := func(s string) *string { return &s }
	n := 24
	if thorough {
		n = 200
	}
	var emptyDep *descriptorpb.FileDescriptorProto
	var deps []*descriptorpb.FileDescriptorProto
	fileClosure(grpchantesting.File_test_proto, map[string]bool{}, &deps)
	for _, d := range deps {
		if d.GetName() == "google/protobuf/empty.proto" {
			emptyDep = d
		}
	}
	for it := 0; it < n; it++ {
		useImportPath := r.Chance(40)
		samePkg := useImportPath || r.Chance(50)
		// the first iterations are written out: a file in its own Go package whose methods are all client-streaming
		// or bidi (their legacy stub signatures name no message type) and take (1) or return (2) a message of the
		// other package
		forced := 0
		if it < 2 {
			useImportPath, samePkg, forced = false, false, it+1
		}
		dir := r.Pick([]string{"", "api/", "acme/api/v1/"})
		mk := func(base, pkg, gopkg string) *descriptorpb.FileDescriptorProto {
			f := &descriptorpb.FileDescriptorProto{Name: str(dir + base), Syntax: str("proto3"), Package: str(pkg)}
			if !useImportPath {
				f.Options = &descriptorpb.FileOptions{GoPackage: str(gopkg)}
			}
			return f
		}
		pkgA, pkgB := "acme.api", "acme.api"
		goA, goB := "example.com/gen/api", "example.com/gen/api"
		if !samePkg {
			pkgB, goB = "acme.orders", "example.com/gen/orders"
		}
		common := mk("common.proto", pkgA, goA)
		// sometimes the imported file's path starts with a capital M and an M option maps it to another Go package:
		// the stubs then import its messages from THAT package
		mapped := ""
		if !samePkg && !useImportPath && forced == 0 && it%2 == 0 {
			common.Name = str(r.Pick([]string{"Models/common.proto", "Money.proto", "MMM/types.proto"}))
			mapped = "example.com/mapped/models"
		}
		common.MessageType = []*descriptorpb.DescriptorProto{{Name: str("Req")}, {Name: str("Resp")}}
		withSvc := func(f *descriptorpb.FileDescriptorProto, pkg string, svcs []string) (terms []string, descs []interface{}) {
			f.Dependency = []string{common.GetName(), "google/protobuf/empty.proto"}
			f.MessageType = []*descriptorpb.DescriptorProto{{Name: str("Local" + names.CamelCase(svcs[0]))}}
			for _, sn := range svcs {
				sd := &descriptorpb.ServiceDescriptorProto{Name: str(sn)}
				var mTerms []string
				for m := 0; m < r.Range(1, 4); m++ {
					mn := []string{"Get", "Watch", "put_item", "Chat", "Sync"}[(m+r.Intn(2))%5]
					dup := false
					for _, x := range sd.Method {
						dup = dup || x.GetName() == mn
					}
					if dup {
						continue
					}
					cs, ss := r.Chance(35), r.Chance(35)
					in := "." + pkgA + ".Req"
					if r.Chance(25) {
						in = "." + pkg + ".Local" + names.CamelCase(svcs[0])
					}
					outT := "." + pkgA + ".Resp"
					if forced != 0 && pkg != pkgA {
						cs, ss = true, m%2 == 1
						local := "." + pkg + ".Local" + names.CamelCase(svcs[0])
						if forced == 1 {
							in, outT = "."+pkgA+".Req", local
						} else {
							in, outT = local, "."+pkgA+".Resp"
						}
					}
					sd.Method = append(sd.Method, &descriptorpb.MethodDescriptorProto{Name: str(mn), InputType: str(in), OutputType: str(outT),
						ClientStreaming: proto.Bool(cs), ServerStreaming: proto.Bool(ss)})
					mTerms = append(mTerms, fmt.Sprintf("{| me_name := %s; me_cs := %s; me_ss := %s |}", hx.Str(mn), hx.B(cs), hx.B(ss)))
				}
				f.Service = append(f.Service, sd)
				terms = append(terms, fmt.Sprintf("{| sv_fq := %s; sv_go := %s; sv_ms := %s |}", hx.Str(pkg+"."+sn), hx.Str(names.CamelCase(sn)), hx.List(mTerms)))
				descs = append(descs, map[string]interface{}{"service": pkg + "." + sn, "methods": len(sd.Method)})
			}
			return
		}
		orders := mk("orders.proto", pkgB, goB)
		oTerms, oDesc := withSvc(orders, pkgB, []string{"Orders", "Inventory"}[:r.Range(1, 2)])
		users := mk("users.proto", pkgA, goA)
		uTerms, uDesc := withSvc(users, pkgA, []string{"Users"})
		gen := []*descriptorpb.FileDescriptorProto{common, orders, users}
		// protoc lists the files to generate in command-line order: any order
		order := [][]int{{0, 1, 2}, {1, 0, 2}, {1, 2, 0}, {2, 1, 0}, {0, 2, 1}, {1, 2}, {2, 1}}[r.Intn(7)]
		if useImportPath && len(order) < 3 {
			// import_path names the package of the files being generated: a file that is only imported would
			// need a go_package of its own
			order = []int{1, 2, 0}
		}
		var toGen []string
		for _, i := range order {
			toGen = append(toGen, gen[i].GetName())
		}
		legacy := r.Chance(75) || forced != 0
		var params []string
		if legacy {
			params = append(params, "legacy_stubs")
		}
		if useImportPath {
			params = append(params, "import_path=example.com/gen/api")
		}
		if mapped != "" {
			params = append(params, "M"+common.GetName()+"="+mapped)
		}
		param := strings.Join(params, ",")
		creq := &pluginpb.CodeGeneratorRequest{FileToGenerate: toGen, ProtoFile: []*descriptorpb.FileDescriptorProto{emptyDep, common, orders, users}}
		if param != "" {
			creq.Parameter = &param
		}
		resp, err := runPlugin(bin, creq)
		allowed := map[string]bool{"context": true, "google.golang.org/grpc": true, "github.com/fullstorydev/grpchan": true,
			"google.golang.org/protobuf/types/known/emptypb": true, "github.com/golang/protobuf/ptypes/empty": true, goA: true, goB: true}
		if mapped != "" {
			delete(allowed, goA)
			allowed[mapped] = true
		}
		for fi, f := range []struct {
			fd    *descriptorpb.FileDescriptorProto
			terms []string
			descs []interface{}
		}{{orders, oTerms, oDesc}, {users, uTerms, uDesc}} {
			desc := map[string]interface{}{"request_files_to_generate": toGen, "file": f.fd.GetName(), "parameter": param, "services": f.descs, "same_go_package": samePkg}
			valid := true
			var obs []*obsSvc
			switch {
			case err != nil:
				valid, desc["error"] = false, err.Error()
			case resp.Error != nil:
				valid, desc["error"] = false, *resp.Error
			default:
				first := "func RegisterHandler" + names.CamelCase(f.fd.Service[0].GetName()) + "("
				for _, out := range resp.File {
					if !strings.Contains(out.GetContent(), first) {
						continue
					}
					var perr error
					obs, perr = extractGenerated(out.GetContent())
					if perr != nil {
						valid, desc["error"] = false, "generated code is not valid Go: "+perr.Error()
					} else if bad := foreignImports(out.GetContent(), allowed); len(bad) > 0 {
						valid, desc["error"] = false, fmt.Sprintf("generated code imports %q, a package no file of the request maps to", bad)
					} else if bad := unusedImports(out.GetContent()); len(bad) > 0 {
						valid, desc["error"] = false, fmt.Sprintf("generated code imports %q and does not use it: it does not compile", bad)
					}
				}
			}
			if !valid {
				o.Violate("the plugin failed or emitted Go that cannot compile", desc, desc["error"], nil)
			}
			var obsTerms []string
			for _, s := range obs {
				var st []string
				for _, x := range s.stubs {
					idx := "None"
					if x.index != nil {
						idx = fmt.Sprintf("(Some %d)", *x.index)
					}
					st = append(st, fmt.Sprintf("{| ob_path := %s; ob_shape := %s; ob_index := %s; ob_desc := %s |}", hx.Str(x.path), hx.Z(int64(x.shape)), idx, hx.Str(x.desc)))
				}
				obsTerms = append(obsTerms, fmt.Sprintf("{| ob_register := %s; ob_reg_desc := %s; ob_stubs := %s |}", hx.Str(s.register), hx.Str(s.regDesc), hx.List(st)))
			}
			_ = fi
			o.Case("generate_multi", fmt.Sprintf("Gen %s false %s %s %s", hx.B(legacy), hx.List(f.terms), hx.B(valid), hx.List(obsTerms)), desc)
		}
	}
}

// foreignImports lists the imports of a generated file that are not in the allowed set
func foreignImports(src string, allowed map[string]bool) (bad []string) {
	fset := token.NewFileSet()
	f, err := parser.ParseFile(fset, "gen.go", src, parser.ImportsOnly)
	if err != nil {
		return nil
	}
	for _, im := range f.Imports {
		p := strings.Trim(im.Path.Value, "\"")
		if !allowed[p] {
			bad = append(bad, p)
		}
	}
	return
}

// unusedImports lists the imports of a generated file that nothing in the file refers to: such a file does
// not compile ("imported and not used")
func unusedImports(src string) (bad []string) {
	fset := token.NewFileSet()
	f, err := parser.ParseFile(fset, "gen.go", src, 0)
	if err != nil {
		return nil
	}
	used := map[string]bool{}
	ast.Inspect(f, func(n ast.Node) bool {
		if se, ok := n.(*ast.SelectorExpr); ok {
			if id, ok := se.X.(*ast.Ident); ok {
				used[id.Name] = true
			}
		}
		return true
	})
	for _, im := range f.Imports {
		p := strings.Trim(im.Path.Value, "\"")
		name := p[strings.LastIndex(p, "/")+1:]
		if im.Name != nil {
			name = im.Name.Name
		}
		if name == "_" || name == "." {
			continue
		}
		if !used[name] {
			bad = append(bad, p)
		}
	}
	return
}
