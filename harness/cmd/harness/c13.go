package main

import (
	"context"
	"errors"
	"fmt"
	"google.golang.org/grpc/codes"
	"google.golang.org/grpc/status"
	"io"
	"net"
	"net/http"
	"net/http/httptest"
	"net/url"
	"runtime"
	"sort"
	"strings"
	"sync"
	"sync/atomic"
	"time"

	"google.golang.org/grpc"
	"google.golang.org/grpc/credentials"
	"google.golang.org/grpc/metadata"
	"google.golang.org/grpc/peer"

	"github.com/fullstorydev/grpchan"
	"github.com/fullstorydev/grpchan/httpgrpc"
	"github.com/fullstorydev/grpchan/inprocgrpc"
	"verifharness/hx"
)

func init() { runners["C13"] = runC13 }

type scriptCreds struct {
	secure bool
	md     map[string]string
	err    error
}

func (c scriptCreds) GetRequestMetadata(ctx context.Context, uri ...string) (map[string]string, error) {
	return c.md, c.err
}
func (c scriptCreds) RequireTransportSecurity() bool { return c.secure }

type countingRT struct {
	inner http.RoundTripper
	n     *int64
}

func (c countingRT) RoundTrip(r *http.Request) (*http.Response, error) {
	atomic.AddInt64(c.n, 1)
	return c.inner.RoundTrip(r)
}

func credKeys(c *scriptCreds) []string {
	var ks []string
	if c != nil {
		for k := range c.md {
			ks = append(ks, k)
		}
	}
	sort.Strings(ks)
	return ks
}

func sortedMD(md metadata.MD, keys map[string]bool) string {
	var ks []string
	for k := range md {
		if keys[k] {
			ks = append(ks, k)
		}
	}
	sort.Strings(ks)
	var items []string
	for _, k := range ks {
		items = append(items, "("+hx.Str(k)+", "+hx.StrList(md[k])+")")
	}
	return hx.List(items)
}

func runC13(o *hx.Out, r *hx.Rand, thorough bool) {
	attachMode := 0
	type hseen struct {
		md       metadata.MD
		peerAuth bool
		peerAddr bool
	}
	var seen *hseen
	record := func(ctx context.Context) {
		s := &hseen{}
		s.md, _ = metadata.FromIncomingContext(ctx)
		if p, ok := peer.FromContext(ctx); ok {
			s.peerAddr = p.Addr != nil && p.Addr.String() != ""
			_, s.peerAuth = p.AuthInfo.(credentials.TLSInfo)
		}
		seen = s
	}
	handlerFails, callNo := false, 0
	svc := &hx.Svc{
		Unary: func(ctx context.Context, req *hx.Msg) (*hx.Msg, error) {
			record(ctx)
			if handlerFails {
				return nil, status.Error(codes.NotFound, "no such thing")
			}
			return &hx.Msg{}, nil
		},
		Stream: func(kind string, ss grpc.ServerStream) error {
			record(ss.Context())
			if handlerFails {
				return status.Error(codes.NotFound, "no such thing")
			}
			return nil
		},
	}
	hs0 := httpgrpc.NewServer()
	hs0.RegisterService(hx.Desc(hx.SvcName), svc)
	// the same service mounted method by method through the exported per-method constructors; requests
	// go alternately to either mounting: what the handler sees does not depend on how it was mounted
	pm := http.NewServeMux()
	pd := hx.Desc(hx.SvcName)
	for i := range pd.Methods {
		pm.HandleFunc("/"+hx.SvcName+"/"+pd.Methods[i].MethodName, httpgrpc.HandleMethod(svc, hx.SvcName, &pd.Methods[i], nil))
	}
	for i := range pd.Streams {
		pm.HandleFunc("/"+hx.SvcName+"/"+pd.Streams[i].StreamName, httpgrpc.HandleStream(svc, hx.SvcName, &pd.Streams[i], nil))
	}
	var nreq int32
	hs := http.HandlerFunc(func(w http.ResponseWriter, rq *http.Request) {
		if atomic.AddInt32(&nreq, 1)%2 == 0 {
			pm.ServeHTTP(w, rq)
		} else {
			hs0.ServeHTTP(w, rq)
		}
	})
	plain := httptest.NewServer(hs)
	defer plain.Close()
	tlsS := httptest.NewTLSServer(hs)
	defer tlsS.Close()
	// the same handler behind a "real IP" middleware: RemoteAddr is a bare address, not host:port
	realIP := http.HandlerFunc(func(w http.ResponseWriter, rq *http.Request) {
		if h, _, err := net.SplitHostPort(rq.RemoteAddr); err == nil {
			rq.RemoteAddr = h
		}
		hs.ServeHTTP(w, rq)
	})
	plainR := httptest.NewServer(realIP)
	defer plainR.Close()
	tlsR := httptest.NewTLSServer(realIP)
	defer tlsR.Close()
	ipc := &inprocgrpc.Channel{}
	ipc.RegisterService(hx.Desc(hx.SvcName), svc)

	callerMDs := []metadata.MD{nil, {}, {"k": {"a"}}, {"k": {"a", "b"}, "other": {"x"}}, {"auth": {"caller"}, "trace-bin": {"\x00\xff\n"}}}
	// keys with upper-case letters are metadata keys all the same (gRPC lower-cases them)
	credMDs := []map[string]string{nil, {}, {"t": "tok"}, {"k": "c", "t": "tok"}, {"auth": "cred", "k": "c2", "z": "9"}, {"Auth": "Cred", "K": "C3", "Other": "y", "New-Key": "n"}}
	rep := 1
	if thorough {
		rep = 3
	}
	for rp := 0; rp < rep; rp++ {
		for _, transport := range []string{"http", "https", "inproc", "http-realip", "https-realip"} {
			for _, stream := range []bool{false, true} {
				for ci := -1; ci < len(credMDs)*2+2; ci++ { // -1: no credentials; then (md, secure) pairs; last two: failing creds
					for _, wantPeer := range []bool{false, true} {
						cm := callerMDs[r.Intn(len(callerMDs))]
						if rp == 0 && ci >= 0 {
							cm = callerMDs[(ci+3)%len(callerMDs)]
						}
						var creds *scriptCreds
						credTerm := "None"
						if ci >= 0 {
							sc := scriptCreds{secure: ci%2 == 1}
							if ci/2 < len(credMDs) {
								sc.md = credMDs[ci/2]
								var items []string
								var ks []string
								for k := range sc.md {
									ks = append(ks, k)
								}
								sort.Strings(ks)
								for _, k := range ks {
									items = append(items, "("+hx.Str(strings.ToLower(k))+", ["+hx.Str(sc.md[k])+"])")
								}
								credTerm = fmt.Sprintf("(Some {| require_secure := %s; cred_md := Some %s |})", hx.B(sc.secure), hx.List(items))
							} else {
								sc.err = errors.New("credential failure")
								credTerm = fmt.Sprintf("(Some {| require_secure := %s; cred_md := None |})", hx.B(sc.secure))
							}
							creds = &sc
						}
						ctx := context.Background()
						outTerm := "None"
						keys := map[string]bool{}
						if cm != nil {
							// the same outgoing metadata attached in the ways callers attach it: all at once, or a base
							// MD plus pairs appended afterwards (AppendToOutgoingContext keeps those apart from the MD)
							attachMode++
							if attachMode%2 == 0 {
								ctx = metadata.NewOutgoingContext(ctx, cm.Copy())
							} else {
								var ks []string
								for k := range cm {
									ks = append(ks, k)
								}
								sort.Strings(ks)
								base := metadata.MD{}
								var kv []string
								for i, k := range ks {
									if i == 0 && attachMode%4 == 1 {
										base[k] = append([]string{}, cm[k]...)
										continue
									}
									for _, v := range cm[k] {
										kv = append(kv, k, v)
									}
								}
								if len(base) > 0 {
									ctx = metadata.NewOutgoingContext(ctx, base)
								}
								if len(kv) > 0 {
									ctx = metadata.AppendToOutgoingContext(ctx, kv...)
								}
							}
							all := map[string]bool{}
							for k := range cm {
								all[k] = true
								keys[k] = true
							}
							outTerm = "(Some " + sortedMD(cm, all) + ")"
						}
						if creds != nil {
							for k := range creds.md {
								keys[strings.ToLower(k)] = true
							}
						}
						var opts []grpc.CallOption
						callNo++
						decoy := creds != nil && callNo%3 == 0
						if decoy {
							// an earlier credentials option of the same call: the last one given is the one that counts
							opts = append(opts, grpc.PerRPCCredentials(mapCreds{"x-first": "1"}))
							keys["x-first"] = true
						}
						if creds != nil {
							opts = append(opts, grpc.PerRPCCredentials(*creds))
						}
						handlerFails = (callNo*7+callNo/5)%5 < 2
						var pr peer.Peer
						if wantPeer {
							opts = append(opts, grpc.Peer(&pr))
						}
						var nreq int64
						var ch grpc.ClientConnInterface
						host, hasPort := "", true
						switch transport {
						case "http":
							u, _ := url.Parse(plain.URL)
							host = u.Host
							ch = &httpgrpc.Channel{Transport: countingRT{plain.Client().Transport, &nreq}, BaseURL: u}
						case "https":
							u, _ := url.Parse(tlsS.URL)
							host = u.Host
							ch = &httpgrpc.Channel{Transport: countingRT{tlsS.Client().Transport, &nreq}, BaseURL: u}
						case "http-realip":
							u, _ := url.Parse(plainR.URL)
							host = u.Host
							ch = &httpgrpc.Channel{Transport: countingRT{plainR.Client().Transport, &nreq}, BaseURL: u}
						case "https-realip":
							u, _ := url.Parse(tlsR.URL)
							host = u.Host
							ch = &httpgrpc.Channel{Transport: countingRT{tlsR.Client().Transport, &nreq}, BaseURL: u}
						default:
							ch = ipc
							nreq = -1
						}
						seen = nil
						var err error
						if !stream {
							err = ch.Invoke(ctx, "/verif.Svc/U", &hx.Msg{}, &hx.Msg{}, opts...)
						} else {
							var cs grpc.ClientStream
							cs, err = ch.NewStream(ctx, hx.StreamDescOf("BD"), "/verif.Svc/BD", opts...)
							if err == nil {
								cs.CloseSend()
								for {
									e := cs.RecvMsg(&hx.Msg{})
									if e != nil {
										if e != io.EOF {
											err = e
										}
										break
									}
								}
								runtime.KeepAlive(cs)
							}
						}
						hmd := "None"
						hAuth, hAddr := false, false
						if seen != nil {
							hmd = "(Some " + sortedMD(seen.md, keys) + ")"
							hAuth, hAddr = seen.peerAuth, seen.peerAddr
						}
						pAddr := "None"
						pAuth := false
						if wantPeer && pr.Addr != nil {
							pAddr = "(Some " + hx.Str(pr.Addr.String()) + ")"
							_, pAuth = pr.AuthInfo.(credentials.TLSInfo)
						}
						reqs := nreq
						// the handler's own NotFound is not a failure of the call's set-up: everything else (what the handler
						// saw, the peer reported to the caller) is as for a call that succeeds
						failed := err != nil && !(handlerFails && seen != nil && status.Code(err) == codes.NotFound)
						desc := map[string]interface{}{"transport": transport, "stream": stream, "creds": credTerm, "handler_fails_with_NotFound": handlerFails, "earlier_credentials_option_too": decoy, "creds_keys_as_given": credKeys(creds), "caller_md": cm, "peer_option": wantPeer,
							"error": fmt.Sprint(err), "requests": reqs}
						if creds != nil && creds.secure && strings.HasPrefix(transport, "http") && !strings.HasPrefix(transport, "https") && reqs > 0 {
							o.Violate("credentials requiring transport security crossed plain http", desc, reqs, 0)
						}
						kind := strings.Join([]string{transport, map[bool]string{false: "unary", true: "stream"}[stream]}, "_")
						o.Case(kind, fmt.Sprintf("CallCase %s %s %s %s %s %s %s %s %s {| o_failed := %s; o_requests := %s; o_handler_md := %s; o_peer_addr := %s; o_peer_auth := %s; o_handler_peer_auth := %s; o_handler_peer_addr_set := %s |}",
							hx.Str(transport), hx.B(strings.HasPrefix(transport, "https")), hx.B(transport == "inproc"), hx.B(stream), credTerm, outTerm, hx.B(wantPeer), hx.Str(host), hx.B(hasPort),
							hx.B(failed), hx.Z(reqs), hmd, pAddr, hx.B(pAuth), hx.B(hAuth), hx.B(hAddr)), desc)
					}
				}
			}
		}
	}
	// default ports: getPeer on URLs without a port (no connection needed)
	for _, c := range []struct {
		u     string
		https bool
	}{{"http://example.test/", false}, {"https://example.test/", true}, {"http://example.test:8080/", false},
		{"http://[::1]:8080/", false}, {"https://[2001:db8::7]:8443/x", true}, {"http://[::1]/", false}, {"https://[2001:db8::7]/", true}, {"http://10.1.2.3:9/", false}} {
		u, _ := url.Parse(c.u)
		p := httpgrpc.VerifGetPeer(u, nil)
		o.Case("default_port", fmt.Sprintf("CallCase \"getPeer\" %s false false None None true %s %s {| o_failed := false; o_requests := -1; o_handler_md := None; o_peer_addr := (Some %s); o_peer_auth := %s; o_handler_peer_auth := %s; o_handler_peer_addr_set := true |}",
			hx.B(c.https), hx.Str(u.Host), hx.B(u.Port() != ""), hx.Str(strings.TrimSuffix(p.Addr.String(), "")), hx.B(c.https), hx.B(c.https)),
			map[string]interface{}{"url": c.u, "peer": p.Addr.String()})
	}
	// concurrent calls to ONE method with DIFFERENT credentials whose token fetch takes a while: each request
	// carries the metadata of its own call's credentials, and each credentials object is asked
	for _, tn := range []string{"httpgrpc", "inprocgrpc"} {
		for _, stream := range []bool{false, true} {
			var mu sync.Mutex
			seen := map[string]string{}
			note := func(ctx context.Context) {
				in, _ := metadata.FromIncomingContext(ctx)
				mu.Lock()
				seen[strings.Join(in.Get("who"), ",")] = strings.Join(in.Get("token"), ",")
				mu.Unlock()
			}
			svc := &hx.Svc{Unary: func(ctx context.Context, req *hx.Msg) (*hx.Msg, error) { note(ctx); return &hx.Msg{}, nil },
				Stream: func(kind string, ss grpc.ServerStream) error { note(ss.Context()); return nil }}
			var ch grpc.ClientConnInterface
			stop := func() {}
			if tn == "httpgrpc" {
				hs := httpgrpc.NewServer()
				hs.RegisterService(hx.Desc(hx.SvcName), svc)
				ts := httptest.NewServer(hs)
				u, _ := url.Parse(ts.URL)
				ch, stop = &httpgrpc.Channel{Transport: &http.Transport{}, BaseURL: u}, ts.Close
			} else {
				ic := &inprocgrpc.Channel{}
				ic.RegisterService(hx.Desc(hx.SvcName), svc)
				ch = ic
			}
			var wg sync.WaitGroup
			asked := make([]int32, 4)
			for i := 0; i < 4; i++ {
				wg.Add(1)
				go func(i int) {
					defer wg.Done()
					time.Sleep(time.Duration(i) * 15 * time.Millisecond) // each enters while the previous fetch is running
					cr := tokenCreds{token: fmt.Sprint("token-of-", i), delay: 80 * time.Millisecond, asked: &asked[i]}
					ctx := metadata.AppendToOutgoingContext(context.Background(), "who", fmt.Sprint("caller-", i))
					if stream {
						cs, err := ch.NewStream(ctx, hx.StreamDescOf("BD"), "/verif.Svc/BD", grpc.PerRPCCredentials(cr))
						if err == nil {
							cs.CloseSend()
							cs.RecvMsg(&hx.Msg{})
							runtime.KeepAlive(cs)
						}
					} else {
						ch.Invoke(ctx, "/verif.Svc/U", &hx.Msg{}, &hx.Msg{}, grpc.PerRPCCredentials(cr))
					}
				}(i)
			}
			wg.Wait()
			stop()
			bad := ""
			for i := 0; i < 4; i++ {
				if got := seen[fmt.Sprint("caller-", i)]; got != fmt.Sprint("token-of-", i) {
					bad += fmt.Sprintf(" caller-%d's request carried %q;", i, got)
				}
				if atomic.LoadInt32(&asked[i]) == 0 {
					bad += fmt.Sprintf(" caller-%d's credentials were never asked;", i)
				}
			}
			if bad != "" {
				o.Violate("concurrent calls with different per-RPC credentials did not each carry their own credentials' metadata",
					map[string]interface{}{"transport": tn, "stream": stream, "calls": "four concurrent calls to one method, each with its own credentials whose fetch takes 80 ms", "handler_saw": seen}, bad, "caller-i carries token-of-i")
			}
		}
	}
	// credentials added by a client interceptor (an auth layer that appends grpc.PerRPCCredentials to the call's
	// options) on a channel intercepted twice: they are the call's credentials like any the caller passed
	for _, tn := range []string{"httpgrpc", "inprocgrpc"} {
		var sawTok string
		var reqs int32
		svc := &hx.Svc{Unary: func(ctx context.Context, req *hx.Msg) (*hx.Msg, error) {
			in, _ := metadata.FromIncomingContext(ctx)
			sawTok = strings.Join(in.Get("token"), ",")
			return &hx.Msg{}, nil
		}, Stream: func(kind string, ss grpc.ServerStream) error {
			in, _ := metadata.FromIncomingContext(ss.Context())
			sawTok = strings.Join(in.Get("token"), ",")
			return nil
		}}
		var base grpc.ClientConnInterface
		stop := func() {}
		if tn == "httpgrpc" {
			hs := httpgrpc.NewServer()
			hs.RegisterService(hx.Desc(hx.SvcName), svc)
			ts := httptest.NewServer(http.HandlerFunc(func(w http.ResponseWriter, r *http.Request) { atomic.AddInt32(&reqs, 1); hs.ServeHTTP(w, r) }))
			u, _ := url.Parse(ts.URL)
			base, stop = &httpgrpc.Channel{Transport: &http.Transport{}, BaseURL: u}, ts.Close
		} else {
			ic := &inprocgrpc.Channel{}
			ic.RegisterService(hx.Desc(hx.SvcName), svc)
			base = ic
		}
		for _, secure := range []bool{false, true} {
			var asked int32
			cr := authCreds{tokenCreds{token: "from-the-auth-layer", asked: &asked}, secure}
			inner := grpchan.InterceptClientConn(base,
				func(ctx context.Context, m string, rq, rp interface{}, cc *grpc.ClientConn, inv grpc.UnaryInvoker, opts ...grpc.CallOption) error {
					return inv(ctx, m, rq, rp, cc, opts...)
				},
				func(ctx context.Context, d *grpc.StreamDesc, cc *grpc.ClientConn, m string, st grpc.Streamer, opts ...grpc.CallOption) (grpc.ClientStream, error) {
					return st(ctx, d, cc, m, opts...)
				})
			outer := grpchan.InterceptClientConn(inner,
				func(ctx context.Context, m string, rq, rp interface{}, cc *grpc.ClientConn, inv grpc.UnaryInvoker, opts ...grpc.CallOption) error {
					return inv(ctx, m, rq, rp, cc, append(opts, grpc.PerRPCCredentials(cr))...)
				},
				func(ctx context.Context, d *grpc.StreamDesc, cc *grpc.ClientConn, m string, st grpc.Streamer, opts ...grpc.CallOption) (grpc.ClientStream, error) {
					return st(ctx, d, cc, m, append(opts, grpc.PerRPCCredentials(cr))...)
				})
			for _, stream := range []bool{false, true} {
				sawTok = "(handler did not run)"
				atomic.StoreInt32(&reqs, 0)
				var err error
				if stream {
					var cs grpc.ClientStream
					if cs, err = outer.NewStream(context.Background(), hx.StreamDescOf("BD"), "/verif.Svc/BD"); err == nil {
						cs.CloseSend()
						if e := cs.RecvMsg(&hx.Msg{}); e != io.EOF {
							err = e
						}
						runtime.KeepAlive(cs)
					}
				} else {
					err = outer.Invoke(context.Background(), "/verif.Svc/U", &hx.Msg{}, &hx.Msg{})
				}
				// credentials that require transport security are refused on the plain HTTP connection (no request at
				// all); in process there is no connection to be insecure
				refuse := secure && tn == "httpgrpc"
				ok := (refuse && err != nil && atomic.LoadInt32(&reqs) == 0 && sawTok == "(handler did not run)") ||
					(!refuse && err == nil && sawTok == "from-the-auth-layer")
				if !ok {
					o.Violate("credentials that a client interceptor added to the call's options on a twice-intercepted channel were not treated as the call's credentials",
						map[string]interface{}{"transport": tn, "stream": stream, "credentials_require_transport_security": secure, "handler_saw_token": sawTok, "http_requests": atomic.LoadInt32(&reqs), "error": fmt.Sprint(err)},
						sawTok, map[bool]string{true: "refused before any request", false: "from-the-auth-layer"}[refuse])
				}
			}
		}
		stop()
	}
	o.Stats["exhaustive_configurations"] = "{http,https,inproc} x {unary,stream} x {no creds, 5 credential maps x {secure,not}, failing x {secure,not}} x {peer option or not}"
	o.Shard = 120
}

// tokenCreds are per-RPC credentials of one user whose token takes a while to fetch
type tokenCreds struct {
	token string
	delay time.Duration
	asked *int32
}

func (c tokenCreds) GetRequestMetadata(context.Context, ...string) (map[string]string, error) {
	atomic.AddInt32(c.asked, 1)
	time.Sleep(c.delay)
	return map[string]string{"token": c.token}, nil
}
func (tokenCreds) RequireTransportSecurity() bool { return false }

// authCreds are tokenCreds that may require transport security
type authCreds struct {
	tokenCreds
	secure bool
}

func (a authCreds) RequireTransportSecurity() bool { return a.secure }
