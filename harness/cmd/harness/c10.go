package main

import (
	"context"
	"fmt"
	"io"
	"runtime"
	"sort"
	"strings"
	"sync"
	"time"

	"google.golang.org/grpc"
	"google.golang.org/grpc/metadata"
	"google.golang.org/grpc/peer"

	"github.com/fullstorydev/grpchan/inprocgrpc"
	"verifharness/hx"
)

func init() { runners["C10"] = runC10 }

type userKey struct{ n int }

// the six application keys are of six different Go types, the common idioms for context keys
type strKey string

var (
	intKeyVar  int
	strKeyVar  string
	structKeyV struct{ _ byte }
)

func keyOf(n int) interface{} {
	switch n {
	case 0:
		return userKey{0} // a value of a private struct type
	case 1:
		return &intKeyVar // the address of a package-level int
	case 2:
		return strKey("k2") // a private string type
	case 3:
		return 3 // a plain int
	case 4:
		return &strKeyVar // the address of a string
	default:
		return &structKeyV // the address of a struct
	}
}

type otherPeerAddr struct{}

func (otherPeerAddr) Network() string { return "other" }
func (otherPeerAddr) String() string  { return "9" }

type fakeSTS struct{ m string }

func (f fakeSTS) Method() string                  { return f.m }
func (f fakeSTS) SetHeader(md metadata.MD) error  { return nil }
func (f fakeSTS) SendHeader(md metadata.MD) error { return nil }
func (f fakeSTS) SetTrailer(md metadata.MD) error { return nil }

// context expressions, newest layer first when printed
type cexp struct {
	kind   string // bg, with, server
	layer  string // Coq term of the layer
	apply  func(context.Context) (context.Context, context.CancelFunc)
	method string
	stream bool
	inner  *cexp
}

func (e *cexp) coq() string {
	switch e.kind {
	case "bg":
		return "Bg"
	case "with":
		return "(With " + e.layer + " " + e.inner.coq() + ")"
	default:
		return "(Server " + hx.Str(e.method) + " " + e.inner.coq() + ")"
	}
}
func (e *cexp) describe() string {
	switch e.kind {
	case "bg":
		return "Background"
	case "with":
		return e.layer + " over " + e.inner.describe()
	default:
		return "handler-ctx(" + e.method + ") of a call made with [" + e.inner.describe() + "]"
	}
}

func mdTerm(md metadata.MD) string { return hx.MD(md) }

type seenT struct {
	user, cuser                 []string
	inmd, outmd, peerT, sts, dl string
	done, clientOK, isolated    bool
}

func runC10(o *hx.Out, r *hx.Rand, thorough bool) {
	t0 := time.Now().Add(time.Hour)
	dlTime := func(id int64) time.Time { return t0.Add(time.Duration(id) * time.Minute) }
	withInt := false
	var lastOutMD metadata.MD // the MD object most recently attached as outgoing metadata
	passU := func(ctx context.Context, req interface{}, info *grpc.UnaryServerInfo, h grpc.UnaryHandler) (interface{}, error) {
		return h(ctx, req)
	}
	passS := func(srv interface{}, ss grpc.ServerStream, info *grpc.StreamServerInfo, h grpc.StreamHandler) error {
		return h(srv, ss)
	}
	// every call gets its own channel whose handler runs f; the call waits for the handler to finish
	var callCreds map[string]string // per-RPC credentials of the outermost call, when it has them
	callWith := func(ctx context.Context, method string, stream bool, f func(context.Context)) {
		creds := callCreds
		callCreds = nil
		c := &inprocgrpc.Channel{}
		if withInt {
			c.WithServerUnaryInterceptor(passU).WithServerStreamInterceptor(passS)
		}
		done := make(chan struct{})
		var once sync.Once
		fin := func() { once.Do(func() { close(done) }) }
		c.RegisterService(hx.Desc(hx.SvcName), &hx.Svc{
			Unary:  func(hctx context.Context, req *hx.Msg) (*hx.Msg, error) { defer fin(); f(hctx); return &hx.Msg{}, nil },
			Stream: func(kind string, ss grpc.ServerStream) error { defer fin(); f(ss.Context()); return nil },
		})
		callInproc(c, ctx, method, stream, creds)
		select {
		case <-done:
		case <-time.After(3 * time.Second):
		}
	}
	// run f with the context denoted by e; for Server layers an actual in-process call is made
	var withCtx func(e *cexp, f func(context.Context))
	withCtx = func(e *cexp, f func(context.Context)) {
		switch e.kind {
		case "bg":
			f(context.Background())
		case "with":
			withCtx(e.inner, func(ctx context.Context) {
				c2, cancel := e.apply(ctx)
				if cancel != nil {
					defer cancel()
				}
				f(c2)
			})
		case "server":
			withCtx(e.inner, func(ctx context.Context) { callWith(ctx, e.method, e.stream, f) })
		}
	}
	randLayer := func() *cexp {
		e := &cexp{kind: "with"}
		switch r.Intn(9) {
		case 0, 1, 2:
			n, v := r.Intn(6), int64(r.Range(1, 99))
			e.layer = fmt.Sprintf("(LVal %d %d)", n, v)
			e.apply = func(c context.Context) (context.Context, context.CancelFunc) {
				return context.WithValue(c, keyOf(n), v), nil
			}
		case 3, 4:
			md := metadata.MD{}
			for k := r.Intn(3); k >= 0; k-- {
				md[r.Pick([]string{"k", "auth", "x-bin", "trace"})] = []string{r.Pick([]string{"v1", "v2", "a b"}), "w"}[:r.Range(1, 2)]
			}
			if r.Chance(15) {
				md = metadata.MD{}
			}
			e.layer = "(LOutMD " + mdTerm(md) + ")"
			e.apply = func(c context.Context) (context.Context, context.CancelFunc) {
				// the caller keeps (and later mutates) the very MD object it attached
				own := md.Copy()
				lastOutMD = own
				return metadata.NewOutgoingContext(c, own), nil
			}
		case 5:
			md := metadata.Pairs("outer-in", "secret")
			e.layer = "(LInMD " + mdTerm(md) + ")"
			e.apply = func(c context.Context) (context.Context, context.CancelFunc) {
				return metadata.NewIncomingContext(c, md), nil
			}
		case 6:
			e.layer = "(LPeer 2)"
			e.apply = func(c context.Context) (context.Context, context.CancelFunc) {
				return peer.NewContext(c, &peer.Peer{Addr: otherPeerAddr{}}), nil
			}
		case 7:
			e.layer = "(LSTS \"/outer.Svc/Outer\")"
			e.apply = func(c context.Context) (context.Context, context.CancelFunc) {
				return grpc.NewContextWithServerTransportStream(c, fakeSTS{"/outer.Svc/Outer"}), nil
			}
		default:
			id := int64(r.Range(1, 30))
			e.layer = fmt.Sprintf("(LDeadline %d)", id)
			e.apply = func(c context.Context) (context.Context, context.CancelFunc) {
				return context.WithDeadline(c, dlTime(id))
			}
		}
		return e
	}
	n := 120
	if thorough {
		n = 1500
	}
	for it := 0; it < n; it++ {
		withInt = r.Bool()
		// build a caller context expression with 0-2 enclosing in-process handlers
		e := &cexp{kind: "bg"}
		depth := r.Intn(3)
		for d := 0; d <= depth; d++ {
			for k := r.Intn(5); k > 0; k-- {
				l := randLayer()
				l.inner = e
				e = l
			}
			if d < depth {
				stream := r.Bool()
				m := "/verif.Svc/U"
				if stream {
					m = "/verif.Svc/BD"
				}
				e = &cexp{kind: "server", method: m, stream: stream, inner: e}
			}
		}
		if r.Chance(10) { // a cancelled caller context
			l := &cexp{kind: "with", layer: "LCancelled", inner: e, apply: func(c context.Context) (context.Context, context.CancelFunc) {
				c2, cancel := context.WithCancel(c)
				cancel()
				return c2, nil
			}}
			e = l
		}
		stream := r.Bool()
		method := "/verif.Svc/U"
		if stream {
			method = "/verif.Svc/BD"
		}
		var s seenT
		ran := false
		lastOutMD = nil
		var creds map[string]string
		credLayer := ""
		if r.Chance(45) {
			creds = []map[string]string{{}, {"cred": "tok"}, {"k1": "from-cred", "cred": "tok"}, {"k2": "c", "k1": "c"}, {"K": "Upper", "Auth": "T"}, {"Trace": "u2", "k": "lower"}, {"AUTH": "A"}}[r.Intn(7)]
		}
		withCtx(e, func(callerCtx context.Context) {
			// mutation probe material: the caller's own outgoing metadata object (not a copy of it)
			callerMD := lastOutMD
			if callerMD == nil {
				callerMD = metadata.MD{}
			}
			if creds != nil {
				callCreds = creds
			}
			if len(creds) > 0 {
				// credentials are one more layer of outgoing metadata: the caller's own, with theirs appended
				// (credentials that contribute nothing leave the context as it is)
				merged := metadata.MD{}
				if own, ok := metadata.FromOutgoingContext(callerCtx); ok {
					merged = own.Copy()
				}
				for k, v := range creds {
					k = strings.ToLower(k) // metadata keys are case-insensitive; gRPC lower-cases them
					merged[k] = append(merged[k], v)
				}
				credLayer = "LOutMD " + mdTerm(merged)
			}
			callWith(callerCtx, method, stream, func(hctx context.Context) {
				ran = true
				for k := 0; k < 6; k++ {
					if v, ok := hctx.Value(keyOf(k)).(int64); ok {
						s.user = append(s.user, fmt.Sprintf("(Some %d)", v))
					} else {
						s.user = append(s.user, "None")
					}
				}
				s.inmd, s.outmd, s.peerT, s.sts, s.dl = "None", "None", "None", "None", "None"
				in, okIn := metadata.FromIncomingContext(hctx)
				if okIn {
					s.inmd = "(Some " + mdTerm(in) + ")"
				}
				if out, ok := metadata.FromOutgoingContext(hctx); ok {
					s.outmd = "(Some " + mdTerm(out) + ")"
				}
				if p, ok := peer.FromContext(hctx); ok {
					if p.Addr != nil && p.Addr.Network() == "inproc" {
						s.peerT = "(Some 1)"
					} else {
						s.peerT = "(Some 2)"
					}
				}
				if st := grpc.ServerTransportStreamFromContext(hctx); st != nil {
					s.sts = "(Some " + hx.Str(st.Method()) + ")"
				}
				if d, ok := hctx.Deadline(); ok {
					id := int64(d.Sub(t0) / time.Minute)
					if !d.Equal(dlTime(id)) {
						id = -1
					}
					s.dl = fmt.Sprintf("(Some %s)", hx.Z(id))
				}
				s.done = hctx.Err() != nil
				cc := inprocgrpc.ClientContext(hctx)
				s.clientOK = cc != nil
				for k := 0; k < 6; k++ {
					v, ok := int64(0), false
					if cc != nil {
						v, ok = cc.Value(keyOf(k)).(int64)
					}
					if ok {
						s.cuser = append(s.cuser, fmt.Sprintf("(Some %d)", v))
					} else {
						s.cuser = append(s.cuser, "None")
					}
				}
				// mutating either side's metadata must not be visible on the other
				s.isolated = true
				// nor is the handler's peer the caller's variable (the one given to the grpc.Peer option): the caller
				// may reuse that variable while the handler still runs
				if hp, ok := peer.FromContext(hctx); ok && hp.Addr != nil {
					before := hp.Addr.Network() + "/" + hp.Addr.String()
					c10CallerPeer = peer.Peer{Addr: otherPeerAddr{}}
					if hp2, ok := peer.FromContext(hctx); !ok || hp2.Addr == nil || hp2.Addr.Network()+"/"+hp2.Addr.String() != before || hp == &c10CallerPeer {
						s.isolated = false
					}
				}
				if okIn {
					before := mdTerm(in)
					for k := range callerMD {
						callerMD[k] = append(callerMD[k], "mutated-by-caller")
					}
					callerMD["added-by-caller"] = []string{"x"}
					again, _ := metadata.FromIncomingContext(hctx)
					if mdTerm(again) != before {
						s.isolated = false
					}
					for k := range in {
						in[k][0] = "mutated-by-handler"
					}
					in["added-by-handler"] = []string{"y"}
					third, _ := metadata.FromIncomingContext(hctx)
					if mdTerm(third) != before {
						s.isolated = false
					}
					if cm, ok := metadata.FromOutgoingContext(callerCtx); ok {
						for _, vs := range cm {
							for _, v := range vs {
								if v == "mutated-by-handler" {
									s.isolated = false
								}
							}
						}
						if _, ok := cm["added-by-handler"]; ok {
							s.isolated = false
						}
					}
				}
			})
		})
		desc := map[string]interface{}{"caller_context": e.describe(), "method": method, "stream": stream}
		if ran && stream && it%3 == 0 {
			// the request metadata is the caller's as it was when NewStream was called: a caller that changes
			// its MD right after NewStream returned (before the server goroutine has run) is not seen
			if bad := mdSnapshotProbe(); bad != "" {
				s.isolated = false
				desc["metadata_changed_after_NewStream_seen_by_handler"] = bad
			}
			if bad := mdReusedObjectProbe(); bad != "" {
				s.isolated = false
				desc["long_lived_MD_object_changed_between_calls"] = bad
			}
			if bad := httpNamedKeysProbe(); bad != "" {
				s.isolated = false
				desc["metadata_keys_named_like_HTTP_headers"] = bad
			}
		}
		if !ran {
			// a cancelled caller context may end the call before the handler starts: nothing to compare
			desc["handler_ran"] = false
			o.Stats["handler_not_run"] = fmt.Sprint(o.Stats["handler_not_run"]) + "."
			continue
		}
		kind := "unary"
		if stream {
			kind = "stream"
		}
		kind += fmt.Sprintf("_depth%d", depth)
		ecoq := e.coq()
		if credLayer != "" {
			ecoq = "(With (" + credLayer + ") " + ecoq + ")"
		}
		if creds != nil {
			desc["per_rpc_credentials"] = creds
		}
		term := fmt.Sprintf("CtxCase %s %s %s {| user := %s; inmd := %s; outmd := %s; peer := %s; sts := %s; dl := %s; done := %s; cuser := %s; client_ok := %s; mutation_isolated := %s |}",
			hx.Str(kind), ecoq, hx.Str(method), hx.List(s.user), s.inmd, s.outmd, s.peerT, s.sts, s.dl, hx.B(s.done), hx.List(s.cuser), hx.B(s.clientOK), hx.B(s.isolated))
		if !s.isolated {
			o.Violate("mutating metadata on one side was visible on the other", desc, "shared", "isolated")
		}
		o.Case(kind, term, desc)
	}
	o.Shard = 100
	_ = sort.Strings
}

type mapCreds map[string]string

func (m mapCreds) GetRequestMetadata(context.Context, ...string) (map[string]string, error) {
	return m, nil
}
func (mapCreds) RequireTransportSecurity() bool { return false }

// the caller's variable for the grpc.Peer call option (what the library writes there is the caller's copy)
var c10CallerPeer peer.Peer

func callInproc(ch *inprocgrpc.Channel, ctx context.Context, method string, stream bool, creds map[string]string) {
	c10CallerPeer = peer.Peer{}
	opts := []grpc.CallOption{grpc.Peer(&c10CallerPeer)}
	if creds != nil {
		opts = append(opts, grpc.PerRPCCredentials(mapCreds(creds)))
	}
	if !stream {
		ch.Invoke(ctx, method, &hx.Msg{}, &hx.Msg{}, opts...)
		return
	}
	cs, err := ch.NewStream(ctx, hx.StreamDescOf("BD"), method, opts...)
	if err != nil {
		return
	}
	defer runtime.KeepAlive(cs)
	cs.CloseSend()
	for {
		if err := cs.RecvMsg(&hx.Msg{}); err != nil {
			if err != io.EOF {
				return
			}
			return
		}
	}
}

// mdSnapshotProbe: on one processor the server goroutine of a new stream has not run when NewStream returns
func mdSnapshotProbe() string {
	prev := runtime.GOMAXPROCS(1)
	defer runtime.GOMAXPROCS(prev)
	saw := make(chan string, 1)
	c := &inprocgrpc.Channel{}
	c.RegisterService(hx.Desc(hx.SvcName), &hx.Svc{Stream: func(kind string, ss grpc.ServerStream) error {
		in, _ := metadata.FromIncomingContext(ss.Context())
		saw <- strings.Join(in.Get("k"), ",")
		return nil
	}})
	for i := 0; i < 8; i++ {
		md := metadata.Pairs("k", fmt.Sprint("value-", i))
		cs, err := c.NewStream(metadata.NewOutgoingContext(context.Background(), md), hx.StreamDescOf("BD"), "/verif.Svc/BD")
		md.Set("k", "changed after NewStream returned")
		if err != nil {
			return "NewStream: " + err.Error()
		}
		cs.CloseSend()
		var got string
		select {
		case got = <-saw:
		case <-time.After(2 * time.Second):
			got = "(handler did not run)"
		}
		cs.RecvMsg(&hx.Msg{})
		runtime.KeepAlive(cs)
		if got != fmt.Sprint("value-", i) {
			return got
		}
	}
	return ""
}

// mdReusedObjectProbe: every call delivers the metadata its OWN context carries when the call is made: a caller
// that keeps one MD object, changes an entry between calls and attaches it again gets the new value delivered
func mdReusedObjectProbe() string {
	var saw string
	c := &inprocgrpc.Channel{}
	c.RegisterService(hx.Desc(hx.SvcName), &hx.Svc{
		Unary: func(ctx context.Context, req *hx.Msg) (*hx.Msg, error) {
			in, _ := metadata.FromIncomingContext(ctx)
			saw = strings.Join(in.Get("authorization"), ",")
			return &hx.Msg{}, nil
		},
		Stream: func(kind string, ss grpc.ServerStream) error {
			in, _ := metadata.FromIncomingContext(ss.Context())
			saw = strings.Join(in.Get("authorization"), ",")
			return nil
		}})
	md := metadata.Pairs("authorization", "token-0", "other", "x")
	for i := 0; i < 6; i++ {
		want := fmt.Sprint("token-", i)
		md.Set("authorization", want)
		ctx := metadata.NewOutgoingContext(context.Background(), md)
		saw = "(handler did not run)"
		if i%2 == 0 {
			if err := c.Invoke(ctx, "/verif.Svc/U", &hx.Msg{}, &hx.Msg{}); err != nil {
				return err.Error()
			}
		} else {
			cs, err := c.NewStream(ctx, hx.StreamDescOf("BD"), "/verif.Svc/BD")
			if err != nil {
				return err.Error()
			}
			cs.CloseSend()
			cs.RecvMsg(&hx.Msg{})
			runtime.KeepAlive(cs)
		}
		if saw != want {
			return fmt.Sprintf("call %d carried %s, the handler saw %s", i, want, saw)
		}
	}
	return ""
}

// httpNamedKeysProbe: in process there are no HTTP headers: caller metadata under keys that happen to be names of
// HTTP headers (a relaying proxy passes such keys on) reaches the handler like any other
func httpNamedKeysProbe() string {
	keys := []string{"te", "trailer", "upgrade", "keep-alive", "content-type", "connection", "accept-encoding", "content-length", "transfer-encoding", "host", "k"}
	var saw metadata.MD
	c := &inprocgrpc.Channel{}
	c.RegisterService(hx.Desc(hx.SvcName), &hx.Svc{
		Unary: func(ctx context.Context, req *hx.Msg) (*hx.Msg, error) {
			saw, _ = metadata.FromIncomingContext(ctx)
			return &hx.Msg{}, nil
		},
		Stream: func(kind string, ss grpc.ServerStream) error {
			saw, _ = metadata.FromIncomingContext(ss.Context())
			return nil
		}})
	for _, stream := range []bool{false, true} {
		md := metadata.MD{}
		for i, k := range keys {
			md.Set(k, fmt.Sprint("v", i))
		}
		ctx := metadata.AppendToOutgoingContext(metadata.NewOutgoingContext(context.Background(), md), "Upgrade", "appended")
		saw = nil
		if stream {
			cs, err := c.NewStream(ctx, hx.StreamDescOf("BD"), "/verif.Svc/BD")
			if err != nil {
				return err.Error()
			}
			cs.CloseSend()
			cs.RecvMsg(&hx.Msg{})
			runtime.KeepAlive(cs)
		} else if err := c.Invoke(ctx, "/verif.Svc/U", &hx.Msg{}, &hx.Msg{}); err != nil {
			return err.Error()
		}
		for i, k := range keys {
			want := []string{fmt.Sprint("v", i)}
			if k == "upgrade" {
				want = append(want, "appended")
			}
			if fmt.Sprint(saw.Get(k)) != fmt.Sprint(want) {
				return fmt.Sprintf("stream=%v: key %q carried %v, the handler saw %v", stream, k, want, saw.Get(k))
			}
		}
	}
	return ""
}
