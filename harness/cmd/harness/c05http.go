package main

import (
	"bytes"
	"context"
	"encoding/binary"
	"fmt"
	"github.com/fullstorydev/grpchan/inprocgrpc"
	"google.golang.org/grpc/codes"
	"google.golang.org/grpc/status"
	"google.golang.org/protobuf/proto"
	"io"
	"net/http"
	"net/http/httptest"
	"net/url"
	"runtime"
	"sync/atomic"
	"time"

	"google.golang.org/grpc"

	"github.com/fullstorydev/grpchan/httpgrpc"
	"verifharness/hx"
)

// within runs f and reports whether it finished in time
func within(d time.Duration, f func()) bool {
	done := make(chan struct{})
	go func() { defer close(done); f() }()
	select {
	case <-done:
		return true
	case <-time.After(d):
		return false
	}
}

func httpPair(svc *hx.Svc) (*httpgrpc.Channel, *http.Transport, func()) {
	hs := httpgrpc.NewServer()
	hs.RegisterService(hx.Desc(hx.SvcName), svc)
	ts := httptest.NewServer(hs)
	u, _ := url.Parse(ts.URL)
	tr := &http.Transport{}
	return &httpgrpc.Channel{Transport: tr, BaseURL: u}, tr, func() { tr.CloseIdleConnections(); ts.Close() }
}

// probes of the HTTP transport for C05: termination, no deadlock, no leaked goroutine
func runC05HTTP(o *hx.Out, r *hx.Rand, thorough bool) {
	id := 0
	probe := func(kind string, ok bool, d map[string]interface{}, what string) {
		id++
		if !ok && kind != "F14" && kind != "F15" && kind != "F21" {
			o.Violate(what, d, "did not complete in time / wrong result", nil)
		}
		goChecked(o, kind, id, ok, d)
	}
	bound := 2 * time.Second

	// (a) a completed and consumed call leaves no goroutine behind
	{
		ch, _, stop := httpPair(echoSvc())
		base := runtime.NumGoroutine()
		for i := 0; i < 5; i++ {
			halfDuplex(ch, "BD", []*hx.Msg{{Count: 1}, {Count: 2}})
			ch.Invoke(context.Background(), "/verif.Svc/U", &hx.Msg{}, &hx.Msg{})
		}
		ch.Transport.(*http.Transport).CloseIdleConnections()
		deadline := time.Now().Add(2 * time.Second)
		for runtime.NumGoroutine() > base+2 && time.Now().Before(deadline) {
			time.Sleep(5 * time.Millisecond)
		}
		left := runtime.NumGoroutine() - base
		stop()
		probe("http_no_goroutine_left", left <= 2, map[string]interface{}{"transport": "httpgrpc", "goroutines_above_baseline_after_completed_calls": left}, "goroutines remain after completed HTTP calls")
	}
	// (b) the handler returns early while the client is still sending; the client then closes and receives
	for _, code := range []int64{0, 5} {
		svc := &hx.Svc{Stream: func(kind string, ss grpc.ServerStream) error { ss.RecvMsg(&hx.Msg{}); return codeErr2(code) }}
		ch, _, stop := httpPair(svc)
		var sendErrs []string
		var fin error
		ok := within(bound*2, func() {
			cs, err := ch.NewStream(context.Background(), hx.StreamDescOf("BD"), "/verif.Svc/BD")
			if err != nil {
				fin = err
				return
			}
			for i := 0; i < 6; i++ {
				sendErrs = append(sendErrs, fmt.Sprint(cs.SendMsg(&hx.Msg{Count: int32(i), Payload: make([]byte, 1000)})))
			}
			cs.CloseSend()
			for {
				if fin = cs.RecvMsg(&hx.Msg{}); fin != nil {
					break
				}
			}
			runtime.KeepAlive(cs)
		})
		want := "EOF"
		if code != 0 {
			want = "rpc error: code = NotFound desc = scripted failure"
		}
		d := map[string]interface{}{"transport": "httpgrpc", "scenario": "handler returns after one receive while the client keeps sending, then CloseSend and receive", "handler_returns": code, "sends": sendErrs, "final": fmt.Sprint(fin)}
		probe("http_handler_returns_early", ok && fin != nil && fin.Error() == want, d, "operations did not terminate with the handler's status after the handler returned")
		stop()
	}
	// (c) cancellation while a send is blocked on back-pressure: every pending and later operation completes
	{
		block := make(chan struct{})
		svc := &hx.Svc{Stream: func(kind string, ss grpc.ServerStream) error { <-block; return nil }}
		ch, _, stop := httpPair(svc)
		ctx, cancel := context.WithCancel(context.Background())
		cs, err := ch.NewStream(ctx, hx.StreamDescOf("BD"), "/verif.Svc/BD")
		res := map[string]bool{}
		if err == nil {
			stalled := make(chan struct{})
			sendDone := make(chan struct{})
			go func() {
				defer close(sendDone)
				big := &hx.Msg{Payload: make([]byte, 256<<10)}
				for i := 0; i < 200; i++ {
					c := make(chan error, 1)
					go func() { c <- cs.SendMsg(big) }()
					select {
					case e := <-c:
						if e != nil {
							return
						}
					case <-time.After(150 * time.Millisecond):
						close(stalled)
						<-c
						return
					}
				}
			}()
			select {
			case <-stalled:
			case <-sendDone:
			case <-time.After(5 * time.Second):
			}
			cancel()
			res["blocked_send_returns"] = within(bound, func() { <-sendDone })
			res["recv_returns"] = within(bound, func() { cs.RecvMsg(&hx.Msg{}) })
			res["close_send_returns"] = within(bound, func() { cs.CloseSend() })
			res["later_send_returns"] = within(bound, func() { cs.SendMsg(&hx.Msg{}) })
			res["trailer_returns"] = within(bound, func() { cs.Trailer() })
			runtime.KeepAlive(cs)
		}
		cancel()
		close(block)
		ok := err == nil
		for _, v := range res {
			ok = ok && v
		}
		probe("http_cancel_with_blocked_send", ok, map[string]interface{}{"transport": "httpgrpc", "scenario": "handler never reads, sender stalls on back-pressure, then the context is cancelled", "completed": res},
			"after cancellation an HTTP stream operation stayed blocked")
		stop()
	}
	// (c2) a handler that sends from one goroutine and receives on another (one sender, one receiver: the
	// concurrency gRPC allows), against a client that sends everything before it starts receiving
	for _, t := range bothTransports(&hx.Svc{Stream: func(kind string, ss grpc.ServerStream) error {
		sent := make(chan struct{})
		go func() {
			defer close(sent)
			for i := 0; i < 5; i++ {
				if ss.SendMsg(&hx.Msg{Count: int32(i)}) != nil {
					return
				}
			}
		}()
		for {
			if err := ss.RecvMsg(&hx.Msg{}); err != nil {
				break
			}
		}
		<-sent
		return nil
	}}) {
		got, sends := 0, 0
		var fin error
		ctx, cancel := context.WithTimeout(context.Background(), 4*time.Second)
		ok := within(3*time.Second, func() {
			cs, err := t.ch.NewStream(ctx, hx.StreamDescOf("BD"), "/verif.Svc/BD")
			if err != nil {
				fin = err
				return
			}
			time.Sleep(30 * time.Millisecond) // the handler's sender runs ahead and stalls on back-pressure
			for i := 0; i < 6; i++ {
				if cs.SendMsg(&hx.Msg{Count: int32(i)}) == nil {
					sends++
				}
			}
			cs.CloseSend()
			for {
				if fin = cs.RecvMsg(&hx.Msg{}); fin != nil {
					break
				}
				got++
			}
			runtime.KeepAlive(cs)
		})
		cancel()
		probe("handler_sends_and_receives_concurrently_"+t.name, ok && fin == io.EOF && got == 5 && sends == 6,
			map[string]interface{}{"transport": t.name, "scenario": "handler: 5 sends on one goroutine, receives on another; client: 6 sends, CloseSend, then receives", "completed_in_3s": ok, "client_sends_ok": sends, "client_received": got, "final": fmt.Sprint(fin)},
			"a handler sending and receiving concurrently deadlocked with a client that sends before it receives")
		t.stop()
	}
	// (c1c) the peer answers BEFORE it has read the request (a 404 from a front end, or a complete early reply
	// whose trailer carries the status) while the client is inside SendMsg: that SendMsg returns
	{
		tr, _ := proto.Marshal(&httpgrpc.HttpTrailer{Code: 7, Message: "refused early"})
		pre := make([]byte, 4)
		binary.BigEndian.PutUint32(pre, uint32(int32(-len(tr))))
		early := append(append([]byte{}, pre...), tr...)
		for _, how := range []string{"404 without a body", "complete reply with a trailer"} {
			rt := roundTripFunc(func(rq *http.Request) (*http.Response, error) {
				time.Sleep(60 * time.Millisecond) // the client is inside SendMsg by now; the request body is never read
				h := http.Header{}
				if how == "404 without a body" {
					return &http.Response{StatusCode: 404, Status: "404 Not Found", Proto: "HTTP/1.1", ProtoMajor: 1, ProtoMinor: 1, Header: h, Body: io.NopCloser(bytes.NewReader(nil)), Request: rq}, nil
				}
				h.Set("Content-Type", httpgrpc.StreamRpcContentType_V1)
				return &http.Response{StatusCode: 200, Status: "200 OK", Proto: "HTTP/1.1", ProtoMajor: 1, ProtoMinor: 1, Header: h, Body: io.NopCloser(bytes.NewReader(early)), Request: rq}, nil
			})
			u, _ := url.Parse("http://early.invalid/")
			ch := &httpgrpc.Channel{Transport: rt, BaseURL: u}
			ctx, cancel := context.WithTimeout(context.Background(), 4*time.Second)
			cs, err := ch.NewStream(ctx, hx.StreamDescOf("BD"), "/verif.Svc/BD")
			var sendErr, recvErr error
			ok := err == nil
			if ok {
				ok = within(bound, func() {
					sendErr = cs.SendMsg(&hx.Msg{Payload: bytes.Repeat([]byte{1}, 1<<20)})
				})
				if ok {
					ok = within(bound, func() { cs.CloseSend(); recvErr = cs.RecvMsg(&hx.Msg{}) })
				}
				runtime.KeepAlive(cs)
			}
			cancel()
			probe("http_early_reply_releases_send", ok, map[string]interface{}{"transport": "httpgrpc", "scenario": "the peer answers (" + how + ") without reading the request while the client is inside SendMsg of a 1 MB message", "send_returned_in_2s": ok, "send_result": fmt.Sprint(sendErr), "receive": fmt.Sprint(recvErr)},
				"a SendMsg in flight when the call completed early never returned")
		}
	}
	// (c1d) other goroutines poll Trailer() (legal at any time: nil until the call is over) while the call runs to
	// completion: it completes, and later operations return
	{
		ch, _, stop := httpPair(echoSvc())
		rounds, okAll, failedAt := 40, true, -1
		for rd := 0; rd < rounds && okAll; rd++ {
			ctx, cancel := context.WithTimeout(context.Background(), 4*time.Second)
			cs, err := ch.NewStream(ctx, hx.StreamDescOf("BD"), "/verif.Svc/BD")
			if err != nil {
				cancel()
				okAll, failedAt = false, rd
				break
			}
			quit := make(chan struct{})
			for g := 0; g < 4; g++ {
				go func() {
					for {
						select {
						case <-quit:
							return
						default:
							cs.Trailer()
						}
					}
				}()
			}
			var fin error
			done := within(bound, func() {
				cs.SendMsg(&hx.Msg{Count: 1})
				cs.CloseSend()
				for {
					if fin = cs.RecvMsg(&hx.Msg{}); fin != nil {
						break
					}
				}
				fin2 := cs.RecvMsg(&hx.Msg{})
				_ = fin2
			})
			close(quit)
			cancel()
			runtime.KeepAlive(cs)
			if !done || fin != io.EOF {
				okAll, failedAt = false, rd
			}
		}
		stop()
		probe("http_trailer_polled_concurrently", okAll, map[string]interface{}{"transport": "httpgrpc", "scenario": "four goroutines call Trailer() in a loop while the call sends, closes and receives to the end; 40 calls", "all_completed_in_2s_each": okAll, "first_round_that_did_not": failedAt},
			"a call did not complete while other goroutines were asking for its trailers")
	}
	// (c2a) CloseSend from a second client goroutine lands while a SendMsg is cloning its message (a cloner
	// that takes its time): whichever order they take effect in, nothing panics and both return
	{
		cloning, proceed := make(chan struct{}, 1), make(chan struct{})
		var gate int32 = 1
		slow := &slowCloner{inner: inprocgrpc.ProtoCloner{}, before: func() {
			if atomic.CompareAndSwapInt32(&gate, 1, 0) {
				cloning <- struct{}{}
				<-proceed
			}
		}}
		ipc := (&inprocgrpc.Channel{}).WithCloner(slow)
		ipc.RegisterService(hx.Desc(hx.SvcName), &hx.Svc{Stream: func(kind string, ss grpc.ServerStream) error {
			for ss.RecvMsg(&hx.Msg{}) == nil {
			}
			time.Sleep(150 * time.Millisecond) // the handler does not return at once: no "server is done" to save a late send
			return nil
		}})
		ctx, cancel := context.WithTimeout(context.Background(), 4*time.Second)
		cs, err := ipc.NewStream(ctx, hx.StreamDescOf("BD"), "/verif.Svc/BD")
		var sendRes, closeRes, panicked atomic.Value
		sendDone, closeDone := make(chan struct{}), make(chan struct{})
		if err == nil {
			go func() {
				defer close(sendDone)
				defer func() {
					if p := recover(); p != nil {
						panicked.Store(fmt.Sprint(p))
					}
				}()
				sendRes.Store(fmt.Sprint(cs.SendMsg(&hx.Msg{Count: 1})))
			}()
			<-cloning
			go func() {
				defer close(closeDone)
				defer func() {
					if p := recover(); p != nil {
						panicked.Store(fmt.Sprint(p))
					}
				}()
				closeRes.Store(fmt.Sprint(cs.CloseSend()))
			}()
			time.Sleep(40 * time.Millisecond)
			close(proceed)
		}
		ok := err == nil && within(2*time.Second, func() { <-sendDone; <-closeDone })
		var fin error
		if ok {
			ok = within(2*time.Second, func() {
				for {
					if fin = cs.RecvMsg(&hx.Msg{}); fin != nil {
						return
					}
				}
			})
		}
		cancel()
		runtime.KeepAlive(cs)
		pp, _ := panicked.Load().(string)
		sr, _ := sendRes.Load().(string)
		cr, _ := closeRes.Load().(string)
		probe("close_send_while_send_is_cloning_inprocgrpc", ok && pp == "" && fin == io.EOF,
			map[string]interface{}{"transport": "inprocgrpc", "scenario": "SendMsg is inside the cloner when CloseSend is called from another goroutine", "send_result": sr, "close_send_result": cr, "panic": pp, "final": fmt.Sprint(fin), "all_returned": ok},
			"CloseSend racing a SendMsg that was cloning its message panicked or left an operation blocked")
	}
	// (c2b) a second handler goroutine is parked in SendMsg (the client is not receiving yet, the buffer is
	// full) at the moment the handler returns: the parked send must return (nil, io.EOF or another error),
	// nothing may panic (a send on the closed response channel), and the client then drains to the status
	for _, code := range []codes.Code{codes.OK, codes.Aborted} {
		for _, t := range bothTransports(nil) {
			t.stop()
			var pushed int32
			var pushErr, pushPanic atomic.Value
			pushDone := make(chan struct{})
			svc := &hx.Svc{Stream: func(kind string, ss grpc.ServerStream) error {
				go func() {
					defer close(pushDone)
					defer func() {
						if r := recover(); r != nil {
							pushPanic.Store(fmt.Sprint(r))
						}
					}()
					for i := 0; i < 50; i++ {
						if err := ss.SendMsg(&hx.Msg{Count: int32(i)}); err != nil {
							pushErr.Store(err.Error())
							return
						}
						atomic.AddInt32(&pushed, 1)
					}
				}()
				time.Sleep(40 * time.Millisecond) // the pusher fills the buffer and parks
				if code != codes.OK {
					return status.Error(code, "handler gave up")
				}
				return nil
			}}
			tt := bothTransports(svc)
			var t2 transportT
			for _, x := range tt {
				if x.name == t.name {
					t2 = x
				} else {
					x.stop()
				}
			}
			got := 0
			var fin error
			ctx, cancel := context.WithTimeout(context.Background(), 4*time.Second)
			ok := within(3*time.Second, func() {
				cs, err := t2.ch.NewStream(ctx, hx.StreamDescOf("BD"), "/verif.Svc/BD")
				if err != nil {
					fin = err
					return
				}
				cs.CloseSend()
				time.Sleep(120 * time.Millisecond) // the handler has returned by now; only then start receiving
				for {
					if fin = cs.RecvMsg(&hx.Msg{}); fin != nil {
						break
					}
					got++
				}
				runtime.KeepAlive(cs)
			})
			pusherEnded := within(2*time.Second, func() { <-pushDone })
			cancel()
			pp, _ := pushPanic.Load().(string)
			pe, _ := pushErr.Load().(string)
			finOK := fin != nil && ((code == codes.OK && fin == io.EOF) || (code != codes.OK && status.Code(fin) == code))
			probe("second_handler_goroutine_parked_in_send_at_return_"+t2.name, ok && pusherEnded && pp == "" && finOK,
				map[string]interface{}{"transport": t2.name, "handler_returns": code.String(), "scenario": "a second handler goroutine keeps sending; the client receives only after the handler has returned",
					"client_completed_in_3s": ok, "client_received": got, "final": fmt.Sprint(fin), "pusher_sends_ok": atomic.LoadInt32(&pushed), "pusher_last_error": pe, "pusher_panic": pp, "pusher_ended": pusherEnded},
				"a handler goroutine parked in SendMsg when the handler returned panicked, stayed blocked, or the client did not get the handler's status")
			t2.stop()
		}
	}
	// (c3) a single-response method whose handler keeps sending: the client's call fails at the second
	// response and the library then lets go of the exchange (the handler's context ends, no goroutine stays)
	{
		handlerDone := make(chan struct{})
		svc := &hx.Svc{Stream: func(kind string, ss grpc.ServerStream) error {
			defer close(handlerDone)
			for i := 0; ; i++ {
				if err := ss.SendMsg(&hx.Msg{Count: int32(i), Payload: make([]byte, 2048)}); err != nil {
					return err
				}
				select {
				case <-ss.Context().Done():
					return ss.Context().Err()
				case <-time.After(time.Millisecond):
				}
			}
		}}
		ch, tr, stop := httpPair(svc)
		base := runtime.NumGoroutine()
		var fin error
		ok := within(bound, func() {
			cs, err := ch.NewStream(context.Background(), hx.StreamDescOf("CS"), "/verif.Svc/CS")
			if err != nil {
				fin = err
				return
			}
			cs.SendMsg(&hx.Msg{})
			cs.CloseSend()
			fin = cs.RecvMsg(&hx.Msg{})
			runtime.KeepAlive(cs)
		})
		ended := within(bound, func() { <-handlerDone })
		tr.CloseIdleConnections()
		deadline := time.Now().Add(bound)
		for runtime.NumGoroutine() > base+2 && time.Now().Before(deadline) {
			time.Sleep(5 * time.Millisecond)
		}
		left := runtime.NumGoroutine() - base
		probe("http_single_response_overrun", ok && fin != nil && fin != io.EOF && ended && left <= 2,
			map[string]interface{}{"transport": "httpgrpc", "scenario": "client-streaming method whose handler sends responses without end", "receive": fmt.Sprint(fin), "handler_context_ended_within_2s": ended, "goroutines_above_baseline": left},
			"after a single-response call failed on a second response the library kept the exchange (handler and reader goroutine) alive")
		if ended {
			stop()
		} // otherwise closing the test server would wait for that handler for ever: leave it
	}
	// (c4) a call made with a context that is already done: whatever NewStream returns, every operation on it returns
	for _, t := range bothTransports(echoSvc()) {
		for _, how := range []string{"cancelled", "deadline passed"} {
			ctx, cancel := context.WithCancel(context.Background())
			if how == "cancelled" {
				cancel()
			} else {
				cancel()
				ctx, cancel = context.WithDeadline(context.Background(), time.Now().Add(-time.Second))
			}
			cs, err := t.ch.NewStream(ctx, hx.StreamDescOf("BD"), "/verif.Svc/BD")
			res := map[string]bool{}
			if err == nil {
				res["header_returns"] = within(bound, func() { cs.Header() })
				res["recv_returns"] = within(bound, func() { cs.RecvMsg(&hx.Msg{}) })
				res["send_returns"] = within(bound, func() { cs.SendMsg(&hx.Msg{}) })
				res["close_send_returns"] = within(bound, func() { cs.CloseSend() })
				res["trailer_returns"] = within(bound, func() { cs.Trailer() })
				res["header_again_returns"] = within(bound, func() { cs.Header() })
				runtime.KeepAlive(cs)
			}
			cancel()
			ok := true
			for _, v := range res {
				ok = ok && v
			}
			probe("context_done_before_the_call_"+t.name, ok, map[string]interface{}{"transport": t.name, "context": how, "new_stream_error": fmt.Sprint(err), "completed": res},
				"an operation on a stream whose context was done before the call did not return")
		}
		t.stop()
	}
	// (d) KNOWN FINDING F15: a receive issued before CloseSend after the handler has returned
	{
		svc := &hx.Svc{Stream: func(kind string, ss grpc.ServerStream) error { return nil }}
		ch, _, stop := httpPair(svc)
		ctx, cancel := context.WithTimeout(context.Background(), 1500*time.Millisecond)
		cs, err := ch.NewStream(ctx, hx.StreamDescOf("BD"), "/verif.Svc/BD")
		var fin error
		ok := err == nil && within(500*time.Millisecond, func() { fin = cs.RecvMsg(&hx.Msg{}) }) && fin == io.EOF
		probe("F15", ok, map[string]interface{}{"transport": "httpgrpc", "scenario": "handler returned at once; client calls RecvMsg without having closed its send side", "returned_within_500ms_with_EOF": ok, "result": fmt.Sprint(fin)}, "")
		cancel()
		if cs != nil {
			cs.CloseSend()
		}
		runtime.KeepAlive(cs)
		stop()
	}
	// (e) KNOWN FINDING F21: Header() after cancellation while the send side is open
	{
		block := make(chan struct{})
		svc := &hx.Svc{Stream: func(kind string, ss grpc.ServerStream) error { <-block; return nil }}
		ch, _, stop := httpPair(svc)
		ctx, cancel := context.WithCancel(context.Background())
		cs, err := ch.NewStream(ctx, hx.StreamDescOf("BD"), "/verif.Svc/BD")
		ok := err == nil
		if ok {
			cs.SendMsg(&hx.Msg{})
			cancel()
			ok = within(700*time.Millisecond, func() { cs.Header() })
			cs.CloseSend()
		}
		cancel()
		close(block)
		probe("F21", ok, map[string]interface{}{"transport": "httpgrpc", "scenario": "context cancelled while the send side is open; then Header()", "header_returned_within_700ms": ok}, "")
		runtime.KeepAlive(cs)
		stop()
	}
	// (f) KNOWN FINDING F14: the wrapper's finalizer cancels a call whose last receive is still in flight
	{
		svc := &hx.Svc{Stream: func(kind string, ss grpc.ServerStream) error {
			time.Sleep(150 * time.Millisecond)
			return ss.SendMsg(&hx.Msg{Count: 42})
		}}
		ch, _, stop := httpPair(svc)
		bad := 0
		for i := 0; i < 3; i++ {
			cs, err := ch.NewStream(context.Background(), hx.StreamDescOf("BD"), "/verif.Svc/BD")
			if err != nil {
				bad++
				continue
			}
			cs.CloseSend()
			stopGC := make(chan struct{})
			go func() {
				for {
					select {
					case <-stopGC:
						return
					default:
						runtime.GC()
						time.Sleep(5 * time.Millisecond)
					}
				}
			}()
			m := &hx.Msg{}
			err = cs.RecvMsg(m) // the last use of cs
			close(stopGC)
			if err != nil || m.Count != 42 {
				bad++
			}
		}
		probe("F14", bad == 0, map[string]interface{}{"transport": "httpgrpc", "scenario": "the stream's last use is a RecvMsg that is still in flight while the garbage collector runs", "calls_cancelled_by_the_finalizer": bad, "of": 3}, "")
		stop()
	}
}

// slowCloner calls before() ahead of every Clone
type slowCloner struct {
	inner  inprocgrpc.Cloner
	before func()
}

func (c *slowCloner) Copy(out, in interface{}) error { return c.inner.Copy(out, in) }
func (c *slowCloner) Clone(in interface{}) (interface{}, error) {
	c.before()
	return c.inner.Clone(in)
}
