package main

import (
	"google.golang.org/grpc/encoding"
)

// RawMsg is a message that the "proto" codec of this process treats as opaque
// bytes, so that the harness sees exactly the frames the transport carried.
type RawMsg struct{ B []byte }

type rawCodec struct{ base encoding.Codec }

func (c rawCodec) Marshal(v interface{}) ([]byte, error) {
	if r, ok := v.(*RawMsg); ok {
		return r.B, nil
	}
	return c.base.Marshal(v)
}
func (c rawCodec) Unmarshal(b []byte, v interface{}) error {
	if r, ok := v.(*RawMsg); ok {
		r.B = append([]byte{}, b...)
		return nil
	}
	return c.base.Unmarshal(b, v)
}
func (c rawCodec) Name() string { return "proto" }

var rawInstalled bool

// installRawCodec overrides the registered "proto" codec with one that passes
// RawMsg through untouched and delegates everything else to the real codec.
func installRawCodec() {
	if rawInstalled {
		return
	}
	rawInstalled = true
	encoding.RegisterCodec(rawCodec{encoding.GetCodec("proto")})
}
