package main

import (
	"context"
	"fmt"
	"google.golang.org/grpc"
	"google.golang.org/grpc/metadata"
	"io"
	"math"
	"net/http"
	"net/http/httptest"
	"net/url"
	"runtime"
	"strings"
	"time"

	"github.com/fullstorydev/grpchan/httpgrpc"
	"verifharness/hx"
)

func init() { runners["C09"] = runC09 }

func runC09(o *hx.Out, r *hx.Rand, thorough bool) {
	// ---- server side: header strings ----
	srv := func(kind string, present bool, v string) {
		h := http.Header{}
		if present {
			h["Grpc-Timeout"] = []string{v}
		}
		var has bool
		var lo, hi int64
		panicked := false
		func() {
			defer func() {
				if p := recover(); p != nil {
					panicked = true
				}
			}()
			t0 := time.Now()
			ctx, cancel, err := httpgrpc.VerifContextFromHeaders(context.Background(), h)
			t1 := time.Now()
			defer cancel()
			if err != nil {
				return
			}
			if dl, ok := ctx.Deadline(); ok {
				has = true
				lo, hi = int64(dl.Sub(t1)), int64(dl.Sub(t0))
				// allow for the clock reads inside WithTimeout
				lo -= 1000
				if hi < math.MaxInt64-1000 {
					hi += 1000
				}
			}
		}()
		hdr := "None"
		if present {
			hdr = "(Some " + hx.Str(v) + ")"
		}
		desc := map[string]interface{}{"side": "server", "grpc-timeout": v, "present": present, "has_deadline": has, "remaining_ns": []int64{lo, hi}, "panicked": panicked}
		if panicked {
			o.Violate("server panicked on a GRPC-Timeout header", desc, "panic", nil)
		}
		o.Case(kind, fmt.Sprintf("Srv %s %s %s %s %s", hdr, hx.B(has), hx.Z(lo), hx.Z(hi), hx.B(panicked)), desc)
	}
	srv("absent", false, "")
	// the request's context may already carry a (later or earlier) deadline of the server's own, e.g. under
	// http.TimeoutHandler: the handler gets the earlier of the two, in whatever unit the caller's was written
	for _, v := range []struct {
		hdr string
		d   time.Duration
	}{{"2000000u", 2 * time.Second}, {"1500000000n", 1500 * time.Millisecond}, {"3S", 3 * time.Second}, {"250m", 250 * time.Millisecond}, {"1M", time.Minute}, {"1H", time.Hour}, {"40000000u", 40 * time.Second}} {
		for _, parent := range []time.Duration{30 * time.Second, 100 * time.Millisecond} {
			// bracketed by clock reads, so that a descheduled harness cannot make a correct deadline look wrong:
			// the deadline lies between (first read + expected) and (last read + expected)
			tA := time.Now()
			pctx, pcancel := context.WithTimeout(context.Background(), parent)
			ctx, cancel, err := httpgrpc.VerifContextFromHeaders(pctx, http.Header{"Grpc-Timeout": {v.hdr}})
			tB := time.Now()
			want := v.d
			if parent < want {
				want = parent
			}
			ok := err == nil
			var got time.Duration
			if ok {
				dl, has := ctx.Deadline()
				got = dl.Sub(tA)
				ok = has && !dl.Before(tA.Add(want-time.Millisecond)) && !dl.After(tB.Add(want+time.Millisecond))
				cancel()
			}
			pcancel()
			d := map[string]interface{}{"side": "server", "grpc-timeout": v.hdr, "request_context_deadline": parent.String(), "handler_deadline_in": got.String(), "expected": want.String()}
			if !ok {
				o.Violate("the handler's deadline is not the earlier of the caller's timeout and the request context's own deadline", d, got.String(), want.String())
			}
			if parent > v.d {
				// then it is the header's: the same observation in the vocabulary of the model
				// the remaining time at the last and at the first clock read brackets the header's duration
				lo, hi := int64(0), int64(0)
				if dl, has := ctx.Deadline(); err == nil && has {
					lo, hi = int64(dl.Sub(tB))-1000, int64(dl.Sub(tA))+1000
				}
				o.Case("server_with_parent_deadline", fmt.Sprintf("Srv (Some %s) %s %s %s false", hx.Str(v.hdr), hx.B(err == nil), hx.Z(lo), hx.Z(hi)), d)
			}
		}
	}
	// corpus: values whose product with the unit used to wrap around
	for _, v := range []string{"2562048H", "99999999H", "5124096H", "307445735M", "18446744074S", "9223372036854775807S",
		"9223372036854775807n", "9223372036854775808n", "2562047H", "153722867M", "153722868M", "9223372036S", "9223372037S",
		"", "H", "m", "5", "-5S", "+5S", " 5S", "5S ", "5 S", "5s", "5h", "1e3S", "0x10S", "٣S", "5\xffS", "00000005m", "0m", "0H", "1n", "99999999n", "99999999u"} {
		srv("corpus", true, v)
	}
	units := []string{"H", "M", "S", "m", "u", "n", "s", "h", "d", "U", "N", " ", "0", "µ"}
	n := 150
	if thorough {
		n = 3000
	}
	for i := 0; i < n; i++ {
		digits := r.Range(1, 20)
		if r.Chance(70) {
			digits = r.Range(1, 9)
		}
		var sb strings.Builder
		switch r.Intn(12) {
		case 0:
			sb.WriteByte('-')
		case 1:
			sb.WriteByte('+')
		case 2:
			sb.WriteByte(' ')
		}
		lead := r.Chance(15)
		for d := 0; d < digits; d++ {
			c := byte('0' + r.Intn(10))
			if d == 0 && !lead && c == '0' {
				c = '1'
			}
			if d == 0 && lead {
				c = '0'
			}
			sb.WriteByte(c)
		}
		if r.Chance(4) {
			sb.WriteByte('x')
		}
		u := units[r.Intn(6)]
		if r.Chance(12) {
			u = units[r.Intn(len(units))]
		}
		if r.Chance(3) {
			u = ""
		}
		srv("grammar", true, sb.String()+u)
	}
	// boundary of the int64 range for every unit
	for _, u := range []struct {
		c  string
		ns int64
	}{{"H", int64(time.Hour)}, {"M", int64(time.Minute)}, {"S", int64(time.Second)}, {"m", 1e6}, {"u", 1e3}, {"n", 1}} {
		q := math.MaxInt64 / u.ns
		for _, d := range []int64{-2, -1, 0, 1, 2} {
			if q+d > 0 {
				srv("boundary", true, fmt.Sprintf("%d%s", q+d, u.c))
			}
		}
	}

	// ---- client side: remaining durations ----
	cli := func(kind string, rem time.Duration, has bool) {
		ctx := context.Background()
		var dl time.Time
		if has {
			dl = time.Now().Add(rem)
			var cancel context.CancelFunc
			ctx, cancel = context.WithDeadline(ctx, dl)
			defer cancel()
		}
		var rb, ra int64
		if has {
			rb = int64(time.Until(dl))
		}
		h := httpgrpc.VerifHeadersFromContext(ctx)
		if has {
			ra = int64(time.Until(dl))
		}
		vals := h["Grpc-Timeout"]
		hdr := "None"
		if len(vals) > 0 {
			hdr = "(Some " + hx.Str(vals[0]) + ")"
		}
		o.Case(kind, fmt.Sprintf("Cli %s %s %s %s", hx.Z(ra), hx.Z(rb), hx.B(has), hdr),
			map[string]interface{}{"side": "client", "has_deadline": has, "remaining_ns_before": rb, "remaining_ns_after": ra, "grpc-timeout": vals})
	}
	cli("no_deadline", 0, false)
	for _, d := range []time.Duration{-time.Hour, -1, 0, 1, 999999, time.Millisecond, time.Millisecond + 1, 1999999, 2 * time.Millisecond,
		99999999 * time.Millisecond, 100000000 * time.Millisecond, 28 * time.Hour, 30 * 24 * time.Hour, 5 * 365 * 24 * time.Hour, 290 * 365 * 24 * time.Hour} {
		cli("corpus", d, true)
	}
	nc := 150
	if thorough {
		nc = 3000
	}
	for i := 0; i < nc; i++ {
		// log-uniform between 1 ns and ~290 years
		e := r.Range(0, 62)
		d := time.Duration(int64(1)<<uint(e) + int64(r.U64()%(uint64(1)<<uint(e))))
		if r.Chance(30) { // around powers of ten of milliseconds
			p := int64(math.Pow10(r.Range(0, 11)))
			d = time.Duration(p*int64(time.Millisecond) + int64(r.Range(-3, 3))*int64(r.Pick3(1, 1000, 1000000)))
		}
		cli("random", d, true)
	}

	// ---- end to end over loopback: the handler's deadline against the caller's ----
	type obs struct {
		has     bool
		dl      time.Time
		arrival time.Time
	}
	var got obs
	svc := &hx.Svc{Unary: func(ctx context.Context, req *hx.Msg) (*hx.Msg, error) {
		got.arrival = time.Now()
		got.dl, got.has = ctx.Deadline()
		return &hx.Msg{}, nil
	}}
	s := httpgrpc.NewServer()
	s.RegisterService(hx.Desc(hx.SvcName), svc)
	ts := httptest.NewServer(s)
	defer ts.Close()
	u, _ := url.Parse(ts.URL)
	var sentAt time.Time // when the request was handed to the transport
	ch := &httpgrpc.Channel{Transport: stampRT{&http.Transport{}, &sentAt}, BaseURL: u}
	s.RegisterService(hx.Desc("verif.Svc2"), &hx.Svc{Stream: func(kind string, ss grpc.ServerStream) error {
		got.arrival = time.Now()
		got.dl, got.has = ss.Context().Deadline()
		return nil
	}})
	e2e := []time.Duration{0, 50 * time.Millisecond, 1500 * time.Millisecond, 90 * time.Second, 28 * time.Hour, 30 * time.Hour, 30 * 24 * time.Hour, 5 * 365 * 24 * time.Hour, 200 * 365 * 24 * time.Hour}
	ne := 0
	// variants: plain; the caller's outgoing metadata already carries a grpc-timeout entry (a proxy that forwards
	// the metadata it received); per-RPC credentials whose token fetch takes 60 ms; and the same on a stream
	for _, variant := range []string{"plain", "metadata has grpc-timeout", "slow credentials", "stream", "stream, slow credentials"} {
		for _, d := range e2e {
			if variant != "plain" && (d == 0 || d > 30*time.Hour) {
				continue
			}
			if strings.Contains(variant, "slow credentials") && d < time.Second {
				continue // the fetch alone would exhaust the deadline
			}
			ctx := context.Background()
			if variant == "metadata has grpc-timeout" {
				ctx = metadata.NewOutgoingContext(ctx, metadata.Pairs("grpc-timeout", "7H", "other", "x"))
			}
			var opts []grpc.CallOption
			if strings.Contains(variant, "slow credentials") {
				opts = append(opts, grpc.PerRPCCredentials(slowCreds{60 * time.Millisecond}))
			}
			var callerDL time.Time
			if d > 0 {
				var cancel context.CancelFunc
				callerDL = time.Now().Add(d)
				ctx, cancel = context.WithDeadline(ctx, callerDL)
				defer cancel()
			}
			got = obs{}
			var err error
			if strings.HasPrefix(variant, "stream") {
				var cs grpc.ClientStream
				cs, err = ch.NewStream(ctx, hx.StreamDescOf("BD"), "/verif.Svc2/BD", opts...)
				if err == nil {
					cs.CloseSend()
					if e := cs.RecvMsg(&hx.Msg{}); e != io.EOF {
						err = e
					}
					runtime.KeepAlive(cs)
				}
			} else {
				err = ch.Invoke(ctx, "/verif.Svc/U", &hx.Msg{}, &hx.Msg{}, opts...)
			}
			send := sentAt
			desc := map[string]interface{}{"side": "end-to-end", "variant": variant, "caller_timeout": d.String(), "handler_has_deadline": got.has}
			ne++
			if err != nil {
				o.Violate("end-to-end call with a deadline failed", desc, err.Error(), nil)
				continue
			}
			if d == 0 {
				if got.has {
					o.Violate("the transport added a deadline the caller did not set", desc, got.dl.String(), nil)
				}
				continue
			}
			if !got.has {
				o.Violate("the caller's deadline did not reach the handler", desc, nil, nil)
				continue
			}
			early := callerDL.Sub(got.dl)
			late := got.dl.Sub(callerDL)
			transit := got.arrival.Sub(send) // from the hand-over to the transport to the handler
			desc["handler_minus_caller_ns"] = int64(late)
			desc["transit_ns"] = int64(transit)
			if early > time.Millisecond+50*time.Microsecond {
				o.Violate("handler deadline earlier than the caller's by more than the 1 ms granularity", desc, early.String(), "<= 1ms")
			}
			if late > transit+time.Millisecond+20*time.Millisecond { // 20 ms for the scheduler between encoding the header and the hand-over
				o.Violate("handler deadline later than the caller's by more than transit + 1 ms", desc, late.String(), transit.String())
			}
		}
	}
	// a first attempt that is lost (the connection is held, then dropped without a reply): whatever the client
	// does next, a handler that runs sees a deadline no later than the caller's plus the transit of the request
	// that actually reached it
	for _, hold := range []time.Duration{150 * time.Millisecond, 400 * time.Millisecond} {
		var hdl time.Time
		var hhas, ran bool
		var arrival time.Time
		hs := httpgrpc.NewServer()
		hs.RegisterService(hx.Desc(hx.SvcName), &hx.Svc{Unary: func(ctx context.Context, req *hx.Msg) (*hx.Msg, error) {
			arrival = time.Now()
			ran = true
			hdl, hhas = ctx.Deadline()
			return &hx.Msg{}, nil
		}})
		ts := httptest.NewServer(hs)
		u, _ := url.Parse(ts.URL)
		var lastSend time.Time
		lt := &lossyRT{inner: &http.Transport{}, hold: hold, sent: &lastSend}
		ch := &httpgrpc.Channel{Transport: lt, BaseURL: u}
		callerDL := time.Now().Add(3 * time.Second)
		ctx, cancel := context.WithDeadline(context.Background(), callerDL)
		err := ch.Invoke(ctx, "/verif.Svc/U", &hx.Msg{}, &hx.Msg{})
		cancel()
		ts.Close()
		desc := map[string]interface{}{"side": "end-to-end", "variant": "the first round trip is held for " + hold.String() + " and then fails with an unexpected EOF", "caller_timeout": "3s", "handler_ran": ran, "call_result": fmt.Sprint(err), "round_trips": lt.n}
		ne++
		if ran {
			late := hdl.Sub(callerDL)
			transit := arrival.Sub(lastSend)
			desc["handler_minus_caller_ns"] = int64(late)
			desc["transit_ns"] = int64(transit)
			if !hhas {
				o.Violate("the caller's deadline did not reach the handler", desc, nil, nil)
			} else if late > transit+time.Millisecond+20*time.Millisecond {
				o.Violate("handler deadline later than the caller's by more than transit + 1 ms", desc, late.String(), transit.String())
			}
		}
	}
	o.Stats["end_to_end_calls"] = ne
}

// lossyRT loses the first round trip: it holds it, then reports a dropped connection; later ones go through
type lossyRT struct {
	inner http.RoundTripper
	hold  time.Duration
	sent  *time.Time
	n     int
}

func (l *lossyRT) RoundTrip(r *http.Request) (*http.Response, error) {
	l.n++
	if l.n == 1 {
		if r.Body != nil {
			io.Copy(io.Discard, r.Body)
			r.Body.Close()
		}
		time.Sleep(l.hold)
		return nil, io.ErrUnexpectedEOF
	}
	*l.sent = time.Now()
	return l.inner.RoundTrip(r)
}

// stampRT notes when a request is handed to the transport
type stampRT struct {
	inner http.RoundTripper
	at    *time.Time
}

func (s stampRT) RoundTrip(r *http.Request) (*http.Response, error) {
	*s.at = time.Now()
	return s.inner.RoundTrip(r)
}

// slowCreds are per-RPC credentials whose token takes a while to fetch
type slowCreds struct{ d time.Duration }

func (c slowCreds) GetRequestMetadata(context.Context, ...string) (map[string]string, error) {
	time.Sleep(c.d)
	return map[string]string{"token": "t"}, nil
}
func (slowCreds) RequireTransportSecurity() bool { return false }
