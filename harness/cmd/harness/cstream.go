package main

import (
	"context"
	"fmt"
	"github.com/fullstorydev/grpchan/inprocgrpc"
	"google.golang.org/grpc"
	"runtime"
	"sync/atomic"
	"time"

	"verifharness/hx"
)

// profiles of schedule generation for the in-process stream properties
type profile struct {
	name        string
	rounds      [2]int
	cancel      int // percent chance of one Cancel/Deadline in the schedule
	handlerEnd  int // percent chance per round (late) that the handler returns
	headers     int
	stall       bool // the receiver never receives: back-pressure runs
	headerPoll  bool // ... but keeps asking for the headers (a metadata-logging wrapper)
	slowPoll    bool // a receiver that alternates Header() and RecvMsg, half as often as the handler sends
	kinds       []string
	returnCodes []int64
}

func genNext(r *hx.Rand, p profile, kind string) func(map[string]bool, int) *sOp {
	total := r.Range(p.rounds[0], p.rounds[1])
	nextID := int64(1)
	hid := int64(1)
	returned := false
	hRecving := false // H's operation in flight is a receive (one receiver at a time on a stream)
	cancelled := false
	cancelAt := -1
	if r.Chance(p.cancel) {
		cancelAt = r.Intn(total)
	}
	return func(busy map[string]bool, round int) *sOp {
		if round >= total {
			return nil
		}
		if round == cancelAt && !cancelled {
			cancelled = true
			k := "Cancel"
			if r.Chance(35) {
				k = "Deadline"
			}
			return &sOp{actor: "ENV", kind: k}
		}
		for try := 0; try < 20; try++ {
			var cand []sOp
			if !busy["CS"] {
				cand = append(cand, sOp{actor: "CS", kind: "CSend", x: nextID}, sOp{actor: "CS", kind: "CSend", x: nextID})
				if r.Chance(25) {
					cand = append(cand, sOp{actor: "CS", kind: "CClose"})
				}
			}
			if !busy["CC"] && r.Chance(15) {
				cand = append(cand, sOp{actor: "CC", kind: "CClose"})
			}
			if !busy["CR"] && p.stall && p.headerPoll {
				cand = append(cand, sOp{actor: "CR", kind: "CHeader"}, sOp{actor: "CR", kind: "CHeader"})
			}
			if !busy["CR"] && p.slowPoll {
				cand = append(cand, sOp{actor: "CR", kind: "CHeader"})
				if r.Chance(50) {
					cand = append(cand, sOp{actor: "CR", kind: "CRecv"})
				}
				cand = append(cand, sOp{actor: "H", kind: "HSend", x: 100 + nextID}, sOp{actor: "H", kind: "HSend", x: 100 + nextID})
				if busy["H"] || returned {
					cand = cand[:len(cand)-2]
				}
			}
			if !busy["CR"] && !p.stall && !p.slowPoll {
				cand = append(cand, sOp{actor: "CR", kind: "CRecv"}, sOp{actor: "CR", kind: "CRecv"})
				if r.Chance(p.headers) {
					cand = append(cand, sOp{actor: "CR", kind: "CHeader"})
				}
				if r.Chance(20) {
					cand = append(cand, sOp{actor: "CR", kind: "CTrailer"})
				}
			}
			if !busy["H"] {
				hRecving = false
			}
			// a second handler goroutine receives while the first one sends
			if !busy["HR"] && !hRecving && (!returned || r.Chance(10)) && (!p.stall || r.Chance(20)) && r.Chance(35) {
				cand = append(cand, sOp{actor: "HR", kind: "HRecv"})
			}
			if !busy["H"] && !returned {
				cand = append(cand, sOp{actor: "H", kind: "HSend", x: 100 + nextID}, sOp{actor: "H", kind: "HSend", x: 100 + nextID})
				if (!p.stall || r.Chance(20)) && !busy["HR"] {
					cand = append(cand, sOp{actor: "H", kind: "HRecv"})
				}
				if r.Chance(p.headers) {
					cand = append(cand, sOp{actor: "H", kind: r.Pick([]string{"HSetHeader", "HSendHeader", "HSetTrailer", "HSendHeader"}), md: []int64{hid}})
					if r.Chance(20) {
						cand[len(cand)-1].md = nil
					}
				}
				if round > total/3 && r.Chance(p.handlerEnd) {
					cand = append(cand, sOp{actor: "H", kind: "HReturn", x: p.returnCodes[r.Intn(len(p.returnCodes))]})
				}
			}
			if len(cand) == 0 {
				return nil
			}
			c := cand[r.Intn(len(cand))]
			switch c.kind {
			case "CSend", "HSend":
				nextID++
			case "HSetHeader", "HSendHeader", "HSetTrailer":
				hid++
			case "HReturn":
				returned = true
			case "HRecv":
				if c.actor == "H" {
					hRecving = true
				}
			}
			return &c
		}
		return nil
	}
}

// fixedNext replays a written-out schedule (operations whose actor is still busy are dropped)
func fixedNext(ops []sOp) func(map[string]bool, int) *sOp {
	i := 0
	return func(busy map[string]bool, round int) *sOp {
		for i < len(ops) {
			op := ops[i]
			i++
			if op.actor == "ENV" || !busy[op.actor] {
				return &op
			}
		}
		return nil
	}
}

// runFixedSchedules runs a corpus of written-out schedules as cases of profile name
func runFixedSchedules(o *hx.Out, name string, kinds []string, corpus [][]sOp) {
	for _, kind := range kinds {
		for _, ops := range corpus {
			res := runSchedule(kind, fixedNext(ops))
			if res.unsettled {
				continue
			}
			desc := map[string]interface{}{"transport": "inprocgrpc", "stream_kind": kind, "rounds": roundsDesc(res.rounds), "panicked": res.panicked, "goroutines_left": res.leaked, "schedule": "written out"}
			if res.panicked {
				o.Violate("an operation of the in-process stream panicked", desc, "panic", nil)
			}
			o.Case(name+"_"+kind, fmt.Sprintf("Sched %s %s %s %s %s", hx.Str(name), hx.B(kind != "CS"), roundsTerm(res.rounds), hx.B(res.panicked), hx.B(res.leaked)), desc)
		}
	}
}

func runStreamProfile(o *hx.Out, r *hx.Rand, p profile, n int) {
	unsettled := 0
	for i := 0; i < n; i++ {
		kind := p.kinds[r.Intn(len(p.kinds))]
		res := runSchedule(kind, genNext(r, p, kind))
		if res.unsettled {
			unsettled++
			continue
		}
		desc := map[string]interface{}{"transport": "inprocgrpc", "stream_kind": kind, "rounds": roundsDesc(res.rounds), "panicked": res.panicked, "goroutines_left": res.leaked}
		if res.panicked {
			o.Violate("an operation of the in-process stream panicked", desc, "panic", nil)
		}
		o.Case(p.name+"_"+kind, fmt.Sprintf("Sched %s %s %s %s %s", hx.Str(p.name), hx.B(kind != "CS"), roundsTerm(res.rounds), hx.B(res.panicked), hx.B(res.leaked)), desc)
	}
	o.Stats["unsettled_schedules_skipped_"+p.name] = unsettled
}

func init() {
	runners["STREAM"] = func(o *hx.Out, r *hx.Rand, thorough bool) {
		o.Imports = "corr.Stream"
		p := profile{name: "mixed", rounds: [2]int{4, 12}, cancel: 25, handlerEnd: 30, headers: 40, kinds: []string{"BD", "SS", "CS"}, returnCodes: []int64{0, 0, 5, 13, -1}}
		n := 200
		if thorough {
			n = 2000
		}
		runStreamProfile(o, r, p, n)
		o.Oracle = "(fun _ => true)"
		o.Shard = 40
	}
}

func goChecked(o *hx.Out, kind string, id int, ok bool, desc map[string]interface{}) {
	o.Case(kind, fmt.Sprintf("GoChecked %s %d %s", hx.Str(kind), id, hx.B(ok)), desc)
}

func init() {
	runners["C20"] = func(o *hx.Out, r *hx.Rand, thorough bool) {
		o.Imports = "corr.C20"
		n := 60
		if thorough {
			n = 600
		}
		// a receiver that performs no receive, in every kind and direction, with and without pending headers
		runStreamProfile(o, r, profile{name: "stalled", rounds: [2]int{4, 14}, cancel: 10, handlerEnd: 5, headers: 35, stall: true, kinds: []string{"BD", "SS", "CS"}, returnCodes: []int64{0}}, n)
		// a receiver that does not receive but keeps calling Header(), against a handler that sets no headers
		runStreamProfile(o, r, profile{name: "header_polling", rounds: [2]int{6, 14}, cancel: 5, handlerEnd: 5, headers: 0, stall: true, headerPoll: true, kinds: []string{"BD", "SS"}, returnCodes: []int64{0}}, n/3)
		runStreamProfile(o, r, profile{name: "header_polling_handler_sets_headers", rounds: [2]int{6, 14}, cancel: 5, handlerEnd: 5, headers: 60, stall: true, headerPoll: true, kinds: []string{"BD", "SS"}, returnCodes: []int64{0}}, n/3)
		// written-out schedules around Header(): pending headers, then sends, then Header() calls and receives
		{
			H := func(k string, x int64) sOp { return sOp{actor: "H", kind: k, x: x} }
			CR := func(k string) sOp { return sOp{actor: "CR", kind: k} }
			hdr := sOp{actor: "H", kind: "HSetHeader", md: []int64{1}}
			runFixedSchedules(o, "header_corpus", []string{"BD", "SS"}, [][]sOp{
				{hdr, H("HSend", 101), H("HSend", 102), CR("CHeader"), H("HSend", 103), CR("CHeader"), H("HSend", 104), CR("CRecv"), CR("CHeader"), H("HSend", 105)},
				{H("HSend", 101), H("HSend", 102), CR("CHeader"), H("HSend", 103), CR("CHeader"), H("HSend", 104), CR("CRecv"), CR("CHeader"), H("HSend", 105), CR("CRecv"), CR("CHeader"), H("HSend", 106)},
				{hdr, CR("CHeader"), H("HSend", 101), H("HSend", 102), H("HSend", 103), CR("CHeader"), CR("CRecv"), H("HSend", 104), CR("CHeader")},
				{{actor: "H", kind: "HSendHeader", md: []int64{2}}, H("HSend", 101), H("HSend", 102), CR("CHeader"), H("HSend", 103), CR("CHeader")},
			})
		}
		// written-out schedules: a client send is blocked on the full request buffer when the handler returns with
		// more closing frames than the response buffer holds (headers, trailers, status) and nobody receives: the
		// blocked send is released AT the return, not when the client at last makes room
		{
			H := func(k string, x int64) sOp { return sOp{actor: "H", kind: k, x: x} }
			CS := func(x int64) sOp { return sOp{actor: "CS", kind: "CSend", x: x} }
			CR := sOp{actor: "CR", kind: "CRecv"}
			hdr := sOp{actor: "H", kind: "HSetHeader", md: []int64{1}}
			tlr := sOp{actor: "H", kind: "HSetTrailer", md: []int64{2}}
			runFixedSchedules(o, "return_releases_blocked_send", []string{"BD", "CS"}, [][]sOp{
				{CS(1), CS(2), tlr, H("HReturn", 5), CR, CR, CR},
				{CS(1), CS(2), hdr, tlr, H("HReturn", 0), CR, CR, CR},
				{CS(1), CS(2), hdr, tlr, H("HReturn", 9), CS(3), CR, CR, CR, CR},
				{H("HSend", 101), CS(1), CS(2), tlr, H("HReturn", 5), CR, CR, CR, CR},
			})
		}
		// the same with a receiver that also receives now and then, slower than the sender, and with handler headers
		runStreamProfile(o, r, profile{name: "header_polling_slow_receiver", rounds: [2]int{8, 16}, cancel: 5, handlerEnd: 5, headers: 30, slowPoll: true, kinds: []string{"BD", "SS"}, returnCodes: []int64{0}}, n/2)
		// the handler returns while a client send is blocked on the full buffer
		runStreamProfile(o, r, profile{name: "return_while_send_blocked", rounds: [2]int{5, 10}, cancel: 0, handlerEnd: 70, headers: 10, stall: true, kinds: []string{"BD", "CS"}, returnCodes: []int64{0, 5}}, n/3)
		// slow receivers: receive now and then while the sender keeps trying
		runStreamProfile(o, r, profile{name: "slow", rounds: [2]int{6, 16}, cancel: 10, handlerEnd: 10, headers: 50, kinds: []string{"BD", "SS", "CS"}, returnCodes: []int64{0, 5}}, n)
		abandonedStreams(o)
		o.Shard = 30
	}
	runners["C05"] = func(o *hx.Out, r *hx.Rand, thorough bool) {
		o.Imports = "corr.C05"
		n := 70
		if thorough {
			n = 700
		}
		runStreamProfile(o, r, profile{name: "ends", rounds: [2]int{5, 14}, cancel: 35, handlerEnd: 45, headers: 30, kinds: []string{"BD", "SS", "CS"}, returnCodes: []int64{0, 0, 5, 13, -1, -2}}, n)
		runStreamProfile(o, r, profile{name: "early_return", rounds: [2]int{5, 12}, cancel: 5, handlerEnd: 90, headers: 30, kinds: []string{"BD", "SS", "CS"}, returnCodes: []int64{0, 14}}, n)
		// written-out schedules: a second handler goroutine is still in RecvMsg when the handler returns
		// while its final frames do not fit the response buffer (nobody receives): the receive must
		// return then, not when the client at last makes room (F26, repaired)
		{
			H := func(k string, x int64) sOp { return sOp{actor: "H", kind: k, x: x} }
			HR := sOp{actor: "HR", kind: "HRecv"}
			CR := sOp{actor: "CR", kind: "CRecv"}
			tlr := sOp{actor: "H", kind: "HSetTrailer", md: []int64{1}}
			runFixedSchedules(o, "receive_in_flight_at_return", []string{"BD", "CS"}, [][]sOp{
				{tlr, H("HSend", 101), H("HSend", 102), HR, CR, H("HReturn", 5), {actor: "CS", kind: "CClose"}, CR, CR},
				{H("HSend", 101), HR, H("HReturn", 7), CR, CR, CR},
				{tlr, HR, H("HReturn", 0), CR, CR},
				{tlr, H("HSend", 101), HR, H("HReturn", 0), {actor: "CS", kind: "CSend", x: 3}, CR, CR, CR},
			})
		}
		httpClientSchedules(o, r, n, "Http")
		runC05HTTP(o, r, thorough)
		o.Check, o.Oracle, o.Finding = "check_c05", "oracle_c05", "finding_case"
		o.Shard = 30
	}
}

//go:noinline
func openAndAbandon(ch *inprocgrpc.Channel, kind string) error {
	cs, err := ch.NewStream(context.Background(), hx.StreamDescOf(kind), "/verif.Svc/"+kind)
	if err != nil {
		return err
	}
	cs.SendMsg(&hx.Msg{})
	cs.CloseSend()
	return nil // cs goes out of scope: the receiver is gone for good
}

// abandonedStreams: "blocks until the context ends": a caller on a context that never ends opens a stream,
// stops using it and drops it; the handler, one message ahead and parked in SendMsg, holds the buffered
// message, the pending one and its goroutine until the stream's own context ends -- which the runtime does
// for a dropped in-process stream.  The parked send must then return (an error), having completed no more
// sends than the buffer holds.
func abandonedStreams(o *hx.Out) {
	for id, kind := range []string{"SS", "BD", "BD, after an unrelated dropped stream whose handler is slow to notice its context"} {
		var completed int32
		sendEnded := make(chan error, 1)
		ch := &inprocgrpc.Channel{}
		if id == 2 {
			// streams are independent: an unrelated stream, dropped earlier, whose handler does not watch its
			// context (busy elsewhere for a long time) does not delay the release of this one
			kind = "BD"
			busy := make(chan struct{})
			defer close(busy)
			other := &inprocgrpc.Channel{}
			other.RegisterService(hx.Desc(hx.SvcName), &hx.Svc{Stream: func(k string, ss grpc.ServerStream) error {
				select {
				case <-busy:
				case <-time.After(20 * time.Second):
				}
				return nil
			}})
			openAndAbandon(other, "BD")
			for i := 0; i < 4; i++ {
				runtime.GC()
				time.Sleep(30 * time.Millisecond)
			}
		}
		ch.RegisterService(hx.Desc(hx.SvcName), &hx.Svc{Stream: func(k string, ss grpc.ServerStream) error {
			ss.RecvMsg(&hx.Msg{})
			for {
				if err := ss.SendMsg(&hx.Msg{Payload: make([]byte, 512)}); err != nil {
					sendEnded <- err
					return err
				}
				atomic.AddInt32(&completed, 1)
			}
		}})
		err := openAndAbandon(ch, kind)
		time.Sleep(150 * time.Millisecond)
		ahead := atomic.LoadInt32(&completed)
		released, sendErr := false, ""
		deadline := time.After(4 * time.Second)
	wait:
		for err == nil {
			runtime.GC()
			select {
			case e := <-sendEnded:
				released = true
				if e != nil {
					sendErr = e.Error()
				}
				break wait
			case <-deadline:
				break wait
			case <-time.After(40 * time.Millisecond):
			}
		}
		ok := err == nil && released && sendErr != "" && ahead <= 1 && atomic.LoadInt32(&completed) == ahead
		d := map[string]interface{}{"transport": "inprocgrpc", "stream_kind": kind, "scenario": "the caller's context never ends; the stream is dropped unread; the garbage collector runs", "after_an_unrelated_dropped_stream_with_a_busy_handler": id == 2,
			"sends_completed_with_no_receiver": ahead, "parked_send_released": released, "parked_send_error": sendErr, "new_stream_error": fmt.Sprint(err)}
		if !ok {
			o.Violate("a handler parked in SendMsg on a stream its caller has dropped was not released when the stream's context ended", d, released, true)
		}
		goChecked(o, fmt.Sprintf("abandoned_stream_%s_%d", kind, id), 9000+id, ok, d)
	}
}
