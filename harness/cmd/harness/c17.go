package main

import (
	"context"
	"fmt"
	protov1 "github.com/golang/protobuf/proto"
	"github.com/jhump/protoreflect/desc"
	"github.com/jhump/protoreflect/dynamic"

	"google.golang.org/grpc"
	"google.golang.org/grpc/codes"
	"google.golang.org/grpc/credentials/insecure"
	"google.golang.org/grpc/metadata"
	"google.golang.org/grpc/status"

	"github.com/fullstorydev/grpchan"
	"github.com/fullstorydev/grpchan/inprocgrpc"
	"verifharness/hx"
)

func init() { runners["C17"] = runC17 }

type cscript struct{ Tag, DReq, Opt, Calls, DResp, Fail, CC int64 }

func (s cscript) coq() string {
	return fmt.Sprintf("{| cs_tag := %d; cs_dreq := %s; cs_opt := %d; cs_calls := %d; cs_dresp := %s; cs_fail := %d; cs_cc := %d |}",
		s.Tag, hx.Z(s.DReq), s.Opt, s.Calls, hx.Z(s.DResp), s.Fail, s.CC)
}

// options are encoded as grpc.MaxCallRecvMsgSize(n)
func optIDs(opts []grpc.CallOption) []string {
	var out []string
	for _, o := range opts {
		if m, ok := o.(grpc.MaxRecvMsgSizeCallOption); ok {
			out = append(out, fmt.Sprint(m.MaxRecvMsgSize))
		} else {
			out = append(out, "(-1)")
		}
	}
	return out
}

// a stream object that only carries the value computed at the base
type valStream struct {
	grpc.ClientStream
	val int64
}

func (valStream) Header() (metadata.MD, error) { return nil, nil }

func runC17(o *hx.Out, r *hx.Rand, thorough bool) {
	l := &evlog{}
	var stackDesc interface{}
	defer func() {
		// a panic inside the interception code (building a stack, or a call through it) is a violation with the
		// stack that provoked it; the cases gathered so far are still evaluated
		if p := recover(); p != nil {
			d := map[string]interface{}{"stack_outermost_first": stackDesc, "panic": fmt.Sprint(p)}
			o.Violate("building or calling through a stack of client interceptors panicked", d, fmt.Sprint(p), nil)
			o.Case("panic", "CCase false [] false 0 \"panic\" 0 [] (Err 13) [] false", d)
			o.Shard = 150
		}
	}()
	var baseConn *grpc.ClientConn // the real connection when the base is one
	ccTerm := func(cc *grpc.ClientConn, desc map[string]interface{}) string {
		if cc == nil {
			return "false"
		}
		if cc != baseConn {
			o.Violate("interceptor was handed a *grpc.ClientConn that is not the underlying connection", desc, "other conn", "base conn")
		}
		return "true"
	}
	// what an interceptor hands on as the connection argument: its own (0), nil (1), some other connection (2)
	otherConn, err := grpc.Dial("passthrough:///verif-other", grpc.WithTransportCredentials(insecure.NewCredentials()))
	if err != nil {
		panic(err)
	}
	defer otherConn.Close()
	onward := func(s cscript, cc *grpc.ClientConn) *grpc.ClientConn {
		switch s.CC {
		case 1:
			return nil
		case 2:
			return otherConn
		}
		return cc
	}
	var curDesc map[string]interface{}
	mkUnary := func(s cscript) grpc.UnaryClientInterceptor {
		return func(ctx context.Context, method string, req, reply interface{}, cc *grpc.ClientConn, invoker grpc.UnaryInvoker, opts ...grpc.CallOption) error {
			rq := req.(*hx.Msg)
			l.add(fmt.Sprintf("ClientEnter %d %s %s %s %s", s.Tag, hx.Str(method), hx.Z(int64(rq.Count)), hx.List(optIDs(opts)), ccTerm(cc, curDesc)))
			if s.Calls == 0 {
				if s.Fail != 0 {
					return failErr(s.Fail)
				}
				reply.(*hx.Msg).Count = int32(s.DResp)
				return nil
			}
			req2 := req
			if s.DReq != 0 {
				req2 = &hx.Msg{Count: rq.Count + int32(s.DReq)}
			}
			opts2 := opts
			if s.Opt != 0 {
				opts2 = append(append([]grpc.CallOption{}, opts...), grpc.MaxCallRecvMsgSize(int(s.Opt)))
			}
			err := invoker(ctx, method, req2, reply, onward(s, cc), opts2...)
			if s.Calls == 2 {
				err = invoker(ctx, method, req2, reply, onward(s, cc), opts2...)
			}
			if s.Fail != 0 {
				return failErr(s.Fail)
			}
			if err != nil {
				return err
			}
			reply.(*hx.Msg).Count += int32(s.DResp)
			return nil
		}
	}
	// for streams the "request" is a value carried in the context
	mkStream := func(s cscript) grpc.StreamClientInterceptor {
		return func(ctx context.Context, desc *grpc.StreamDesc, cc *grpc.ClientConn, method string, streamer grpc.Streamer, opts ...grpc.CallOption) (grpc.ClientStream, error) {
			v := ctxVal(ctx)
			l.add(fmt.Sprintf("ClientEnter %d %s %s %s %s", s.Tag, hx.Str(method), hx.Z(v), hx.List(optIDs(opts)), ccTerm(cc, curDesc)))
			if s.Calls == 0 {
				if s.Fail != 0 {
					return nil, failErr(s.Fail)
				}
				return valStream{val: s.DResp}, nil
			}
			ctx2 := ctx
			if s.DReq != 0 {
				ctx2 = withVal(ctx, v+s.DReq)
			}
			opts2 := opts
			if s.Opt != 0 {
				opts2 = append(append([]grpc.CallOption{}, opts...), grpc.MaxCallRecvMsgSize(int(s.Opt)))
			}
			st, err := streamer(ctx2, desc, onward(s, cc), method, opts2...)
			if s.Calls == 2 {
				st, err = streamer(ctx2, desc, onward(s, cc), method, opts2...)
			}
			if s.Fail != 0 {
				return nil, failErr(s.Fail)
			}
			if err != nil {
				return nil, err
			}
			return valStream{ClientStream: st, val: st.(valStream).val + s.DResp}, nil
		}
	}
	randScript := func(tag int64) cscript {
		s := cscript{Tag: tag, Calls: 1}
		if r.Chance(25) {
			s.CC = int64(r.Range(1, 2))
		}
		if r.Chance(55) {
			return s
		}
		if r.Chance(40) {
			s.DReq = int64(r.Range(1, 9))
		}
		if r.Chance(40) {
			s.Opt = int64(r.Range(1, 9)) * 100
		}
		if r.Chance(30) {
			s.DResp = int64(r.Range(1, 9)) * 1000
		}
		switch r.Intn(8) {
		case 0:
			s.Calls = 0
		case 1:
			s.Calls = 2
		}
		if r.Chance(20) {
			s.Fail = int64(r.Range(1, 16))
			if r.Chance(45) {
				s.Fail = int64(-3 - r.Intn(2)) // the bare error of a context, not a status
			}
		}
		return s
	}
	n := 150
	if thorough {
		n = 2000
	}
	for it := 0; it < n; it++ {
		tag := int64(r.Range(0, 5)) * 10000
		// the base channel
		var base grpc.ClientConnInterface
		isGrpc := false
		baseKind := []string{"fake", "grpc.ClientConn", "inprocgrpc"}[r.Intn(3)]
		baseConn = nil
		switch baseKind {
		case "fake":
			base = fakeChan{l, tag, nil}
		case "grpc.ClientConn":
			cc, err := grpc.Dial("passthrough:///verif-unused", grpc.WithTransportCredentials(insecure.NewCredentials()),
				grpc.WithUnaryInterceptor(func(ctx context.Context, method string, req, reply interface{}, _ *grpc.ClientConn, _ grpc.UnaryInvoker, opts ...grpc.CallOption) error {
					l.add(fmt.Sprintf("BaseCall %s %s %s", hx.Str(method), hx.Z(int64(req.(*hx.Msg).Count)), hx.List(optIDs(opts))))
					reply.(*hx.Msg).Count = req.(*hx.Msg).Count + int32(tag)
					return nil
				}),
				grpc.WithStreamInterceptor(func(ctx context.Context, _ *grpc.StreamDesc, _ *grpc.ClientConn, method string, _ grpc.Streamer, opts ...grpc.CallOption) (grpc.ClientStream, error) {
					l.add(fmt.Sprintf("BaseCall %s %s %s", hx.Str(method), hx.Z(ctxVal(ctx)), hx.List(optIDs(opts))))
					return valStream{val: ctxVal(ctx) + tag}, nil
				}))
			if err != nil {
				panic(err)
			}
			defer cc.Close()
			base, baseConn, isGrpc = cc, cc, true
		case "inprocgrpc":
			ipc := &inprocgrpc.Channel{}
			ipc.RegisterService(hx.Desc(hx.SvcName), &hx.Svc{Unary: func(ctx context.Context, req *hx.Msg) (*hx.Msg, error) {
				return &hx.Msg{Count: req.Count + int32(tag)}, nil
			}})
			base = fakeChan{l, tag, ipc}
		}
		depth := r.Intn(7)
		type layer struct{ u, s *cscript }
		layers := make([]layer, depth) // outermost first
		for i := range layers {
			if r.Chance(60) {
				s := randScript(int64(i + 1))
				layers[i].u = &s
			}
			if r.Chance(60) {
				s := randScript(int64(i + 1))
				layers[i].s = &s
			}
		}
		stackDesc = layers
		// build from the innermost layer out
		ch := base
		identOK := true
		for i := depth - 1; i >= 0; i-- {
			var ui grpc.UnaryClientInterceptor
			var si grpc.StreamClientInterceptor
			if layers[i].u != nil {
				ui = mkUnary(*layers[i].u)
			}
			if layers[i].s != nil {
				si = mkStream(*layers[i].s)
			}
			// both constructors (the older InterceptChannel is deprecated but exported, and documented as the same)
			var w grpc.ClientConnInterface
			if (it+i)%3 == 2 {
				w = grpchan.InterceptChannel(ch, ui, si)
			} else {
				w = grpchan.InterceptClientConn(ch, ui, si)
			}
			// a sibling wrapper over the same channel, created afterwards and never called: it must
			// not change what w does
			sib := cscript{Tag: 99, Calls: 1, DReq: 500, DResp: 70000}
			_ = grpchan.InterceptClientConn(ch, mkUnary(sib), mkStream(sib))
			if ui == nil && si == nil {
				_, f1 := w.(foreignWrapper)
				_, f2 := ch.(foreignWrapper)
				if f1 != f2 || (!f1 && w != ch) {
					identOK = false
					w = ch // (whatever was returned instead is not used further)
				}
			} else {
				wc, ok := w.(grpchan.WrappedClientConn)
				if _, foreign := ch.(foreignWrapper); !ok || (!foreign && wc.Unwrap() != ch) {
					identOK = false
				}
			}
			ch = w
			// now and then a wrapper of somebody else's sits between two layers (once, or twice in a row): a
			// value type holding a map, which only forwards; interception above and below it is unaffected
			if i > 0 && r.Chance(25) {
				ch = foreignWrapper{ch, metadata.MD{"tag": {"x"}}}
				if r.Chance(50) {
					ch = foreignWrapper{ch, metadata.MD{"tag": {"y"}}}
				}
			}
		}
		// an interceptor may keep the options it was shown (an audit log, a stream opened lazily): they
		// are that call's options for good, whatever calls are made afterwards
		{
			var kept [][]grpc.CallOption
			audit := grpchan.InterceptClientConn(base, func(ctx context.Context, method string, req, reply interface{}, cc *grpc.ClientConn, invoker grpc.UnaryInvoker, opts ...grpc.CallOption) error {
				kept = append(kept, opts)
				return invoker(ctx, method, req, reply, cc, opts...)
			}, nil)
			m := "/verif.Svc/U"
			audit.Invoke(context.Background(), m, &hx.Msg{Count: 1}, &hx.Msg{}, grpc.MaxCallRecvMsgSize(1), grpc.MaxCallRecvMsgSize(2))
			first := fmt.Sprint(optIDs(kept[0]))
			audit.Invoke(context.Background(), m, &hx.Msg{Count: 1}, &hx.Msg{}, grpc.MaxCallRecvMsgSize(7), grpc.MaxCallRecvMsgSize(8), grpc.MaxCallRecvMsgSize(9))
			l.take()
			if again := fmt.Sprint(optIDs(kept[0])); again != first || first != "[1 2]" {
				identOK = false
				o.Violate("the options an interceptor was shown for one call changed when a later call was made", map[string]interface{}{"first_call_options": first, "same_slice_after_second_call": again}, again, first)
			}
		}
		// every call made on an intercepted channel goes through its interceptor once, whatever context it is made
		// with: also a context that an earlier call on the same channel handed to the interceptor (an interceptor
		// that makes a side call of its own, a follow-up call made with a stream's context)
		{
			seenCalls := 0
			var given context.Context
			var self grpc.ClientConnInterface
			self = grpchan.InterceptClientConn(base, func(ctx context.Context, method string, req, reply interface{}, cc *grpc.ClientConn, invoker grpc.UnaryInvoker, opts ...grpc.CallOption) error {
				seenCalls++
				if given == nil {
					given = ctx
					// a side call of the interceptor's own, on its own channel, with the context it was given
					self.Invoke(ctx, "/verif.Svc/U", &hx.Msg{Count: 2}, &hx.Msg{})
				}
				return invoker(ctx, method, req, reply, cc, opts...)
			}, nil)
			self.Invoke(context.Background(), "/verif.Svc/U", &hx.Msg{Count: 1}, &hx.Msg{})
			if given != nil {
				self.Invoke(given, "/verif.Svc/U", &hx.Msg{Count: 3}, &hx.Msg{}) // a later call made with that context
			}
			l.take()
			if seenCalls != 3 {
				identOK = false
				o.Violate("a call made with a context that an earlier call handed to the interceptor did not go through the interceptor exactly once",
					map[string]interface{}{"calls_made": 3, "calls_seen_by_the_interceptor": seenCalls}, seenCalls, 3)
			}
		}
		// an interceptor may RE-ROUTE a call: the name it hands to its continuation is the name the next layer and
		// the wrapped channel are called with, for unary calls and for streams, through two layers
		if it%5 == 0 {
			var got []string
			rec := methodRec{&got}
			inner := grpchan.InterceptClientConn(rec,
				func(ctx context.Context, method string, req, reply interface{}, cc *grpc.ClientConn, invoker grpc.UnaryInvoker, opts ...grpc.CallOption) error {
					got = append(got, "inner layer: "+method)
					return invoker(ctx, method, req, reply, cc, opts...)
				},
				func(ctx context.Context, desc *grpc.StreamDesc, cc *grpc.ClientConn, method string, streamer grpc.Streamer, opts ...grpc.CallOption) (grpc.ClientStream, error) {
					got = append(got, "inner layer: "+method)
					return streamer(ctx, desc, cc, method, opts...)
				})
			outer := grpchan.InterceptClientConn(inner,
				func(ctx context.Context, method string, req, reply interface{}, cc *grpc.ClientConn, invoker grpc.UnaryInvoker, opts ...grpc.CallOption) error {
					return invoker(ctx, "/v2"+method, req, reply, cc, opts...)
				},
				func(ctx context.Context, desc *grpc.StreamDesc, cc *grpc.ClientConn, method string, streamer grpc.Streamer, opts ...grpc.CallOption) (grpc.ClientStream, error) {
					return streamer(ctx, desc, cc, "/v2"+method, opts...)
				})
			outer.Invoke(context.Background(), "/alias.Svc/U", &hx.Msg{}, &hx.Msg{})
			outer.NewStream(context.Background(), &grpc.StreamDesc{ClientStreams: true, ServerStreams: true}, "/alias.Svc/BD")
			want := "[inner layer: /v2/alias.Svc/U wrapped channel: /v2/alias.Svc/U inner layer: /v2/alias.Svc/BD wrapped channel: /v2/alias.Svc/BD]"
			if fmt.Sprint(got) != want {
				identOK = false
				o.Violate("a call re-routed by an interceptor did not reach the next layer and the wrapped channel under the name the interceptor passed on",
					map[string]interface{}{"layers": "outer re-routes /x to /v2/x, inner passes on", "calls": "unary /alias.Svc/U, stream /alias.Svc/BD"}, fmt.Sprint(got), want)
			}
		}
		// the reply a caller supplies is the caller's: an intercepted channel hands it to the wrapped channel as it
		// is (a reflection-based message included), and a failed call leaves it as the wrapped channel left it
		if it%5 == 1 {
			passOn := func(ctx context.Context, method string, req, reply interface{}, cc *grpc.ClientConn, invoker grpc.UnaryInvoker, opts ...grpc.CallOption) error {
				return invoker(ctx, method, req, reply, cc, opts...)
			}
			ipc := &inprocgrpc.Channel{}
			ipc.RegisterService(hx.Desc(hx.SvcName), &hx.Svc{Unary: func(ctx context.Context, req *hx.Msg) (*hx.Msg, error) {
				if req.Count == 13 {
					return nil, status.Error(codes.Internal, "scripted")
				}
				return &hx.Msg{Count: req.Count + 1, Payload: []byte("reply")}, nil
			}})
			ich := grpchan.InterceptClientConn(ipc, passOn, nil)
			md, _ := desc.LoadMessageDescriptorForMessage(protov1.MessageV1(&hx.Msg{}))
			dyn := dynamic.NewMessage(md)
			var derr error
			func() {
				defer func() {
					if p := recover(); p != nil {
						derr = fmt.Errorf("panic: %v", p)
					}
				}()
				derr = ich.Invoke(context.Background(), "/verif.Svc/U", &hx.Msg{Count: 4}, dyn)
			}()
			dynOK := derr == nil
			if dynOK {
				back := &hx.Msg{}
				dynOK = dyn.ConvertTo(protov1.MessageV1(back)) == nil && back.Count == 5 && string(back.Payload) == "reply"
			}
			kept := &hx.Msg{Count: 77, Payload: []byte("what the caller had")}
			ferr := ich.Invoke(context.Background(), "/verif.Svc/U", &hx.Msg{Count: 13}, kept)
			keptOK := ferr != nil && kept.Count == 77 && string(kept.Payload) == "what the caller had"
			if !dynOK || !keptOK {
				identOK = false
				o.Violate("an intercepted channel changed the reply message the caller supplied before the wrapped channel saw it",
					map[string]interface{}{"dynamic_reply_call": fmt.Sprint(derr), "dynamic_reply_ok": dynOK, "failed_call": fmt.Sprint(ferr), "reply_after_failed_call": kept.String()}, nil, "the same outcome as on the wrapped channel")
			}
		}
		var lt []string
		for _, ly := range layers {
			f := func(s *cscript) string {
				if s == nil {
					return "None"
				}
				return "(Some " + s.coq() + ")"
			}
			lt = append(lt, "("+f(ly.u)+", "+f(ly.s)+")")
		}
		req := int64(r.Range(1, 60))
		var optIn []grpc.CallOption
		var optTerms []string
		for k := r.Intn(3); k > 0; k-- {
			id := r.Range(1, 9)
			optIn = append(optIn, grpc.MaxCallRecvMsgSize(id))
			optTerms = append(optTerms, fmt.Sprint(id))
		}
		method := r.Pick([]string{"/verif.Svc/U", "/a.B/C", "x"})
		if baseKind == "inprocgrpc" {
			method = "/verif.Svc/U"
		}
		for _, stream := range []bool{false, true} {
			if stream && baseKind == "inprocgrpc" {
				continue
			}
			curDesc = map[string]interface{}{"stream": stream, "base": baseKind, "layers_outermost_first": layers, "method": method, "req": req, "opts": optTerms}
			l.take()
			var outc string
			if !stream {
				out := &hx.Msg{}
				err := ch.Invoke(context.Background(), method, &hx.Msg{Count: int32(req)}, out, optIn...)
				outc = outcomeTerm(out, err)
			} else {
				st, err := ch.NewStream(withVal(context.Background(), req), &grpc.StreamDesc{ClientStreams: true, ServerStreams: true}, method, optIn...)
				if err != nil {
					outc = outcomeTerm(nil, err)
				} else {
					outc = fmt.Sprintf("(Ok %s)", hx.Z(st.(valStream).val))
				}
			}
			kind := "unary_" + baseKind
			if stream {
				kind = "stream_" + baseKind
			}
			o.Case(kind, fmt.Sprintf("CCase %s %s %s %d %s %s %s %s %s %s", hx.B(stream), hx.List(lt), hx.B(isGrpc), tag, hx.Str(method), hx.Z(req),
				hx.List(optTerms), outc, hx.List(l.take()), hx.B(identOK)), curDesc)
		}
	}
	o.Shard = 150
}

// fakeChan records the call that reaches the base; with a real channel behind it, it forwards
type fakeChan struct {
	l    *evlog
	tag  int64
	real grpc.ClientConnInterface
}

func (f fakeChan) Invoke(ctx context.Context, method string, req, reply interface{}, opts ...grpc.CallOption) error {
	f.l.add(fmt.Sprintf("BaseCall %s %s %s", hx.Str(method), hx.Z(int64(req.(*hx.Msg).Count)), hx.List(optIDs(opts))))
	if f.real != nil {
		return f.real.Invoke(ctx, method, req, reply)
	}
	reply.(*hx.Msg).Count = req.(*hx.Msg).Count + int32(f.tag)
	return nil
}
func (f fakeChan) NewStream(ctx context.Context, desc *grpc.StreamDesc, method string, opts ...grpc.CallOption) (grpc.ClientStream, error) {
	f.l.add(fmt.Sprintf("BaseCall %s %s %s", hx.Str(method), hx.Z(ctxVal(ctx)), hx.List(optIDs(opts))))
	return valStream{val: ctxVal(ctx) + f.tag}, nil
}

// failErr: the error a scripted interceptor returns: a status, or (negative) the bare error value of a context
func failErr(c int64) error {
	switch c {
	case -3:
		return context.Canceled
	case -4:
		return context.DeadlineExceeded
	}
	return status.Error(codes.Code(c), "scripted")
}

// foreignWrapper is a channel decorator of another package's making: a value type with a map in it (so not
// comparable with ==) that forwards everything and can be unwrapped
type foreignWrapper struct {
	grpc.ClientConnInterface
	extra metadata.MD
}

func (f foreignWrapper) Unwrap() grpc.ClientConnInterface { return f.ClientConnInterface }

// methodRec is a wrapped channel that only records the method names it is called with
type methodRec struct{ got *[]string }

func (m methodRec) Invoke(ctx context.Context, method string, req, reply interface{}, opts ...grpc.CallOption) error {
	*m.got = append(*m.got, "wrapped channel: "+method)
	return status.Error(codes.Unimplemented, "recorded")
}
func (m methodRec) NewStream(ctx context.Context, desc *grpc.StreamDesc, method string, opts ...grpc.CallOption) (grpc.ClientStream, error) {
	*m.got = append(*m.got, "wrapped channel: "+method)
	return nil, status.Error(codes.Unimplemented, "recorded")
}
