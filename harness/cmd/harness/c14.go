package main

import (
	"bytes"
	"context"
	"errors"
	"fmt"
	"google.golang.org/grpc"
	"google.golang.org/grpc/metadata"
	"google.golang.org/protobuf/types/known/anypb"
	"google.golang.org/protobuf/types/known/wrapperspb"
	"io"
	"net/http"
	"net/http/httptest"
	"net/url"
	"strings"
	"sync/atomic"

	"google.golang.org/grpc/codes"
	"google.golang.org/grpc/status"

	"github.com/fullstorydev/grpchan/httpgrpc"
	"verifharness/hx"
)

func init() { runners["C14"] = runC14 }

// an error whose gRPC status has an arbitrary code, including OK
type codeErr struct{ c uint32 }

// detailErr: a status with three details, the second of which no codec can encode
type detailErr struct{ c uint32 }

func (e detailErr) Error() string { return fmt.Sprintf("code %d with details", e.c) }
func (e detailErr) GRPCStatus() *status.Status {
	good, _ := anypb.New(wrapperspb.String("fine"))
	sp := status.New(codes.Code(e.c), "m").Proto()
	sp.Details = []*anypb.Any{good, {TypeUrl: "type.googleapis.com/\xff\xfe", Value: []byte{1}}, good}
	return status.FromProto(sp)
}

func (e codeErr) Error() string              { return fmt.Sprintf("code %d", e.c) }
func (e codeErr) GRPCStatus() *status.Status { return status.New(codes.Code(e.c), "m") }

type synthRT struct {
	status int
	hdr    http.Header
	body   []byte
}

func (s synthRT) RoundTrip(r *http.Request) (*http.Response, error) {
	if r.Body != nil {
		io.Copy(io.Discard, r.Body)
		r.Body.Close()
	}
	return &http.Response{
		StatusCode: s.status, Status: fmt.Sprintf("%d %s", s.status, http.StatusText(s.status)),
		Proto: "HTTP/1.1", ProtoMajor: 1, ProtoMinor: 1,
		Header: s.hdr.Clone(), Body: io.NopCloser(bytes.NewReader(s.body)), Request: r,
	}, nil
}

func codeOfErr(err error) uint32 {
	if err == nil {
		return 0
	}
	return uint32(status.Code(err))
}

func runC14(o *hx.Out, r *hx.Rand, thorough bool) {
	interesting := []uint32{17, 18, 99, 255, 256, 65535, 1 << 31, 1<<31 - 1, 1<<31 + 1, 1<<32 - 1, 1<<32 - 2}
	var cs []uint32
	for c := uint32(0); c <= 40; c++ {
		cs = append(cs, c)
	}
	cs = append(cs, interesting...)
	n := 20
	if thorough {
		n = 400
	}
	for i := 0; i < n; i++ {
		cs = append(cs, uint32(r.U64()))
	}
	// 1. the generated functions against the real ones (differential test of the translator)
	for _, c := range cs {
		got := httpgrpc.VerifHttpStatusFromCode(codes.Code(c))
		o.Case("http_of_code", fmt.Sprintf("HttpOfCode %d %d", c, got), map[string]interface{}{"code": c, "http": got})
		if c != 0 && (got < 400 || got >= 600) {
			o.Violate("non-OK code rendered with a non-error HTTP status", map[string]interface{}{"code": c}, got, "400..599")
		}
	}
	lo, hi := 90, 620
	if thorough {
		lo, hi = -50, 1200
	}
	for s := lo; s <= hi; s++ {
		got := uint32(httpgrpc.VerifCodeFromHttpStatus(s))
		o.Case("code_of_http", fmt.Sprintf("CodeOfHttp %s %d", hx.Z(int64(s)), got), map[string]interface{}{"http": s, "code": got})
		if (got == 0) != (s >= 200 && s < 300) {
			o.Violate("fallback derives OK for a non-2xx status or non-OK for 2xx", map[string]interface{}{"http": s}, got, nil)
		}
	}
	// (a handler with a custom renderer created FIRST through the exported helper: the default renderer of
	// handlers created afterwards without options must not be affected)
	_ = httpgrpc.HandleMethod(&hx.Svc{}, hx.SvcName, &hx.Desc(hx.SvcName).Methods[0], nil,
		httpgrpc.ErrorRenderer(func(context.Context, *status.Status, http.ResponseWriter) {}))
	// 2. the real server with the default renderer, request context live or ended
	var ret error
	var relayed metadata.MD // response metadata a relaying handler passes on before it fails
	sendFirst := false      // the handler calls grpc.SendHeader before it fails
	svc := &hx.Svc{Unary: func(ctx context.Context, req *hx.Msg) (*hx.Msg, error) {
		if relayed != nil {
			grpc.SetHeader(ctx, relayed)
		}
		if sendFirst {
			grpc.SendHeader(ctx, metadata.Pairs("announced", "early"))
		}
		return nil, ret
	}}
	desc := hx.Desc(hx.SvcName)
	h := httpgrpc.HandleMethod(svc, hx.SvcName, &desc.Methods[0], nil)
	for _, c := range cs {
		for _, ended := range []bool{false, true} {
			ret = codeErr{c}
			if c%3 == 1 && c != 0 {
				// the same code carried by an error that also wraps a context error (its own status is what counts)
				ret = wrapsCtx{status.New(codes.Code(c), "m"), []error{context.Canceled, context.DeadlineExceeded}[c%2]}
			}
			req := httptest.NewRequest("POST", "/verif.Svc/U", bytes.NewReader(nil))
			req.Header.Set("Content-Type", httpgrpc.UnaryRpcContentType_V1)
			if ended {
				ctx, cancel := context.WithCancel(context.Background())
				cancel()
				req = req.WithContext(ctx)
			}
			rec := httptest.NewRecorder()
			h(rec, req)
			hdr := rec.Header().Get("X-GRPC-Status")
			codePart := strings.SplitN(hdr, ":", 2)[0]
			o.Case("render", fmt.Sprintf("Render %d %s %d %s", c, hx.B(ended), rec.Code, hx.Str(codePart)),
				map[string]interface{}{"code": c, "ctx_ended": ended, "http": rec.Code, "x-grpc-status": hdr})
		}
	}
	// 2b. the 499 rule looks at the REQUEST's context, not at the handler's (which also ends
	// when the GRPC-Timeout deadline passes while the client is still connected)
	waitSvc := &hx.Svc{Unary: func(ctx context.Context, req *hx.Msg) (*hx.Msg, error) { <-ctx.Done(); return nil, ret }}
	hw := httpgrpc.HandleMethod(waitSvc, hx.SvcName, &desc.Methods[0], nil)
	for _, c := range []uint32{1, 4, 2, 14} {
		ret = codeErr{c}
		req := httptest.NewRequest("POST", "/verif.Svc/U", bytes.NewReader(nil))
		req.Header.Set("Content-Type", httpgrpc.UnaryRpcContentType_V1)
		req.Header.Set("GRPC-Timeout", "1m")
		rec := httptest.NewRecorder()
		hw(rec, req)
		hdr := rec.Header().Get("X-GRPC-Status")
		o.Case("render_server_deadline", fmt.Sprintf("Render %d false %d %s", c, rec.Code, hx.Str(strings.SplitN(hdr, ":", 2)[0])),
			map[string]interface{}{"code": c, "request_ctx_ended": false, "grpc-timeout": "1m (expired in the handler)", "http": rec.Code, "x-grpc-status": hdr})
	}
	// 3. the real client on synthetic replies
	base, _ := url.Parse("http://synthetic.invalid/")
	call := func(rt http.RoundTripper) error {
		ch := &httpgrpc.Channel{Transport: rt, BaseURL: base}
		return ch.Invoke(context.Background(), "/verif.Svc/U", &hx.Msg{}, &hx.Msg{})
	}
	for s := 100; s <= 599; s++ {
		got := codeOfErr(call(synthRT{status: s, hdr: http.Header{}}))
		o.Case("client_fallback", fmt.Sprintf("Client %d None %d", s, got), map[string]interface{}{"http": s, "code": got})
		if (got == 0) != (s >= 200 && s < 300) {
			o.Violate("client derives OK for a non-2xx status or non-OK for 2xx", map[string]interface{}{"http": s}, got, nil)
		}
	}
	// a 3xx reply that names a Location is a reply like any other: mapped by its status, never followed
	for _, st := range []int{301, 302, 303, 307, 308} {
		var n int32
		got := codeOfErr(call(redirectRT{status: st, n: &n}))
		o.Case("client_fallback_redirect", fmt.Sprintf("Client %d None %d", st, got), map[string]interface{}{"http": st, "location": "http://elsewhere.invalid/landing", "code": got, "requests_made": n})
		if n != 1 {
			o.Violate("the client followed a redirect", map[string]interface{}{"http": st, "requests_made": n}, n, 1)
		}
	}
	hdrs := []string{"0", "5", "16", "17", "-1", "+7", "007", "2147483647", "-2147483648", "2147483648", "4294967295", "abc", " 5", "5 ", "", "-", "+", "+-3", "1e3", "0x10", "99999999999999999999"}
	for _, hs := range []int{200, 404, 500, 503, 302} {
		for _, hv := range hdrs {
			h := http.Header{}
			h.Set("X-GRPC-Status", hv+":m")
			got := codeOfErr(call(synthRT{status: hs, hdr: h}))
			hv := hv
			o.Case("client_header", fmt.Sprintf("Client %d (Some %s) %d", hs, hx.Str(hv), got), map[string]interface{}{"http": hs, "x-grpc-status": hv + ":m", "code": got})
		}
	}
	// 3b. a reply whose headers say "failed" and whose BODY (the renderer's page) cannot be read to the end:
	// the status travels in the headers, so the code is the one they name
	for _, hs := range []int{200, 404, 500, 503} {
		for _, hv := range []string{"", "5", "16", "3"} {
			for _, how := range []string{"body breaks off (unexpected EOF)", "connection reset while reading the body"} {
				h := http.Header{}
				if hv != "" {
					h.Set("X-GRPC-Status", hv+":m")
				}
				if hs == 200 && hv == "" {
					continue // a successful reply that is cut is a different matter
				}
				got := codeOfErr(call(brokenBodyRT{status: hs, hdr: h, reset: strings.HasPrefix(how, "connection")}))
				hdrTerm := "None"
				if hv != "" {
					hdrTerm = "(Some " + hx.Str(hv) + ")"
				}
				o.Case("client_unreadable_page", fmt.Sprintf("Client %d %s %d", hs, hdrTerm, got), map[string]interface{}{"http": hs, "x-grpc-status": hv, "body": how, "code": got})
			}
		}
	}
	// 4. end to end over a loopback socket with the default, a silent and a custom renderer
	renderers := []struct {
		name string
		http int
		fn   func(context.Context, *status.Status, http.ResponseWriter)
	}{
		{"default", 0, nil},
		{"silent", 200, func(context.Context, *status.Status, http.ResponseWriter) {}},
		{"teapot", 418, func(_ context.Context, _ *status.Status, w http.ResponseWriter) { w.WriteHeader(418) }},
		{"redirect-ish", 302, func(_ context.Context, _ *status.Status, w http.ResponseWriter) { w.WriteHeader(302) }},
	}
	e2e := cs
	if !thorough && len(e2e) > 45 {
		e2e = append(append([]uint32{}, cs[:20]...), interesting...)
	}
	for _, rd := range renderers {
		var opts []httpgrpc.ServerOption
		if rd.fn != nil {
			opts = append(opts, httpgrpc.ErrorRenderer(rd.fn))
		}
		srv := httpgrpc.NewServer(opts...)
		srv.RegisterService(desc, svc)
		ts := httptest.NewServer(srv)
		u, _ := url.Parse(ts.URL)
		ch := &httpgrpc.Channel{Transport: &http.Transport{}, BaseURL: u}
		for i, c := range e2e {
			ret = codeErr{c}
			// with and without the call options that ask for the reply's metadata
			var copts []grpc.CallOption
			var hmd, tmd metadata.MD
			switch i % 3 {
			case 1:
				copts = []grpc.CallOption{grpc.Header(&hmd), grpc.Trailer(&tmd)}
			case 2:
				copts = []grpc.CallOption{grpc.Trailer(&tmd)}
			}
			err := ch.Invoke(context.Background(), "/verif.Svc/U", &hx.Msg{}, &hx.Msg{}, copts...)
			got := codeOfErr(err)
			o.Case("end_to_end_"+rd.name, fmt.Sprintf("EndToEnd %d %d %d", c, rd.http, got),
				map[string]interface{}{"code": c, "renderer": rd.name, "client_code": got})
			want := c
			if c == 0 {
				want = 13
			}
			if got != want {
				o.Violate("caller does not recover the handler's code", map[string]interface{}{"code": c, "renderer": rd.name}, got, want)
			}
		}
		// a handler that announces its headers with grpc.SendHeader and THEN fails: the failure still travels as the
		// status of the reply (a unary reply is not committed before the handler has returned)
		for i, c := range e2e {
			if i%5 != 2 || c == 0 {
				continue
			}
			ret, sendFirst = codeErr{c}, true
			var ahdr metadata.MD
			got := codeOfErr(ch.Invoke(context.Background(), "/verif.Svc/U", &hx.Msg{}, &hx.Msg{}, grpc.Header(&ahdr)))
			sendFirst = false
			d := map[string]interface{}{"code": c, "renderer": rd.name, "handler": "calls grpc.SendHeader, then fails", "client_code": got, "announced_header_received": fmt.Sprint(ahdr.Get("announced"))}
			o.Case("end_to_end_sendheader_"+rd.name, fmt.Sprintf("EndToEnd %d %d %d", c, rd.http, got), d)
			if got != c {
				o.Violate("caller does not recover the handler's code when the handler had called SendHeader before failing", d, got, c)
			}
		}
		// a relaying handler: it passes on the response metadata of a backend call (which, with this very client,
		// includes the backend's x-grpc-status) and then fails with its OWN code: the caller recovers that one
		for i, c := range e2e {
			if i%5 != 0 || c == 0 {
				continue
			}
			for _, stale := range []string{"0:OK", "5:backend says not found"} {
				ret = codeErr{c}
				relayed = metadata.Pairs("x-grpc-status", stale, "x-backend", "b")
				var rhdr, rtlr metadata.MD
				got := codeOfErr(ch.Invoke(context.Background(), "/verif.Svc/U", &hx.Msg{}, &hx.Msg{}, grpc.Header(&rhdr), grpc.Trailer(&rtlr)))
				relayed = nil
				d := map[string]interface{}{"code": c, "renderer": rd.name, "handler_response_metadata": "x-grpc-status: " + stale + " (relayed from a backend call)", "client_code": got}
				if c <= 16 {
					// the same reply against the model of the header layout (model/UnaryMeta.v), evaluated in Coq
					o.Case("end_to_end_relay_model_"+rd.name, fmt.Sprintf("Agrees %s (UnaryMeta.agrees %s [] %d %s %d %s %s %d)", hx.Str("relay, "+rd.name),
						hx.MD(map[string][]string{"x-grpc-status": {stale}, "x-backend": {"b"}}), c, hx.Str("m"), 500, hx.MD(rhdr), hx.MD(rtlr), got), d)
				}
				o.Case("end_to_end_relay_"+rd.name, fmt.Sprintf("EndToEnd %d %d %d", c, rd.http, got), d)
				if got != c {
					o.Violate("caller does not recover the handler's code when the handler's own response metadata names another status", d, got, c)
				}
			}
		}
		// the same with error details, one of which the codec cannot encode (an Any whose type URL is not
		// UTF-8): the code still travels in the status header
		for i, c := range e2e {
			if i%4 != 0 {
				continue
			}
			ret = detailErr{c}
			for _, ctype := range []string{"proto", "json"} {
				var got uint32
				if ctype == "proto" {
					got = codeOfErr(ch.Invoke(context.Background(), "/verif.Svc/U", &hx.Msg{}, &hx.Msg{}))
				} else {
					// a raw JSON request: the details are then encoded with the JSON codec
					rq, _ := http.NewRequest("POST", ts.URL+"/verif.Svc/U", strings.NewReader("{}"))
					rq.Header.Set("Content-Type", httpgrpc.ApplicationJson)
					resp, err := http.DefaultClient.Do(rq)
					if err != nil {
						continue
					}
					st := httpgrpc.VerifStatFromResponse(resp)
					resp.Body.Close()
					got = uint32(status.Code(st.Err()))
					if st.Err() == nil {
						got = 0
					}
				}
				want := c
				if c == 0 {
					want = 13
				}
				d := map[string]interface{}{"code": c, "renderer": rd.name, "content_type": ctype, "details": "three, the second cannot be encoded", "client_code": got}
				o.Case("end_to_end_details_"+rd.name, fmt.Sprintf("EndToEnd %d %d %d", c, rd.http, got), d)
				if got != want {
					o.Violate("caller does not recover the handler's code when an error detail cannot be encoded", d, got, want)
				}
			}
		}
		ts.Close()
	}
	o.Stats["codes"] = len(cs)
}

// redirectRT answers the first request with a 3xx that names a Location, and any later one with 200
type redirectRT struct {
	status int
	n      *int32
}

func (t redirectRT) RoundTrip(r *http.Request) (*http.Response, error) {
	if r.Body != nil {
		io.Copy(io.Discard, r.Body)
		r.Body.Close()
	}
	h := http.Header{}
	st := 200
	if atomic.AddInt32(t.n, 1) == 1 {
		st = t.status
		h.Set("Location", "http://elsewhere.invalid/landing")
	} else {
		h.Set("Content-Type", httpgrpc.UnaryRpcContentType_V1)
	}
	return &http.Response{StatusCode: st, Status: fmt.Sprintf("%d %s", st, http.StatusText(st)), Proto: "HTTP/1.1", ProtoMajor: 1, ProtoMinor: 1,
		Header: h, Body: io.NopCloser(bytes.NewReader(nil)), Request: r}, nil
}

// brokenBodyRT answers with the given status and headers and a body that fails part-way
type brokenBodyRT struct {
	status int
	hdr    http.Header
	reset  bool
}

type brokenBody struct {
	sent  bool
	reset bool
}

func (b *brokenBody) Read(p []byte) (int, error) {
	if !b.sent {
		b.sent = true
		return copy(p, "an error page that never"), nil
	}
	if b.reset {
		return 0, errors.New("read tcp 127.0.0.1:1->127.0.0.1:2: read: connection reset by peer")
	}
	return 0, io.ErrUnexpectedEOF
}
func (b *brokenBody) Close() error { return nil }

func (s brokenBodyRT) RoundTrip(r *http.Request) (*http.Response, error) {
	if r.Body != nil {
		io.Copy(io.Discard, r.Body)
		r.Body.Close()
	}
	return &http.Response{
		StatusCode: s.status, Status: fmt.Sprintf("%d %s", s.status, http.StatusText(s.status)),
		Proto: "HTTP/1.1", ProtoMajor: 1, ProtoMinor: 1, ContentLength: 4096,
		Header: s.hdr.Clone(), Body: &brokenBody{reset: s.reset}, Request: r,
	}, nil
}
