package main

import (
	"context"
	"fmt"
	"io"
	"net/http"
	"net/http/httptest"
	"net/url"
	"path"
	"runtime"
	"sync"

	"google.golang.org/grpc"
	"google.golang.org/grpc/status"

	"github.com/fullstorydev/grpchan"
	"github.com/fullstorydev/grpchan/httpgrpc"
	"github.com/fullstorydev/grpchan/inprocgrpc"
	"verifharness/hx"
)

func init() { runners["C12"] = runC12 }

type ranLog struct {
	mu  sync.Mutex
	ran [][2]string
}

func (l *ranLog) add(s, m string) { l.mu.Lock(); l.ran = append(l.ran, [2]string{s, m}); l.mu.Unlock() }
func (l *ranLog) take() [][2]string {
	l.mu.Lock()
	defer l.mu.Unlock()
	r := l.ran
	l.ran = nil
	return r
}

type regSvc struct {
	name           string
	unary, streams []string
}

func mkDesc(s regSvc, l *ranLog) *grpc.ServiceDesc {
	d := &grpc.ServiceDesc{ServiceName: s.name, HandlerType: (*hx.SvcIface)(nil)}
	for _, m := range s.unary {
		m := m
		d.Methods = append(d.Methods, grpc.MethodDesc{MethodName: m, Handler: func(srv interface{}, ctx context.Context, dec func(interface{}) error, _ grpc.UnaryServerInterceptor) (interface{}, error) {
			in := new(hx.Msg)
			if err := dec(in); err != nil {
				return nil, err
			}
			l.add(s.name, m)
			return &hx.Msg{}, nil
		}})
	}
	for _, m := range s.streams {
		m := m
		d.Streams = append(d.Streams, grpc.StreamDesc{StreamName: m, ClientStreams: true, ServerStreams: true, Handler: func(srv interface{}, ss grpc.ServerStream) error {
			l.add(s.name, m)
			return nil
		}})
	}
	return d
}

func regTerm(reg []regSvc) string {
	var items []string
	for _, s := range reg {
		items = append(items, fmt.Sprintf("{| r_name := %s; r_unary := %s; r_streams := %s |}", hx.Str(s.name), hx.StrList(s.unary), hx.StrList(s.streams)))
	}
	return hx.List(items)
}

var callSeq int

func callName(ch grpc.ClientConnInterface, unary bool, name string, l *ranLog) string {
	l.take()
	var err error
	panicked := false
	func() {
		defer func() {
			if recover() != nil {
				panicked = true
			}
		}()
		if unary {
			err = ch.Invoke(context.Background(), name, &hx.Msg{}, &hx.Msg{})
		} else {
			var cs grpc.ClientStream
			// the client's own descriptor may carry any name (a generic client reusing one descriptor): the
			// method is the one named by the path
			callSeq++
			sd := &grpc.StreamDesc{ClientStreams: true, ServerStreams: true}
			sd.StreamName = []string{"", "M", "N", "Get", "MM", "m", "U", "nosuch"}[callSeq%8]
			cs, err = ch.NewStream(context.Background(), sd, name)
			if err == nil {
				defer runtime.KeepAlive(cs)
				cs.CloseSend()
				for {
					e := cs.RecvMsg(&hx.Msg{})
					if e == io.EOF {
						break
					}
					if e != nil {
						err = e
						break
					}
				}
			}
		}
	}()
	if panicked {
		return "OPanic"
	}
	ran := l.take()
	if len(ran) == 1 {
		return fmt.Sprintf("(ORun %s %s)", hx.Str(ran[0][0]), hx.Str(ran[0][1]))
	}
	if len(ran) > 1 {
		return "(OCode (-2))" // more than one handler ran
	}
	if err == nil {
		return "(OCode 0)"
	}
	return fmt.Sprintf("(OCode %d)", uint32(status.Code(err)))
}

func runC12(o *hx.Out, r *hx.Rand, thorough bool) {
	l := &ranLog{}
	svcPool := []string{"S", "pkg.Svc", "a.b.C", "SS", "s", "pkg.Svc2"}
	mPool := []string{"M", "N", "Get", "MM", "m", "U"}
	bases := []string{"/", "/foo", "/foo/", "/a/b", "/a/b/", "/api/v1", "/x y", "/a/../b", "//x//", "/p%q"}
	nr := 12
	if thorough {
		nr = 120
	}
	for it := 0; it < nr; it++ {
		// a registry with 0-4 services
		var reg []regSvc
		ns := r.Intn(5)
		p := r.Intn(len(svcPool))
		for i := 0; i < ns; i++ {
			s := regSvc{name: svcPool[(p+i)%len(svcPool)]}
			q := r.Intn(len(mPool))
			for j := 0; j < r.Range(0, 3); j++ {
				s.unary = append(s.unary, mPool[(q+j)%len(mPool)])
			}
			for j := 0; j < r.Range(0, 3); j++ {
				s.streams = append(s.streams, mPool[(q+3+j)%len(mPool)])
			}
			reg = append(reg, s)
		}
		// the names to try
		var names []string
		add := func(n ...string) { names = append(names, n...) }
		add("", "/", "foo", "/foo", "//", "/S", "S", "/S/", "S/", "/nosuch.Svc/M", "/S/nosuch")
		for _, s := range reg {
			for _, m := range append(append([]string{}, s.unary...), s.streams...) {
				full := "/" + s.name + "/" + m
				add(full, s.name+"/"+m, full+"/", full+"/x", "/"+full, "/"+s.name+"//"+m, "/x/.."+full, "/."+full, full+"/..", full+"/.",
					full+"M", "/"+s.name+"S/"+m, full[:len(full)-1]+"?", "/"+s.name+"/"+m+"%2F", " "+full, full+" ")
			}
		}
		for len(names) > 40 && !thorough {
			k := r.Intn(len(names)-11) + 11
			names = append(names[:k], names[k+1:]...)
		}
		rt := regTerm(reg)
		ipc := &inprocgrpc.Channel{}
		hm := grpchan.HandlerMap{}
		// the services are registered one at a time and names are called in between: what a name
		// resolves to depends on the registrations made so far, never on earlier calls
		for k := 0; k <= len(reg); k++ {
			if k > 0 {
				d := mkDesc(reg[k-1], l)
				if it%2 == 1 {
					// registered through the decorating helper with interceptors that only pass on: every name
					// must still resolve to its own handler
					d = grpchan.InterceptServer(d,
						func(ctx context.Context, req interface{}, info *grpc.UnaryServerInfo, h grpc.UnaryHandler) (interface{}, error) {
							return h(ctx, req)
						},
						func(srv interface{}, ss grpc.ServerStream, info *grpc.StreamServerInfo, h grpc.StreamHandler) error {
							return h(srv, ss)
						})
				}
				ipc.RegisterService(d, &hx.Svc{})
				hm.RegisterService(d, &hx.Svc{})
			}
			try := names
			rtk := rt
			if k < len(reg) {
				rtk = regTerm(reg[:k])
				try = nil
				for _, sv := range reg {
					for _, m := range append(append([]string{}, sv.unary...), sv.streams...) {
						try = append(try, "/"+sv.name+"/"+m)
					}
				}
				for j := 0; j < 5; j++ {
					try = append(try, names[r.Intn(len(names))])
				}
			}
			for _, n := range try {
				for _, unary := range []bool{true, false} {
					desc := map[string]interface{}{"transport": "inprocgrpc", "registry": reg2json(reg[:k]), "registered_later": len(reg) - k, "unary": unary, "name": n}
					o.Begin(desc)
					var via grpc.ClientConnInterface = ipc
					if it%3 == 2 {
						// the call is made under an alias that client interceptors re-route to the name: what runs
						// is decided by the name that reaches the channel
						target := n
						via = grpchan.InterceptClientConn(ipc,
							func(ctx context.Context, method string, req, reply interface{}, cc *grpc.ClientConn, invoker grpc.UnaryInvoker, opts ...grpc.CallOption) error {
								return invoker(ctx, target, req, reply, cc, opts...)
							},
							func(ctx context.Context, sd *grpc.StreamDesc, cc *grpc.ClientConn, method string, streamer grpc.Streamer, opts ...grpc.CallOption) (grpc.ClientStream, error) {
								return streamer(ctx, sd, cc, target, opts...)
							})
						desc["called_as"] = "/alias.Svc/Alias, re-routed by a client interceptor to the name"
					}
					obs := ""
					if via != grpc.ClientConnInterface(ipc) {
						obs = callName(via, unary, "/alias.Svc/Alias", l)
					} else {
						obs = callName(ipc, unary, n, l)
					}
					desc["observed"] = obs
					if obs == "OPanic" {
						o.Violate("in-process channel panicked on a method name", desc, "panic", "a status error")
					}
					o.Case("inproc", fmt.Sprintf("Inproc %s %s %s %s", rtk, hx.B(unary), hx.Str(n), obs), desc)
				}
			}
		}
		// HTTP: two bases per registry, both ways of registering
		for k := 0; k < 2; k++ {
			base := bases[r.Intn(len(bases))]
			if k == 1 && len(reg) > 0 && r.Chance(35) {
				// a literal percent sign in the base path is a character like any other
				base = []string{"/p%q", "/100%/", "/rpc%20api", "/a%b/nested"}[r.Intn(4)]
			}
			for _, carrier := range []string{"httpgrpc.Server", "HandleServices"} {
				var h http.Handler
				func() {
					defer func() {
						if p := recover(); p != nil {
							h = nil
						}
					}()
					if carrier == "httpgrpc.Server" {
						sopts := []httpgrpc.ServerOption{httpgrpc.WithBasePath(base)}
						if k == 0 {
							// a renderer that writes nothing decides how HANDLER failures look; names that resolve to
							// no method still fail with NotFound
							sopts = append(sopts, httpgrpc.ErrorRenderer(func(context.Context, *status.Status, http.ResponseWriter) {}))
						}
						s := httpgrpc.NewServer(sopts...)
						for _, sv := range reg {
							s.RegisterService(mkDesc(sv, l), &hx.Svc{})
						}
						h = s
					} else {
						mux := http.NewServeMux()
						httpgrpc.HandleServices(mux.HandleFunc, base, hm, nil, nil)
						h = mux
					}
				}()
				if h == nil {
					continue
				}
				ts := httptest.NewServer(h)
				u, _ := url.Parse(ts.URL)
				u.Path = base
				hc := &httpgrpc.Channel{Transport: &http.Transport{}, BaseURL: u}
				sub := names
				if !thorough && len(sub) > 25 {
					sub = sub[:25]
				}
				for _, n := range sub {
					unary := r.Bool()
					desc := map[string]interface{}{"transport": carrier, "base_path": base, "registry": reg2json(reg), "unary": unary, "name": n}
					o.Begin(desc)
					obs := callName(hc, unary, n, l)
					desc["observed"] = obs
					if obs == "OPanic" {
						o.Violate("HTTP channel panicked on a method name", desc, "panic", "a status error")
					}
					o.Case("http_"+carrier, fmt.Sprintf("Http %s %s %s %s %s %s %s", hx.Str(carrier), hx.Str(base), hx.Str(base), rt, hx.B(unary), hx.Str(n), obs), desc)
				}
				ts.Close()
			}
		}
		// the model of path.Join against the real one
		for _, n := range names[:min(len(names), 30)] {
			b := bases[r.Intn(len(bases))]
			o.Case("path_join", fmt.Sprintf("JoinCase %s %s %s", hx.Str(b), hx.Str(n), hx.Str(path.Join(b, n))), map[string]interface{}{"base": b, "name": n, "joined": path.Join(b, n)})
		}
	}
	o.Finding = "finding_case"
	o.Shard = 150
}

func reg2json(reg []regSvc) interface{} {
	var out []map[string]interface{}
	for _, s := range reg {
		out = append(out, map[string]interface{}{"service": s.name, "unary": s.unary, "streams": s.streams})
	}
	return out
}
