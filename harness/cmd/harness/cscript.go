package main

import (
	"bytes"
	"context"
	"encoding/binary"
	"fmt"
	"github.com/fullstorydev/grpchan/inprocgrpc"
	"io"
	"net/http"
	"net/http/httptest"
	"net/url"
	"runtime"
	"sort"
	"strings"
	"sync"
	"sync/atomic"
	"time"

	"google.golang.org/grpc"
	"google.golang.org/grpc/codes"
	"google.golang.org/grpc/metadata"
	"google.golang.org/grpc/status"
	"google.golang.org/protobuf/proto"
	"google.golang.org/protobuf/types/known/anypb"
	"google.golang.org/protobuf/types/known/wrapperspb"

	"github.com/fullstorydev/grpchan/httpgrpc"
	"verifharness/hx"
)

// metadata pairs (key id, value id) <-> real metadata
var mdKeys = map[int64]string{1: "k1", 2: "k2", 3: "k3-bin"}

func mdValue(key, id int64) string {
	if key == 3 {
		if id >= 200 {
			return "\x00\xff\n" + string([]byte{byte(id)}) // not valid UTF-8
		}
		return fmt.Sprintf("b%d\x00\x7f", id)
	}
	return fmt.Sprintf("v%d %s", id, []string{"~!@", "a=b;c", "x y", "\"q\""}[id%4])
}

type pairT struct{ k, v int64 }

func mdFromPairs(ps []pairT) metadata.MD {
	md := metadata.MD{}
	for _, p := range ps {
		md[mdKeys[p.k]] = append(md[mdKeys[p.k]], mdValue(p.k, p.v))
	}
	return md
}
func pairsTerm(ps []pairT) string {
	var s []string
	for _, p := range ps {
		s = append(s, fmt.Sprintf("(%d, %d)", p.k, p.v))
	}
	return hx.List(s)
}

// pairsOf maps observed metadata back to (key id, value id) pairs, keys in order, values in order
func pairsOf(md metadata.MD, known map[string]pairT) string {
	var s []string
	for _, kid := range []int64{1, 2, 3} {
		for _, v := range md[mdKeys[kid]] {
			if p, ok := known[mdKeys[kid]+"\x00"+v]; ok {
				s = append(s, fmt.Sprintf("(%d, %d)", p.k, p.v))
			} else {
				s = append(s, fmt.Sprintf("(%d, -1)", kid))
			}
		}
	}
	return hx.List(s)
}

type hopT struct {
	kind  string // SetHeader SendHeader SendMsg SetTrailer
	x     int64
	pairs []pairT
}

func (h hopT) coq() string {
	if h.kind == "SendMsg" {
		return fmt.Sprintf("(SendMsg %d)", h.x)
	}
	return fmt.Sprintf("(%s %s)", h.kind, pairsTerm(h.pairs))
}

// runSingle: one receive on a single-response method whose handler runs the script
func runSingle(o *hx.Out, t transportT, ctx context.Context, call *callT, script []hopT, known map[string]pairT, code int64, wait bool) {
	http := t.name == "httpgrpc"
	cs, err := t.ch.NewStream(ctx, hx.StreamDescOf("CS"), "/verif.Svc/CS")
	if err != nil {
		return
	}
	cs.SendMsg(&hx.Msg{})
	cs.CloseSend()
	m := &hx.Msg{}
	err = cs.RecvMsg(m)
	tlr := cs.Trailer()
	if wait {
		call.wait()
	}
	runtime.KeepAlive(cs)
	res := ""
	switch {
	case err == nil:
		res = fmt.Sprintf("(OneOk %d)", m.Count)
	case err == io.EOF:
		res = "OneEOF"
	default:
		res = fmt.Sprintf("(OneStatus %d)", uint32(status.Code(err)))
	}
	var st []string
	for _, h := range script {
		st = append(st, h.coq())
	}
	desc := map[string]interface{}{"transport": t.name, "kind": "CS", "handler_script": st, "handler_returns": code, "result": res, "trailer": tlr}
	o.Case("single_"+t.name, fmt.Sprintf("Single %s %s %s %s %s", hx.B(http), hx.List(st), hx.Z(code), res, pairsOf(tlr, known)), desc)
}

// singleCorpus: 0..5 responses x success or failure x with and without headers and trailers, on a single-response method
func singleCorpus(o *hx.Out) {
	trs := bothTransports(scriptSvc())
	for _, t := range trs {
		for _, k := range []int{0, 1, 2, 3, 5} {
			for _, code := range []int64{0, 5} {
				for _, meta := range []int{0, 1, 2} {
					var script []hopT
					known := map[string]pairT{}
					add := func(kind string, p pairT) {
						known[mdKeys[p.k]+"\x00"+mdValue(p.k, p.v)] = p
						script = append(script, hopT{kind: kind, pairs: []pairT{p}})
					}
					if meta >= 1 {
						add("SetHeader", pairT{1, 1})
					}
					for i := 1; i <= k; i++ {
						script = append(script, hopT{kind: "SendMsg", x: int64(i)})
						if meta == 2 && i == 1 {
							add("SetTrailer", pairT{2, 2})
						}
					}
					if meta >= 1 {
						add("SetTrailer", pairT{1, 3})
					}
					ctx, call := newScriptCall(script, code)
					// (in-process, a handler's surplus sends stay blocked until the abandoned stream is collected: not waited for)
					runSingle(o, t, ctx, call, script, known, code, k < 2)
				}
			}
		}
		t.stop()
	}
}

func genScript(r *hx.Rand, http bool, allowBad bool) (script []hopT, known map[string]pairT) {
	known = map[string]pairT{}
	vid := int64(1)
	mid := int64(1)
	n := r.Intn(7)
	for i := 0; i < n; i++ {
		switch r.Intn(6) {
		case 0, 1:
			script = append(script, hopT{kind: "SendMsg", x: mid})
			mid++
		default:
			var ps []pairT
			for k := r.Range(0, 3); k > 0; k-- {
				key := int64(r.Range(1, 3))
				v := vid
				vid++
				ps = append(ps, pairT{key, v})
			}
			kind := []string{"SetHeader", "SetHeader", "SendHeader", "SetTrailer", "SetTrailer"}[r.Intn(5)]
			if kind == "SetTrailer" && allowBad && r.Chance(12) {
				ps = append(ps, pairT{3, 200 + vid%50})
			}
			for _, p := range ps {
				known[mdKeys[p.k]+"\x00"+mdValue(p.k, p.v)] = p
			}
			script = append(script, hopT{kind: kind, pairs: ps})
		}
	}
	return
}

func codeErr2(code int64) error {
	switch {
	case code == 0:
		return nil
	case code == -1:
		return io.EOF
	case code == 2:
		// Unknown, as a plain error value that WRAPS io.EOF: only io.EOF itself is special
		return fmt.Errorf("scripted failure while reading: %w", io.EOF)
	}
	return status.Error(codes.Code(uint32(code)), "scripted failure")
}

func finTerm(err error) string {
	if err == io.EOF {
		return "FinEOF"
	}
	return fmt.Sprintf("(FinStatus %d)", uint32(status.Code(err)))
}

// per-call state of a scripted handler, found through the call-id request metadata
type callT struct {
	script []hopT
	code   int64
	acks   []bool
	done   chan struct{}
}

var scriptCalls sync.Map
var scriptCallSeq int64

func newScriptCall(script []hopT, code int64) (context.Context, *callT) {
	id := fmt.Sprint(atomic.AddInt64(&scriptCallSeq, 1))
	c := &callT{script: script, code: code, done: make(chan struct{})}
	scriptCalls.Store(id, c)
	return metadata.AppendToOutgoingContext(context.Background(), "call-id", id), c
}

func (c *callT) wait() {
	select {
	case <-c.done:
	case <-time.After(3 * time.Second):
	}
}

func scriptSvc() *hx.Svc {
	return &hx.Svc{
		Stream: func(kind string, ss grpc.ServerStream) error {
			md, _ := metadata.FromIncomingContext(ss.Context())
			var c *callT
			if ids := md.Get("call-id"); len(ids) > 0 {
				if v, ok := scriptCalls.Load(ids[0]); ok {
					c = v.(*callT)
				}
			}
			if c == nil {
				return status.Error(codes.Internal, "harness: unknown call-id")
			}
			defer close(c.done)
			for {
				if err := ss.RecvMsg(&hx.Msg{}); err != nil {
					break
				}
			}
			for _, h := range c.script {
				var err error
				switch h.kind {
				case "SetHeader":
					err = ss.SetHeader(mdFromPairs(h.pairs))
				case "SendHeader":
					err = ss.SendHeader(mdFromPairs(h.pairs))
				case "SetTrailer":
					ss.SetTrailer(mdFromPairs(h.pairs))
				case "SendMsg":
					err = ss.SendMsg(&hx.Msg{Count: int32(h.x)})
				}
				c.acks = append(c.acks, err == nil)
			}
			return codeErr2(c.code)
		},
	}
}

func acksTerm(a []bool) string {
	var s []string
	for _, x := range a {
		s = append(s, hx.B(x))
	}
	return hx.List(s)
}

// runScripts emits Script / Single / UnaryStatus cases on both transports
func runScripts(o *hx.Out, r *hx.Rand, n int, allowBad bool) {
	trs := bothTransports(scriptSvc())
	defer func() {
		for _, t := range trs {
			t.stop()
		}
	}()
	for i := 0; i < n; i++ {
		for _, t := range trs {
			http := t.name == "httpgrpc"
			script, known := genScript(r, http, allowBad)
			code := []int64{0, 0, 0, 5, 13, -1, 2, 16}[r.Intn(8)]
			ctx, call := newScriptCall(script, code)
			if r.Chance(60) {
				// a response stream read to its end
				kind := r.Pick([]string{"SS", "BD"})
				headerFirst := r.Bool()
				var h1, h2, h3, t1, t2 metadata.MD
				cs, err := t.ch.NewStream(ctx, hx.StreamDescOf(kind), "/verif.Svc/"+kind,
					grpc.Header(&h1), grpc.Trailer(&t1), grpc.Header(&h2), grpc.Header(&h3), grpc.Trailer(&t2))
				if err != nil {
					o.Violate("NewStream failed", map[string]interface{}{"transport": t.name}, err.Error(), nil)
					continue
				}
				if kind == "SS" {
					cs.SendMsg(&hx.Msg{})
				}
				// asking for the trailers before the stream has ended (right after opening it, between
				// receives) yields nothing useful, and must not change what is reported at the end
				earlyTrailer := i%3 == 1
				if earlyTrailer {
					cs.Trailer()
				}
				cs.CloseSend()
				var early metadata.MD
				if headerFirst {
					early, _ = cs.Header()
				}
				var msgs []string
				var fin error
				for {
					if earlyTrailer {
						cs.Trailer()
					}
					m := &hx.Msg{}
					if fin = cs.RecvMsg(m); fin != nil {
						break
					}
					msgs = append(msgs, fmt.Sprint(m.Count))
				}
				// what the call options hold once the stream has ended, before Header() is asked (again)
				ph1, ph2, ph3 := h1, h2, h3
				hdr, _ := cs.Header()
				tlr := cs.Trailer()
				call.wait()
				acks := call.acks
				if !headerFirst {
					early = hdr
				}
				runtime.KeepAlive(cs)
				same := func(a, b metadata.MD) bool { return pairsOf(a, known) == pairsOf(b, known) }
				optsOK := same(ph1, hdr) && same(ph2, hdr) && same(ph3, hdr) && same(h1, hdr) && same(t1, tlr) && same(t2, tlr)
				var st []string
				for _, h := range script {
					st = append(st, h.coq())
				}
				desc := map[string]interface{}{"transport": t.name, "kind": kind, "header_before_first_recv": headerFirst, "handler_script": st, "handler_returns": code, "trailer_asked_before_the_end": earlyTrailer,
					"messages": msgs, "final": fmt.Sprint(fin), "header": hdr, "trailer": tlr}
				o.Case("script_"+t.name, fmt.Sprintf("Script %s %s %s %s {| o_acks := %s; o_msgs := %s; o_fin := %s; o_hdr := %s; o_tlr := %s; o_hdr_early := %s; o_opts_ok := %s |}",
					hx.B(http), hx.B(headerFirst), hx.List(st), hx.Z(code), acksTerm(acks), hx.List(msgs), finTerm(fin), pairsOf(hdr, known), pairsOf(tlr, known), pairsOf(early, known), hx.B(optsOK)), desc)
			} else {
				// a single-response method
				runSingle(o, t, ctx, call, script, known, code, true)
			}
		}
	}
}

// unary calls: status code, message and details, headers and trailers, both transports
func runUnaryStatus(o *hx.Out, r *hx.Rand, n int) {
	var retErr error
	var withResp bool // the failing handler also returns a (partial) response, as `return rsp, err` does
	var sendHdr bool  // the handler calls grpc.SendHeader instead of grpc.SetHeader
	var hdrs, tlrs metadata.MD
	svc := &hx.Svc{Unary: func(ctx context.Context, req *hx.Msg) (*hx.Msg, error) {
		if sendHdr {
			grpc.SendHeader(ctx, hdrs) // sent at once instead of left to the end of the call
		} else {
			grpc.SetHeader(ctx, hdrs)
		}
		grpc.SetTrailer(ctx, tlrs)
		if retErr != nil {
			if withResp {
				return &hx.Msg{Count: 9, Payload: []byte("partial")}, retErr
			}
			return nil, retErr
		}
		return &hx.Msg{}, nil
	}}
	trs := bothTransports(svc)
	defer func() {
		for _, t := range trs {
			t.stop()
		}
	}()
	msgs := map[int64][]string{
		0: {"plain message", "another one"}, 1: {""}, 2: {"a:b:c", ":leading", "100% sure", "%41"},
		3: {"héllo wörld 世界"}, 4: {"line1\nline2", "cr\rhere", " leading space", "trailing space ", "tab\tinside\t"},
		5: {"bad \xff\xfe utf8"},
	}
	for i := 0; i < n; i++ {
		for _, t := range trs {
			http := t.name == "httpgrpc"
			code := int64(r.Range(1, 16))
			if r.Chance(10) {
				code = int64([]uint32{17, 99, 1 << 31, 1<<32 - 1}[r.Intn(4)])
			}
			cls := int64(r.Intn(6))
			msg := msgs[cls][r.Intn(len(msgs[cls]))]
			nd := r.Intn(4)
			st := status.New(codes.Code(uint32(code)), msg)
			var details []proto.Message
			for d := 0; d < nd; d++ {
				var m proto.Message = wrapperspb.String(fmt.Sprintf("detail %d", d))
				if d%2 == 1 {
					m = &hx.Msg{Count: int32(d), Payload: r.Bytes(5)}
				}
				details = append(details, m)
			}
			if nd > 0 {
				sp := st.Proto()
				for _, d := range details {
					a, _ := anypb.New(d)
					sp.Details = append(sp.Details, a)
				}
				st = status.FromProto(sp)
			}
			retErr = st.Err()
			withResp = i%3 == 1
			sendHdr = i%5 == 2
			wrapped := ""
			if r.Chance(20) {
				inner := []error{context.DeadlineExceeded, context.Canceled}[r.Intn(2)]
				retErr, wrapped = wrapsCtx{st, inner}, inner.Error()
			}
			known := map[string]pairT{}
			var hp, tp []pairT
			for k := r.Intn(3); k > 0; k-- {
				p := pairT{int64(r.Range(1, 3)), int64(r.Range(1, 150))}
				hp = append(hp, p)
				known[mdKeys[p.k]+"\x00"+mdValue(p.k, p.v)] = p
			}
			for k := r.Intn(3); k > 0; k-- {
				p := pairT{int64(r.Range(1, 3)), int64(r.Range(1, 250))}
				tp = append(tp, p)
				known[mdKeys[p.k]+"\x00"+mdValue(p.k, p.v)] = p
			}
			hdrs, tlrs = mdFromPairs(hp), mdFromPairs(tp)
			var gh, gt metadata.MD
			opts := []grpc.CallOption{grpc.Header(&gh), grpc.Trailer(&gt)}
			if i%6 == 1 || i%6 == 2 { // without the trailer option the client may stop reading earlier
				opts = opts[:1]
			}
			err := t.ch.Invoke(context.Background(), "/verif.Svc/U", &hx.Msg{}, &hx.Msg{}, opts...)
			got := status.Convert(err)
			wantMsg := strings.ToValidUTF8(msg, "�")
			msgSame := got.Message() == msg || got.Message() == wantMsg
			detSame := len(got.Proto().GetDetails()) == nd
			for d := 0; detSame && d < nd; d++ {
				a, _ := anypb.New(details[d])
				detSame = proto.Equal(a, got.Proto().Details[d])
			}
			hOK := pairsOf(gh, known) == pairsTermSorted(hp)
			tOK := len(opts) < 2 || pairsOf(gt, known) == pairsTermSorted(tp)
			desc := map[string]interface{}{"transport": t.name, "code": code, "message": msg, "details": nd, "client_code": uint32(got.Code()), "client_message": got.Message(),
				"headers_ok": hOK, "trailers_ok": tOK, "error_also_wraps": wrapped, "handler_also_returns_a_response": withResp, "trailer_option_passed": len(opts) == 2}
			o.Case("unary_status_"+t.name, fmt.Sprintf("UnaryStatus %s %s %d %d %d %s %s %s %s", hx.B(http), hx.Z(code), cls, nd, uint32(got.Code()), hx.B(msgSame), hx.B(detSame), hx.B(hOK), hx.B(tOK)), desc)
		}
	}
}

// wrapsCtx is an application error with its own gRPC status that also wraps a context error (as an error
// built with fmt.Errorf("...: %w", ctx.Err()) and a GRPCStatus method would): its own status is what counts
type wrapsCtx struct {
	st    *status.Status
	inner error
}

func (e wrapsCtx) Error() string              { return e.st.Message() + ": " + e.inner.Error() }
func (e wrapsCtx) GRPCStatus() *status.Status { return e.st }
func (e wrapsCtx) Unwrap() error              { return e.inner }

// okCoded is a handler error whose status carries the OK code
type okCoded struct{ msg string }

func (e okCoded) Error() string              { return e.msg }
func (e okCoded) GRPCStatus() *status.Status { return status.New(codes.OK, e.msg) }

// runStreamStatus: a streaming handler sends k messages and then fails with a status of every code,
// message class and number of details; the client must see exactly that status after exactly k messages.
func runStreamStatus(o *hx.Out, r *hx.Rand, n int) {
	type planT struct {
		k      int
		err    error
		hd, tl metadata.MD
	}
	var mu sync.Mutex
	plans := map[string]*planT{}
	svc := &hx.Svc{Stream: func(kind string, ss grpc.ServerStream) error {
		md, _ := metadata.FromIncomingContext(ss.Context())
		mu.Lock()
		pl := plans[md.Get("call-id")[0]]
		mu.Unlock()
		ss.SetHeader(pl.hd)
		ss.SetTrailer(pl.tl)
		if kind != "SS" {
			for {
				if err := ss.RecvMsg(&hx.Msg{}); err != nil {
					break
				}
			}
		} else {
			ss.RecvMsg(&hx.Msg{})
		}
		for i := 0; i < pl.k; i++ {
			ss.SendMsg(&hx.Msg{Count: int32(i + 1)})
		}
		return pl.err
	}}
	trs := bothTransports(svc)
	defer func() {
		for _, t := range trs {
			t.stop()
		}
	}()
	msgs := map[int64][]string{
		0: {"plain message", "another one"}, 1: {""}, 2: {"a:b:c", ":leading", "100% sure", "%41"},
		3: {"héllo wörld 世界"}, 4: {"line1\nline2", "cr\rhere", " leading space", "trailing space ", "tab\tinside\t"},
		5: {"bad \xff\xfe utf8", "\xc3", "ok then \x80"},
	}
	kinds := []string{"SS", "BD", "CS"}
	for i := 0; i < n; i++ {
		for _, t := range trs {
			http := t.name == "httpgrpc"
			kind := kinds[r.Intn(3)]
			k := r.Intn(3)
			if kind == "CS" {
				k = r.Intn(2)
			}
			code := int64(r.Range(1, 16))
			if r.Chance(10) {
				code = int64([]uint32{17, 99, 1 << 31, 1<<32 - 1}[r.Intn(4)])
			}
			cls := int64(r.Intn(6))
			msg := msgs[cls][r.Intn(len(msgs[cls]))]
			nd := r.Intn(4)
			var details []proto.Message
			var herr error
			if r.Chance(8) {
				cls, code, nd = 6, 0, 0
				herr = okCoded{msg}
			} else {
				sp := status.New(codes.Code(uint32(code)), msg).Proto()
				for d := 0; d < nd; d++ {
					var m proto.Message = wrapperspb.String(fmt.Sprintf("detail %d", d))
					if d%2 == 1 {
						m = &hx.Msg{Count: int32(d), Payload: r.Bytes(5)}
					}
					details = append(details, m)
					a, _ := anypb.New(m)
					sp.Details = append(sp.Details, a)
				}
				herr = status.FromProto(sp).Err()
				if r.Chance(20) {
					herr = wrapsCtx{status.FromProto(sp), []error{context.DeadlineExceeded, context.Canceled}[r.Intn(2)]}
				}
			}
			known := map[string]pairT{}
			var hp, tp []pairT
			for j := r.Intn(3); j > 0; j-- {
				p := pairT{int64(r.Range(1, 3)), int64(r.Range(1, 150))}
				hp = append(hp, p)
				known[mdKeys[p.k]+"\x00"+mdValue(p.k, p.v)] = p
			}
			for j := r.Intn(3); j > 0; j-- {
				p := pairT{int64(r.Range(1, 3)), int64(r.Range(1, 150))}
				tp = append(tp, p)
				known[mdKeys[p.k]+"\x00"+mdValue(p.k, p.v)] = p
			}
			id := fmt.Sprintf("ss-%s-%d", t.name, i)
			mu.Lock()
			plans[id] = &planT{k, herr, mdFromPairs(hp), mdFromPairs(tp)}
			mu.Unlock()
			ctx := metadata.AppendToOutgoingContext(context.Background(), "call-id", id)
			got, gotMsgs, failed := status.New(codes.OK, ""), 0, false
			var gh, gt metadata.MD
			func() {
				cs, err := t.ch.NewStream(ctx, hx.StreamDescOf(kind), "/verif.Svc/"+kind)
				if err != nil {
					got, failed = status.Convert(err), true
					return
				}
				defer runtime.KeepAlive(cs)
				cs.SendMsg(&hx.Msg{})
				cs.CloseSend()
				for {
					err := cs.RecvMsg(&hx.Msg{})
					if err == io.EOF {
						break
					}
					if err != nil {
						got, failed = status.Convert(err), true
						break
					}
					gotMsgs++
				}
				gh, _ = cs.Header()
				gt = cs.Trailer()
			}()
			wantMsg := strings.ToValidUTF8(msg, "\uFFFD")
			msgSame := got.Message() == msg || got.Message() == wantMsg
			detSame := len(got.Proto().GetDetails()) == nd
			for d := 0; detSame && d < nd; d++ {
				a, _ := anypb.New(details[d])
				detSame = proto.Equal(a, got.Proto().Details[d])
			}
			hOK := pairsOf(gh, known) == pairsTermSorted(hp)
			tOK := pairsOf(gt, known) == pairsTermSorted(tp)
			kid := map[string]int{"SS": 1, "BD": 2, "CS": 3}[kind]
			desc := map[string]interface{}{"transport": t.name, "kind": kind, "handler_sends": k, "code": code, "message": msg, "details": nd, "ok_coded_error": cls == 6, "handler_error_type": fmt.Sprintf("%T", herr),
				"client_failed": failed, "client_code": uint32(got.Code()), "client_message": got.Message(), "client_messages": gotMsgs, "headers_ok": hOK, "trailers_ok": tOK}
			o.Case("stream_status_"+t.name, fmt.Sprintf("StreamStatus %s %d %d %s %d %d %s %d %d %s %s %s %s", hx.B(http), kid, k, hx.Z(code), cls, nd, hx.B(failed), uint32(got.Code()), gotMsgs,
				hx.B(msgSame), hx.B(detSame), hx.B(hOK), hx.B(tOK)), desc)
		}
	}
}

func pairsTermSorted(ps []pairT) string {
	var s []string
	for _, kid := range []int64{1, 2, 3} {
		for _, p := range ps {
			if p.k == kid {
				s = append(s, fmt.Sprintf("(%d, %d)", p.k, p.v))
			}
		}
	}
	_ = sort.Strings
	return hx.List(s)
}

func checked(o *hx.Out, kind string, id int, ok bool, desc map[string]interface{}) {
	o.Case(kind, fmt.Sprintf("Checked %s %d %s", hx.Str(kind), id, hx.B(ok)), desc)
}

// a unary HTTP reply whose body is cut short must be reported as an error, wherever the cut falls
func truncatedUnaryReplies(o *hx.Out) { truncatedUnaryRepliesTo(o, checked) }

// request metadata: whatever way the caller attached it to its context (a metadata.MD, appended pairs, or
// both), the handler's incoming metadata has every key with all its values in order, binary values intact
func requestMetadata(o *hx.Out, r *hx.Rand) {
	var seen metadata.MD
	svc := &hx.Svc{
		Unary: func(ctx context.Context, req *hx.Msg) (*hx.Msg, error) {
			seen, _ = metadata.FromIncomingContext(ctx)
			return &hx.Msg{}, nil
		},
		Stream: func(kind string, ss grpc.ServerStream) error {
			seen, _ = metadata.FromIncomingContext(ss.Context())
			return nil
		},
	}
	binVals := []string{"QUJD", "", "plain", "\x00\x01\xff\xfe", "a b\n", "YQ==", "===="}
	id := 0
	for _, t := range bothTransports(svc) {
		for _, how := range []string{"md", "append", "md+append", "append twice", "md+credentials", "md+append+credentials"} {
			for _, stream := range []bool{false, true} {
				base := metadata.MD{"k-plain": {"v1", "v 2"}, "k-bin": {binVals[r.Intn(len(binVals))], binVals[r.Intn(len(binVals))]}}
				extra := []string{"x-bin", binVals[r.Intn(len(binVals))], "k-plain", "v3", "x-bin", binVals[r.Intn(len(binVals))], "y", "z"}
				want := metadata.MD{}
				ctx := context.Background()
				if how == "md" || how == "md+append" {
					ctx = metadata.NewOutgoingContext(ctx, base.Copy())
					want = metadata.Join(want, base)
				}
				withCreds := strings.HasSuffix(how, "credentials")
				if how == "md+credentials" || how == "md+append+credentials" {
					ctx = metadata.NewOutgoingContext(ctx, base.Copy())
					want = metadata.Join(want, base)
				}
				if how != "md" && how != "md+credentials" {
					ctx = metadata.AppendToOutgoingContext(ctx, extra...)
					want = metadata.Join(want, metadata.Pairs(extra...))
				}
				if how == "append twice" {
					ctx = metadata.AppendToOutgoingContext(ctx, "k-bin", "\xff\x00tail", "y", "z2")
					want = metadata.Join(want, metadata.Pairs("k-bin", "\xff\x00tail", "y", "z2"))
				}
				seen = nil
				var err error
				var copts []grpc.CallOption
				if withCreds {
					// the credentials contribute values under a key the caller uses too, and under one of their own:
					// the handler sees the caller's values AND the credentials' (joined, never replaced)
					copts = append(copts, grpc.PerRPCCredentials(mapCreds{"k-plain": "from-credentials", "authorization": "token"}))
					want = metadata.Join(want, metadata.Pairs("k-plain", "from-credentials", "authorization", "token"))
				}
				if stream {
					err = streamWithCtxOpts(t.ch, ctx, copts...)
				} else {
					err = t.ch.Invoke(ctx, "/verif.Svc/U", &hx.Msg{}, &hx.Msg{}, copts...)
				}
				ok := err == nil && seen != nil
				for k, vs := range want {
					ok = ok && fmt.Sprintf("%q", seen[k]) == fmt.Sprintf("%q", vs)
				}
				id++
				d := map[string]interface{}{"transport": t.name, "stream": stream, "attached_with": how, "sent": fmt.Sprintf("%q", want), "handler_saw": fmt.Sprintf("%q", seen), "error": fmt.Sprint(err)}
				if !ok {
					o.Violate("the handler did not see the caller's outgoing metadata as sent", d, fmt.Sprintf("%q", seen), fmt.Sprintf("%q", want))
				}
				checked(o, "request_metadata_"+t.name, id, ok, d)
			}
		}
		t.stop()
	}
}

func streamWithCtx(ch grpc.ClientConnInterface, ctx context.Context) error {
	return streamWithCtxOpts(ch, ctx)
}

func streamWithCtxOpts(ch grpc.ClientConnInterface, ctx context.Context, opts ...grpc.CallOption) error {
	cs, err := ch.NewStream(ctx, hx.StreamDescOf("BD"), "/verif.Svc/BD", opts...)
	if err != nil {
		return err
	}
	defer runtime.KeepAlive(cs)
	cs.CloseSend()
	for {
		if err := cs.RecvMsg(&hx.Msg{}); err != nil {
			if err == io.EOF {
				return nil
			}
			return err
		}
	}
}

// a response message that cannot be encoded: the handler ignores the failed send, sends more and returns
// nil; the client must not be told the call succeeded unless it received every message
func unencodableResponses(o *hx.Out) {
	bad := func() *hx.Msg { return &hx.Msg{Count: 2, Headers: map[string][]byte{"bad key \xff\xfe": []byte("v")}} }
	svc := &hx.Svc{
		Unary: func(ctx context.Context, req *hx.Msg) (*hx.Msg, error) { return bad(), nil },
		Stream: func(kind string, ss grpc.ServerStream) error {
			for {
				if err := ss.RecvMsg(&hx.Msg{}); err != nil {
					break
				}
			}
			if kind == "CS" {
				ss.SendMsg(bad())
				return nil
			}
			ss.SendMsg(&hx.Msg{Count: 1})
			ss.SendMsg(bad())
			ss.SendMsg(&hx.Msg{Count: 3})
			return nil
		},
	}
	id := 0
	for _, t := range bothTransports(svc) {
		out := &hx.Msg{}
		err := t.ch.Invoke(context.Background(), "/verif.Svc/U", &hx.Msg{}, out)
		ok := err != nil || proto.Equal(out, bad())
		d := map[string]interface{}{"transport": t.name, "kind": "unary", "response": "a message the codec cannot encode (map key that is not UTF-8)", "error": fmt.Sprint(err)}
		if !ok {
			o.Violate("an unencodable unary response was reported as success without the message", d, "nil error", "an error")
		}
		id++
		checked(o, "unencodable_response", id, ok, d)
		for _, kind := range []string{"SS", "BD", "CS"} {
			want := 3
			if kind == "CS" {
				want = 1
			}
			got, err := halfDuplex(t.ch, kind, []*hx.Msg{{}})
			ok := err != nil || len(got) == want
			d := map[string]interface{}{"transport": t.name, "kind": kind, "handler_sent": want, "one_of_them": "cannot be encoded; the handler ignores the send error and returns nil",
				"client_received": len(got), "error": fmt.Sprint(err)}
			if !ok {
				o.Violate("a stream that lost an unencodable response ended for the client as a success", d, len(got), want)
			}
			id++
			checked(o, "unencodable_response", id, ok, d)
		}
		t.stop()
	}
}

func truncatedUnaryRepliesTo(o *hx.Out, emit func(o *hx.Out, kind string, id int, ok bool, desc map[string]interface{})) {
	full, _ := proto.Marshal(&hx.Msg{Count: 7, Payload: []byte("abcdef"), Code: 3, Headers: map[string][]byte{"k": []byte("v")}})
	base, _ := url.Parse("http://replay.invalid/")
	for k := 0; k < len(full); k++ {
		for _, abrupt := range []bool{true} {
			h := http.Header{}
			h.Set("Content-Type", httpgrpc.UnaryRpcContentType_V1)
			rt := roundTripFunc(func(r *http.Request) (*http.Response, error) {
				if r.Body != nil {
					io.Copy(io.Discard, r.Body)
					r.Body.Close()
				}
				return &http.Response{StatusCode: 200, Status: "200 OK", Proto: "HTTP/1.1", ProtoMajor: 1, ProtoMinor: 1, Header: h,
					ContentLength: int64(len(full)), Body: &replayBody{bytes.NewReader(full[:k]), abrupt}, Request: r}, nil
			})
			ch := &httpgrpc.Channel{Transport: rt, BaseURL: base}
			out := &hx.Msg{}
			err := ch.Invoke(context.Background(), "/verif.Svc/U", &hx.Msg{}, out)
			ok := err != nil
			d := map[string]interface{}{"transport": "httpgrpc", "kind": "unary reply cut short", "body_bytes": len(full), "cut_at": k, "error": fmt.Sprint(err)}
			if !ok {
				o.Violate("a unary reply that was cut short was reported as success", d, "nil error", "an error")
			}
			emit(o, "truncated_unary_reply", k, ok, d)
		}
	}
}

type roundTripFunc func(*http.Request) (*http.Response, error)

func (f roundTripFunc) RoundTrip(r *http.Request) (*http.Response, error) { return f(r) }

// over HTTP a single-request method must refuse a second request message, an empty one included
func secondRequestRefused(o *hx.Out) {
	got := 0
	svc := &hx.Svc{Stream: func(kind string, ss grpc.ServerStream) error {
		m := &hx.Msg{}
		if err := ss.RecvMsg(m); err != nil {
			return err
		}
		got++
		return ss.SendMsg(&hx.Msg{Count: m.Count})
	}}
	id := 0
	for _, t := range bothTransports(svc) {
		if t.name != "httpgrpc" {
			t.stop()
			continue
		}
		for _, second := range []*hx.Msg{{Count: 2}, {}, {Payload: []byte{}}} {
			for _, nreq := range []int{0, 1, 2} {
				cs, err := t.ch.NewStream(context.Background(), hx.StreamDescOf("SS"), "/verif.Svc/SS")
				if err != nil {
					continue
				}
				if nreq >= 1 {
					cs.SendMsg(&hx.Msg{Count: 1})
				}
				if nreq >= 2 {
					cs.SendMsg(second)
				}
				cs.CloseSend()
				var msgs int
				var fin error
				for {
					if fin = cs.RecvMsg(&hx.Msg{}); fin != nil {
						break
					}
					msgs++
				}
				runtime.KeepAlive(cs)
				ok := true
				switch nreq {
				case 1:
					ok = fin == io.EOF && msgs == 1
				default: // no request, or more than one: an error, no response
					ok = fin != io.EOF && msgs == 0
					if nreq == 2 {
						ok = ok && status.Code(fin) == codes.InvalidArgument
					}
				}
				id++
				d := map[string]interface{}{"transport": t.name, "kind": "SS (single request)", "requests_sent": nreq, "second_request_bytes": proto.Size(second), "responses": msgs, "final": fmt.Sprint(fin)}
				if !ok {
					o.Violate("a single-request method over HTTP accepted zero or two request messages", d, fmt.Sprint(fin), nil)
				}
				checked(o, "single_request_http", id, ok, d)
			}
		}
		t.stop()
	}
}

func ltsFixed(o *hx.Out, name string, kinds []string, corpus [][]sOp) {
	sub := hx.NewOut(o.Prop, o.Dir)
	runFixedSchedules(sub, name, kinds, corpus)
	sub.Each(func(kind, term string, desc interface{}) {
		o.Case("lts_"+kind, "Lts ("+term+")", desc)
	})
	for _, v := range sub.GoViol {
		o.GoViol = append(o.GoViol, v)
	}
}

func ltsCases(o *hx.Out, r *hx.Rand, p profile, n int) {
	// in-process schedules, wrapped for the Script case type
	sub := hx.NewOut(o.Prop, o.Dir)
	runStreamProfile(sub, r, p, n)
	sub.Each(func(kind, term string, desc interface{}) {
		o.Case("lts_"+kind, "Lts ("+term+")", desc)
	})
	for _, v := range sub.GoViol {
		o.GoViol = append(o.GoViol, v)
	}
}

func init() {
	imports := func(p string) string { return "model.InprocStream corr.Stream corr." + p }
	runners["C02"] = func(o *hx.Out, r *hx.Rand, thorough bool) {
		o.Imports = imports("C02")
		n := 60
		if thorough {
			n = 600
		}
		runScripts(o, r, n, true)
		runUnaryStatus(o, r, n)
		runStreamStatus(o, r, n)
		truncatedUnaryReplies(o)
		unencodableResponses(o)
		emptyStreamMessages(o)
		lostTrailerThenNextCall(o)
		unaryRecvLimit(o)
		httpClientSchedules(o, r, n, "HLts")
		ltsCases(o, r, profile{name: "status", rounds: [2]int{5, 14}, cancel: 10, handlerEnd: 60, headers: 20, kinds: []string{"BD", "SS", "CS"}, returnCodes: []int64{0, 5, 13, -1, 2, 14}}, n)
		o.Finding = "finding_case"
		o.Shard = 60
	}
	runners["C03"] = func(o *hx.Out, r *hx.Rand, thorough bool) {
		o.Imports = imports("C03")
		n := 90
		if thorough {
			n = 900
		}
		runScripts(o, r, n, true)
		runUnaryStatus(o, r, n/2)
		runStreamStatus(o, r, n/2)
		requestMetadata(o, r)
		headersAfterTheCall(o)
		everydayTrailerKeys(o)
		streamTrailerCuts(o)
		o.Finding = "finding_c03"
		o.Shard = 60
	}
	runners["C08"] = func(o *hx.Out, r *hx.Rand, thorough bool) {
		o.Imports = imports("C08")
		n := 70
		if thorough {
			n = 700
		}
		runScripts(o, r, n, false)
		singleCorpus(o)
		httpClientSchedules(o, r, n, "HLts")
		secondRequestRefused(o)
		noResponseUnary(o)
		nilAndSkewedSingleResponses(o)
		singleResponseCuts(o)
		ltsCases(o, r, profile{name: "single", rounds: [2]int{4, 12}, cancel: 5, handlerEnd: 50, headers: 20, kinds: []string{"CS", "CS", "SS"}, returnCodes: []int64{0, 0, 5, -2}}, n)
		o.Finding = "finding_case"
		o.Shard = 60
	}
}

// noResponseUnary: a unary handler that produces NO response (nil, or a typed nil, with a nil error) is reported as
// an error, never as success carrying a zero message -- whatever renders errors on the server
func noResponseUnary(o *hx.Out) {
	renderers := []struct {
		name string
		fn   func(context.Context, *status.Status, http.ResponseWriter)
	}{
		{"default", nil},
		{"silent (writes nothing, relies on the library's status header)", func(context.Context, *status.Status, http.ResponseWriter) {}},
		{"always 200 with a text body", func(_ context.Context, st *status.Status, w http.ResponseWriter) {
			w.WriteHeader(200)
			w.Write([]byte(st.Message()))
		}},
	}
	id := 7000
	for _, nilKind := range []string{"untyped nil", "typed nil"} {
		svc := &hx.Svc{Unary: func(ctx context.Context, req *hx.Msg) (*hx.Msg, error) { return nil, nil }}
		if nilKind == "typed nil" {
			svc = &hx.Svc{Unary: func(ctx context.Context, req *hx.Msg) (*hx.Msg, error) { var m *hx.Msg; return m, nil }}
		}
		for _, rd := range renderers {
			var opts []httpgrpc.ServerOption
			if rd.fn != nil {
				opts = append(opts, httpgrpc.ErrorRenderer(rd.fn))
			}
			hs := httpgrpc.NewServer(opts...)
			hs.RegisterService(hx.Desc(hx.SvcName), svc)
			ts := httptest.NewServer(hs)
			u, _ := url.Parse(ts.URL)
			ch := &httpgrpc.Channel{Transport: &http.Transport{}, BaseURL: u}
			out := &hx.Msg{Count: 77}
			err := ch.Invoke(context.Background(), "/verif.Svc/U", &hx.Msg{}, out)
			ts.Close()
			ok := err != nil
			id++
			d := map[string]interface{}{"transport": "httpgrpc", "kind": "unary", "handler_returns": nilKind + " response and nil error", "error_renderer": rd.name, "client_result": fmt.Sprint(err)}
			if !ok {
				o.Violate("a unary handler that produced no response was reported as success", d, "success", "an error")
			}
			checked(o, "no_response_unary_httpgrpc", id, ok, d)
		}
		ipc := &inprocgrpc.Channel{}
		ipc.RegisterService(hx.Desc(hx.SvcName), svc)
		err := ipc.Invoke(context.Background(), "/verif.Svc/U", &hx.Msg{}, &hx.Msg{})
		id++
		d := map[string]interface{}{"transport": "inprocgrpc", "kind": "unary", "handler_returns": nilKind + " response and nil error", "client_result": fmt.Sprint(err)}
		if err == nil {
			o.Violate("a unary handler that produced no response was reported as success", d, "success", "an error")
		}
		checked(o, "no_response_unary_inprocgrpc", id, err != nil, d)
	}
}

// singleResponseCuts: the reply to a single-response call, cut at every byte: success only for the complete reply
// of a handler that succeeded
func singleResponseCuts(o *hx.Out) {
	installRawCodec()
	frame := func(b []byte, trailer bool) []byte {
		pre := make([]byte, 4)
		n := int32(len(b))
		if trailer {
			n = -n
		}
		binary.BigEndian.PutUint32(pre, uint32(n))
		return append(pre, b...)
	}
	id := 7100
	for _, code := range []int32{0, 9} {
		tr, _ := proto.Marshal(&httpgrpc.HttpTrailer{Code: code, Message: "m"})
		msg, _ := proto.Marshal(&hx.Msg{Count: 5, Payload: []byte("the one response")})
		body := append(frame(msg, false), frame(tr, true)...)
		for k := 0; k <= len(body); k++ {
			for _, abrupt := range []bool{false, true} {
				success, _, p := runClientSingle(body[:k], abrupt)
				want := k == len(body) && code == 0
				ok := p == nil && success == want
				id++
				d := map[string]interface{}{"transport": "httpgrpc (scripted reply)", "kind": "CS", "handler": map[int32]string{0: "responded and returned nil", 9: "responded and failed"}[code],
					"reply_bytes": len(body), "cut_after": k, "ends_abruptly": abrupt, "reported_success": success, "panic": fmt.Sprint(p)}
				if !ok {
					o.Violate("a single-response call reported success for a reply that was cut short or carried a failure (or failed on a complete good reply)", d, success, want)
				}
				checked(o, "single_response_reply_cut", id, ok, d)
			}
		}
	}
}

// emptyStreamMessages: a response message whose encoding is empty (nothing set) is a message like any other: it
// is delivered, what follows it is delivered, and the handler's failure arrives afterwards with its code
func emptyStreamMessages(o *hx.Out) {
	id := 0
	for _, shape := range [][]int32{{0, 7}, {7, 0}, {0}, {0, 0, 3}} {
		for _, code := range []codes.Code{codes.NotFound, codes.OK} {
			svc := &hx.Svc{Stream: func(kind string, ss grpc.ServerStream) error {
				for _, c := range shape {
					if err := ss.SendMsg(&hx.Msg{Count: c}); err != nil {
						return err
					}
				}
				if code == codes.OK {
					return nil
				}
				return status.Error(code, "after the messages")
			}}
			for _, t := range bothTransports(svc) {
				for _, kind := range []string{"SS", "BD"} {
					ctx, cancel := context.WithTimeout(context.Background(), 5*time.Second)
					cs, err := t.ch.NewStream(ctx, hx.StreamDescOf(kind), "/verif.Svc/"+kind)
					var got []int32
					var final error
					if err == nil {
						cs.SendMsg(&hx.Msg{})
						cs.CloseSend()
						for {
							m := &hx.Msg{Count: -1}
							if e := cs.RecvMsg(m); e != nil {
								final = e
								break
							}
							got = append(got, m.Count)
						}
						runtime.KeepAlive(cs)
					} else {
						final = err
					}
					cancel()
					ok := fmt.Sprint(got) == fmt.Sprint(shape) && ((code == codes.OK && final == io.EOF) || (code != codes.OK && status.Code(final) == code))
					d := map[string]interface{}{"transport": t.name, "kind": kind, "handler_sends_counts": shape, "handler_returns": code.String(), "received_counts": got, "final": fmt.Sprint(final)}
					if !ok {
						o.Violate("a response message with an empty encoding changed what the caller was given", d, fmt.Sprint(got, final), fmt.Sprint(shape, code))
					}
					id++
					checked(o, "empty_stream_message", id, ok, d)
				}
				t.stop()
			}
		}
	}
}

// unaryRecvLimit: whatever receive-size call option accompanies a unary call, the outcome is the response the
// handler returned, whole, or an error: never a successful call with a different (shortened) response
func unaryRecvLimit(o *hx.Out) {
	resp := &hx.Msg{Count: 9, Payload: bytes.Repeat([]byte("0123456789"), 10), Code: 4}
	svc := &hx.Svc{Unary: func(ctx context.Context, req *hx.Msg) (*hx.Msg, error) { return proto.Clone(resp).(*hx.Msg), nil }}
	for _, t := range bothTransports(svc) {
		lims := []int{4096}
		for l := 1; l <= proto.Size(resp)+2; l++ {
			lims = append(lims, l)
		}
		for _, lim := range lims {
			out := &hx.Msg{}
			err := t.ch.Invoke(context.Background(), "/verif.Svc/U", &hx.Msg{Count: 1}, out, grpc.MaxCallRecvMsgSize(lim), grpc.MaxCallSendMsgSize(lim))
			ok := err != nil || proto.Equal(out, resp)
			d := map[string]interface{}{"transport": t.name, "kind": "unary", "receive_limit_option": lim, "response_bytes": proto.Size(resp), "received": out.String(), "error": fmt.Sprint(err)}
			if !ok {
				o.Violate("a unary call succeeded with a response that is not the one the handler returned", d, out.String(), resp.String())
			}
			checked(o, "unary_recv_limit_"+t.name, lim, ok, d)
		}
		t.stop()
	}
}

// headersAfterTheCall: the response headers stay available for as long as the caller holds the stream: asked
// for after the call is over (and its context ended), Header() gives what the handler sent, every time
func headersAfterTheCall(o *hx.Out) {
	svc := &hx.Svc{Stream: func(kind string, ss grpc.ServerStream) error {
		ss.SendHeader(metadata.Pairs("k1", "v1", "k2-bin", "\x00\xff"))
		ss.SendMsg(&hx.Msg{Count: 1})
		return nil
	}}
	for _, t := range bothTransports(svc) {
		ctx, cancel := context.WithCancel(context.Background())
		cs, err := t.ch.NewStream(ctx, hx.StreamDescOf("SS"), "/verif.Svc/SS")
		bad := ""
		if err == nil {
			cs.SendMsg(&hx.Msg{})
			cs.CloseSend()
			for cs.RecvMsg(&hx.Msg{}) == nil {
			}
			cancel()
			time.Sleep(20 * time.Millisecond)
			for i := 0; i < 60 && bad == ""; i++ {
				h, e := cs.Header()
				if e != nil || len(h.Get("k1")) != 1 || h.Get("k1")[0] != "v1" || len(h.Get("k2-bin")) != 1 || h.Get("k2-bin")[0] != "\x00\xff" {
					bad = fmt.Sprintf("ask %d: %v %v", i, h, e)
				}
			}
		} else {
			bad = err.Error()
		}
		cancel()
		d := map[string]interface{}{"transport": t.name, "kind": "SS", "what": "Header() sixty times after the call completed and its context was cancelled", "first_wrong": bad}
		if bad != "" {
			o.Violate("the response headers of a completed call were not returned", d, bad, "k1=v1 k2-bin=00ff")
		}
		checked(o, "headers_after_the_call_"+t.name, 1, bad == "", d)
		t.stop()
	}
}

// everydayTrailerKeys: trailer and header keys of a unary call arrive under exactly the names the handler used
func everydayTrailerKeys(o *hx.Out) {
	keys := []string{"trace-id", "request-id", "retry-after", "elapsed-ms", "api-version", "x-app", "grpc-ish", "t", "-lead", "rate.limit_left", "tag-bin"}
	svc := &hx.Svc{Unary: func(ctx context.Context, req *hx.Msg) (*hx.Msg, error) {
		for i, k := range keys {
			grpc.SetTrailer(ctx, metadata.Pairs(k, fmt.Sprintf("t%d", i)))
			grpc.SetHeader(ctx, metadata.Pairs(k, fmt.Sprintf("h%d", i)))
		}
		if req.Count == 1 {
			return nil, status.Error(codes.Aborted, "with trailers")
		}
		return &hx.Msg{}, nil
	}}
	for _, t := range bothTransports(svc) {
		for c := int32(0); c < 2; c++ {
			var hdr, tlr metadata.MD
			err := t.ch.Invoke(context.Background(), "/verif.Svc/U", &hx.Msg{Count: c}, &hx.Msg{}, grpc.Header(&hdr), grpc.Trailer(&tlr))
			bad := ""
			for i, k := range keys {
				if v := tlr.Get(k); len(v) != 1 || v[0] != fmt.Sprintf("t%d", i) {
					bad += fmt.Sprintf(" trailer %s=%v", k, v)
				}
				if v := hdr.Get(k); len(v) != 1 || v[0] != fmt.Sprintf("h%d", i) {
					bad += fmt.Sprintf(" header %s=%v", k, v)
				}
			}
			if len(tlr) != len(keys) {
				bad += fmt.Sprintf(" %d trailer keys", len(tlr))
			}
			d := map[string]interface{}{"transport": t.name, "kind": "unary", "handler_fails": c == 1, "keys": keys, "wrong": bad, "error": fmt.Sprint(err), "trailers": fmt.Sprint(tlr)}
			if bad != "" {
				o.Violate("unary response metadata did not arrive under the keys the handler used", d, bad, "")
			}
			checked(o, "everyday_trailer_keys_"+t.name, int(c), bad == "", d)
			if t.name == "httpgrpc" {
				// the same reply against the model of the header layout (model/UnaryMeta.v), evaluated in Coq
				hmd, tmd := map[string][]string{}, map[string][]string{}
				for i, k := range keys {
					if strings.HasSuffix(k, "-bin") {
						continue // values are opaque in that model; the -bin transport is checked elsewhere
					}
					hmd[k], tmd[k] = []string{fmt.Sprintf("h%d", i)}, []string{fmt.Sprintf("t%d", i)}
				}
				fail, msg := 0, ""
				if c == 1 {
					fail, msg = int(codes.Aborted), "with trailers"
				}
				strip := func(md metadata.MD) map[string][]string {
					out := map[string][]string{}
					for k, v := range md {
						if !strings.HasSuffix(k, "-bin") {
							out[k] = v
						}
					}
					return out
				}
				o.Case("unary_meta_model", fmt.Sprintf("Checked %s %d (UnaryMeta.agrees %s %s %d %s 409 %s %s %d)", hx.Str("unary_meta_model"), int(c),
					hx.MD(hmd), hx.MD(tmd), fail, hx.Str(msg), hx.MD(strip(hdr)), hx.MD(strip(tlr)), int(status.Code(err))), d)
			}
		}
		t.stop()
	}
}

// nilAndSkewedSingleResponses: (a) a client-streaming handler that hands a typed nil message to the stream has
// produced no response: the caller gets an error; (b) the cardinality the caller is entitled to is that of the
// descriptor IT called with: a single-response call against a method registered as bidi still yields exactly
// one response or an error
func nilAndSkewedSingleResponses(o *hx.Out) {
	id := 7400
	single := &grpc.StreamDesc{StreamName: "BD", ClientStreams: true}
	type sc struct {
		name    string
		method  string
		desc    *grpc.StreamDesc
		handler func(ss grpc.ServerStream) error
		wantOK  bool
	}
	drain := func(ss grpc.ServerStream) {
		for ss.RecvMsg(&hx.Msg{}) == nil {
		}
	}
	for _, c := range []sc{
		{"CS handler sends a typed nil message and returns nil", "CS", hx.StreamDescOf("CS"), func(ss grpc.ServerStream) error {
			drain(ss)
			var m *hx.Msg
			if err := ss.SendMsg(m); err != nil {
				return err
			}
			return nil
		}, false},
		{"called as single-response, registered as bidi: the handler sends two responses", "BD", single, func(ss grpc.ServerStream) error {
			drain(ss)
			ss.SendMsg(&hx.Msg{Count: 1})
			ss.SendMsg(&hx.Msg{Count: 2})
			return nil
		}, false},
		{"called as single-response, registered as bidi: one response, then NotFound", "BD", single, func(ss grpc.ServerStream) error {
			drain(ss)
			ss.SendMsg(&hx.Msg{Count: 1})
			return status.Error(codes.NotFound, "after the response")
		}, false},
		{"CS handler sends its response and then returns the bare io.EOF (an error like any other)", "CS", hx.StreamDescOf("CS"), func(ss grpc.ServerStream) error {
			drain(ss)
			ss.SendMsg(&hx.Msg{Count: 1})
			return io.EOF
		}, false},
		{"called as single-response, registered as bidi: exactly one response", "BD", single, func(ss grpc.ServerStream) error {
			drain(ss)
			ss.SendMsg(&hx.Msg{Count: 1})
			return nil
		}, true},
	} {
		c := c
		svc := &hx.Svc{Stream: func(kind string, ss grpc.ServerStream) error { return c.handler(ss) }}
		passOn := func(srv interface{}, ss grpc.ServerStream, info *grpc.StreamServerInfo, h grpc.StreamHandler) error {
			return h(srv, ss)
		}
		ipc2 := (&inprocgrpc.Channel{}).WithServerStreamInterceptor(passOn)
		ipc2.RegisterService(hx.Desc(hx.SvcName), svc)
		hs2 := httpgrpc.NewServer(httpgrpc.WithServerStreamInterceptor(passOn))
		hs2.RegisterService(hx.Desc(hx.SvcName), svc)
		ts2 := httptest.NewServer(hs2)
		u2, _ := url.Parse(ts2.URL)
		ts := append(bothTransports(svc),
			transportT{"inprocgrpc with a pass-through server stream interceptor", ipc2, func() {}},
			transportT{"httpgrpc with a pass-through server stream interceptor", &httpgrpc.Channel{Transport: &http.Transport{}, BaseURL: u2}, ts2.Close})
		for _, t := range ts {
			ctx, cancel := context.WithTimeout(context.Background(), 3*time.Second)
			cs, err := t.ch.NewStream(ctx, c.desc, "/verif.Svc/"+c.method)
			out := &hx.Msg{}
			if err == nil {
				cs.SendMsg(&hx.Msg{Count: 3})
				cs.CloseSend()
				err = cs.RecvMsg(out)
				runtime.KeepAlive(cs)
			}
			cancel()
			ok := (err == nil) == c.wantOK && (!c.wantOK || out.Count == 1)
			id++
			d := map[string]interface{}{"transport": t.name, "scenario": c.name, "client_result": fmt.Sprint(err), "received_count": out.Count}
			if !ok {
				o.Violate("a single-response call did not end with exactly one response or an error", d, fmt.Sprint(err), map[bool]string{true: "success with the response", false: "an error"}[c.wantOK])
			}
			checked(o, "single_response_nil_or_skewed_"+t.name, id, ok, d)
			t.stop()
		}
	}
}

// lostTrailerThenNextCall: a streaming call whose peer is gone (every write of the reply fails) is followed by
// healthy calls on the same handler: each of those ends with ITS handler's status, nothing of the lost call
func lostTrailerThenNextCall(o *hx.Out) {
	prev := runtime.GOMAXPROCS(1) // (one processor: whatever per-processor state the lost call left is met by the next)
	defer runtime.GOMAXPROCS(prev)
	var ret error
	svc := &hx.Svc{Stream: func(kind string, ss grpc.ServerStream) error {
		for ss.RecvMsg(&hx.Msg{}) == nil {
		}
		return ret
	}}
	desc := hx.Desc(hx.SvcName)
	var sd *grpc.StreamDesc
	for i := range desc.Streams {
		if desc.Streams[i].StreamName == "BD" {
			sd = &desc.Streams[i]
		}
	}
	h := httpgrpc.HandleStream(svc, hx.SvcName, sd, nil)
	mkReq := func() *http.Request {
		rq := httptest.NewRequest("POST", "/verif.Svc/BD", bytes.NewReader(nil))
		rq.Header.Set("Content-Type", httpgrpc.StreamRpcContentType_V1)
		return rq
	}
	id := 0
	for _, pair := range [][2]codes.Code{{codes.OK, codes.PermissionDenied}, {codes.NotFound, codes.OK}, {codes.Aborted, codes.DataLoss}} {
		ret = codeErr2(int64(pair[0]))
		h(&deadWriter{h: http.Header{}}, mkReq()) // the lost call: its trailer cannot be written
		for k := 0; k < 3; k++ {
			ret = codeErr2(int64(pair[1]))
			rec := httptest.NewRecorder()
			h(rec, mkReq())
			// walk the reply: the first trailer frame is what the client takes for the outcome
			b := rec.Body.Bytes()
			first, frames := int64(-1), 0
			for pos := 0; pos+4 <= len(b); {
				sz := int32(binary.BigEndian.Uint32(b[pos:]))
				pos += 4
				if sz >= 0 {
					pos += int(sz)
					continue
				}
				end := pos + int(-sz)
				if end > len(b) {
					break
				}
				var tr httpgrpc.HttpTrailer
				if proto.Unmarshal(b[pos:end], &tr) == nil && frames == 0 {
					first = int64(tr.Code)
				}
				frames++
				pos = end
			}
			ok := frames == 1 && first == int64(pair[1])
			id++
			d := map[string]interface{}{"transport": "httpgrpc server (HandleStream)", "lost_call_returned": pair[0].String(), "this_call_returned": pair[1].String(), "calls_after_the_lost_one": k + 1,
				"trailer_frames_in_reply": frames, "first_trailer_code": first}
			if !ok {
				o.Violate("a streaming call's reply did not end with exactly its own handler's status after an earlier call's reply could not be written", d, first, int64(pair[1]))
			}
			checked(o, "lost_trailer_then_next_call", id, ok, d)
		}
	}
}

// deadWriter is a ResponseWriter whose peer is gone: every write fails
type deadWriter struct{ h http.Header }

func (d *deadWriter) Header() http.Header       { return d.h }
func (d *deadWriter) WriteHeader(int)           {}
func (d *deadWriter) Write([]byte) (int, error) { return 0, io.ErrClosedPipe }
func (d *deadWriter) Flush()                    {}

// streamTrailerCuts: a streaming reply over HTTP whose body ends -- cleanly, no transport error -- inside the trailer
// frame, at every byte: the call has not delivered its trailers, so it does not report success
func streamTrailerCuts(o *hx.Out) {
	tr, _ := proto.Marshal(&httpgrpc.HttpTrailer{Code: 0, Message: "OK", Metadata: map[string]*httpgrpc.TrailerValues{
		"alpha": {Values: []string{"1"}}, "beta": {Values: []string{"2"}}, "gamma": {Values: []string{"3"}}}})
	m1, _ := proto.Marshal(&hx.Msg{Count: 1})
	pre := make([]byte, 4)
	var full []byte
	binary.BigEndian.PutUint32(pre, uint32(len(m1)))
	full = append(append(full, pre...), m1...)
	start := len(full)
	binary.BigEndian.PutUint32(pre, uint32(int32(-len(tr))))
	full = append(append(full, pre...), tr...)
	base, _ := url.Parse("http://replay.invalid/")
	for k := start; k <= len(full); k++ {
		h := http.Header{}
		h.Set("Content-Type", httpgrpc.StreamRpcContentType_V1)
		rt := roundTripFunc(func(r *http.Request) (*http.Response, error) {
			go func() {
				if r.Body != nil {
					io.Copy(io.Discard, r.Body)
					r.Body.Close()
				}
			}()
			return &http.Response{StatusCode: 200, Status: "200 OK", Proto: "HTTP/1.1", ProtoMajor: 1, ProtoMinor: 1, Header: h,
				ContentLength: -1, Body: &replayBody{bytes.NewReader(full[:k]), false}, Request: r}, nil
		})
		ch := &httpgrpc.Channel{Transport: rt, BaseURL: base}
		ctx, cancel := context.WithTimeout(context.Background(), 3*time.Second)
		var tlr metadata.MD
		cs, err := ch.NewStream(ctx, hx.StreamDescOf("SS"), "/verif.Svc/SS", grpc.Trailer(&tlr))
		var fin error = err
		if err == nil {
			cs.SendMsg(&hx.Msg{})
			cs.CloseSend()
			for {
				if fin = cs.RecvMsg(&hx.Msg{}); fin != nil {
					break
				}
			}
			tlr = cs.Trailer()
			runtime.KeepAlive(cs)
		}
		cancel()
		complete := k == len(full)
		ok := (complete && fin == io.EOF && len(tlr) == 3) || (!complete && fin != io.EOF && fin != nil)
		d := map[string]interface{}{"transport": "httpgrpc", "kind": "SS reply: one message, then a trailer with three entries", "reply_bytes": len(full), "body_ends_cleanly_after": k, "final": fmt.Sprint(fin), "trailers_delivered": fmt.Sprint(tlr)}
		if !ok {
			o.Violate("a streaming call whose reply ended inside the trailer reported success (with some of the trailers missing)", d, fmt.Sprint(fin, tlr), "an error")
		}
		checked(o, "stream_trailer_cut", k, ok, d)
	}
}
