// go2coq regenerates the table-like and constant parts of the Coq model
// (coq/gen/*.v) from the current Go source of /repo. It understands a small
// fragment of Go: integer/char/string literals, named external constants
// (resolved against the real imported packages, not transcribed), boolean and
// comparison operators, switch statements (tagged and tagless), if chains and
// returns / single assignments of constants. Anything outside the fragment is
// reported and the generated definition is made ill-typed on purpose so that
// every theorem depending on it fails to compile (DESIGN.md section 4.1).
package main

import (
	"crypto/sha256"
	"encoding/json"
	"flag"
	"fmt"
	"go/ast"
	"go/parser"
	"go/printer"
	"go/token"
	"math"
	"net/http"
	"os"
	"path/filepath"
	"regexp"
	"sort"
	"strconv"
	"strings"
	"time"

	"google.golang.org/grpc/codes"
)

var extConsts = map[string]int64{
	"math.MaxInt32": math.MaxInt32, "math.MinInt32": math.MinInt32, "math.MaxInt64": math.MaxInt64, "math.MinInt64": math.MinInt64,
	"time.Hour": int64(time.Hour), "time.Minute": int64(time.Minute), "time.Second": int64(time.Second),
	"time.Millisecond": int64(time.Millisecond), "time.Microsecond": int64(time.Microsecond), "time.Nanosecond": int64(time.Nanosecond),
}

func init() {
	for c := codes.Code(0); c <= 16; c++ {
		extConsts["codes."+c.String()] = int64(c)
	}
	// codes.Canceled's String() is "Canceled"; all 17 names equal their identifiers.
	hs := map[string]int{
		"StatusContinue": http.StatusContinue, "StatusSwitchingProtocols": http.StatusSwitchingProtocols,
		"StatusProcessing": http.StatusProcessing, "StatusEarlyHints": http.StatusEarlyHints,
		"StatusOK": http.StatusOK, "StatusCreated": http.StatusCreated, "StatusAccepted": http.StatusAccepted,
		"StatusNonAuthoritativeInfo": http.StatusNonAuthoritativeInfo, "StatusNoContent": http.StatusNoContent,
		"StatusResetContent": http.StatusResetContent, "StatusPartialContent": http.StatusPartialContent,
		"StatusMultiStatus": http.StatusMultiStatus, "StatusAlreadyReported": http.StatusAlreadyReported,
		"StatusIMUsed": http.StatusIMUsed, "StatusMultipleChoices": http.StatusMultipleChoices,
		"StatusMovedPermanently": http.StatusMovedPermanently, "StatusFound": http.StatusFound,
		"StatusSeeOther": http.StatusSeeOther, "StatusNotModified": http.StatusNotModified,
		"StatusUseProxy": http.StatusUseProxy, "StatusTemporaryRedirect": http.StatusTemporaryRedirect,
		"StatusPermanentRedirect": http.StatusPermanentRedirect, "StatusBadRequest": http.StatusBadRequest,
		"StatusUnauthorized": http.StatusUnauthorized, "StatusPaymentRequired": http.StatusPaymentRequired,
		"StatusForbidden": http.StatusForbidden, "StatusNotFound": http.StatusNotFound,
		"StatusMethodNotAllowed": http.StatusMethodNotAllowed, "StatusNotAcceptable": http.StatusNotAcceptable,
		"StatusProxyAuthRequired": http.StatusProxyAuthRequired, "StatusRequestTimeout": http.StatusRequestTimeout,
		"StatusConflict": http.StatusConflict, "StatusGone": http.StatusGone,
		"StatusLengthRequired": http.StatusLengthRequired, "StatusPreconditionFailed": http.StatusPreconditionFailed,
		"StatusRequestEntityTooLarge": http.StatusRequestEntityTooLarge, "StatusRequestURITooLong": http.StatusRequestURITooLong,
		"StatusUnsupportedMediaType":         http.StatusUnsupportedMediaType,
		"StatusRequestedRangeNotSatisfiable": http.StatusRequestedRangeNotSatisfiable,
		"StatusExpectationFailed":            http.StatusExpectationFailed, "StatusTeapot": http.StatusTeapot,
		"StatusMisdirectedRequest": http.StatusMisdirectedRequest, "StatusUnprocessableEntity": http.StatusUnprocessableEntity,
		"StatusLocked": http.StatusLocked, "StatusFailedDependency": http.StatusFailedDependency,
		"StatusTooEarly": http.StatusTooEarly, "StatusUpgradeRequired": http.StatusUpgradeRequired,
		"StatusPreconditionRequired": http.StatusPreconditionRequired, "StatusTooManyRequests": http.StatusTooManyRequests,
		"StatusRequestHeaderFieldsTooLarge": http.StatusRequestHeaderFieldsTooLarge,
		"StatusUnavailableForLegalReasons":  http.StatusUnavailableForLegalReasons,
		"StatusInternalServerError":         http.StatusInternalServerError, "StatusNotImplemented": http.StatusNotImplemented,
		"StatusBadGateway": http.StatusBadGateway, "StatusServiceUnavailable": http.StatusServiceUnavailable,
		"StatusGatewayTimeout": http.StatusGatewayTimeout, "StatusHTTPVersionNotSupported": http.StatusHTTPVersionNotSupported,
		"StatusVariantAlsoNegotiates": http.StatusVariantAlsoNegotiates, "StatusInsufficientStorage": http.StatusInsufficientStorage,
		"StatusLoopDetected": http.StatusLoopDetected, "StatusNotExtended": http.StatusNotExtended,
		"StatusNetworkAuthenticationRequired": http.StatusNetworkAuthenticationRequired,
	}
	for k, v := range hs {
		extConsts["http."+k] = int64(v)
	}
}

type unsupported struct{ what string }

func fail(format string, a ...interface{}) { panic(unsupported{fmt.Sprintf(format, a...)}) }

type tr struct {
	fset    *token.FileSet
	consts  map[string]string // package-level constants of the file set, already as Coq Z terms
	strs    map[string]string // package-level string constants
	wrapMul bool              // int64 arithmetic: products are wrapped to 64 bits
}

func zlit(v int64) string {
	if v < 0 {
		return fmt.Sprintf("(%d)%%Z", v)
	}
	return fmt.Sprintf("%d%%Z", v)
}

// expr translates an integer- or boolean-valued expression; isBool reports which.
func (t *tr) expr(e ast.Expr) (s string, isBool bool) {
	switch e := e.(type) {
	case *ast.ParenExpr:
		return t.expr(e.X)
	case *ast.BasicLit:
		switch e.Kind {
		case token.INT:
			v, err := strconv.ParseInt(e.Value, 0, 64)
			if err != nil {
				fail("int literal %s", e.Value)
			}
			return zlit(v), false
		case token.CHAR:
			r, _, _, err := strconv.UnquoteChar(e.Value[1:len(e.Value)-1], '\'')
			if err != nil {
				fail("char literal %s", e.Value)
			}
			return zlit(int64(r)), false
		}
		fail("literal kind %v", e.Kind)
	case *ast.Ident:
		if c, ok := t.consts[e.Name]; ok {
			return c, false
		}
		if e.Name == "true" || e.Name == "false" {
			return e.Name, true
		}
		return e.Name, false
	case *ast.SelectorExpr:
		if x, ok := e.X.(*ast.Ident); ok {
			name := x.Name + "." + e.Sel.Name
			if v, ok := extConsts[name]; ok {
				return fmt.Sprintf("(%s (* %s *))", zlit(v), name), false
			}
			fail("unknown external constant %s", name)
		}
		fail("selector")
	case *ast.UnaryExpr:
		a, ab := t.expr(e.X)
		switch e.Op {
		case token.SUB:
			return "(- " + a + ")%Z", false
		case token.NOT:
			if !ab {
				fail("! on non-bool")
			}
			return "(negb " + a + ")", true
		}
		fail("unary %v", e.Op)
	case *ast.CallExpr:
		// conversions such as int64(x), codes.Code(x), time.Duration(x) are the identity on Z here
		if len(e.Args) == 1 {
			switch f := e.Fun.(type) {
			case *ast.Ident:
				switch f.Name {
				case "int64", "int32", "int":
					return t.expr(e.Args[0])
				}
			case *ast.SelectorExpr:
				if x, ok := f.X.(*ast.Ident); ok && x.Name == "time" && f.Sel.Name == "Duration" {
					return t.expr(e.Args[0])
				}
			}
		}
		fail("call expression")
	case *ast.BinaryExpr:
		a, ab := t.expr(e.X)
		b, bb := t.expr(e.Y)
		bin := func(op string) string { return "(" + a + " " + op + " " + b + ")" }
		switch e.Op {
		case token.LAND:
			if !ab || !bb {
				fail("&& on non-bool")
			}
			return bin("&&"), true
		case token.LOR:
			if !ab || !bb {
				fail("|| on non-bool")
			}
			return bin("||"), true
		case token.EQL:
			return bin("=?"), true
		case token.NEQ:
			return "(negb " + bin("=?") + ")", true
		case token.LSS:
			return bin("<?"), true
		case token.LEQ:
			return bin("<=?"), true
		case token.GTR:
			return bin(">?"), true
		case token.GEQ:
			return bin(">=?"), true
		case token.ADD:
			return bin("+"), false
		case token.SUB:
			return bin("-"), false
		case token.MUL:
			if t.wrapMul {
				return "(wrap64 " + bin("*") + ")", false
			}
			return bin("*"), false
		case token.QUO:
			return "(Z.quot " + a + " " + b + ")", false
		}
		fail("binary %v", e.Op)
	}
	fail("expression %T", e)
	return "", false
}

func (t *tr) intExpr(e ast.Expr) string {
	s, b := t.expr(e)
	if b {
		fail("expected integer expression")
	}
	return s
}
func (t *tr) boolExpr(e ast.Expr) string {
	s, b := t.expr(e)
	if !b {
		fail("expected boolean expression")
	}
	return s
}

// value of a "result" statement: `return e` or, when assign != "", `assign = e`.
// errAsTrue: a `return fmt.Errorf(...)`/`return ..., err` is translated as the given constant.
type mode struct {
	assign  string // "" = return statements carry the value
	errTerm string // if non-empty, `return <non-translatable>` becomes this term
}

// stmts translates a statement list into a Coq term; rest is the value when
// control falls off the end.
func (t *tr) stmts(list []ast.Stmt, m mode, rest string) string {
	if len(list) == 0 {
		return rest
	}
	s := list[0]
	tail := func() string { return t.stmts(list[1:], m, rest) }
	switch s := s.(type) {
	case *ast.ReturnStmt:
		if m.assign != "" {
			fail("return in assignment mode")
		}
		if len(s.Results) == 1 {
			if m.errTerm != "" {
				return m.errTerm
			}
			return t.intExpr(s.Results[0])
		}
		if m.errTerm != "" {
			return m.errTerm
		}
		fail("return with %d results", len(s.Results))
	case *ast.AssignStmt:
		if m.assign != "" && len(s.Lhs) == 1 && len(s.Rhs) == 1 {
			if id, ok := s.Lhs[0].(*ast.Ident); ok && id.Name == m.assign && s.Tok == token.ASSIGN {
				if len(list) != 1 {
					fail("assignment to %s is not last in its block", m.assign)
				}
				return t.intExpr(s.Rhs[0])
			}
		}
		fail("assignment outside the fragment")
	case *ast.IfStmt:
		if s.Init != nil {
			fail("if with init")
		}
		c := t.boolExpr(s.Cond)
		var els string
		switch e := s.Else.(type) {
		case nil:
			els = tail()
			return "(if " + c + " then " + t.stmts(s.Body.List, m, els) + " else " + els + ")"
		case *ast.BlockStmt:
			k := tail()
			return "(if " + c + " then " + t.stmts(s.Body.List, m, k) + " else " + t.stmts(e.List, m, k) + ")"
		case *ast.IfStmt:
			k := tail()
			return "(if " + c + " then " + t.stmts(s.Body.List, m, k) + " else " + t.stmts([]ast.Stmt{e}, m, k) + ")"
		}
		fail("else form")
	case *ast.SwitchStmt:
		if s.Init != nil {
			fail("switch with init")
		}
		k := tail()
		var tag string
		if s.Tag != nil {
			tag = t.intExpr(s.Tag)
		}
		var def []ast.Stmt
		hasDef := false
		type cl struct {
			cond string
			body []ast.Stmt
		}
		var cls []cl
		for _, c := range s.Body.List {
			cc := c.(*ast.CaseClause)
			for _, st := range cc.Body {
				if b, ok := st.(*ast.BranchStmt); ok && b.Tok == token.FALLTHROUGH {
					fail("fallthrough")
				}
			}
			if cc.List == nil {
				def, hasDef = cc.Body, true
				continue
			}
			var alts []string
			for _, e := range cc.List {
				if s.Tag != nil {
					alts = append(alts, "("+tag+" =? "+t.intExpr(e)+")")
				} else {
					alts = append(alts, t.boolExpr(e))
				}
			}
			cls = append(cls, cl{"(" + strings.Join(alts, " || ") + ")", cc.Body})
		}
		out := k
		if hasDef {
			out = t.stmts(def, m, k)
		}
		for i := len(cls) - 1; i >= 0; i-- {
			out = "(if " + cls[i].cond + "\n    then " + t.stmts(cls[i].body, m, k) + "\n    else " + out + ")"
		}
		return out
	}
	fail("statement %T", s)
	return ""
}

type gen struct {
	repo   string
	status map[string]string // definition -> "ok" | reason
	hashes map[string]string
}

func (g *gen) parse(rel string) (*token.FileSet, *ast.File) {
	fset := token.NewFileSet()
	f, err := parser.ParseFile(fset, filepath.Join(g.repo, rel), nil, parser.ParseComments)
	if err != nil {
		panic(unsupported{"parse " + rel + ": " + err.Error()})
	}
	return fset, f
}

func findFunc(f *ast.File, name string) *ast.FuncDecl {
	for _, d := range f.Decls {
		if fd, ok := d.(*ast.FuncDecl); ok && fd.Name.Name == name && fd.Body != nil {
			// allow methods too
			return fd
		}
	}
	return nil
}

func (g *gen) hashFunc(key string, fset *token.FileSet, fd *ast.FuncDecl) {
	if fd == nil {
		g.hashes[key] = "missing"
		return
	}
	var sb strings.Builder
	doc := fd.Doc
	fd.Doc = nil
	printer.Fprint(&sb, fset, fd)
	fd.Doc = doc
	g.hashes[key] = fmt.Sprintf("%x", sha256.Sum256([]byte(sb.String())))[:16]
}

// try runs f; on an out-of-fragment construct it records the reason and returns
// a deliberately unbound identifier so the dependent theorems fail to compile.
func (g *gen) try(def string, f func() string) string {
	var out string
	func() {
		defer func() {
			if r := recover(); r != nil {
				if u, ok := r.(unsupported); ok {
					g.status[def] = u.what
					out = "TRANSLATION_FAILED_" + def
					return
				}
				panic(r)
			}
		}()
		out = f()
		g.status[def] = "ok"
	}()
	return out
}

func constInt(t *tr, e ast.Expr) int64 {
	switch e := e.(type) {
	case *ast.ParenExpr:
		return constInt(t, e.X)
	case *ast.BasicLit:
		if e.Kind == token.INT {
			v, err := strconv.ParseInt(e.Value, 0, 64)
			if err == nil {
				return v
			}
		}
	case *ast.BinaryExpr:
		a, b := constInt(t, e.X), constInt(t, e.Y)
		switch e.Op {
		case token.MUL:
			return a * b
		case token.ADD:
			return a + b
		case token.SUB:
			return a - b
		case token.SHL:
			return a << uint(b)
		}
	case *ast.SelectorExpr:
		if x, ok := e.X.(*ast.Ident); ok {
			if v, ok := extConsts[x.Name+"."+e.Sel.Name]; ok {
				return v
			}
		}
	}
	fail("constant expression outside the fragment")
	return 0
}

func pkgConsts(t *tr, files ...*ast.File) {
	for _, f := range files {
		for _, d := range f.Decls {
			gd, ok := d.(*ast.GenDecl)
			if !ok || gd.Tok != token.CONST {
				continue
			}
			for _, sp := range gd.Specs {
				vs := sp.(*ast.ValueSpec)
				for i, n := range vs.Names {
					if i >= len(vs.Values) {
						continue
					}
					func() {
						defer func() { recover() }()
						if bl, ok := vs.Values[i].(*ast.BasicLit); ok && bl.Kind == token.STRING {
							s, _ := strconv.Unquote(bl.Value)
							t.strs[n.Name] = s
							return
						}
						t.consts[n.Name] = zlit(constInt(t, vs.Values[i]))
					}()
				}
			}
		}
	}
}

func coqString(s string) string {
	return "\"" + strings.ReplaceAll(s, "\"", "\"\"") + "\""
}

const header = "(* GENERATED by /verif/harness/cmd/go2coq from %s -- do not edit; regenerated on every run *)\nFrom Coq Require Import ZArith String List Bool.\nFrom Grpchan Require Import lib.Int.\nImport ListNotations.\nOpen Scope Z_scope.\nOpen Scope bool_scope.\n\n"

func writeIfChanged(path, content string) {
	old, err := os.ReadFile(path)
	if err == nil && string(old) == content {
		return
	}
	if err := os.WriteFile(path, []byte(content), 0o644); err != nil {
		panic(err)
	}
}

// ---- individual generators -------------------------------------------------

func (g *gen) codes(out string) {
	var sb strings.Builder
	fmt.Fprintf(&sb, header, "httpgrpc/codes.go, httpgrpc/server.go (DefaultErrorRenderer)")
	fset, f := g.parse("httpgrpc/codes.go")
	t := &tr{fset: fset, consts: map[string]string{}, strs: map[string]string{}}
	for _, fn := range []struct{ goName, coqName, param string }{
		{"httpStatusFromCode", "http_of_code", "code"},
		{"codeFromHttpStatus", "code_of_http", "stat"},
	} {
		fd := findFunc(f, fn.goName)
		g.hashFunc("httpgrpc."+fn.goName, fset, fd)
		body := g.try(fn.coqName, func() string {
			if fd == nil {
				fail("function %s not found", fn.goName)
			}
			if len(fd.Type.Params.List) != 1 || len(fd.Type.Params.List[0].Names) != 1 {
				fail("parameter list of %s", fn.goName)
			}
			p := fd.Type.Params.List[0].Names[0].Name
			term := t.stmts(fd.Body.List, mode{}, "MISSING_RETURN")
			if strings.Contains(term, "MISSING_RETURN") {
				fail("%s can fall off its end", fn.goName)
			}
			return "fun " + p + " : Z =>\n  " + term
		})
		fmt.Fprintf(&sb, "Definition %s : Z -> Z :=\n  %s.\n\n", fn.coqName, body)
	}
	// documentation table and guard of DefaultErrorRenderer
	fset2, f2 := g.parse("httpgrpc/server.go")
	fd := findFunc(f2, "DefaultErrorRenderer")
	g.hashFunc("httpgrpc.DefaultErrorRenderer", fset2, fd)
	table := g.try("doc_table", func() string {
		if fd == nil || fd.Doc == nil {
			fail("DefaultErrorRenderer or its doc comment not found")
		}
		re := regexp.MustCompile(`^\s*([A-Za-z]+):\s*(\*?)\s*([0-9]{3})\s+\S`)
		var rows []string
		for _, line := range strings.Split(fd.Doc.Text(), "\n") {
			m := re.FindStringSubmatch(line)
			if m == nil {
				continue
			}
			v, ok := extConsts["codes."+m[1]]
			if !ok {
				fail("doc table names unknown code %s", m[1])
			}
			star := "false"
			if m[2] == "*" {
				star = "true"
			}
			rows = append(rows, fmt.Sprintf("(%s (* %s *), %s%%Z, %s)", zlit(v), m[1], m[3], star))
		}
		if len(rows) == 0 {
			fail("no table rows in doc comment")
		}
		return "[\n  " + strings.Join(rows, ";\n  ") + "\n]"
	})
	fmt.Fprintf(&sb, "(* rows of the table in the doc comment of DefaultErrorRenderer: (code, http status, starred) *)\nDefinition doc_table : list (Z * Z * bool) := %s.\n\n", table)
	t2 := &tr{fset: fset2, consts: map[string]string{}, strs: map[string]string{}}
	rend := g.try("renderer_status", func() string {
		// shape: if (st.Code() == A || st.Code() == B) && ctx.Err() != nil { http.Error(w, _, N); return }
		//        code := httpStatusFromCode(st.Code()) ... http.Error(w, msg, code)
		if fd == nil {
			fail("DefaultErrorRenderer not found")
		}
		if len(fd.Body.List) < 2 {
			fail("DefaultErrorRenderer body shape")
		}
		ifs, ok := fd.Body.List[0].(*ast.IfStmt)
		if !ok {
			fail("DefaultErrorRenderer does not start with if")
		}
		var cond func(e ast.Expr) string
		cond = func(e ast.Expr) string {
			switch e := e.(type) {
			case *ast.ParenExpr:
				return cond(e.X)
			case *ast.BinaryExpr:
				switch e.Op {
				case token.LAND:
					return "(" + cond(e.X) + " && " + cond(e.Y) + ")"
				case token.LOR:
					return "(" + cond(e.X) + " || " + cond(e.Y) + ")"
				case token.EQL, token.NEQ:
					var sb strings.Builder
					printer.Fprint(&sb, fset2, e.X)
					lhs := sb.String()
					if lhs == "st.Code()" && e.Op == token.EQL {
						return "(code =? " + t2.intExpr(e.Y) + ")"
					}
					if lhs == "ctx.Err()" {
						if id, ok := e.Y.(*ast.Ident); ok && id.Name == "nil" {
							if e.Op == token.NEQ {
								return "ctx_ended"
							}
							return "(negb ctx_ended)"
						}
					}
				}
			}
			fail("renderer guard outside the fragment")
			return ""
		}
		c := cond(ifs.Cond)
		// the status written in the guarded branch
		var guarded string
		for _, st := range ifs.Body.List {
			if es, ok := st.(*ast.ExprStmt); ok {
				if call, ok := es.X.(*ast.CallExpr); ok && len(call.Args) == 3 {
					guarded = t2.intExpr(call.Args[2])
				}
			}
		}
		if guarded == "" {
			fail("renderer guarded branch writes no status")
		}
		// the unguarded tail must end with http.Error(w, msg, code) where code := httpStatusFromCode(st.Code())
		var sbt strings.Builder
		for _, st := range fd.Body.List[1:] {
			printer.Fprint(&sbt, fset2, st)
			sbt.WriteString("\n")
		}
		tail := sbt.String()
		if !strings.Contains(tail, "code := httpStatusFromCode(st.Code())") || !strings.Contains(tail, "http.Error(w, msg, code)") {
			fail("renderer tail no longer `code := httpStatusFromCode(st.Code()) ... http.Error(w, msg, code)`")
		}
		return "fun (code : Z) (ctx_ended : bool) =>\n  if " + c + " then " + guarded + " else http_of_code code"
	})
	fmt.Fprintf(&sb, "(* HTTP status written by DefaultErrorRenderer for a status code and the state of the request context *)\nDefinition renderer_status : Z -> bool -> Z :=\n  %s.\n", rend)
	writeIfChanged(filepath.Join(out, "Codes.v"), sb.String())
}

func findSwitchOn(n ast.Node, tag string) *ast.SwitchStmt {
	var res *ast.SwitchStmt
	ast.Inspect(n, func(x ast.Node) bool {
		if s, ok := x.(*ast.SwitchStmt); ok && res == nil {
			if id, ok := s.Tag.(*ast.Ident); ok && id.Name == tag {
				res = s
				return false
			}
		}
		return true
	})
	return res
}

func (g *gen) units(out string) {
	var sb strings.Builder
	fmt.Fprintf(&sb, header, "httpgrpc/server.go (contextFromHeaders), httpgrpc/client.go (headersFromContext)")
	fset, f := g.parse("httpgrpc/server.go")
	t := &tr{fset: fset, consts: map[string]string{}, strs: map[string]string{}}
	fd := findFunc(f, "contextFromHeaders")
	g.hashFunc("httpgrpc.contextFromHeaders", fset, fd)
	unit := g.try("unit_of", func() string {
		if fd == nil {
			fail("contextFromHeaders not found")
		}
		sw := findSwitchOn(fd, "suffix")
		if sw == nil {
			fail("no `switch suffix` in contextFromHeaders")
		}
		return "fun suffix : Z =>\n  " + t.stmts([]ast.Stmt{sw}, mode{assign: "unit"}, "0%Z")
	})
	fmt.Fprintf(&sb, "(* the unit switch of contextFromHeaders: suffix byte -> nanoseconds (0 = not a unit) *)\nDefinition unit_of : Z -> Z :=\n  %s.\n\n", unit)
	// the duration handed to context.WithTimeout, as a function of the parsed value and the unit;
	// int64 multiplication wraps (wrap64), which is what the property is about
	tw := &tr{fset: fset, consts: map[string]string{}, strs: map[string]string{}, wrapMul: true}
	st := g.try("server_timeout", func() string {
		if fd == nil {
			fail("contextFromHeaders not found")
		}
		var blk *ast.BlockStmt
		ast.Inspect(fd, func(n ast.Node) bool {
			if is, ok := n.(*ast.IfStmt); ok && blk == nil {
				var sbb strings.Builder
				printer.Fprint(&sbb, fset, is.Cond)
				if sbb.String() == "unit != 0" {
					blk = is.Body
				}
			}
			return true
		})
		if blk == nil {
			fail("no `if unit != 0` block in contextFromHeaders")
		}
		term := ""
		lets := []string{}
		for _, stt := range blk.List {
			switch x := stt.(type) {
			case *ast.AssignStmt:
				if len(x.Lhs) == 1 && len(x.Rhs) == 1 && x.Tok == token.DEFINE {
					id, ok := x.Lhs[0].(*ast.Ident)
					if !ok {
						fail("definition in timeout block")
					}
					lets = append(lets, "let "+id.Name+" := "+tw.intExpr(x.Rhs[0])+" in")
					continue
				}
				if len(x.Lhs) == 2 && len(x.Rhs) == 1 {
					call, ok := x.Rhs[0].(*ast.CallExpr)
					if ok && len(call.Args) == 2 {
						var sbb strings.Builder
						printer.Fprint(&sbb, fset, call.Fun)
						if sbb.String() == "context.WithTimeout" {
							term = tw.intExpr(call.Args[1])
							continue
						}
					}
				}
				fail("statement in timeout block outside the fragment")
			case *ast.IfStmt:
				// if c { x = e }  ==>  let x := if c then e else x in
				if x.Else != nil || x.Init != nil || len(x.Body.List) != 1 {
					fail("if shape in timeout block")
				}
				as, ok := x.Body.List[0].(*ast.AssignStmt)
				if !ok || len(as.Lhs) != 1 || len(as.Rhs) != 1 || as.Tok != token.ASSIGN {
					fail("if body in timeout block")
				}
				id, ok := as.Lhs[0].(*ast.Ident)
				if !ok {
					fail("if body target")
				}
				lets = append(lets, "let "+id.Name+" := (if "+tw.boolExpr(x.Cond)+" then "+tw.intExpr(as.Rhs[0])+" else "+id.Name+") in")
			default:
				fail("statement %T in timeout block", stt)
			}
		}
		if term == "" {
			fail("no context.WithTimeout(ctx, <duration>) in the `unit != 0` block")
		}
		return "fun (timeoutVal unit : Z) =>\n  " + strings.Join(lets, "\n  ") + "\n  " + term
	})
	fmt.Fprintf(&sb, "(* contextFromHeaders: the duration given to context.WithTimeout; int64 products wrap *)\nDefinition server_timeout : Z -> Z -> Z :=\n  %s.\n\n", st)

	fsetc, fc := g.parse("httpgrpc/client.go")
	tc := &tr{fset: fsetc, consts: map[string]string{}, strs: map[string]string{}}
	fdc := findFunc(fc, "headersFromContext")
	g.hashFunc("httpgrpc.headersFromContext", fsetc, fdc)
	var div, clamp, suffix string
	div = g.try("client_div", func() string {
		if fdc == nil {
			fail("headersFromContext not found")
		}
		var res string
		ast.Inspect(fdc, func(n ast.Node) bool {
			if as, ok := n.(*ast.AssignStmt); ok && len(as.Lhs) == 1 && len(as.Rhs) == 1 {
				if id, ok := as.Lhs[0].(*ast.Ident); ok && id.Name == "millis" && as.Tok == token.DEFINE {
					res = "fun timeout : Z => " + tc.intExpr(as.Rhs[0])
				}
			}
			return true
		})
		if res == "" {
			fail("no `millis := ...` in headersFromContext")
		}
		return res
	})
	clamp = g.try("client_clamp", func() string {
		if fdc == nil {
			fail("headersFromContext not found")
		}
		var res string
		ast.Inspect(fdc, func(n ast.Node) bool {
			if is, ok := n.(*ast.IfStmt); ok && res == "" {
				var sbb strings.Builder
				printer.Fprint(&sbb, fsetc, is.Cond)
				if strings.HasPrefix(sbb.String(), "millis") {
					res = "fun millis : Z => " + tc.stmts([]ast.Stmt{is}, mode{assign: "millis"}, "millis")
				}
			}
			return true
		})
		if res == "" {
			fail("no clamp `if millis ...` in headersFromContext")
		}
		return res
	})
	suffix = g.try("client_suffix", func() string {
		if fdc == nil {
			fail("headersFromContext not found")
		}
		var res string
		ast.Inspect(fdc, func(n ast.Node) bool {
			if call, ok := n.(*ast.CallExpr); ok {
				var sbb strings.Builder
				printer.Fprint(&sbb, fsetc, call.Fun)
				if sbb.String() == "fmt.Sprintf" && len(call.Args) == 2 {
					if bl, ok := call.Args[0].(*ast.BasicLit); ok {
						f, _ := strconv.Unquote(bl.Value)
						if strings.HasPrefix(f, "%d") && len(f) == 3 {
							if id, ok := call.Args[1].(*ast.Ident); ok && id.Name == "millis" {
								res = zlit(int64(f[2]))
							}
						}
					}
				}
			}
			return true
		})
		if res == "" {
			fail("no fmt.Sprintf(\"%%d<unit>\", millis) in headersFromContext")
		}
		return res
	})
	fmt.Fprintf(&sb, "(* headersFromContext: millis := int64(timeout / time.Millisecond) with Go's truncating division *)\nDefinition client_div : Z -> Z := %s.\n", div)
	fmt.Fprintf(&sb, "(* the clamp applied to millis *)\nDefinition client_clamp : Z -> Z := %s.\n", clamp)
	fmt.Fprintf(&sb, "(* the unit byte appended by the format string *)\nDefinition client_suffix : Z := %s.\n", suffix)
	writeIfChanged(filepath.Join(out, "Units.v"), sb.String())
}

func (g *gen) wire(out string) {
	var sb strings.Builder
	fmt.Fprintf(&sb, header, "httpgrpc/io.go, httpgrpc/client.go (doHttpCall), httpgrpc/protocol_versions.go")
	fset, f := g.parse("httpgrpc/io.go")
	t := &tr{fset: fset, consts: map[string]string{}, strs: map[string]string{}}
	pkgConsts(t, f)
	fsetp, fp := g.parse("httpgrpc/protocol_versions.go")
	pkgConsts(t, fp)
	_ = fsetp
	mx := g.try("max_size", func() string {
		c, ok := t.consts["maxMessageSize"]
		if !ok {
			fail("constant maxMessageSize not found")
		}
		return c
	})
	fmt.Fprintf(&sb, "Definition max_size : Z := %s.\n\n", mx)
	fd := findFunc(f, "readProtoMessage")
	g.hashFunc("httpgrpc.readProtoMessage", fset, fd)
	guard := g.try("size_rejected", func() string {
		if fd == nil {
			fail("readProtoMessage not found")
		}
		// statements before `msg := make([]byte, sz)` must be if-chains that return an error
		var pre []ast.Stmt
		found := false
		for _, st := range fd.Body.List {
			if as, ok := st.(*ast.AssignStmt); ok {
				var sbb strings.Builder
				printer.Fprint(&sbb, fset, as)
				if strings.Contains(sbb.String(), "make([]byte, sz)") {
					found = true
					break
				}
			}
			pre = append(pre, st)
		}
		if !found {
			fail("readProtoMessage no longer allocates with make([]byte, sz)")
		}
		return "fun sz : Z => " + t.stmts(pre, mode{errTerm: "true"}, "false")
	})
	fmt.Fprintf(&sb, "(* readProtoMessage: true iff the size is rejected before the buffer is allocated *)\nDefinition size_rejected : Z -> bool := %s.\n\n", guard)
	// reserved headers
	res := g.try("reserved", func() string {
		var keys []string
		for _, d := range f.Decls {
			gd, ok := d.(*ast.GenDecl)
			if !ok || gd.Tok != token.VAR {
				continue
			}
			for _, sp := range gd.Specs {
				vs := sp.(*ast.ValueSpec)
				if len(vs.Names) == 1 && vs.Names[0].Name == "reservedHeaders" && len(vs.Values) == 1 {
					cl, ok := vs.Values[0].(*ast.CompositeLit)
					if !ok {
						fail("reservedHeaders is not a composite literal")
					}
					for _, e := range cl.Elts {
						kv := e.(*ast.KeyValueExpr)
						bl, ok := kv.Key.(*ast.BasicLit)
						if !ok {
							fail("reservedHeaders key")
						}
						s, _ := strconv.Unquote(bl.Value)
						keys = append(keys, coqString(s))
					}
				}
			}
		}
		if keys == nil {
			fail("reservedHeaders not found")
		}
		sort.Strings(keys)
		return "[" + strings.Join(keys, "; ") + "]%string"
	})
	fmt.Fprintf(&sb, "Definition reserved : list string := %s.\n\n", res)
	// client loop: is there a bound test between readSizePreface and make([]byte, sz)?
	fsetc, fc := g.parse("httpgrpc/client.go")
	tc := &tr{fset: fsetc, consts: t.consts, strs: t.strs}
	var dh *ast.FuncDecl
	for _, d := range fc.Decls {
		if fd, ok := d.(*ast.FuncDecl); ok && fd.Name.Name == "doHttpCall" {
			dh = fd
		}
	}
	g.hashFunc("httpgrpc.doHttpCall", fsetc, dh)
	cg := g.try("client_size_rejected", func() string {
		if dh == nil {
			fail("doHttpCall not found")
		}
		var loop *ast.ForStmt
		for _, st := range dh.Body.List {
			if fs, ok := st.(*ast.ForStmt); ok {
				loop = fs
			}
		}
		if loop == nil {
			fail("doHttpCall has no read loop")
		}
		state := 0 // 0 before readSizePreface, 1 between, 2 after make
		terms := []string{}
		for _, st := range loop.Body.List {
			var sbb strings.Builder
			printer.Fprint(&sbb, fsetc, st)
			src := sbb.String()
			switch {
			case state == 0 && strings.Contains(src, "readSizePreface("):
				state = 1
			case state == 1 && strings.Contains(src, "make([]byte, sz)"):
				state = 2
			case state == 1:
				is, ok := st.(*ast.IfStmt)
				if !ok {
					continue
				}
				var cb strings.Builder
				printer.Fprint(&cb, fsetc, is.Cond)
				c := cb.String()
				if c == "rErr != nil" || c == "sz < 0" {
					continue // the error return and the trailer branch
				}
				// any other test on sz that leaves the loop is a size guard
				endsInReturn := false
				if n := len(is.Body.List); n > 0 {
					_, endsInReturn = is.Body.List[n-1].(*ast.ReturnStmt)
				}
				if strings.Contains(c, "sz") && endsInReturn {
					terms = append(terms, tc.boolExpr(is.Cond))
				}
			}
		}
		if state != 2 {
			fail("doHttpCall loop no longer reads a size preface and then allocates make([]byte, sz)")
		}
		if len(terms) == 0 {
			return "fun sz : Z => false"
		}
		return "fun sz : Z => " + strings.Join(terms, " || ")
	})
	fmt.Fprintf(&sb, "(* doHttpCall: true iff a non-negative size is rejected before make([]byte, sz) *)\nDefinition client_size_rejected : Z -> bool := %s.\n\n", cg)
	for _, c := range []struct{ goName, coqName string }{
		{"UnaryRpcContentType_V1", "unary_ctype"}, {"StreamRpcContentType_V1", "stream_ctype"}, {"ApplicationJson", "json_ctype"},
	} {
		v := g.try(c.coqName, func() string {
			s, ok := t.strs[c.goName]
			if !ok {
				fail("constant %s not found", c.goName)
			}
			return coqString(s) + "%string"
		})
		fmt.Fprintf(&sb, "Definition %s : string := %s.\n", c.coqName, v)
	}
	writeIfChanged(filepath.Join(out, "Wire.v"), sb.String())
}

// chanCaps finds `name := make(chan T, N)` / `make(chan T)` in a function.
func chanCap(fset *token.FileSet, fd *ast.FuncDecl, varName string) (int64, bool) {
	var capv int64 = -1
	ast.Inspect(fd, func(n ast.Node) bool {
		check := func(lhs ast.Expr, rhs ast.Expr) {
			var sbb strings.Builder
			printer.Fprint(&sbb, fset, lhs)
			if sbb.String() != varName {
				return
			}
			call, ok := rhs.(*ast.CallExpr)
			if !ok {
				return
			}
			if id, ok := call.Fun.(*ast.Ident); !ok || id.Name != "make" {
				return
			}
			if _, ok := call.Args[0].(*ast.ChanType); !ok {
				return
			}
			if len(call.Args) == 1 {
				capv = 0
				return
			}
			if bl, ok := call.Args[1].(*ast.BasicLit); ok && bl.Kind == token.INT {
				capv, _ = strconv.ParseInt(bl.Value, 0, 64)
			} else {
				capv = -2
			}
		}
		switch n := n.(type) {
		case *ast.AssignStmt:
			if len(n.Lhs) == 1 && len(n.Rhs) == 1 {
				check(n.Lhs[0], n.Rhs[0])
			}
		case *ast.KeyValueExpr:
			check(n.Key, n.Value)
		}
		return true
	})
	return capv, capv >= 0
}

func (g *gen) inproc(out string) {
	var sb strings.Builder
	fmt.Fprintf(&sb, header, "inprocgrpc/in_process.go, httpgrpc/client.go (newClientStream)")
	fset, f := g.parse("inprocgrpc/in_process.go")
	var ns, inv *ast.FuncDecl
	for _, d := range f.Decls {
		if fd, ok := d.(*ast.FuncDecl); ok {
			switch fd.Name.Name {
			case "NewStream":
				ns = fd
			case "Invoke":
				inv = fd
			}
		}
	}
	g.hashFunc("inprocgrpc.NewStream", fset, ns)
	g.hashFunc("inprocgrpc.Invoke", fset, inv)
	for _, fn := range []string{"readMessage", "writeMessage"} {
		g.hashFunc("inprocgrpc."+fn, fset, findFunc(f, fn))
	}
	for _, d := range f.Decls {
		if fd, ok := d.(*ast.FuncDecl); ok && fd.Recv != nil {
			var sbb strings.Builder
			printer.Fprint(&sbb, fset, fd.Recv.List[0].Type)
			r := strings.TrimPrefix(sbb.String(), "*")
			if r == "inProcessClientStream" || r == "inProcessServerStream" {
				g.hashFunc("inprocgrpc."+r+"."+fd.Name.Name, fset, fd)
			}
		}
	}
	for _, c := range []struct {
		fd        *ast.FuncDecl
		v, coq, w string
	}{
		{ns, "requests", "req_cap", "NewStream: requests"},
		{ns, "responses", "resp_cap", "NewStream: responses"},
		{inv, "ch", "unary_cap", "Invoke: ch"},
	} {
		v := g.try(c.coq, func() string {
			if c.fd == nil {
				fail("function for %s not found", c.w)
			}
			n, ok := chanCap(fset, c.fd, c.v)
			if !ok {
				fail("%s is no longer `make(chan frame, <int literal>)`", c.w)
			}
			return zlit(n)
		})
		fmt.Fprintf(&sb, "(* %s *)\nDefinition %s : Z := %s.\n", c.w, c.coq, v)
	}
	fsetc, fc := g.parse("httpgrpc/client.go")
	ncs := findFunc(fc, "newClientStream")
	g.hashFunc("httpgrpc.newClientStream", fsetc, ncs)
	for _, d := range fc.Decls {
		if fd, ok := d.(*ast.FuncDecl); ok && fd.Recv != nil {
			g.hashFunc("httpgrpc.client."+fd.Name.Name, fsetc, fd)
		}
	}
	v := g.try("rch_cap", func() string {
		if ncs == nil {
			fail("newClientStream not found")
		}
		n, ok := chanCap(fsetc, ncs, "rCh")
		if !ok {
			fail("rCh is no longer make(chan []byte[, <int literal>])")
		}
		return zlit(n)
	})
	fmt.Fprintf(&sb, "(* httpgrpc newClientStream: rCh *)\nDefinition rch_cap : Z := %s.\n", v)
	writeIfChanged(filepath.Join(out, "Inproc.v"), sb.String())
}

func main() {
	repo := flag.String("repo", "/repo", "path of the grpchan tree")
	out := flag.String("out", "", "output directory (coq/gen)")
	flag.Parse()
	if *out == "" {
		fmt.Fprintln(os.Stderr, "usage: go2coq -repo /repo -out coq/gen")
		os.Exit(2)
	}
	g := &gen{repo: *repo, status: map[string]string{}, hashes: map[string]string{}}
	for _, step := range []func(string){g.codes, g.units, g.wire, g.inproc} {
		func() {
			defer func() {
				if r := recover(); r != nil {
					if u, ok := r.(unsupported); ok {
						g.status["file"] = u.what
						return
					}
					panic(r)
				}
			}()
			step(*out)
		}()
	}
	st, _ := json.MarshalIndent(map[string]interface{}{"definitions": g.status, "fingerprints": g.hashes}, "", " ")
	writeIfChanged(filepath.Join(*out, "status.json"), string(st)+"\n")
	bad := 0
	for k, v := range g.status {
		if v != "ok" {
			fmt.Printf("go2coq: %s: %s\n", k, v)
			bad++
		}
	}
	fmt.Printf("go2coq: %d definitions, %d outside the fragment\n", len(g.status), bad)
}
