(* C07: the length-prefixed framing of httpgrpc (io.go), the client's read loop
   (client.go doHttpCall) and the server's RecvMsg (server.go), over byte lists.
   A body is a byte list plus how it ends: Clean (Read returns io.EOF) or Abrupt
   (Read returns another error).  Allocation requests are logged. *)
From Coq Require Import ZArith List Bool Lia.
From Grpchan Require Import lib.Int.
Import ListNotations.
Open Scope Z_scope.

Definition bytes := list Z.
Definition blen (b : bytes) : Z := Z.of_nat (length b).

(* binary.Write(w, BigEndian, int32) / binary.Read *)
Definition be32 (z : Z) : bytes :=
  let u := z mod 2 ^ 32 in
  [u / 2 ^ 24; (u / 2 ^ 16) mod 256; (u / 2 ^ 8) mod 256; u mod 256].

Definition of_be32 (b : bytes) : Z :=
  match b with
  | [b0; b1; b2; b3] => wrap32 (b0 * 2 ^ 24 + b1 * 2 ^ 16 + b2 * 2 ^ 8 + b3)
  | _ => 0
  end.

Inductive ending := Clean | Abrupt.
Inductive rerr := EEOF | EUnexpected | EOther.

(* io.ReadFull / io.ReadAtLeast(r, buf[:n], n) for n >= 0.  Lengths are compared
   in Z before any conversion to nat, so a hostile size never builds a big nat. *)
Definition read_full (n : Z) (bs : bytes) (e : ending) : (bytes * bytes) + rerr :=
  if n =? 0 then inl ([], bs)
  else if n <=? blen bs then inl (firstn (Z.to_nat n) bs, skipn (Z.to_nat n) bs)
  else inr (match e with
            | Abrupt => EOther
            | Clean => if blen bs =? 0 then EEOF else EUnexpected
            end).

Definition eof_to_unexpected (e : rerr) : rerr :=
  match e with EEOF => EUnexpected | _ => e end.

Definition enc_frame (m : bytes) : bytes := be32 (blen m) ++ m.
Definition enc_msgs (ms : list bytes) : bytes := flat_map enc_frame ms.
Definition enc_trailer (t : bytes) : bytes := be32 (- blen t) ++ t.
Definition enc_stream (ms : list bytes) (t : bytes) : bytes := enc_msgs ms ++ enc_trailer t.

Section Decoders.
  (* the two size guards, as generated from the source (gen/Wire.v) *)
  Context (srv_rejects : Z -> bool) (cli_rejects : Z -> bool).

  Inductive cfin :=
  | CErr (e : rerr)        (* the read error kept in rErr *)
  | CBadSize               (* a size preface was refused *)
  | CTrailer (t : bytes)   (* the trailer's bytes, handed to the protobuf codec *)
  | CFuel.

  Record cres := { c_msgs : list bytes; c_fin : cfin; c_allocs : list Z }.

  (* doHttpCall's loop *)
  Fixpoint client_dec (fuel : nat) (bs : bytes) (e : ending) : cres :=
    match fuel with
    | O => {| c_msgs := []; c_fin := CFuel; c_allocs := [] |}
    | S f =>
        match read_full 4 bs e with
        | inr err => {| c_msgs := []; c_fin := CErr (eof_to_unexpected err); c_allocs := [] |}
        | inl (hd, rest) =>
            let sz := of_be32 hd in
            if sz <? 0 then
              let n := wrap32 (- sz) in   (* int32(-sz): MinInt32 stays MinInt32 *)
              if srv_rejects n then {| c_msgs := []; c_fin := CBadSize; c_allocs := [] |}
              else match read_full n rest e with
                   | inr err => {| c_msgs := []; c_fin := CErr (eof_to_unexpected err); c_allocs := [n] |}
                   | inl (t, _) => {| c_msgs := []; c_fin := CTrailer t; c_allocs := [n] |}
                   end
            else if cli_rejects sz then {| c_msgs := []; c_fin := CBadSize; c_allocs := [] |}
            else match read_full sz rest e with
                 | inr err => {| c_msgs := []; c_fin := CErr (eof_to_unexpected err); c_allocs := [sz] |}
                 | inl (m, rest') =>
                     let r := client_dec f rest' e in
                     {| c_msgs := m :: c_msgs r; c_fin := c_fin r; c_allocs := sz :: c_allocs r |}
                 end
        end
    end.

  Definition client_decode (bs : bytes) (e : ending) : cres := client_dec (S (length bs)) bs e.

  Inductive sfin :=
  | SErr (e : rerr)     (* io.EOF at a clean frame boundary is the normal end *)
  | SBadSize
  | STooMany            (* InvalidArgument: single-request method got more *)
  | SFuel.

  Record sres := { s_msgs : list bytes; s_fin : sfin; s_allocs : list Z }.

  (* serverStream.RecvMsg on a client-streaming method, called until it fails *)
  Fixpoint server_dec (fuel : nat) (bs : bytes) (e : ending) : sres :=
    match fuel with
    | O => {| s_msgs := []; s_fin := SFuel; s_allocs := [] |}
    | S f =>
        match read_full 4 bs e with
        | inr err => {| s_msgs := []; s_fin := SErr err; s_allocs := [] |}
        | inl (hd, rest) =>
            let sz := of_be32 hd in
            if srv_rejects sz then {| s_msgs := []; s_fin := SBadSize; s_allocs := [] |}
            else match read_full sz rest e with
                 | inr err => {| s_msgs := []; s_fin := SErr (eof_to_unexpected err); s_allocs := [sz] |}
                 | inl (m, rest') =>
                     let r := server_dec f rest' e in
                     {| s_msgs := m :: s_msgs r; s_fin := s_fin r; s_allocs := sz :: s_allocs r |}
                 end
        end
    end.

  Definition server_decode (bs : bytes) (e : ending) : sres := server_dec (S (length bs)) bs e.

  (* the same on a method that takes a single request: the first RecvMsg reads
     one message and then probes for the end of the body; later calls give io.EOF *)
  Definition server_decode_single (bs : bytes) (e : ending) : sres :=
    match read_full 4 bs e with
    | inr err => {| s_msgs := []; s_fin := SErr err; s_allocs := [] |}
    | inl (hd, rest) =>
        let sz := of_be32 hd in
        if srv_rejects sz then {| s_msgs := []; s_fin := SBadSize; s_allocs := [] |}
        else match read_full sz rest e with
             | inr err => {| s_msgs := []; s_fin := SErr (eof_to_unexpected err); s_allocs := [sz] |}
             | inl (m, rest') =>
                 match read_full 4 rest' e with
                 | inr EEOF => {| s_msgs := [m]; s_fin := SErr EEOF; s_allocs := [sz] |}
                 | _ => {| s_msgs := []; s_fin := STooMany; s_allocs := [sz] |}
                 end
             end
    end.
End Decoders.

Fixpoint is_prefix (a b : bytes) : bool :=
  match a, b with
  | [], _ => true
  | x :: a', y :: b' => (x =? y) && is_prefix a' b'
  | _ :: _, [] => false
  end.
