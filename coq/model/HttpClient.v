(* The receive side of an HTTP client stream as an executable labelled transition system, derived from
   httpgrpc/client.go (clientStream.RecvMsg, readErrorIfDone, doHttpCall and its completion block) after
   the repairs recorded in known_findings.json.
   The reply body is abstracted to the frames the byte-level model (model/Framing.v) parses out of it:
   data frames, a trailer frame with its status code, or a frame that cannot be read.  The transport
   (environment) makes them readable one at a time, may end the body, and fails reads once the call's
   context has ended.  Actors: R, the reader goroutine doHttpCall after a successful round trip with
   status 200; CR, the caller's receiver. *)
From Coq Require Import ZArith List Bool.
Import ListNotations.
Open Scope Z_scope.

Inductive ev := EData (x : Z) | ETrailer (code : Z) | EBad | EBadTrailer.   (* EBad: an unreadable data frame; EBadTrailer: a trailer frame that does not decode *)
Inductive ending := EndClean | EndAbrupt.

(* errors: a gRPC status code c >= 0; -1 io.ErrUnexpectedEOF; -2 some other non-status error *)
Inductive res := RMsg (x : Z) | REOF | RStatus (c : Z) | RRaw (e : Z).

(* RDrain: the loop is over; the deferred ioutil.ReadAll(reply.Body) reads what is left of the body before the
   completion block runs.  locked: the trailer path holds cs.rMu from the trailer read to the completion block;
   e: the loop's local error, published by the completion block *)
Inductive rphase := RRead | RHold (x : Z) | RDrain (locked : bool) (e : option Z) | RExit.
(* PGot2: a single-response receive has taken a second message off the channel and goes for cs.rMu *)
Inductive pend := PStart | PWait | PWait2 (x : Z) | PGot2.

Record st := {
  body : list ev;            (* frames the reader has not read yet *)
  bend : ending;             (* how the body ends after them *)
  avail : nat;               (* how many of them the transport has made readable *)
  ended : bool;              (* the transport has delivered the end of the body *)
  rph : rphase;
  cctx : Z;                  (* the caller's context: 0 live, 1 cancelled, 2 deadline exceeded *)
  libCancel : bool;          (* cs.cancel() called by the library (second response on a single-response method) *)
  done : bool; rErr : option Z; tr : option Z;
  chClosed : bool;
  respStream : bool;
  pCR : option pend;
  panicked : bool            (* one of the "shouldn't be possible" panics of RecvMsg *)
}.

Definition init (resp_stream : bool) (b : list ev) (e : ending) : st :=
  {| body := b; bend := e; avail := 0; ended := false; rph := RRead; cctx := 0; libCancel := false;
     done := false; rErr := None; tr := None; chClosed := false; respStream := resp_stream; pCR := None; panicked := false |}.

(* cs.ctx is derived from the caller's context and also ends when the library cancels it *)
Definition sctx (s : st) : Z := if negb (cctx s =? 0) then cctx s else if libCancel s then 1 else 0.
Definition ctx_status (k : Z) : Z := if k =? 2 then 4 else 1.

(* readErrorIfDone *)
Definition final (s : st) : res :=
  match rErr s with
  | Some e => if 0 <=? e then RStatus e else RRaw e
  | None => match tr s with Some 0 => REOF | Some c => RStatus c | None => REOF end
  end.

Definition upd (s : st) (b : list ev) (av : nat) (ph : rphase) (lc dn : bool) (re tr' : option Z) (cl : bool)
               (p : option pend) (pn : bool) : st :=
  {| body := b; bend := bend s; avail := av; ended := ended s; rph := ph; cctx := cctx s; libCancel := lc;
     done := dn; rErr := re; tr := tr'; chClosed := cl; respStream := respStream s; pCR := p; panicked := pn |}.

(* the completion block of doHttpCall: publish the error (translated when the context has ended and it is
   not a status), mark done, close the channel *)
Definition finish (s : st) (e : option Z) (t : option Z) : st :=
  let re := match rErr s with Some x => Some x | None => e end in
  let re := match re with
            | Some x => if (x <? 0) && negb (sctx s =? 0) then Some (ctx_status (sctx s)) else Some x
            | None => None
            end in
  upd s (body s) (avail s) RExit (libCancel s) true re (match t with Some c => Some c | None => tr s end) true (pCR s) (panicked s).

Inductive actor := R | CR.
Definition outcome := (st * option res)%type.

Definition set_ph (s : st) (b : list ev) (n : nat) (ph : rphase) : st :=
  upd s b n ph (libCancel s) (done s) (rErr s) (tr s) (chClosed s) (pCR s) (panicked s).

Definition reader_steps (s : st) : list outcome :=
  match rph s with
  | RExit => []
  | RRead =>
      (* a frame the transport has made readable *)
      (match body s, avail s with
       | e :: rest, S n =>
           match e with
           | EData x => [(set_ph s rest n (RHold x), None)]
           (* the trailer is decoded straight into cs.tr, under cs.rMu, and the result of that read is ASSIGNED to cs.rErr *)
           | ETrailer c => [(upd s rest n (RDrain true None) (libCancel s) (done s) None (Some c) (chClosed s) (pCR s) (panicked s), None)]
           | EBadTrailer => [(upd s rest n (RDrain true None) (libCancel s) (done s) (Some (-2)) (tr s) (chClosed s) (pCR s) (panicked s), None)]
           | EBad => [(set_ph s rest n (RDrain false (Some (-2))), None)]
           end
       | [], _ => if ended s
                  then [(set_ph s [] (avail s) (RDrain false (Some (match bend s with EndClean => -1 | EndAbrupt => -2 end))), None)]
                  else []
       | _, O => []
       end) ++
      (* the transport fails the read once the call's context has ended *)
      (if negb (sctx s =? 0) then [(set_ph s (body s) (avail s) (RDrain false (Some (-2))), None)] else [])
  | RHold x =>
      (* select: hand the message to a waiting receiver (done in the receiver's step), or give up *)
      if negb (sctx s =? 0) then [(set_ph s (body s) (avail s) (RDrain false (Some (ctx_status (sctx s)))), None)] else []
  | RDrain lk e =>
      (match body s, avail s with
       | _ :: rest, S n => [(set_ph s rest n (RDrain lk e), None)]          (* read and thrown away *)
       | [], _ => if ended s then [(finish s e None, None)] else []
       | _, O => []
       end) ++
      (if negb (sctx s =? 0) then [(finish s e None, None)] else [])
  end.

(* readErrorIfDone takes cs.rMu for reading: it waits while the reader holds it *)
Definition lock_held (s : st) : bool := match rph s with RDrain true _ => true | _ => false end.

Definition ret (s : st) (r : res) : outcome :=
  (upd s (body s) (avail s) (rph s) (libCancel s) (done s) (rErr s) (tr s) (chClosed s) None (panicked s), Some r).

Definition receiver_steps (s : st) (p : pend) : list outcome :=
  match p with
  | PStart =>
      if lock_held s then []
      else if done s then [ret s (final s)]
      else [(upd s (body s) (avail s) (rph s) (libCancel s) (done s) (rErr s) (tr s) (chClosed s) (Some PWait) (panicked s), None)]
  | PWait =>
      (if negb (sctx s =? 0) then [ret s (RStatus (ctx_status (sctx s)))] else []) ++
      (match rph s with
       | RHold x =>
           let s1 := upd s (body s) (avail s) RRead (libCancel s) (done s) (rErr s) (tr s) (chClosed s) (pCR s) (panicked s) in
           if respStream s then [ret s1 (RMsg x)]
           else [(upd s1 (body s1) (avail s1) (rph s1) (libCancel s1) (done s1) (rErr s1) (tr s1) (chClosed s1) (Some (PWait2 x)) (panicked s1), None)]
       | _ => []
       end) ++
      (if chClosed s
       then [if done s then ret s (final s)
             else ret (upd s (body s) (avail s) (rph s) (libCancel s) (done s) (rErr s) (tr s) (chClosed s) (pCR s) true) (RRaw (-9))]
       else [])
  | PWait2 x =>
      (if negb (sctx s =? 0) then [ret s (RStatus (ctx_status (sctx s)))] else []) ++
      (match rph s with
       | RHold _ =>
           (* a second response: taken off the channel (the reader goes on); the verdict needs cs.rMu *)
           [(upd s (body s) (avail s) RRead (libCancel s) (done s) (rErr s) (tr s) (chClosed s) (Some PGot2) (panicked s), None)]
       | _ => []
       end) ++
      (if chClosed s
       then [if done s
             then match final s with REOF => ret s (RMsg x) | r => ret s r end   (* a failure after the message takes precedence *)
             else ret (upd s (body s) (avail s) (rph s) (libCancel s) (done s) (rErr s) (tr s) (chClosed s) (pCR s) true) (RRaw (-9))]
       else [])
  | PGot2 =>
      (* Internal "server sent >1"; the library cancels the call so that the reader does not hang *)
      if lock_held s then []
      else
        let re := match rErr s with Some e => Some e | None => Some 13 end in
        let fresh := match rErr s with Some _ => false | None => true end in
        let s1 := upd s (body s) (avail s) (rph s) (libCancel s || fresh) (done s || fresh) re (tr s) (chClosed s) (pCR s) (panicked s) in
        [ret s1 (match re with Some e => if 0 <=? e then RStatus e else RRaw e | None => REOF end)]
  end.

Definition internal (s : st) : list (actor * outcome) :=
  map (fun o => (R, o)) (reader_steps s) ++
  match pCR s with Some p => map (fun o => (CR, o)) (receiver_steps s p) | None => [] end.

(* what the harness does between settle points *)
Inductive start := Recv | Deliver | EndBody | Cancel | Deadline.

Definition apply_start (s : st) (x : start) : option st :=
  match x with
  | Recv => match pCR s with None => Some (upd s (body s) (avail s) (rph s) (libCancel s) (done s) (rErr s) (tr s) (chClosed s) (Some PStart) (panicked s)) | Some _ => None end
  | Deliver => if Nat.ltb (avail s) (length (body s)) then Some (upd s (body s) (S (avail s)) (rph s) (libCancel s) (done s) (rErr s) (tr s) (chClosed s) (pCR s) (panicked s)) else None
  | EndBody => if ended s then None
               (* the body ends after what has been delivered: frames not delivered never arrive *)
               else Some {| body := firstn (avail s) (body s); bend := bend s; avail := avail s; ended := true; rph := rph s; cctx := cctx s; libCancel := libCancel s;
                            done := done s; rErr := rErr s; tr := tr s; chClosed := chClosed s; respStream := respStream s; pCR := pCR s; panicked := panicked s |}
  | Cancel => Some (if cctx s =? 0 then {| body := body s; bend := bend s; avail := avail s; ended := ended s; rph := rph s; cctx := 1; libCancel := libCancel s;
                            done := done s; rErr := rErr s; tr := tr s; chClosed := chClosed s; respStream := respStream s; pCR := pCR s; panicked := panicked s |} else s)
  | Deadline => Some (if cctx s =? 0 then {| body := body s; bend := bend s; avail := avail s; ended := ended s; rph := rph s; cctx := 2; libCancel := libCancel s;
                            done := done s; rErr := rErr s; tr := tr s; chClosed := chClosed s; respStream := respStream s; pCR := pCR s; panicked := panicked s |} else s)
  end.

Definition rets := list (actor * res).

Fixpoint explore (fuel : nat) (s : st) (acc : rets) : list (option (st * rets)) :=
  match fuel with
  | O => [None]
  | S f =>
      match internal s with
      | [] => [Some (s, acc)]
      | steps => flat_map (fun '(a, (s', r)) => explore f s' (match r with Some x => acc ++ [(a, x)] | None => acc end)) steps
      end
  end.
