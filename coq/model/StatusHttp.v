(* C14 (and part of C02): how a status code crosses the unary HTTP mapping.
   The tables are GENERATED from httpgrpc/codes.go (gen/Codes.v); this file
   holds the hand-written glue of handleMethod and statFromResponse. *)
From Coq Require Import ZArith String List Bool.
From Grpchan Require Import lib.Dec gen.Codes.
Import ListNotations.
Open Scope Z_scope.

(* codes.Code is a uint32; spb.Status.Code is an int32 *)
Definition u32 (z : Z) : Z := z mod 2 ^ 32.
Definition i32 (z : Z) : Z := (z + 2 ^ 31) mod 2 ^ 32 - 2 ^ 31.

(* handleMethod: an error whose status code is OK is rewritten to Internal *)
Definition server_err_code (c : Z) : Z := if c =? 0 then 13 else c.

(* the text before ':' in X-GRPC-Status: "%d" of the int32 view of the code *)
Definition status_header_code (c : Z) : string := fmt_d (i32 (server_err_code c)).

(* statFromResponse: the header's code wins when present and parseable at 32
   bits (then converted back to codes.Code, a uint32); otherwise the code is
   derived from the HTTP status *)
Definition client_code (http_status : Z) (hdr_code : option string) : Z :=
  match hdr_code with
  | Some s =>
      if String.eqb s "" then code_of_http http_status
      else match parse_int s 32 with
           | Some v => u32 v
           | None => code_of_http http_status
           end
  | None => code_of_http http_status
  end.

Definition in_doc_table (c : Z) : bool :=
  existsb (fun r => fst (fst r) =? c) doc_table.

Definition starred (c : Z) : bool :=
  existsb (fun r => (fst (fst r) =? c) && snd r) doc_table.

Definition doc_status (c : Z) : option Z :=
  option_map (fun r => snd (fst r)) (find (fun r => fst (fst r) =? c) doc_table).
