(* The in-process stream as an executable labelled transition system, derived line by line from
   inprocgrpc/in_process.go (NewStream, inProcessServerStream, inProcessClientStream,
   readMessage, writeMessage), after the repairs recorded in known_findings.json.
   Actors: CS (client sender), CC (a second client goroutine calling CloseSend), CR (client
   receiver), H (the handler).  An operation in flight is a pending entry; each internal step
   is one synchronisation (a channel operation or a select branch) and either moves the
   operation to its next phase or completes it with a result.  A select with several ready
   branches yields several successor states. *)
From Coq Require Import ZArith List Bool.
From Grpchan Require Import gen.Inproc.
Import ListNotations.
Open Scope Z_scope.

Definition md := list Z.     (* metadata as a list of pair ids *)

Inductive frame := FHdr (m : md) | FData (x : Z) | FTlr (m : md) | FErr (c : Z).

Inductive actor := CS | CC | CR | H | HR.   (* HR: a second handler goroutine that receives while H sends *)

Inductive op :=
| CSend (x : Z) | CClose | CRecv | CHeader | CTrailer
| HRecv | HSend (x : Z) | HSetHeader (m : md) | HSendHeader (m : md) | HSetTrailer (m : md)
| HReturn (code : Z).    (* 0 = nil; c > 0 = status c; -1 = io.EOF; -2 = the handler's context error *)

Inductive res :=
| RNil | REOF
| RStatus (c : Z)        (* a gRPC status error *)
| RCtx (k : Z)           (* a raw context error: 1 canceled, 2 deadline exceeded *)
| ROther (t : Z)         (* 1 "send closed", 2 "headers already sent" *)
| RMsg (x : Z)           (* RecvMsg delivered message x *)
| RMd (m : md).          (* Header() / Trailer() value *)

(* phases of the multi-step operations *)
Inductive pend :=
| PStart (o : op)
| PSendData (x : Z)                 (* server SendMsg: headers dealt with, data frame to write *)
| PRetHdr (code : Z) | PRetTlr (code : Z) | PRetErr (code : Z) | PRetClose
| PProbe (x : Z).                   (* client RecvMsg on a single-response method: got x, looking for the end *)

Record st := {
  reqQ : list Z; reqClosed : bool;
  respQ : list frame; respClosed : bool;
  cctx : Z;                          (* 0 live, 1 canceled, 2 deadline exceeded *)
  svrDone : bool; svrCancelled : bool;
  sState : Z; sHdr : md; sTlr : md;  (* server stream: 0 headers, 1 messages, 2 closed *)
  cState : Z; cLast : option frame; cHdr : md; cTlr : md;
  sendClosed : bool;
  respStream : bool;                 (* the method returns a stream of responses *)
  pCS : option pend; pCC : option pend; pCR : option pend; pH : option pend; pHR : option pend;
  panicked : bool
}.

Definition init (resp_stream : bool) : st :=
  {| reqQ := []; reqClosed := false; respQ := []; respClosed := false; cctx := 0;
     svrDone := false; svrCancelled := false; sState := 0; sHdr := []; sTlr := [];
     cState := 0; cLast := None; cHdr := []; cTlr := []; sendClosed := false; respStream := resp_stream;
     pCS := None; pCC := None; pCR := None; pH := None; pHR := None; panicked := false |}.

Definition req_capn : nat := Z.to_nat req_cap.
Definition resp_capn : nat := Z.to_nat resp_cap.

Definition sctx (s : st) : Z := if negb (cctx s =? 0) then cctx s else if svrCancelled s then 1 else 0.
Definition remote_done (s : st) : bool := svrDone s || svrCancelled s || negb (cctx s =? 0).
Definition ctx_status (k : Z) : Z := if k =? 2 then 4 else 1.   (* TranslateContextError *)

Definition get_pend (s : st) (a : actor) : option pend :=
  match a with CS => pCS s | CC => pCC s | CR => pCR s | H => pH s | HR => pHR s end.

Definition set_pend (s : st) (a : actor) (p : option pend) : st :=
  match a with
  | CS => {| reqQ := reqQ s; reqClosed := reqClosed s; respQ := respQ s; respClosed := respClosed s; cctx := cctx s; svrDone := svrDone s; svrCancelled := svrCancelled s; sState := sState s; sHdr := sHdr s; sTlr := sTlr s; cState := cState s; cLast := cLast s; cHdr := cHdr s; cTlr := cTlr s; sendClosed := sendClosed s; respStream := respStream s; pCS := p; pCC := pCC s; pCR := pCR s; pH := pH s; pHR := pHR s; panicked := panicked s |}
  | CC => {| reqQ := reqQ s; reqClosed := reqClosed s; respQ := respQ s; respClosed := respClosed s; cctx := cctx s; svrDone := svrDone s; svrCancelled := svrCancelled s; sState := sState s; sHdr := sHdr s; sTlr := sTlr s; cState := cState s; cLast := cLast s; cHdr := cHdr s; cTlr := cTlr s; sendClosed := sendClosed s; respStream := respStream s; pCS := pCS s; pCC := p; pCR := pCR s; pH := pH s; pHR := pHR s; panicked := panicked s |}
  | CR => {| reqQ := reqQ s; reqClosed := reqClosed s; respQ := respQ s; respClosed := respClosed s; cctx := cctx s; svrDone := svrDone s; svrCancelled := svrCancelled s; sState := sState s; sHdr := sHdr s; sTlr := sTlr s; cState := cState s; cLast := cLast s; cHdr := cHdr s; cTlr := cTlr s; sendClosed := sendClosed s; respStream := respStream s; pCS := pCS s; pCC := pCC s; pCR := p; pH := pH s; pHR := pHR s; panicked := panicked s |}
  | H => {| reqQ := reqQ s; reqClosed := reqClosed s; respQ := respQ s; respClosed := respClosed s; cctx := cctx s; svrDone := svrDone s; svrCancelled := svrCancelled s; sState := sState s; sHdr := sHdr s; sTlr := sTlr s; cState := cState s; cLast := cLast s; cHdr := cHdr s; cTlr := cTlr s; sendClosed := sendClosed s; respStream := respStream s; pCS := pCS s; pCC := pCC s; pCR := pCR s; pH := p; pHR := pHR s; panicked := panicked s |}
  | HR => {| reqQ := reqQ s; reqClosed := reqClosed s; respQ := respQ s; respClosed := respClosed s; cctx := cctx s; svrDone := svrDone s; svrCancelled := svrCancelled s; sState := sState s; sHdr := sHdr s; sTlr := sTlr s; cState := cState s; cLast := cLast s; cHdr := cHdr s; cTlr := cTlr s; sendClosed := sendClosed s; respStream := respStream s; pCS := pCS s; pCC := pCC s; pCR := pCR s; pH := pH s; pHR := p; panicked := panicked s |}
  end.

(* field updates, written out once *)
Definition upd_req (s : st) (q : list Z) (cl : bool) (sc : bool) (pn : bool) : st :=
  {| reqQ := q; reqClosed := cl; respQ := respQ s; respClosed := respClosed s; cctx := cctx s; svrDone := svrDone s; svrCancelled := svrCancelled s; sState := sState s; sHdr := sHdr s; sTlr := sTlr s; cState := cState s; cLast := cLast s; cHdr := cHdr s; cTlr := cTlr s; sendClosed := sc; respStream := respStream s; pCS := pCS s; pCC := pCC s; pCR := pCR s; pH := pH s; pHR := pHR s; panicked := pn |}.

Definition upd_srv (s : st) (q : list frame) (cl : bool) (d c : bool) (ss : Z) (h t : md) (pn : bool) : st :=
  {| reqQ := reqQ s; reqClosed := reqClosed s; respQ := q; respClosed := cl; cctx := cctx s; svrDone := d; svrCancelled := c; sState := ss; sHdr := h; sTlr := t; cState := cState s; cLast := cLast s; cHdr := cHdr s; cTlr := cTlr s; sendClosed := sendClosed s; respStream := respStream s; pCS := pCS s; pCC := pCC s; pCR := pCR s; pH := pH s; pHR := pHR s; panicked := pn |}.

Definition upd_cli (s : st) (q : list frame) (cs : Z) (l : option frame) (h t : md) : st :=
  {| reqQ := reqQ s; reqClosed := reqClosed s; respQ := q; respClosed := respClosed s; cctx := cctx s; svrDone := svrDone s; svrCancelled := svrCancelled s; sState := sState s; sHdr := sHdr s; sTlr := sTlr s; cState := cs; cLast := l; cHdr := h; cTlr := t; sendClosed := sendClosed s; respStream := respStream s; pCS := pCS s; pCC := pCC s; pCR := pCR s; pH := pH s; pHR := pHR s; panicked := panicked s |}.

Definition upd_ctx (s : st) (k : Z) : st :=
  {| reqQ := reqQ s; reqClosed := reqClosed s; respQ := respQ s; respClosed := respClosed s; cctx := k; svrDone := svrDone s; svrCancelled := svrCancelled s; sState := sState s; sHdr := sHdr s; sTlr := sTlr s; cState := cState s; cLast := cLast s; cHdr := cHdr s; cTlr := cTlr s; sendClosed := sendClosed s; respStream := respStream s; pCS := pCS s; pCC := pCC s; pCR := pCR s; pH := pH s; pHR := pHR s; panicked := panicked s |}.

(* an internal step of actor a: the new state and, when the operation completes, its result *)
Definition outcome := (st * option res)%type.
Definition done (s : st) (a : actor) (r : res) : outcome := (set_pend s a None, Some r).
Definition goto (s : st) (a : actor) (p : pend) : outcome := (set_pend s a (Some p), None).

Definition has_room_req (s : st) : bool := Nat.ltb (length (reqQ s)) req_capn.
Definition has_room_resp (s : st) : bool := Nat.ltb (length (respQ s)) resp_capn.

(* writeMessage(s.ctx, nil, responses, f) on the server side: the branches of the select.
   k continues after the write with the state in which the frame was enqueued (or not). *)
Definition srv_write (s : st) (f : frame) (on_enq on_ctx : st -> list outcome) : list outcome :=
  (if has_room_resp s
   then on_enq (upd_srv s (respQ s ++ [f]) (respClosed s) (svrDone s) (svrCancelled s) (sState s) (sHdr s) (sTlr s)
                        (panicked s || respClosed s))
   else []) ++
  (if negb (sctx s =? 0) then on_ctx s else []).

(* the frame-consuming loop of the client's recvMsgLocked: one readMessage *)
Definition err_code_of_return (s : st) (code : Z) : Z :=
  if code =? -1 then 2                                  (* io.EOF from a handler is reported as Unknown *)
  else if code =? -2 then ctx_status (sctx s)           (* the handler's context error, translated by the client *)
  else if code =? -3 then 1                             (* a raw context.Canceled value (of any context): Canceled *)
  else if code =? -4 then 4                             (* a raw context.DeadlineExceeded value: DeadlineExceeded *)
  else code.

(* server RecvMsg: readMessage(s.recvCtx, requests); takes no lock, so it runs beside a SendMsg.
   recvCtx is the context that ends when the stream's context does and also as soon as the handler has
   returned (onDone), before finish flushes the final frames *)
Definition rctx (s : st) : Z := if negb (cctx s =? 0) then cctx s else if svrCancelled s || svrDone s then 1 else 0.
Definition srv_recv (s : st) (a : actor) : list outcome :=
  (match reqQ s with
   | x :: r => [done (upd_req s r (reqClosed s) (sendClosed s) (panicked s)) a
                     (if rctx s =? 0 then RMsg x else RCtx (rctx s))]
   | [] => if reqClosed s then [done s a (if rctx s =? 0 then REOF else RCtx (rctx s))] else []
   end) ++
  (if negb (rctx s =? 0) then [done s a (RCtx (rctx s))] else []).

Definition steps_of (s : st) (a : actor) (p : pend) : list outcome :=
  match a, p with
  (* ---------------- client SendMsg: reqMu; writeMessage(ctx, svrDoneCtx, requests) *)
  | CS, PStart (CSend x) =>
      if sendClosed s then [done s CS (ROther 1)]
      else
        (if has_room_req s
         then [done (upd_req s (reqQ s ++ [x]) (reqClosed s) (sendClosed s) (panicked s || reqClosed s)) CS
                    (if cctx s =? 0 then RNil else RCtx (cctx s))]
         else []) ++
        (if negb (cctx s =? 0) then [done s CS (RCtx (cctx s))] else []) ++
        (if remote_done s then [done s CS REOF] else [])
  (* ---------------- client CloseSend: needs reqMu, which a SendMsg in flight holds *)
  | _, PStart CClose =>
      match pCS s with
      | Some (PStart (CSend _)) => []          (* blocked on reqMu *)
      | _ =>
          if sendClosed s then [done s a RNil]
          else [done (upd_req s (reqQ s) true true (panicked s || reqClosed s)) a RNil]
      end
  (* ---------------- server RecvMsg: readMessage(s.ctx, requests) *)
  | H, PStart HRecv => srv_recv s H
  | HR, PStart HRecv => srv_recv s HR
  (* ---------------- server SetHeader / SendHeader *)
  | H, PStart (HSetHeader m) =>
      if negb (sState s =? 0) then [done s H (ROther 2)]
      else [done (upd_srv s (respQ s) (respClosed s) (svrDone s) (svrCancelled s) (sState s) (sHdr s ++ m) (sTlr s) (panicked s)) H RNil]
  | H, PStart (HSendHeader m) =>
      if negb (sState s =? 0) then [done s H (ROther 2)]
      else
        let s1 := upd_srv s (respQ s) (respClosed s) (svrDone s) (svrCancelled s) (sState s) (sHdr s ++ m) (sTlr s) (panicked s) in
        match sHdr s1 with
        | [] => [done (upd_srv s1 (respQ s1) (respClosed s1) (svrDone s1) (svrCancelled s1) 1 [] (sTlr s1) (panicked s1)) H RNil]
        | hd =>
            (* the merged headers are kept in the pending phase by re-running SendHeader [] *)
            srv_write s1 (FHdr hd)
              (fun s2 => [if sctx s2 =? 0
                          then done (upd_srv s2 (respQ s2) (respClosed s2) (svrDone s2) (svrCancelled s2) 1 [] (sTlr s2) (panicked s2)) H RNil
                          else done s2 H (RCtx (sctx s2))])
              (fun s2 => [done s2 H (RCtx (sctx s2))])
        end
  (* ---------------- server SendMsg *)
  | H, PStart (HSend x) =>
      if negb (sctx s =? 0) || (sState s =? 2) then [done s H REOF]
      else if sState s =? 0 then
        match sHdr s with
        | [] => [goto (upd_srv s (respQ s) (respClosed s) (svrDone s) (svrCancelled s) 1 [] (sTlr s) (panicked s)) H (PSendData x)]
        | hd =>
            srv_write s (FHdr hd)
              (fun s2 => [if sctx s2 =? 0
                          then goto (upd_srv s2 (respQ s2) (respClosed s2) (svrDone s2) (svrCancelled s2) 1 [] (sTlr s2) (panicked s2)) H (PSendData x)
                          else done s2 H (RCtx (sctx s2))])
              (fun s2 => [done s2 H (RCtx (sctx s2))])
        end
      else [goto s H (PSendData x)]
  | H, PSendData x =>
      srv_write s (FData x)
        (fun s2 => [done s2 H (if sctx s2 =? 0 then RNil else RCtx (sctx s2))])
        (fun s2 => [done s2 H (RCtx (sctx s2))])
  (* ---------------- server SetTrailer *)
  | H, PStart (HSetTrailer m) =>
      if sState s =? 2 then [done s H RNil]
      else [done (upd_srv s (respQ s) (respClosed s) (svrDone s) (svrCancelled s) (sState s) (sHdr s) (sTlr s ++ m) (panicked s)) H RNil]
  (* ---------------- the handler returns: finish(err) *)
  | H, PStart (HReturn code) =>
      (* a handler returning its context's error returns nil while that context is live *)
      let code := if (code =? -2) && (sctx s =? 0) then 0 else code in
      [goto (upd_srv s (respQ s) (respClosed s) true (svrCancelled s) (sState s) (sHdr s) (sTlr s) (panicked s)) H (PRetHdr code)]
  | H, PRetHdr code =>
      if (sState s =? 0) && negb (match sHdr s with [] => true | _ => false end)
      then srv_write s (FHdr (sHdr s)) (fun s2 => [goto s2 H (PRetTlr code)]) (fun s2 => [goto s2 H (PRetTlr code)])
      else [goto s H (PRetTlr code)]
  | H, PRetTlr code =>
      match sTlr s with
      | [] => [goto s H (PRetErr code)]
      | t => srv_write s (FTlr t)
               (fun s2 => [goto (upd_srv s2 (respQ s2) (respClosed s2) (svrDone s2) (svrCancelled s2) (sState s2) (sHdr s2) [] (panicked s2)) H (PRetErr code)])
               (fun s2 => [goto (upd_srv s2 (respQ s2) (respClosed s2) (svrDone s2) (svrCancelled s2) (sState s2) (sHdr s2) [] (panicked s2)) H (PRetErr code)])
      end
  | H, PRetErr code =>
      if code =? 0 then [goto s H PRetClose]
      else srv_write s (FErr (err_code_of_return s code)) (fun s2 => [goto s2 H PRetClose]) (fun s2 => [goto s2 H PRetClose])
  | H, PRetClose =>
      [done (upd_srv s (respQ s) true (svrDone s) true 2 (sHdr s) (sTlr s) (panicked s || respClosed s)) H RNil]
  (* ---------------- client RecvMsg: respMu; recvMsgLocked *)
  | CR, PStart CRecv =>
      match cLast s with
      | Some (FData x) =>
          let s1 := upd_cli s (respQ s) (cState s) None (cHdr s) (cTlr s) in
          if respStream s then [done s1 CR (RMsg x)] else [goto s1 CR (PProbe x)]
      | Some (FErr c) => [done (upd_cli s (respQ s) 2 (cLast s) (cHdr s) (cTlr s)) CR (RStatus c)]
      | _ =>
          (match respQ s with
           | f :: r =>
               if negb (cctx s =? 0) then [done (upd_cli s r (cState s) (cLast s) (cHdr s) (cTlr s)) CR (RStatus (ctx_status (cctx s)))]
               else match f with
                    | FHdr m => [goto (upd_cli s r 1 (cLast s) m (cTlr s)) CR (PStart CRecv)]
                    | FTlr m => [goto (upd_cli s r (cState s) (cLast s) (cHdr s) m) CR (PStart CRecv)]
                    | FErr c => [done (upd_cli s r 2 (Some f) (cHdr s) (cTlr s)) CR (RStatus c)]
                    | FData x => if respStream s then [done (upd_cli s r (cState s) (cLast s) (cHdr s) (cTlr s)) CR (RMsg x)]
                                 else [goto (upd_cli s r (cState s) (cLast s) (cHdr s) (cTlr s)) CR (PProbe x)]
                    end
           | [] => if respClosed s
                   then [if cctx s =? 0 then done (upd_cli s [] 2 (cLast s) (cHdr s) (cTlr s)) CR REOF
                         else done s CR (RStatus (ctx_status (cctx s)))]
                   else []
           end) ++
          (if negb (cctx s =? 0) then [done s CR (RStatus (ctx_status (cctx s)))] else [])
      end
  | CR, PProbe x =>
      (* ensureNoMoreLocked: one more pass of the loop into a scratch message *)
      (match respQ s with
       | f :: r =>
           if negb (cctx s =? 0) then [done (upd_cli s r (cState s) (cLast s) (cHdr s) (cTlr s)) CR (RStatus (ctx_status (cctx s)))]
           else match f with
                | FHdr m => [goto (upd_cli s r 1 (cLast s) m (cTlr s)) CR (PProbe x)]
                | FTlr m => [goto (upd_cli s r (cState s) (cLast s) (cHdr s) m) CR (PProbe x)]
                | FErr c => [done (upd_cli s r 2 (Some f) (cHdr s) (cTlr s)) CR (RStatus c)]   (* the failure takes precedence *)
                | FData _ => [done (upd_cli s r 2 (Some (FErr 13)) (cHdr s) (cTlr s)) CR (RStatus 13)]
                end
       | [] => if respClosed s
               then [if cctx s =? 0 then done (upd_cli s [] 2 (cLast s) (cHdr s) (cTlr s)) CR (RMsg x)
                     else done s CR (RStatus (ctx_status (cctx s)))]
               else []
       end) ++
      (if negb (cctx s =? 0) then [done s CR (RStatus (ctx_status (cctx s)))] else [])
  (* ---------------- client Header *)
  | CR, PStart CHeader =>
      if negb (cState s =? 0) then [done s CR (RMd (cHdr s))]
      else
        (match respQ s with
         | f :: r =>
             if negb (cctx s =? 0) then [done (upd_cli s r (cState s) (cLast s) (cHdr s) (cTlr s)) CR (RCtx (cctx s))]
             else match f with
                  | FHdr m => [done (upd_cli s r 1 (cLast s) m (cTlr s)) CR (RMd m)]
                  | FTlr m => [done (upd_cli s r 1 (cLast s) (cHdr s) m) CR (RMd (cHdr s))]
                  | FErr c => [done (upd_cli s r 2 (Some f) (cHdr s) (cTlr s)) CR (RMd (cHdr s))]
                  | FData x => [done (upd_cli s r 1 (Some f) (cHdr s) (cTlr s)) CR (RMd (cHdr s))]
                  end
         | [] => if respClosed s
                 then [if cctx s =? 0 then done (upd_cli s [] 2 (cLast s) (cHdr s) (cTlr s)) CR (RMd (cHdr s))
                       else done s CR (RCtx (cctx s))]
                 else []
         end) ++
        (if negb (cctx s =? 0) then [done s CR (RCtx (cctx s))] else [])
  | CR, PStart CTrailer => [done s CR (RMd (cTlr s))]
  | _, _ => []
  end.

Definition actors : list actor := [CS; CC; CR; H; HR].

(* all internal steps enabled in s, tagged with the actor *)
Definition internal (s : st) : list (actor * outcome) :=
  flat_map (fun a => match get_pend s a with
                     | Some p => map (fun o => (a, o)) (steps_of s a p)
                     | None => []
                     end) actors.

(* ---- rounds: what the harness does and sees ---- *)
Inductive start := Call (a : actor) (o : op) | Cancel | Deadline.

Definition recv_pending (s : st) : bool :=
  match pH s with Some (PStart HRecv) => true | _ => false end || match pHR s with Some _ => true | None => false end.

Definition apply_start (s : st) (x : start) : option st :=
  match x with
  | Call a o =>
      match get_pend s a with
      | None =>
          (* a handler returns once *)
          match o with
          | HReturn _ => if svrDone s then None else Some (set_pend s a (Some (PStart o)))
          (* one receiver at a time on the server side *)
          | HRecv => if recv_pending s then None else Some (set_pend s a (Some (PStart o)))
          | _ => match a with HR => None | _ => Some (set_pend s a (Some (PStart o))) end   (* HR only receives *)
          end
      | Some _ => None
      end
  | Cancel => Some (if cctx s =? 0 then upd_ctx s 1 else s)
  | Deadline => Some (if cctx s =? 0 then upd_ctx s 2 else s)
  end.

Definition rets := list (actor * res).

(* all maximal runs of internal steps: the stable end states with the results emitted on the way *)
Fixpoint explore (fuel : nat) (s : st) (acc : rets) : list (option (st * rets)) :=
  match fuel with
  | O => [None]
  | S f =>
      match internal s with
      | [] => [Some (s, acc)]
      | steps => flat_map (fun '(a, (s', r)) => explore f s' (match r with Some x => acc ++ [(a, x)] | None => acc end)) steps
      end
  end.
