(* C18: the four cloner adapters of inprocgrpc/cloner.go over messages with identity.
   A message is a root: location, type, dynamic-or-generated representation, fields. *)
From Coq Require Import ZArith List Bool Lia.
From Grpchan Require Import lib.Heap.
Import ListNotations.
Open Scope Z_scope.

Record msg := { m_loc : Z; m_ty : Z; m_dyn : bool; m_proto : bool (* implements proto.Message *); m_fields : val }.

Inductive result := Ok (m : msg) (next : Z) | Error | Panic.

(* ---- primitives: the protobuf runtime, with the obvious reference behaviour ---- *)
(* what the dynamic-message library's merge does with field values: it stores the source's
   values themselves (byte slices are shared), observed on the real library; modelled as sharing
   the source's field memory outright *)
Definition merge_fields (dyn : bool) (f : val) (n : Z) : val * Z := if dyn then (f, n) else copy f n.

(* proto.Clone *)
Definition prim_clone (m : msg) (n : Z) : msg * Z :=
  let '(f, n') := merge_fields (m_dyn m) (m_fields m) (n + 1) in
  ({| m_loc := n; m_ty := m_ty m; m_dyn := m_dyn m; m_proto := m_proto m; m_fields := f |}, n').
(* out.Reset(); dynamic.TryMerge(out, in): refuses a different message type; crosses representations *)
Definition prim_reset_merge (out inp : msg) (n : Z) : result :=
  if negb (m_ty out =? m_ty inp) then Error
  else let '(f, n') := merge_fields (m_dyn out || m_dyn inp) (m_fields inp) n in
       Ok {| m_loc := m_loc out; m_ty := m_ty out; m_dyn := m_dyn out; m_proto := m_proto out; m_fields := f |} n'.
(* codec.Marshal then codec.Unmarshal into out: goes through bytes, which know no type; the
   bytes of a message parse as another type when the wire formats are compatible *)
Definition prim_codec (compat : Z -> Z -> bool) (out inp : msg) (n : Z) : result :=
  if negb (m_proto inp) || negb (m_proto out) then Error
  else if negb (compat (m_ty out) (m_ty inp)) then Error
  else let '(f, n') := copy (m_fields inp) n in
       Ok {| m_loc := m_loc out; m_ty := m_ty out; m_dyn := m_dyn out; m_proto := true; m_fields := f |} n'.
(* reflect.New(reflect.TypeOf(in).Elem()): a zero value of the Go type; for a dynamic message
   that is a message without descriptor, on which every operation panics *)
Definition new_zero (inp : msg) (n : Z) : option msg :=
  if m_dyn inp then None
  else Some {| m_loc := n; m_ty := m_ty inp; m_dyn := false; m_proto := m_proto inp; m_fields := VNil |}.

(* ---- the adapters ---- *)
Section Adapters.
  Context (compat : Z -> Z -> bool).

  (* CopyFunc(fn).Clone *)
  Definition copyfunc_clone (fn : msg -> msg -> Z -> result) (inp : msg) (n : Z) : result :=
    match new_zero inp n with
    | None => Panic
    | Some z => fn z inp (n + 1)
    end.

  (* CodecCloner(codec) = CopyFunc(marshal; unmarshal) *)
  Definition codec_copy := prim_codec compat.
  Definition codec_clone := copyfunc_clone codec_copy.

  (* ProtoCloner *)
  Definition proto_copy (out inp : msg) (n : Z) : result :=
    if m_proto inp && m_proto out then prim_reset_merge out inp n else codec_copy out inp n.
  Definition proto_clone (inp : msg) (n : Z) : result :=
    if m_proto inp then let '(c, n') := prim_clone inp n in Ok c n' else codec_clone inp n.

  (* CloneFunc(fn): Copy = fn(in), then a SHALLOW store of the clone's top level into out;
     refuses a different Go type.  Generated messages have one Go type per message type, but
     every dynamic message has the same Go type, so between two dynamic messages nothing is
     checked and the destination simply becomes the clone (message type included) *)
  Definition clonefunc_copy (fn : msg -> Z -> result) (out inp : msg) (n : Z) : result :=
    match fn inp n with
    | Ok c n' =>
        if negb (Bool.eqb (m_dyn c) (m_dyn out)) || (negb (m_dyn c) && negb (m_ty c =? m_ty out)) then Error
        else Ok {| m_loc := m_loc out; m_ty := m_ty c; m_dyn := m_dyn out; m_proto := m_proto out; m_fields := m_fields c |} n'
    | r => r
    end.

  (* the four strategies as (clone, copy) pairs; 0 default, 1 codec, 2 clone-func over proto.Clone,
     3 copy-func over CopyMessage *)
  Definition clone_of (adapter : Z) : msg -> Z -> result :=
    if adapter =? 0 then proto_clone
    else if adapter =? 1 then codec_clone
    else if adapter =? 2 then (fun m n => if m_proto m then let '(c, n') := prim_clone m n in Ok c n' else Error)
    else copyfunc_clone (fun out inp n => if m_proto inp && m_proto out then prim_reset_merge out inp n else Error).

  Definition copy_of (adapter : Z) : msg -> msg -> Z -> result :=
    if adapter =? 0 then proto_copy
    else if adapter =? 1 then codec_copy
    else if adapter =? 2 then clonefunc_copy (clone_of 2)
    else (fun out inp n => if m_proto inp && m_proto out then prim_reset_merge out inp n else Error).
End Adapters.

Definition msg_locs (m : msg) : list Z := m_loc m :: locs (m_fields m).
Definition msg_below (n : Z) (m : msg) : Prop := Forall (fun l => l < n) (msg_locs m).
