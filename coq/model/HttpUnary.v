(* The tail of httpgrpc.Channel.Invoke as a small concurrent system (client.go): after RoundTrip has returned
   the reply's headers, a goroutine reads the body to its end while the calling goroutine gathers metadata,
   looks at the reply's status and then waits in
        select { case <-ctx.Done(): ...; case <-respCh: ... }
   The context may end at any time; once it has, the transport fails a pending body read with the context's
   error; a read may also fail for reasons of its own (the connection) or complete. *)
From Coq Require Import ZArith List Bool.
Import ListNotations.
Open Scope Z_scope.

Inductive rd := RPending | ROk | RFailCtx | RFailNet.
Inductive outcome :=
| OSuccess                 (* the reply was read and decoded *)
| OStatus (c : Z)          (* a status error: 1 Canceled, 4 DeadlineExceeded *)
| ORawCtx (k : Z)          (* the bare context error value: what C04 forbids *)
| ONet.                    (* the read's own failure, passed on *)

Record st := { ctx : Z;            (* 0 live, 1 cancelled, 2 deadline exceeded *)
               body : rd;
               at_select : bool;   (* the caller has reached the select *)
               result : option outcome }.

Definition init : st := {| ctx := 0; body := RPending; at_select := false; result := None |}.
Definition ctx_status (k : Z) : Z := if k =? 2 then 4 else 1.

Inductive label := CtxEnds (k : Z) | ReadOk | ReadFailsCtx | ReadFailsNet | ReachSelect | TakeCtxArm | TakeReadArm.

(* [fixed]: the read-failure path of the select consults the context first (the repair of F29) *)
Definition step (fixed : bool) (s : st) (l : label) : option st :=
  match result s with
  | Some _ => None
  | None =>
    match l with
    | CtxEnds k => if (ctx s =? 0) && ((k =? 1) || (k =? 2))
                   then Some {| ctx := k; body := body s; at_select := at_select s; result := None |} else None
    | ReadOk => match body s with RPending => Some {| ctx := ctx s; body := ROk; at_select := at_select s; result := None |} | _ => None end
    | ReadFailsCtx => match body s with
                      | RPending => if ctx s =? 0 then None   (* the transport fails the read with the context's error only once it has ended *)
                                    else Some {| ctx := ctx s; body := RFailCtx; at_select := at_select s; result := None |}
                      | _ => None
                      end
    | ReadFailsNet => match body s with RPending => Some {| ctx := ctx s; body := RFailNet; at_select := at_select s; result := None |} | _ => None end
    | ReachSelect => if at_select s then None else Some {| ctx := ctx s; body := body s; at_select := true; result := None |}
    | TakeCtxArm => if at_select s && negb (ctx s =? 0)
                    then Some {| ctx := ctx s; body := body s; at_select := true; result := Some (OStatus (ctx_status (ctx s))) |} else None
    | TakeReadArm =>
        if at_select s then
          match body s with
          | RPending => None
          | ROk => Some {| ctx := ctx s; body := ROk; at_select := true; result := Some OSuccess |}
          | RFailCtx => Some {| ctx := ctx s; body := RFailCtx; at_select := true;
                                result := Some (if fixed then OStatus (ctx_status (ctx s)) else ORawCtx (ctx s)) |}
          | RFailNet => Some {| ctx := ctx s; body := RFailNet; at_select := true;
                                result := Some (if fixed && negb (ctx s =? 0) then OStatus (ctx_status (ctx s)) else ONet) |}
          end
        else None
    end
  end.

Inductive reachable (fixed : bool) : st -> Prop :=
| r_init : reachable fixed init
| r_step s l s' : reachable fixed s -> step fixed s l = Some s' -> reachable fixed s'.

(* executable side: every outcome the system can produce within a bound, for the correspondence check *)
Definition labels : list label :=
  [CtxEnds 1; CtxEnds 2; ReadOk; ReadFailsCtx; ReadFailsNet; ReachSelect; TakeCtxArm; TakeReadArm].
Fixpoint outcomes (fixed : bool) (fuel : nat) (s : st) : list outcome :=
  match result s with
  | Some r => [r]
  | None => match fuel with
            | O => []
            | S f => flat_map (fun l => match step fixed s l with Some s' => outcomes fixed f s' | None => [] end) labels
            end
  end.
Definition outcome_eqb (a b : outcome) : bool :=
  match a, b with
  | OSuccess, OSuccess | ONet, ONet => true
  | OStatus x, OStatus y | ORawCtx x, ORawCtx y => x =? y
  | _, _ => false
  end.
Definition possible (fixed : bool) (r : outcome) : bool := existsb (outcome_eqb r) (outcomes fixed 6 init).
