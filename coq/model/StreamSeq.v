(* The sequential content of a stream, common to both transports: which frames a handler's
   script makes the server emit (inProcessServerStream / httpgrpc serverStream + handleStream)
   and what the client reads out of a complete frame list (recvMsgLocked + ensureNoMoreLocked /
   clientStream.RecvMsg).  The channels in between are FIFO (C01), so this decides the content of
   what every non-cancelled call delivers: messages, headers, trailers and the final status. *)
From Coq Require Import ZArith List Bool.
Import ListNotations.
Open Scope Z_scope.

Definition md := list (Z * Z).      (* (key, value) pairs in the order they were added *)

Fixpoint values_of (k : Z) (m : md) : list Z :=
  match m with
  | [] => []
  | (k', v) :: r => if k =? k' then v :: values_of k r else values_of k r
  end.

Inductive frame := FHdr (m : md) | FData (x : Z) | FTlr (m : md) | FErr (c : Z).

Inductive hop :=
| SetHeader (m : md) | SendHeader (m : md) | SendMsg (x : Z) | SetTrailer (m : md).

Record sst := { phase : Z (* 0 headers, 1 messages *); hdr : md; tlr : md; out : list frame; acks : list bool }.

Definition sinit : sst := {| phase := 0; hdr := []; tlr := []; out := []; acks := [] |}.

(* the in-process stream omits an empty header frame; over HTTP the reply's header block always
   exists (and carries the transport's own keys), which the client reports as empty metadata *)
Definition flush_hdr (s : sst) : list frame := match hdr s with [] => [] | h => [FHdr h] end.

Definition sstep (s : sst) (o : hop) : sst :=
  match o with
  | SetHeader m =>
      if phase s =? 0 then {| phase := 0; hdr := hdr s ++ m; tlr := tlr s; out := out s; acks := acks s ++ [true] |}
      else {| phase := phase s; hdr := hdr s; tlr := tlr s; out := out s; acks := acks s ++ [false] |}
  | SendHeader m =>
      if phase s =? 0
      then let s1 := {| phase := 0; hdr := hdr s ++ m; tlr := tlr s; out := out s; acks := acks s |} in
           {| phase := 1; hdr := []; tlr := tlr s; out := out s ++ flush_hdr s1; acks := acks s ++ [true] |}
      else {| phase := phase s; hdr := hdr s; tlr := tlr s; out := out s; acks := acks s ++ [false] |}
  | SendMsg x =>
      {| phase := 1; hdr := []; tlr := tlr s; out := out s ++ (if phase s =? 0 then flush_hdr s else []) ++ [FData x]; acks := acks s ++ [true] |}
  | SetTrailer m =>
      {| phase := phase s; hdr := hdr s; tlr := tlr s ++ m; out := out s; acks := acks s ++ [true] |}
  end.

(* how the client sees a handler's return value *)
Definition final_code (code : Z) : Z := if code =? -1 then 2 else code.   (* io.EOF -> Unknown *)

(* finish / the trailer of handleStream *)
Definition finish (s : sst) (code : Z) : list frame :=
  out s ++ (if phase s =? 0 then flush_hdr s else []) ++
  (match tlr s with [] => [] | t => [FTlr t] end) ++
  (if code =? 0 then [] else [FErr (final_code code)]).

Definition run_script (script : list hop) : sst := fold_left sstep script sinit.
Definition server_emit (script : list hop) (code : Z) : list frame := finish (run_script script) code.

(* ---- the client ---- *)
Inductive fin := FinEOF | FinStatus (c : Z).

Record view := { v_msgs : list Z; v_fin : fin; v_hdr : md; v_tlr : md }.

(* receiving everything from a response stream *)
Fixpoint consume (fs : list frame) (msgs : list Z) (h t : md) : view :=
  match fs with
  | [] => {| v_msgs := msgs; v_fin := FinEOF; v_hdr := h; v_tlr := t |}
  | FHdr m :: r => consume r msgs m t
  | FData x :: r => consume r (msgs ++ [x]) h t
  | FTlr m :: r => consume r msgs h m
  | FErr c :: _ => {| v_msgs := msgs; v_fin := FinStatus c; v_hdr := h; v_tlr := t |}
  end.
Definition client_view (fs : list frame) : view := consume fs [] [] [].

(* the single receive of a method with one response: the message with success, or an error *)
Inductive single := OneOk (x : Z) | OneEOF | OneStatus (c : Z).

Definition datas (fs : list frame) : list Z := flat_map (fun f => match f with FData x => [x] | _ => [] end) fs.
Definition err_of (fs : list frame) : option Z :=
  match find (fun f => match f with FErr _ => true | _ => false end) fs with Some (FErr c) => Some c | _ => None end.

Fixpoint single_probe (fs : list frame) (x : Z) : single :=
  match fs with
  | [] => OneOk x
  | FData _ :: _ => OneStatus 13          (* a second response: Internal *)
  | FErr c :: _ => OneStatus c            (* the failure takes precedence *)
  | _ :: r => single_probe r x
  end.
Fixpoint single_recv (fs : list frame) : single :=
  match fs with
  | [] => OneEOF
  | FData x :: r => single_probe r x
  | FErr c :: _ => OneStatus c
  | _ :: r => single_recv r
  end.
