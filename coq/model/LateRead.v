(* C06, "once a unary call has returned the library no longer reads the caller's message":
   Channel.Invoke starts a goroutine in which the handler decodes the request by copying from the
   caller's message; the caller returns when the response channel closes or its context ends. *)
From Coq Require Import List Bool.
Import ListNotations.

Inductive ev := ReadReq | Ret.

Record st := { decoded : bool; finished : bool; returned : bool; ctx_done : bool; trace : list ev }.

Definition init : st := {| decoded := false; finished := false; returned := false; ctx_done := false; trace := [] |}.

Inductive label := Decode | Finish | RetDone | RetCtx | Cancel.

Definition step (s : st) (l : label) : option st :=
  match l with
  | Decode => if decoded s then None
              else Some {| decoded := true; finished := finished s; returned := returned s; ctx_done := ctx_done s; trace := trace s ++ [ReadReq] |}
  | Finish => if decoded s && negb (finished s)
              then Some {| decoded := true; finished := true; returned := returned s; ctx_done := ctx_done s; trace := trace s |} else None
  | RetDone => if finished s && negb (returned s)
               then Some {| decoded := decoded s; finished := true; returned := true; ctx_done := ctx_done s; trace := trace s ++ [Ret] |} else None
  | RetCtx => if ctx_done s && negb (returned s)
              then Some {| decoded := decoded s; finished := finished s; returned := true; ctx_done := true; trace := trace s ++ [Ret] |} else None
  | Cancel => Some {| decoded := decoded s; finished := finished s; returned := returned s; ctx_done := true; trace := trace s |}
  end.

Inductive reachable : st -> Prop :=
| r_init : reachable init
| r_step s l s' : reachable s -> step s l = Some s' -> reachable s'.

(* a read of the caller's message after the call returned *)
Fixpoint late_read (t : list ev) (ret_seen : bool) : bool :=
  match t with
  | [] => false
  | Ret :: r => late_read r true
  | ReadReq :: r => ret_seen || late_read r ret_seen
  end.
