(* C12: how a method name is resolved.  In-process: Channel.Invoke / NewStream
   (after the fix: names without a service/method separator are refused).  HTTP: the client
   joins the base path and the name with path.Join, the server registers
   path.Join(base, service ++ "/" ++ method) as an exact ServeMux pattern. *)
From Coq Require Import ZArith String Ascii List Bool.
From Grpchan Require Import lib.Str.
Import ListNotations.
Open Scope string_scope.

Definition slash : ascii := "/"%char.

(* strings.SplitN(s, "/", 2) *)
Fixpoint split_first (s : string) : string * option string :=
  match s with
  | EmptyString => (EmptyString, None)
  | String c r =>
      if Ascii.eqb c slash then (EmptyString, Some r)
      else let '(a, b) := split_first r in (String c a, b)
  end.

Fixpoint no_slash (s : string) : bool :=
  match s with
  | EmptyString => true
  | String c r => negb (Ascii.eqb c slash) && no_slash r
  end.

Record svc := { r_name : string; r_unary : list string; r_streams : list string }.
Definition registry := list svc.

Fixpoint find_svc (n : string) (r : registry) : option svc :=
  match r with
  | [] => None
  | s :: r' => if String.eqb (r_name s) n then Some s else find_svc n r'
  end.

Inductive res :=
| Run (service method : string)   (* exactly this registered handler runs *)
| Unimplemented
| PanicIdx.                        (* index out of range *)

(* Channel.Invoke (unary = true) / Channel.NewStream (unary = false) *)
Definition route_inproc (reg : registry) (unary : bool) (m : string) : res :=
  let m' := match m with
            | EmptyString => "/" ++ m
            | String c _ => if Ascii.eqb c slash then m else "/" ++ m
            end in
  match m' with
  | EmptyString => PanicIdx                       (* method[1:] on an empty string *)
  | String _ rest =>
      match split_first rest with
      | (_, None) => Unimplemented                (* len(strs) != 2: refused (was strs[1] out of range) *)
      | (sname, Some mname) =>
          match find_svc sname reg with
          | None => Unimplemented
          | Some s => if str_mem mname (if unary then r_unary s else r_streams s)
                      then Run sname mname else Unimplemented
          end
      end
  end.

(* ---- paths as segment lists: path.Clean / path.Join on absolute paths ---- *)
Fixpoint split_all_aux (s : string) (cur : string) : list string :=
  match s with
  | EmptyString => [cur]
  | String c r => if Ascii.eqb c slash then cur :: split_all_aux r EmptyString
                  else split_all_aux r (cur ++ String c EmptyString)
  end.
Definition split_all (s : string) : list string := split_all_aux s EmptyString.  (* strings.Split(s, "/") *)

(* one step of Clean over a rooted path: the stack of kept segments *)
Definition clean_step (st : list string) (seg : string) : list string :=
  if String.eqb seg "" || String.eqb seg "." then st
  else if String.eqb seg ".." then removelast st      (* rooted: ".." at the root is dropped *)
  else st ++ [seg].

Definition clean_segs (segs : list string) : list string := fold_left clean_step segs [].

Definition plain (seg : string) : bool :=
  negb (String.eqb seg "") && negb (String.eqb seg ".") && negb (String.eqb seg "..") && no_slash seg.

Fixpoint render (segs : list string) : string :=
  match segs with
  | [] => ""
  | s :: r => "/" ++ s ++ render r
  end.
Definition render_abs (segs : list string) : string := match segs with [] => "/" | _ => render segs end.

(* path.Join(base, name) for an absolute base: Clean(base + "/" + name) *)
Definition join (base name : string) : string := render_abs (clean_segs (split_all base ++ split_all name)).
Definition join_segs (base : list string) (name : list string) : list string := clean_segs (base ++ name).

(* the HTTP route: the client's URL path against the server's exact ServeMux patterns (unary
   methods and streams share one namespace of patterns) *)
Inductive hres :=
| HRun (service method : string)
| HKindMismatch          (* the path belongs to a method of the other kind: 415, no handler runs *)
| HNotFound.             (* 404 -> NotFound *)

Fixpoint find_method (server_base p sname : string) (ms : list string) : option string :=
  match ms with
  | [] => None
  | x :: ms' => if String.eqb (join server_base (sname ++ "/" ++ x)) p then Some x else find_method server_base p sname ms'
  end.

Fixpoint route_http_in (server_base p : string) (unary : bool) (r : registry) : hres :=
  match r with
  | [] => HNotFound
  | s :: r' =>
      match find_method server_base p (r_name s) (if unary then r_unary s else r_streams s) with
      | Some x => HRun (r_name s) x
      | None =>
          match find_method server_base p (r_name s) (if unary then r_streams s else r_unary s) with
          | Some _ => HKindMismatch
          | None => route_http_in server_base p unary r'
          end
      end
  end.

Definition route_http (server_base client_base : string) (reg : registry) (unary : bool) (m : string) : hres :=
  route_http_in server_base (join client_base m) unary reg.
