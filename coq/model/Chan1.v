(* One direction of an in-process stream: a bounded Go channel written by one side's SendMsg
   (writeMessage) and read by the other side's RecvMsg (readMessage), with the call's context,
   the "remote is done" signal, the receiver's own context (the server context also ends when
   the handler has returned), and CloseSend with its sendClosed guard.  Every transition is one
   completed operation; an operation that has no enabled transition is blocked.
   Ghost histories record what was enqueued, taken off, delivered, and acknowledged. *)
From Coq Require Import ZArith List Bool Lia.
Import ListNotations.

Record st := {
  q : list Z; closed : bool;          (* the Go channel *)
  ctx : bool;                         (* the caller's context has ended *)
  remote : bool;                      (* sender side: the peer is done (svrDoneCtx / server context ended) *)
  rcancel : bool;                     (* receiver side: its own context ended for another reason *)
  send_closed : bool;                 (* the sendClosed flag guarding close *)
  panicked : bool;
  enq : list Z; taken : list Z;       (* ghost: ever enqueued / ever taken off the channel *)
  got : list Z;                       (* ghost: delivered to the receiving application *)
  sent_ok : list Z                    (* ghost: sends that returned nil *)
}.

Definition init : st :=
  {| q := []; closed := false; ctx := false; remote := false; rcancel := false; send_closed := false;
     panicked := false; enq := []; taken := []; got := []; sent_ok := [] |}.

Inductive label :=
| SendEnq (x : Z)     (* the send branch of the select fired *)
| SendCtx (x : Z)     (* the context branch fired: context error returned *)
| SendRemote (x : Z)  (* the remote branch fired: io.EOF returned *)
| SendRefused (x : Z) (* send after CloseSend: error, nothing happens *)
| RecvDeq | RecvClosed | RecvCtx
| Close               (* CloseSend *)
| Cancel | RemoteDone | ReceiverCancel.

Definition rdone (s : st) : bool := ctx s || rcancel s.

Section WithCap.
  Context (cap : nat).

  (* step s l = Some s' when the transition is enabled *)
  Definition step (s : st) (l : label) : option st :=
    match l with
    | SendRefused _ => if send_closed s then Some s else None
    | SendEnq x =>
        if send_closed s then None
        else if Nat.ltb (length (q s)) cap then
          Some {| q := q s ++ [x]; closed := closed s; ctx := ctx s; remote := remote s; rcancel := rcancel s;
                  send_closed := send_closed s;
                  panicked := panicked s || closed s;   (* send on a closed channel panics *)
                  enq := enq s ++ [x]; taken := taken s; got := got s;
                  sent_ok := if ctx s then sent_ok s else sent_ok s ++ [x] |}
        else None
    | SendCtx _ => if send_closed s then None else if ctx s then Some s else None
    | SendRemote _ => if send_closed s then None else if remote s || ctx s then Some s else None
    | RecvDeq =>
        match q s with
        | x :: r =>
            Some {| q := r; closed := closed s; ctx := ctx s; remote := remote s; rcancel := rcancel s;
                    send_closed := send_closed s; panicked := panicked s;
                    enq := enq s; taken := taken s ++ [x];
                    got := if rdone s then got s else got s ++ [x];   (* a frame taken after the context ended is dropped *)
                    sent_ok := sent_ok s |}
        | [] => None
        end
    | RecvClosed => match q s with [] => if closed s then Some s else None | _ => None end
    | RecvCtx => if rdone s then Some s else None
    | Close =>
        Some {| q := q s; closed := true; ctx := ctx s; remote := remote s; rcancel := rcancel s;
                send_closed := true;
                panicked := panicked s || (negb (send_closed s) && closed s);  (* close of a closed channel panics *)
                enq := enq s; taken := taken s; got := got s; sent_ok := sent_ok s |}
    | Cancel => Some {| q := q s; closed := closed s; ctx := true; remote := remote s; rcancel := rcancel s;
                        send_closed := send_closed s; panicked := panicked s;
                        enq := enq s; taken := taken s; got := got s; sent_ok := sent_ok s |}
    | RemoteDone => Some {| q := q s; closed := closed s; ctx := ctx s; remote := true; rcancel := rcancel s;
                            send_closed := send_closed s; panicked := panicked s;
                            enq := enq s; taken := taken s; got := got s; sent_ok := sent_ok s |}
    | ReceiverCancel => Some {| q := q s; closed := closed s; ctx := ctx s; remote := remote s; rcancel := true;
                                send_closed := send_closed s; panicked := panicked s;
                                enq := enq s; taken := taken s; got := got s; sent_ok := sent_ok s |}
    end.

  Inductive reachable : st -> Prop :=
  | reach_init : reachable init
  | reach_step s l s' : reachable s -> step s l = Some s' -> reachable s'.

  (* is some completing transition of a SendMsg x enabled? *)
  Definition send_enabled (s : st) (x : Z) : bool :=
    match step s (SendEnq x), step s (SendCtx x), step s (SendRemote x), step s (SendRefused x) with
    | None, None, None, None => false
    | _, _, _, _ => true
    end.
End WithCap.

Definition prefix {A} (a b : list A) : Prop := exists t, b = a ++ t.
