(* C11: the gate-keeping of the HTTP handlers (server.go handleMethod / handleStream,
   protocol_versions.go codec selection).  What the standard library and protobuf decide is an
   input: the media type mime.ParseMediaType extracts, whether every -bin header is valid
   base64, whether the body unmarshals.  Content types are GENERATED from the source. *)
From Coq Require Import ZArith String List Bool.
From Grpchan Require Import gen.Wire gen.Codes model.StatusHttp.
Import ListNotations.
Open Scope Z_scope.

Inductive codec := Proto | Json.

(* getUnaryCodec / getStreamingCodec over the parsed media type *)
Definition unary_codec (media : string) : option codec :=
  if String.eqb media unary_ctype then Some Proto
  else if String.eqb media json_ctype then Some Json
  else None.

Definition stream_codec (media : string) : option codec :=
  if String.eqb media stream_ctype then Some Proto else None.

Record req := {
  is_post : bool;
  media : string;          (* media type of the Content-Type header *)
  bin_ok : bool;           (* every -bin request header is valid base64 *)
  body_ok : bool           (* the body unmarshals under the selected codec *)
}.

Record ureply := {
  u_status : Z;            (* HTTP status *)
  u_allow_post : bool;     (* Allow: POST present *)
  u_user_calls : Z;        (* how many times application code ran *)
  u_grpc_code : option Z;  (* code in X-GRPC-Status, if the header is written *)
  u_echo_ctype : bool      (* reply carries the request's content type *)
}.

(* handleMethod; hcode = the status code the application handler returns (0 = success) *)
Definition handle_method (r : req) (hcode : Z) : ureply :=
  if negb (is_post r) then {| u_status := 405; u_allow_post := true; u_user_calls := 0; u_grpc_code := None; u_echo_ctype := false |}
  else match unary_codec (media r) with
       | None => {| u_status := 415; u_allow_post := false; u_user_calls := 0; u_grpc_code := None; u_echo_ctype := false |}
       | Some _ =>
           if negb (bin_ok r) then {| u_status := 400; u_allow_post := false; u_user_calls := 0; u_grpc_code := None; u_echo_ctype := false |}
           else if negb (body_ok r)
           then (* the decode function fails: InvalidArgument, application code not reached *)
                {| u_status := renderer_status 3 false; u_allow_post := false; u_user_calls := 0; u_grpc_code := Some 3; u_echo_ctype := false |}
           else if hcode =? 0
           then {| u_status := 200; u_allow_post := false; u_user_calls := 1; u_grpc_code := None; u_echo_ctype := true |}
           else {| u_status := renderer_status (server_err_code hcode) false; u_allow_post := false; u_user_calls := 1;
                   u_grpc_code := Some (server_err_code hcode); u_echo_ctype := false |}
       end.

Inductive frame := Data | Trailer (code : Z).

Record sreply := { s_status : Z; s_allow_post : bool; s_user_calls : Z; s_frames : list frame }.

(* handleStream; the application handler sends nsend messages and returns hcode *)
Definition handle_stream (r : req) (nsend : nat) (hcode : Z) : sreply :=
  if negb (is_post r) then {| s_status := 405; s_allow_post := true; s_user_calls := 0; s_frames := [] |}
  else match stream_codec (media r) with
       | None => {| s_status := 415; s_allow_post := false; s_user_calls := 0; s_frames := [] |}
       | Some _ =>
           if negb (bin_ok r) then {| s_status := 400; s_allow_post := false; s_user_calls := 0; s_frames := [] |}
           else {| s_status := 200; s_allow_post := false; s_user_calls := 1;
                   s_frames := repeat Data nsend ++ [Trailer (if hcode =? 0 then 0 else server_err_code hcode)] |}
       end.

Definition valid_unary (r : req) : bool :=
  is_post r && (match unary_codec (media r) with Some _ => true | None => false end) && bin_ok r.
Definition valid_stream (r : req) : bool :=
  is_post r && (match stream_codec (media r) with Some _ => true | None => false end) && bin_ok r.
