(* C06, "the library does not write the caller's response message after a unary call has returned":
   Channel.Invoke copies the handler's response into the caller's message on the CALLER's goroutine,
   when it takes the data frame off the response channel; the server goroutine only enqueues frames. *)
From Coq Require Import List Bool.
Import ListNotations.

Inductive ev := WriteResp | Ret.

Record st := { sent : bool; closed : bool; copied : bool; returned : bool; ctx_done : bool; trace : list ev }.

Definition init : st := {| sent := false; closed := false; copied := false; returned := false; ctx_done := false; trace := [] |}.

(* Respond: the server goroutine enqueues the data frame (it may skip it once the context has ended);
   Close: it closes the channel; CopyResp: the caller's loop takes the data frame and copies it into the
   caller's message; RetDone: the loop sees the channel closed (frames arrive in order, so a data frame
   that was sent has been taken before); RetCtx: the loop sees the context done *)
Inductive label := Respond | Close | CopyResp | RetDone | RetCtx | Cancel.

Definition step (s : st) (l : label) : option st :=
  match l with
  | Respond => if sent s || closed s then None
               else Some {| sent := true; closed := false; copied := copied s; returned := returned s; ctx_done := ctx_done s; trace := trace s |}
  | Close => if closed s then None
             else Some {| sent := sent s; closed := true; copied := copied s; returned := returned s; ctx_done := ctx_done s; trace := trace s |}
  | CopyResp => if sent s && negb (copied s) && negb (returned s)
                then Some {| sent := true; closed := closed s; copied := true; returned := false; ctx_done := ctx_done s; trace := trace s ++ [WriteResp] |}
                else None
  | RetDone => if closed s && (negb (sent s) || copied s) && negb (returned s)
               then Some {| sent := sent s; closed := true; copied := copied s; returned := true; ctx_done := ctx_done s; trace := trace s ++ [Ret] |}
               else None
  | RetCtx => if ctx_done s && negb (returned s)
              then Some {| sent := sent s; closed := closed s; copied := copied s; returned := true; ctx_done := true; trace := trace s ++ [Ret] |}
              else None
  | Cancel => Some {| sent := sent s; closed := closed s; copied := copied s; returned := returned s; ctx_done := true; trace := trace s |}
  end.

Inductive reachable : st -> Prop :=
| r_init : reachable init
| r_step s l s' : reachable s -> step s l = Some s' -> reachable s'.

(* a write of the caller's response message after the call returned *)
Fixpoint late_write (t : list ev) (ret_seen : bool) : bool :=
  match t with
  | [] => false
  | Ret :: r => late_write r true
  | WriteResp :: r => ret_seen || late_write r ret_seen
  end.

(* ---- executable side, used by the correspondence check: can the LTS produce the observed event trace ---- *)
Definition ev_eqb (a b : ev) : bool := match a, b with WriteResp, WriteResp | Ret, Ret => true | _, _ => false end.
Fixpoint prefixb (p t : list ev) : bool :=
  match p, t with
  | [], _ => true
  | a :: p', b :: t' => ev_eqb a b && prefixb p' t'
  | _ :: _, [] => false
  end.
Fixpoint tr_eqb (p t : list ev) : bool :=
  match p, t with
  | [], [] => true
  | a :: p', b :: t' => ev_eqb a b && tr_eqb p' t'
  | _, _ => false
  end.
Definition labels := [Respond; Close; CopyResp; RetDone; RetCtx; Cancel].
Fixpoint possible (fuel : nat) (s : st) (t : list ev) : bool :=
  tr_eqb (trace s) t ||
  match fuel with
  | O => false
  | S f => existsb (fun l => match step s l with
                             | Some s' => prefixb (trace s') t && possible f s' t
                             | None => false
                             end) labels
  end.
