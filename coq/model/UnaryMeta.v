(* The response metadata of a unary call over HTTP: how the server lays the handler's headers, trailers and
   status out as HTTP headers (httpgrpc/server.go handleMethod, io.go toHeaders) and how the client takes them
   apart again (client.go setMetadata, statFromResponse).

   An http.Header is a map from canonical keys to value lists; keys are case-insensitive, modelled in lower case.
   Values are opaque here: the base64 transport of "-bin" values is left out (it is the identity on the pair
   encode/decode; C03's other theorems and probes cover it). *)
From Coq Require Import ZArith String Ascii List Bool.
From Grpchan Require Import lib.Str lib.Dec model.Creds model.StatusHttp.
Import ListNotations.
Open Scope string_scope.

Definition trailer_prefix : string := "x-grpc-trailer-".
Definition status_key : string := "x-grpc-status".
Definition reserved : list string :=
  ["accept-encoding"; "connection"; "content-type"; "content-length"; "keep-alive"; "te"; "trailer";
   "transfer-encoding"; "upgrade"].

(* h[k] = vs *)
Fixpoint md_set (k : string) (vs : list string) (m : md) : md :=
  match m with
  | [] => [(k, vs)]
  | (k', vs') :: r => if String.eqb k k' then (k', vs) :: r else (k', vs') :: md_set k vs r
  end.

(* toHeaders(md, h, prefix): reserved keys are skipped, every value is ADDED under prefix+key *)
Definition to_headers (prefix : string) (m : md) (h : md) : md :=
  fold_left (fun acc kv =>
               let k := to_lower (fst kv) in
               if str_mem k reserved then acc else md_add (to_lower prefix ++ k) (snd kv) acc) m h.

(* what handleMethod has put into w.Header() when it hands over to the renderer (failure) or writes the body:
   the handler's headers, its trailers under the prefix, and -- for a failure -- the status, which is SET *)
Definition server_unary_reply (hmd tmd : md) (failure : option (Z * string)) : md :=
  let h := to_headers "" hmd [] in
  let h := to_headers "X-GRPC-Trailer-" tmd h in
  match failure with
  | Some (c, msg) => md_set status_key [status_header_code c ++ ":" ++ msg] h
  | None => h
  end.

(* setMetadata: keys under the trailer prefix (with a non-empty rest) are trailers under the rest of the key,
   everything else is a header *)
Definition is_trailer_key (k : string) : bool :=
  has_prefix trailer_prefix k && negb (String.eqb (drop (String.length trailer_prefix) k) "").

Definition split_step (acc : md * md) (kv : string * list string) : md * md :=
  if is_trailer_key (fst kv)
  then (fst acc, md_set (drop (String.length trailer_prefix) (fst kv)) (snd kv) (snd acc))
  else (md_add (fst kv) (snd kv) (fst acc), snd acc).
Definition client_split (h : md) : md * md := fold_left split_step h ([], []).

(* statFromResponse: the text before the first colon of the FIRST X-GRPC-Status value *)
Fixpoint before_colon (s : string) : string :=
  match s with
  | EmptyString => EmptyString
  | String c r => if Ascii.eqb c ":" then EmptyString else String c (before_colon r)
  end.

Definition client_unary_code (http_status : Z) (h : md) : Z :=
  match md_get status_key h with
  | [] => client_code http_status None
  | v :: _ => client_code http_status (Some (before_colon v))   (* an empty code part falls back like no header *)
  end.

(* strings.TrimLeft(s, cutset), for the refutation of the cutset reading of "strip the prefix" *)
Fixpoint in_cutset (c : ascii) (cut : string) : bool :=
  match cut with EmptyString => false | String d r => Ascii.eqb c d || in_cutset c r end.
Fixpoint trim_left (s cut : string) : string :=
  match s with
  | EmptyString => EmptyString
  | String c r => if in_cutset c cut then trim_left r cut else s
  end.

(* ---- comparison with what a real call showed (used by the case files) ---- *)
Fixpoint strs_eqb (a b : list string) : bool :=
  match a, b with
  | [], [] => true
  | x :: a', y :: b' => String.eqb x y && strs_eqb a' b'
  | _, _ => false
  end.
(* every key of a has the same values in b *)
Definition md_sub (a b : md) : bool := forallb (fun kv => strs_eqb (snd kv) (md_get (fst kv) b)) a.

(* the handler set the headers hmd and the trailers tmd and failed with code fail (0: succeeded); the caller saw
   the headers obs_hdr (a real reply carries more: Content-Type, Date, ...), the trailers obs_tlr and the code *)
Definition agrees (hmd tmd : md) (fail : Z) (msg : string) (http : Z) (obs_hdr obs_tlr : md) (obs_code : Z) : bool :=
  let h := server_unary_reply hmd tmd (if (fail =? 0)%Z then None else Some (fail, msg)) in
  let mh := fst (client_split h) in
  let mt := snd (client_split h) in
  md_sub mh obs_hdr && md_sub mt obs_tlr && md_sub obs_tlr mt &&
  (if (fail =? 0)%Z then (obs_code =? 0)%Z else (obs_code =? client_unary_code http h)%Z).
