(* C10: the context an in-process handler receives (makeServerContext, noValuesContext,
   ClientContext in inprocgrpc/in_process.go).  A context is a chain of layers, newest first. *)
From Coq Require Import ZArith String List Bool.
Import ListNotations.
Open Scope Z_scope.

Definition md := list (string * list string).

Inductive key :=
| KUser (n : Z)      (* an application key *)
| KOutMD | KInMD     (* gRPC outgoing / incoming metadata *)
| KPeer | KSTS       (* peer, server transport stream *)
| KClient.           (* grpchan's client-context key *)

Inductive layer :=
| LVal (n : Z) (v : Z)
| LOutMD (m : md)
| LInMD (m : md)
| LPeer (p : Z)                 (* 1 = the in-process peer; others: whatever an enclosing server installed *)
| LSTS (method : string)
| LDeadline (t : Z)
| LCancelled
| LNoValues                     (* noValuesContext: answers nil for every key, delegates deadline and Done *)
| LClient (c : list layer).     (* value of the client-context key: the caller's chain *)

Definition chain := list layer.

Inductive value := VZ (z : Z) | VMD (m : md) | VStr (s : string) | VCtx (c : chain).

Definition key_eqb (a b : key) : bool :=
  match a, b with
  | KUser x, KUser y => x =? y
  | KOutMD, KOutMD | KInMD, KInMD | KPeer, KPeer | KSTS, KSTS | KClient, KClient => true
  | _, _ => false
  end.

Fixpoint lookup (k : key) (c : chain) : option value :=
  match c with
  | [] => None
  | LNoValues :: _ => None
  | LVal n v :: r => if key_eqb k (KUser n) then Some (VZ v) else lookup k r
  | LOutMD m :: r => if key_eqb k KOutMD then Some (VMD m) else lookup k r
  | LInMD m :: r => if key_eqb k KInMD then Some (VMD m) else lookup k r
  | LPeer p :: r => if key_eqb k KPeer then Some (VZ p) else lookup k r
  | LSTS s :: r => if key_eqb k KSTS then Some (VStr s) else lookup k r
  | LClient c' :: r => if key_eqb k KClient then Some (VCtx c') else lookup k r
  | _ :: r => lookup k r
  end.

(* deadline and cancellation pass through every layer, noValuesContext included *)
Fixpoint deadline (c : chain) : option Z :=
  match c with
  | [] => None
  | LDeadline t :: r => match deadline r with Some t' => Some (Z.min t t') | None => Some t end
  | _ :: r => deadline r
  end.

Fixpoint cancelled (c : chain) : bool :=
  match c with
  | [] => false
  | LCancelled :: _ => true
  | _ :: r => cancelled r
  end.

Definition out_md (c : chain) : option md :=
  match lookup KOutMD c with Some (VMD m) => Some m | _ => None end.

(* makeServerContext + grpc.NewContextWithServerTransportStream, for a call of `method` made with c *)
Definition server_ctx (method : string) (c : chain) : chain :=
  [LSTS method; LClient c; LPeer 1] ++
  (match out_md c with Some m => [LInMD m] | None => [] end) ++
  [LNoValues] ++ c.

(* ClientContext(ctx) *)
Definition client_context (c : chain) : option chain :=
  match lookup KClient c with Some (VCtx c') => Some c' | _ => None end.

(* context expressions: what the harness builds and the model evaluates *)
Inductive cexp :=
| Bg
| With (l : layer) (e : cexp)
| Server (method : string) (e : cexp).   (* the handler context of an in-process call made with e *)

Fixpoint eval (e : cexp) : chain :=
  match e with
  | Bg => []
  | With l e' => l :: eval e'
  | Server m e' => server_ctx m (eval e')
  end.
