(* C09: the GRPC-Timeout header.  Client: headersFromContext; server:
   contextFromHeaders.  The unit switch, the multiplication (with its int64
   wrap and the saturation guard), the division, the clamp and the unit byte
   are GENERATED from the source (gen/Units.v). *)
From Coq Require Import ZArith String Ascii List Bool.
From Grpchan Require Import lib.Int lib.Dec lib.Hex lib.Str gen.Units.
Open Scope Z_scope.

(* client: the header value for a remaining duration in nanoseconds *)
Definition encode_timeout (remaining : Z) : string :=
  (fmt_d (client_clamp (client_div remaining)) ++ String (char_of client_suffix) EmptyString)%string.

Definition client_header (remaining : option Z) : option string :=
  option_map encode_timeout remaining.

Inductive dl := NoDeadline | Deadline (ns : Z) | Panic.

(* server: what contextFromHeaders does with the header value ("" = absent) *)
Definition decode_timeout (s : string) : dl :=
  if String.eqb s "" then NoDeadline
  else match split_last s with
       | None => Panic                      (* timeout[len(timeout)-1] out of range *)
       | Some (body, suffix) =>
           match parse_int body 64 with
           | None => NoDeadline
           | Some v =>
               let unit := unit_of (byte_of suffix) in
               if unit =? 0 then NoDeadline else Deadline (server_timeout v unit)
           end
       end.

Definition server_deadline (hdr : option string) : dl :=
  match hdr with None => NoDeadline | Some s => decode_timeout s end.

(* the wire specification's unit table, written from the gRPC wire format, not from the code *)
Definition spec_unit (c : Z) : option Z :=
  if c =? 72 then Some 3600000000000 (* H *)
  else if c =? 77 then Some 60000000000 (* M *)
  else if c =? 83 then Some 1000000000 (* S *)
  else if c =? 109 then Some 1000000 (* m *)
  else if c =? 117 then Some 1000 (* u *)
  else if c =? 110 then Some 1 (* n *)
  else None.

Fixpoint all_digits (s : string) : bool :=
  match s with
  | EmptyString => true
  | String c r => let n := byte_of c in (48 <=? n) && (n <=? 57) && all_digits r
  end.

(* a header of the wire form <digits><unit>: its value and unit (nanoseconds), exact *)
Definition spec_parts (s : string) : option (Z * Z) :=
  match split_last s with
  | Some (body, u) =>
      if all_digits body && negb (String.eqb body "") then
        match spec_unit (byte_of u), parse_dec body with
        | Some unit, Some v => Some (v, unit)
        | _, _ => None
        end
      else None
  | None => None
  end.

Definition spec_timeout (s : string) : option Z :=
  option_map (fun p => fst p * snd p) (spec_parts s).
