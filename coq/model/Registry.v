(* C15: grpchan.HandlerMap (server.go) as an association list, with the two
   checks of RegisterService in the code's order. *)
From Coq Require Import ZArith String List Bool.
Import ListNotations.
Open Scope Z_scope.

Record minfo := { mi_name : string; mi_cs : bool; mi_ss : bool }.

Record sdesc := {
  d_id : Z;                       (* identity of the *grpc.ServiceDesc *)
  d_name : string;
  d_methods : list string;        (* unary methods *)
  d_streams : list minfo;
  d_meta : Z                      (* identity of the Metadata value *)
}.

Record entry := { e_desc : sdesc; e_handler : Z }.

Definition reg := list entry.     (* oldest first *)

Fixpoint lookup (n : string) (r : reg) : option entry :=
  match r with
  | [] => None
  | e :: r' => if String.eqb (d_name (e_desc e)) n then Some e else lookup n r'
  end.

Inductive outcome := Panic | Done.

(* RegisterService: the handler-type check first, then the duplicate check *)
Definition register (r : reg) (d : sdesc) (h : Z) (implements : bool) : reg * outcome :=
  if negb implements then (r, Panic)
  else match lookup (d_name d) r with
       | Some _ => (r, Panic)
       | None => (r ++ [{| e_desc := d; e_handler := h |}], Done)
       end.

Definition query (r : reg) (n : string) : option (Z * Z) :=
  option_map (fun e => (d_id (e_desc e), e_handler e)) (lookup n r).

(* ForEach visits the entries (in Go: in map order, so the order is unspecified) *)
Definition for_each (r : reg) : list (string * Z * Z) :=
  map (fun e => (d_name (e_desc e), d_id (e_desc e), e_handler e)) r.

Definition methods_info (d : sdesc) : list minfo :=
  map (fun n => {| mi_name := n; mi_cs := false; mi_ss := false |}) (d_methods d) ++ d_streams d.

Definition service_info (r : reg) : list (string * list minfo * Z) :=
  map (fun e => (d_name (e_desc e), methods_info (e_desc e), d_meta (e_desc e))) r.

(* what grpc.Server reports: it keeps unary methods and streams in maps keyed by
   name, so a repeated name inside one descriptor is kept once (the last one) *)
Fixpoint dedup_last {A} (key : A -> string) (l : list A) : list A :=
  match l with
  | [] => []
  | x :: r => if existsb (fun y => String.eqb (key y) (key x)) r then dedup_last key r else x :: dedup_last key r
  end.

Definition ref_methods_info (d : sdesc) : list minfo :=
  map (fun n => {| mi_name := n; mi_cs := false; mi_ss := false |}) (dedup_last (fun n => n) (d_methods d))
  ++ dedup_last mi_name (d_streams d).

Definition ref_service_info (r : reg) : list (string * list minfo * Z) :=
  map (fun e => (d_name (e_desc e), ref_methods_info (e_desc e), d_meta (e_desc e))) r.

(* histories *)
Inductive op :=
| Reg (d : sdesc) (h : Z) (implements : bool)
| Query (n : string)
| Each
| Info.

Inductive out :=
| ODone | OPanic
| OQuery (r : option (Z * Z))
| OEach (l : list (string * Z * Z))
| OInfo (l : list (string * list minfo * Z)).

Definition step (r : reg) (o : op) : reg * out :=
  match o with
  | Reg d h i => let '(r', oc) := register r d h i in (r', match oc with Panic => OPanic | Done => ODone end)
  | Query n => (r, OQuery (query r n))
  | Each => (r, OEach (for_each r))
  | Info => (r, OInfo (service_info r))
  end.

Fixpoint run (r : reg) (ops : list op) : reg * list out :=
  match ops with
  | [] => (r, [])
  | o :: rest => let '(r', x) := step r o in let '(r'', xs) := run r' rest in (r'', x :: xs)
  end.

Definition final (ops : list op) : reg := fst (run [] ops).

(* the specification: the first successful registration of a name in a history *)
Fixpoint first_reg (n : string) (ops : list op) : option entry :=
  match ops with
  | [] => None
  | Reg d h true :: rest =>
      if String.eqb (d_name d) n then Some {| e_desc := d; e_handler := h |} else first_reg n rest
  | _ :: rest => first_reg n rest
  end.
