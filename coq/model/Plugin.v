(* C19: what protoc-gen-grpchan emits, reduced to the facts the property is about:
   per service one registration function bound to that service's description, and with legacy
   stubs per method a stub (path, call shape, stream index).  Mirrors the loop of
   generateChanStubs (the counter advances on streaming methods only). *)
From Coq Require Import ZArith String List Bool.
Import ListNotations.
Open Scope Z_scope.

Record method := { me_name : string; me_cs : bool; me_ss : bool }.
Record service := { sv_fq : string;      (* fully-qualified name, as in the path *)
                    sv_go : string;      (* CamelCased Go name (computed by the plugin's name library) *)
                    sv_ms : list method }.

Definition streaming (m : method) : bool := me_cs m || me_ss m.

Inductive shape := Unary | ServerStream | ClientOrBidi.

Record stub := { st_path : string; st_shape : shape; st_index : option Z }.

Definition path_of (fq name : string) : string := ("/" ++ fq ++ "/" ++ name)%string.

(* the method loop: streamCount is threaded through *)
Fixpoint gen_methods (fq : string) (ms : list method) (count : Z) : list stub :=
  match ms with
  | [] => []
  | m :: rest =>
      if me_cs m then
        {| st_path := path_of fq (me_name m); st_shape := ClientOrBidi; st_index := Some count |} :: gen_methods fq rest (count + 1)
      else if me_ss m then
        {| st_path := path_of fq (me_name m); st_shape := ServerStream; st_index := Some count |} :: gen_methods fq rest (count + 1)
      else
        {| st_path := path_of fq (me_name m); st_shape := Unary; st_index := None |} :: gen_methods fq rest count
  end.

Definition desc_var (legacy_names : bool) (go : string) : string :=
  if legacy_names then ("_" ++ go ++ "_serviceDesc")%string else (go ++ "_ServiceDesc")%string.

Record svc_out := { o_register : string; o_desc : string; o_stubs : list stub }.

Definition gen_service (legacy_stubs legacy_names : bool) (s : service) : svc_out :=
  {| o_register := ("RegisterHandler" ++ sv_go s)%string;
     o_desc := desc_var legacy_names (sv_go s);
     o_stubs := if legacy_stubs then gen_methods (sv_fq s) (sv_ms s) 0 else [] |}.

Definition gen_file (legacy_stubs legacy_names : bool) (svcs : list service) : list svc_out :=
  map (gen_service legacy_stubs legacy_names) svcs.

(* how the standard generator lays out ServiceDesc.Streams: the streaming methods in declaration order *)
Definition streams_of (s : service) : list method := filter streaming (sv_ms s).
