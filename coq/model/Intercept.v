(* C16 / C17: the interceptor combinators of intercept.go.
   Effects are an explicit event log threaded through every function, so
   interceptors and handlers are ordinary (arbitrary) Gallina functions. *)
From Coq Require Import ZArith String List Bool.
Import ListNotations.
Open Scope Z_scope.

Inductive outcome := Ok (resp : Z) | Err (code : Z).

(* ------------------------------------------------------------------ server side *)
Record info := { i_method : string; i_cs : bool; i_ss : bool }.

Inductive event :=
| Enter (tag : Z) (i : info) (ctx req : Z)       (* an interceptor was entered *)
| Leave (tag : Z)
| Handled (name : string) (ctx req : Z)          (* the original handler ran *)
| BaseCall (method : string) (req : Z) (opts : list Z) (* a client call reached the base channel *)
| ClientEnter (tag : Z) (method : string) (req : Z) (opts : list Z) (cc : bool).

Definition log := list event.
Definition comp := log -> outcome * log.

(* grpc.UnaryHandler, grpc.UnaryServerInterceptor *)
Definition uhandler := Z -> Z -> comp.                       (* ctx, req *)
Definition uint := Z -> Z -> info -> uhandler -> comp.       (* ctx, req, info, next *)
(* a MethodDesc.Handler: given the transport's interceptor (or none), ctx and the decoded request *)
Definition mhandler := option uint -> Z -> Z -> comp.

(* stream side: the stream itself is abstracted to the ctx value it carries *)
Definition shandler := Z -> comp.                            (* stream *)
Definition sint := Z -> info -> shandler -> comp.            (* stream, info, next *)

Record mdesc := { m_name : string; m_handler : mhandler }.
Record stdesc := { s_name : string; s_cs : bool; s_ss : bool; s_handler : shandler }.
Record svcdesc := { sv_name : string; sv_methods : list mdesc; sv_streams : list stdesc; sv_meta : Z }.

(* combinedInterceptor of InterceptServer *)
Definition combine (t : option uint) (u : uint) : uint :=
  match t with
  | None => u
  | Some t => fun ctx req i h => t ctx req i (fun ctx' req' => u ctx' req' i h)
  end.

Definition full_method (svc name : string) : string := ("/" ++ svc ++ "/" ++ name)%string.

(* InterceptServer.  None = the very same descriptor is returned. *)
Definition intercept_server (d : svcdesc) (u : option uint) (s : option sint) : option svcdesc :=
  match u, s with
  | None, None => None
  | _, _ =>
      Some {| sv_name := sv_name d;
              sv_methods := match u with
                            | None => sv_methods d
                            | Some u => map (fun m => {| m_name := m_name m;
                                                         m_handler := fun t ctx req => m_handler m (Some (combine t u)) ctx req |})
                                            (sv_methods d)
                            end;
              sv_streams := match s with
                            | None => sv_streams d
                            | Some s => map (fun x => {| s_name := s_name x; s_cs := s_cs x; s_ss := s_ss x;
                                                         s_handler := fun stream =>
                                                           s stream {| i_method := full_method (sv_name d) (s_name x);
                                                                       i_cs := s_cs x; i_ss := s_ss x |} (s_handler x) |})
                                            (sv_streams d)
                            end;
              sv_meta := sv_meta d |}
  end.

Definition intercepted (d : svcdesc) (u : option uint) (s : option sint) : svcdesc :=
  match intercept_server d u s with Some d' => d' | None => d end.

(* what protoc-gen-go-grpc generates for a unary method: the shape of an original handler *)
Definition generated_handler (svc name : string) (method : uhandler) : mhandler :=
  fun t ctx req =>
    match t with
    | None => method ctx req
    | Some t => t ctx req {| i_method := full_method svc name; i_cs := false; i_ss := false |} method
    end.

(* how a transport dispatches a stream: its own interceptor (if any) around the registered handler *)
Definition dispatch_stream (svc : string) (x : stdesc) (t : option sint) : shandler :=
  match t with
  | None => s_handler x
  | Some t => fun stream => t stream {| i_method := full_method svc (s_name x); i_cs := s_cs x; i_ss := s_ss x |} (s_handler x)
  end.

(* a logging, otherwise transparent interceptor: the reference for "entered once, passes everything on" *)
Definition log_uint (tag : Z) : uint :=
  fun ctx req i h l => let '(o, l') := h ctx req (l ++ [Enter tag i ctx req]) in (o, l' ++ [Leave tag]).
Definition log_sint (tag : Z) : sint :=
  fun stream i h l => let '(o, l') := h stream (l ++ [Enter tag i stream 0]) in (o, l' ++ [Leave tag]).

(* decoration nested n deep: tags listed innermost decoration first *)
Fixpoint decorate (d : svcdesc) (tags : list Z) : svcdesc :=
  match tags with
  | [] => d
  | tg :: rest => decorate (intercepted d (Some (log_uint tg)) (Some (log_sint tg))) rest
  end.

(* THE SPECIFICATION of dispatch, stated directly over the list of interceptors in the order
   they must run (transport's first, then decorations from the outermost in), with no reference
   to how InterceptServer builds its closures *)
Fixpoint spec_chain (us : list uint) (i : info) (method : uhandler) : uhandler :=
  match us with
  | [] => method
  | u :: rest => fun ctx req => u ctx req i (spec_chain rest i method)
  end.

Fixpoint spec_schain (ss : list sint) (i : info) (h : shandler) : shandler :=
  match ss with
  | [] => h
  | s :: rest => fun stream => s stream i (spec_schain rest i h)
  end.

(* decorating with arbitrary interceptors, innermost first *)
Definition decorate_with (d : svcdesc) (us : list uint) : svcdesc :=
  fold_left (fun d u => intercepted d (Some u) None) us d.

Definition opt_list {A} (o : option A) : list A := match o with Some x => [x] | None => [] end.

(* ------------------------------------------------------------------ client side *)
Definition invoker := string -> Z -> list Z -> comp.          (* method, req, opts *)
Definition ucint := string -> Z -> bool -> invoker -> list Z -> comp.   (* method, req, cc<>nil, next, opts *)

Inductive chan :=
| Base (is_grpc : bool) (tag : Z)
| Wrap (u : option ucint) (s : option ucint) (inner : chan).

Fixpoint root_is_grpc (c : chan) : bool :=
  match c with Base g _ => g | Wrap _ _ inner => root_is_grpc inner end.

Definition base_call (tag : Z) : invoker :=
  fun m req opts l => (Ok (req + tag), l ++ [BaseCall m req opts]).

(* interceptedChannel.Invoke / NewStream (stream creation has the same routing shape) *)
Fixpoint invoke (c : chan) : invoker :=
  match c with
  | Base _ tag => base_call tag
  | Wrap None _ inner => invoke inner
  | Wrap (Some ui) _ inner => fun m req opts => ui m req (root_is_grpc inner) (invoke inner) opts
  end.

Fixpoint new_stream (c : chan) : invoker :=
  match c with
  | Base _ tag => base_call tag
  | Wrap _ None inner => new_stream inner
  | Wrap _ (Some si) inner => fun m req opts => si m req (root_is_grpc inner) (new_stream inner) opts
  end.

(* InterceptClientConn: None = the same channel is returned *)
Definition intercept_client (c : chan) (u s : option ucint) : chan :=
  match u, s with None, None => c | _, _ => Wrap u s c end.

Definition unwrap1 (c : chan) : option chan :=
  match c with Wrap _ _ inner => Some inner | Base _ _ => None end.

Definition log_cint (tag : Z) : ucint :=
  fun m req cc next opts l => next m req opts (l ++ [ClientEnter tag m req opts cc]).

(* layers listed outermost first: (tag, has unary interceptor, has stream interceptor) *)
Fixpoint stack (layers : list (Z * bool * bool)) (base : chan) : chan :=
  match layers with
  | [] => base
  | (tg, hu, hs) :: rest =>
      intercept_client (stack rest base) (if hu then Some (log_cint tg) else None)
                                         (if hs then Some (log_cint tg) else None)
  end.
