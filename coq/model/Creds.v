(* C13: per-RPC credentials (internal/call_options.go ApplyPerRPCCreds, called by both
   transports before any request is issued) and the peer reported by the HTTP transport
   (getPeer, peerFromRequest). *)
From Coq Require Import ZArith String List Bool.
From Grpchan Require Import lib.Str.
Import ListNotations.
Open Scope Z_scope.

Definition md := list (string * list string).

Fixpoint md_get (k : string) (m : md) : list string :=
  match m with
  | [] => []
  | (k', vs) :: r => if String.eqb k k' then vs else md_get k r
  end.

Fixpoint md_add (k : string) (vs : list string) (m : md) : md :=   (* append values under k *)
  match m with
  | [] => [(k, vs)]
  | (k', vs') :: r =>
      if String.eqb k k' then (k', vs' ++ vs) :: r
      else (k', vs') :: md_add k vs r
  end.

(* metadata.Join(a, b): per key, a's values then b's *)
Definition md_join (a b : md) : md := fold_left (fun acc kv => md_add (fst kv) (snd kv) acc) b a.

Record cred := { require_secure : bool; cred_md : option md (* None = GetRequestMetadata fails *) }.

Inductive applied :=
| Refused                       (* error returned before any request *)
| Proceed (outgoing : option md).

Definition apply_creds (c : option cred) (secure : bool) (outgoing : option md) : applied :=
  match c with
  | None => Proceed outgoing
  | Some c =>
      if require_secure c && negb secure then Refused
      else match cred_md c with
           | None => Refused
           | Some [] => Proceed outgoing
           | Some m => Proceed (Some (match outgoing with Some o => md_join o m | None => m end))
           end
  end.

(* a call over a transport: how many requests are issued and what the handler sees *)
Record call_out := { requests : Z; failed : bool; handler_md : option md }.

Definition call (https : bool) (inproc : bool) (c : option cred) (outgoing : option md) : call_out :=
  match apply_creds c (inproc || https) outgoing with
  | Refused => {| requests := 0; failed := true; handler_md := None |}
  | Proceed o => {| requests := 1; failed := false; handler_md := o |}
  end.

(* getPeer: address with the scheme's default port; TLS auth info iff the connection uses TLS *)
Definition peer_addr (host : string) (has_port : bool) (https : bool) : string :=
  if has_port then host else (host ++ (if https then ":443" else ":80"))%string.
Definition peer_has_auth (conn_tls : bool) : bool := conn_tls.
