(* The in-process unary call (Channel.Invoke) as a transition system: the server goroutine
   writes its frames (headers, response, trailers, error) to a one-slot channel, skipping a write
   when the call's context has ended, then closes it; the caller loops over a select of the
   channel and ctx.Done.  After the repair, a closed channel is re-checked against the context. *)
From Coq Require Import ZArith List Bool.
Import ListNotations.
Open Scope Z_scope.

Inductive frame := UHdr | UData | UTlr | UErr (c : Z).

Inductive result := Pending | RetNil | RetEOF | RetStatus (c : Z) | RetInternal.

Record st := {
  todo : list frame;        (* frames the server goroutine still has to write, in order *)
  q : list frame;           (* the channel (capacity 1) *)
  closed : bool;
  cctx : Z;                 (* 0 live, 1 canceled, 2 deadline exceeded *)
  skipped : bool;           (* ghost: some write was skipped *)
  recvd : list frame;       (* ghost: frames the caller has taken *)
  got_resp : bool;
  res : result
}.

Definition init (frames : list frame) : st :=
  {| todo := frames; q := []; closed := false; cctx := 0; skipped := false; recvd := []; got_resp := false; res := Pending |}.

Definition ctx_status (k : Z) : Z := if k =? 2 then 4 else 1.

Inductive label := SWrite | SSkip | SClose | CTake | CClosed | CCtx | Cancel (k : Z).

Definition step (s : st) (l : label) : option st :=
  match l with
  | SWrite =>                                   (* the send branch of writeMessage's select *)
      match todo s, q s with
      | f :: r, [] => Some {| todo := r; q := [f]; closed := closed s; cctx := cctx s; skipped := skipped s; recvd := recvd s; got_resp := got_resp s; res := res s |}
      | _, _ => None
      end
  | SSkip =>                                    (* the ctx.Done branch: the frame is not written *)
      match todo s with
      | f :: r => if cctx s =? 0 then None
                  else Some {| todo := r; q := q s; closed := closed s; cctx := cctx s; skipped := true; recvd := recvd s; got_resp := got_resp s; res := res s |}
      | [] => None
      end
  | SClose =>
      match todo s with
      | [] => if closed s then None
              else Some {| todo := []; q := q s; closed := true; cctx := cctx s; skipped := skipped s; recvd := recvd s; got_resp := got_resp s; res := res s |}
      | _ => None
      end
  | CTake =>                                    (* the caller's select takes a frame *)
      match res s, q s with
      | Pending, f :: r =>
          let s1 := {| todo := todo s; q := r; closed := closed s; cctx := cctx s; skipped := skipped s; recvd := recvd s ++ [f]; got_resp := got_resp s; res := res s |} in
          Some match f with
               | UErr c => {| todo := todo s1; q := q s1; closed := closed s1; cctx := cctx s1; skipped := skipped s1; recvd := recvd s1; got_resp := got_resp s1; res := RetStatus c |}
               | UData => if got_resp s
                          then {| todo := todo s1; q := q s1; closed := closed s1; cctx := cctx s1; skipped := skipped s1; recvd := recvd s1; got_resp := true; res := RetInternal |}
                          else {| todo := todo s1; q := q s1; closed := closed s1; cctx := cctx s1; skipped := skipped s1; recvd := recvd s1; got_resp := true; res := res s1 |}
               | _ => s1
               end
      | _, _ => None
      end
  | CClosed =>                                  (* the caller sees the channel closed: re-check the context *)
      match res s, q s with
      | Pending, [] =>
          if closed s
          then Some {| todo := todo s; q := q s; closed := closed s; cctx := cctx s; skipped := skipped s; recvd := recvd s; got_resp := got_resp s;
                       res := if negb (cctx s =? 0) then RetStatus (ctx_status (cctx s))
                              else if got_resp s then RetNil else RetEOF |}
          else None
      | _, _ => None
      end
  | CCtx =>
      match res s with
      | Pending => if cctx s =? 0 then None
                   else Some {| todo := todo s; q := q s; closed := closed s; cctx := cctx s; skipped := skipped s; recvd := recvd s; got_resp := got_resp s;
                                res := RetStatus (ctx_status (cctx s)) |}
      | _ => None
      end
  | Cancel k =>
      if (cctx s =? 0) && ((k =? 1) || (k =? 2))
      then Some {| todo := todo s; q := q s; closed := closed s; cctx := k; skipped := skipped s; recvd := recvd s; got_resp := got_resp s; res := res s |}
      else None
  end.

Inductive reachable (frames : list frame) : st -> Prop :=
| reach_init : reachable frames (init frames)
| reach_step s l s' : reachable frames s -> step s l = Some s' -> reachable frames s'.
