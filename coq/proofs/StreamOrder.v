(* Order and conservation of the frames of the response direction of the complete in-process
   stream LTS (model/InprocStream.v), over every reachable state and every interleaving, with a
   ghost history of the frames pushed onto and popped from the response channel. *)
From Coq Require Import ZArith List Bool Lia.
From Grpchan Require Import gen.Inproc model.InprocStream proofs.StreamInv.
Import ListNotations.
Open Scope Z_scope.

(* ---- ghost histories ---- *)
(* how one step changes the response queue, and the histories with it *)
Inductive qstep (q q' hp hq hp' hq' : list frame) : Prop :=
| qs_same : q' = q -> hp' = hp -> hq' = hq -> qstep q q' hp hq hp' hq'
| qs_push f : q' = q ++ [f] -> hp' = hp ++ [f] -> hq' = hq -> qstep q q' hp hq hp' hq'
| qs_pop f : q = f :: q' -> hp' = hp -> hq' = hq ++ [f] -> qstep q q' hp hq hp' hq'.

(* reachability with the history of pushed (hp) and popped (hq) response frames *)
Inductive hreach (rs : bool) : st -> list frame -> list frame -> Prop :=
| h_init : hreach rs (init rs) [] []
| h_start s x s' hp hq : hreach rs s hp hq -> apply_start s x = Some s' -> hreach rs s' hp hq
| h_internal s a s' r hp hq hp' hq' :
    hreach rs s hp hq -> In (a, (s', r)) (internal s) ->
    qstep (respQ s) (respQ s') hp hq hp' hq' -> hreach rs s' hp' hq'.

Lemma hreach_reachable rs s hp hq : hreach rs s hp hq -> reachable rs s.
Proof.
  induction 1; [apply reach_init|eapply reach_start; eauto|eapply reach_internal; eauto].
Qed.

Lemma start_respQ s x s' : apply_start s x = Some s' -> respQ s' = respQ s.
Proof.
  destruct x as [a o| |]; intro Hs.
  - destruct (apply_start_call _ _ _ _ Hs) as [_ [-> _]]. destruct a; reflexivity.
  - cbn in Hs. injection Hs as <-. destruct (cctx s =? 0); reflexivity.
  - cbn in Hs. injection Hs as <-. destruct (cctx s =? 0); reflexivity.
Qed.

(* conservation: what was pushed is what was popped followed by what is still queued (FIFO, nothing
   lost, duplicated or reordered in the channel) *)
Theorem conservation rs s hp hq : hreach rs s hp hq -> hp = hq ++ respQ s.
Proof.
  induction 1 as [|s x s' hp hq _ IH Hs|s a s' r hp hq hp' hq' _ IH _ Hq].
  - reflexivity.
  - rewrite (start_respQ _ _ _ Hs). exact IH.
  - destruct Hq as [-> -> ->|f -> -> ->|f Hq -> ->].
    + exact IH.
    + rewrite IH, app_assoc. reflexivity.
    + rewrite IH, Hq, <- app_assoc. reflexivity.
Qed.

(* ---- the order automaton: Hdr? Data* Tlr? Err? ---- *)
Definition adv (k : nat) (f : frame) : option nat :=
  match f, k with
  | FHdr _, O => Some 1%nat
  | FData _, (O | S O) => Some 1%nat
  | FTlr _, (O | S O) => Some 2%nat
  | FErr _, (O | S O | S (S O)) => Some 3%nat
  | _, _ => None
  end.

Fixpoint run_aut (k : nat) (l : list frame) : option nat :=
  match l with
  | [] => Some k
  | f :: r => match adv k f with Some k' => run_aut k' r | None => None end
  end.

Lemma run_aut_app k l f : run_aut k (l ++ [f]) = match run_aut k l with Some k' => adv k' f | None => None end.
Proof.
  revert k; induction l as [|g l IH]; intro k; cbn.
  - destruct (adv k f); reflexivity.
  - destruct (adv k g); [apply IH|reflexivity].
Qed.

(* ---- more state invariants ---- *)
Record Inv2 (s : st) : Prop := {
  j_state : sState s = 0 \/ sState s = 1 \/ sState s = 2;
  j_closed : sState s = 2 -> respClosed s = true;
  j_cancel : svrCancelled s = true -> sState s = 2
}.

(* the automaton state allowed by the server stream's state and the handler's phase *)
Definition bound (s : st) (k : nat) : Prop :=
  match pH s with
  | Some (PSendData _) => sState s = 1 /\ (k <= 1)%nat
  | Some (PRetHdr _) => (sState s = 0 -> k = O) /\ (k <= 1)%nat
  | Some (PRetTlr _) => (k <= 1)%nat
  | Some (PRetErr _) => (k <= 2)%nat
  | Some PRetClose => True
  | _ => (sState s = 0 -> k = O) /\ (sState s = 1 -> (k <= 1)%nat)
  end.

Lemma sctx_live s : Inv2 s -> cctx s = 0 -> sState s <> 2 -> sctx s = 0.
Proof.
  intros [_ _ C] Hc Hs. unfold sctx. rewrite Hc. cbn.
  destruct (svrCancelled s); [exfalso; apply Hs, C; reflexivity|reflexivity].
Qed.

Lemma inv2_init rs : Inv2 (init rs).
Proof. constructor; cbn; auto; discriminate. Qed.

Lemma inv2_start s x s' : Inv2 s -> apply_start s x = Some s' -> Inv2 s'.
Proof.
  intros [A B C] Hs. destruct x as [a o| |].
  - destruct (apply_start_call _ _ _ _ Hs) as [_ [-> _]]. destruct a; constructor; cbn; auto.
  - cbn in Hs. injection Hs as <-. destruct (cctx s =? 0); constructor; cbn; auto.
  - cbn in Hs. injection Hs as <-. destruct (cctx s =? 0); constructor; cbn; auto.
Qed.

Lemma bound_start s x s' k : Inv s -> Inv2 s -> bound s k -> apply_start s x = Some s' -> bound s' k.
Proof.
  intros I [A B C] Hb Hs. destruct x as [a o| |].
  - destruct (apply_start_call _ _ _ _ Hs) as [Eg [-> _]].
    unfold bound in *. destruct a; cbn in *; try exact Hb.
    rewrite Eg in Hb. exact Hb.
  - cbn in Hs. injection Hs as <-. unfold bound in *. destruct (cctx s =? 0); cbn; exact Hb.
  - cbn in Hs. injection Hs as <-. unfold bound in *. destruct (cctx s =? 0); cbn; exact Hb.
Qed.

(* client steps: the server stream's state and the handler's phase are untouched; a frame may be popped *)
Lemma client_step_order s a p s' r k :
  a <> H -> Inv2 s -> bound s k -> get_pend s a = Some p -> In (s', r) (steps_of s a p) ->
  Inv2 s' /\ bound s' k /\ (respQ s' = respQ s \/ exists f, respQ s = f :: respQ s').
Proof.
  intros Ha [A B C] Hb Hp Hin.
  destruct a; try congruence; destruct p as [o| | | | | |]; try (destruct Hin; fail); try destruct o; cbn [steps_of] in Hin;
    try (destruct Hin; fail).
  all: split_in Hin.
  all: repeat match goal with H : (if ?c then _ else _) = (_, _) |- _ => destruct c eqn:? end.
  all: try match goal with H : _ = (_, _) |- _ => unfold done, goto in H; injection H as <- <- end.
  all: (split; [constructor; cbn; auto|split; [unfold bound in *; cbn in *; exact Hb|]]).
  all: cbn [respQ set_pend upd_cli upd_req upd_srv upd_ctx].
  all: try (left; reflexivity).
  all: try (right; eexists; eassumption).
  all: try (left; symmetry; assumption).
  all: try (left; assumption).
  all: try (right; eexists; reflexivity).
Qed.

(* handler steps: a push is always of a frame the automaton accepts in its current state *)
Definition push_ok (s s' : st) (k : nat) : Prop :=
  (respQ s' = respQ s /\ bound s' k) \/
  (exists f k', respQ s' = respQ s ++ [f] /\ adv k f = Some k' /\ bound s' k').

Lemma adv_hdr k m : k = O -> adv k (FHdr m) = Some 1%nat.
Proof. intros ->. reflexivity. Qed.
Lemma adv_data k x : (k <= 1)%nat -> adv k (FData x) = Some 1%nat.
Proof. destruct k as [|[|k]]; cbn; [reflexivity|reflexivity|lia]. Qed.
Lemma adv_tlr k m : (k <= 1)%nat -> adv k (FTlr m) = Some 2%nat.
Proof. destruct k as [|[|k]]; cbn; [reflexivity|reflexivity|lia]. Qed.
Lemma adv_err k c : (k <= 2)%nat -> adv k (FErr c) = Some 3%nat.
Proof. destruct k as [|[|[|k]]]; cbn; try reflexivity; lia. Qed.

Ltac zb :=
  repeat match goal with
         | H : negb _ = true |- _ => apply negb_true_iff in H
         | H : negb _ = false |- _ => apply negb_false_iff in H
         | H : _ || _ = false |- _ => apply orb_false_iff in H; destruct H
         | H : _ && _ = true |- _ => apply andb_true_iff in H; destruct H
         | H : (_ =? _) = true |- _ => apply Z.eqb_eq in H
         | H : (_ =? _) = false |- _ => apply Z.eqb_neq in H
         end.

Ltac fields := cbn [reqQ reqClosed respQ respClosed cctx svrDone svrCancelled sState sHdr sTlr cState cLast cHdr cTlr
                    sendClosed respStream pCS pCC pCR pH panicked set_pend upd_req upd_srv upd_cli upd_ctx] in *.

Lemma handler_step_order s p s' r k :
  Inv s -> Inv2 s -> cctx s = 0 -> bound s k -> get_pend s H = Some p -> In (s', r) (steps_of s H p) ->
  Inv2 s' /\ push_ok s s' k.
Proof.
  intros I I2 Hc Hb Hp Hin. pose proof (sctx_live s I2 Hc) as Hlive.
  destruct I as [_ _ _ _ E F G]. destruct I2 as [A B C].
  cbn in Hp. unfold h_phase_ok in F. unfold bound in Hb. rewrite Hp in F, Hb.
  destruct p as [o| | | | | |]; try destruct o; cbn [steps_of] in Hin; try (destruct Hin; fail).
  all: split_in Hin.
  all: repeat match goal with H : (if ?c then _ else _) = (_, _) |- _ => destruct c eqn:? end.
  all: try match goal with H : _ = (_, _) |- _ => unfold done, goto in H; injection H as <- <- end.
  all: unfold sctx in *; fields; try rewrite Hc in *; cbn [Z.eqb negb] in *; zb.
  all: try (exfalso; congruence).
  all: try (exfalso; lia).
  all: try match type of Hb with _ /\ _ => destruct Hb as [Hb1 Hb2] end.
  all: destruct A as [A|[A|A]].
  all: try (exfalso; lia).
  all: try (exfalso; rewrite (B A) in *; discriminate).
  all: repeat match goal with Hi : ?P -> _, Hx : ?P |- _ => specialize (Hi Hx) end.
  all: (split; [constructor; fields; auto; try lia; try (intros; lia); try (intros; exfalso; lia);
                try (let X := fresh in intro X; apply C in X; lia)|]).
  all: unfold push_ok, bound; fields.
  all: try (left; split; [reflexivity|]; try rewrite Hp; auto; try lia; try (split; intros; lia); fail).
  all: try (right; do 2 eexists; split; [reflexivity|split; [first [apply adv_hdr|apply adv_data|apply adv_tlr|apply adv_err]|]];
            auto; try lia; try (split; intros; lia); fail).
Qed.

(* Inv2 is preserved by every internal step, whatever the contexts *)
Lemma inv2_step s a p s' r :
  Inv2 s -> get_pend s a = Some p -> In (s', r) (steps_of s a p) -> Inv2 s'.
Proof.
  intros [A B C] Hp Hin.
  destruct a; destruct p as [o| | | | | |]; try (destruct Hin; fail); try destruct o; cbn [steps_of] in Hin;
    try (destruct Hin; fail).
  all: split_in Hin.
  all: repeat match goal with H : (if ?c then _ else _) = (_, _) |- _ => destruct c eqn:? end.
  all: try match goal with H : _ = (_, _) |- _ => unfold done, goto in H; injection H as <- <- end.
  all: fields; zb.
  all: constructor; fields; auto; try lia; try (intros; lia);
       try (let X := fresh in intro X; apply C in X; lia).
Qed.

Lemma inv2_internal s a s' r : Inv2 s -> In (a, (s', r)) (internal s) -> Inv2 s'.
Proof.
  intros I Hin. unfold internal in Hin. apply in_flat_map in Hin. destruct Hin as [a' [_ Hin]].
  destruct (get_pend s a') as [p|] eqn:Ep; [|destruct Hin].
  apply in_map_iff in Hin. destruct Hin as [[s2 r2] [Heq Hin]]. injection Heq as -> -> ->.
  eapply inv2_step; eauto.
Qed.

Lemma internal_cctx s a s' r : In (a, (s', r)) (internal s) -> cctx s' = cctx s.
Proof.
  intro Hin. unfold internal in Hin. apply in_flat_map in Hin. destruct Hin as [a' [_ Hin]].
  destruct (get_pend s a') as [p|] eqn:Ep; [|destruct Hin].
  apply in_map_iff in Hin. destruct Hin as [[s2 r2] [Heq Hin]]. injection Heq as -> -> ->.
  destruct a; destruct p as [o| | | | | |]; try (destruct Hin; fail); try destruct o; cbn [steps_of] in Hin;
    try (destruct Hin; fail).
  all: split_in Hin.
  all: repeat match goal with H : (if ?c then _ else _) = (_, _) |- _ => destruct c eqn:? end.
  all: try match goal with H : _ = (_, _) |- _ => unfold done, goto in H; injection H as <- <- end.
  all: reflexivity.
Qed.

Lemma start_cctx s x s' : apply_start s x = Some s' -> cctx s' = 0 -> cctx s = 0.
Proof.
  destruct x as [a o| |]; intros Hs Hc.
  - destruct (apply_start_call _ _ _ _ Hs) as [_ [-> _]]. destruct a; exact Hc.
  - cbn in Hs. injection Hs as <-. destruct (cctx s =? 0) eqn:E; [cbn in Hc; discriminate|exact Hc].
  - cbn in Hs. injection Hs as <-. destruct (cctx s =? 0) eqn:E; [cbn in Hc; discriminate|exact Hc].
Qed.

Lemma app_one_neq {A} (q : list A) f : q ++ [f] <> q.
Proof. intro E. apply (f_equal (@length A)) in E. rewrite app_length in E. cbn in E. lia. Qed.
Lemma cons_app_neq {A} (q : list A) f g : q <> g :: (q ++ [f]).
Proof. intro E. apply (f_equal (@length A)) in E. cbn in E. rewrite app_length in E. cbn in E. lia. Qed.
Lemma cons_neq {A} (q : list A) g : q <> g :: q.
Proof. intro E. apply (f_equal (@length A)) in E. cbn in E. lia. Qed.

(* the main invariant: while the caller's context is live, the frames pushed so far are accepted
   by the order automaton, in a state compatible with the handler's phase *)
Definition K (s : st) (hp : list frame) : Prop :=
  cctx s = 0 -> exists k, run_aut 0 hp = Some k /\ bound s k.

Theorem order_invariant rs s hp hq : hreach rs s hp hq -> Inv2 s /\ K s hp.
Proof.
  induction 1 as [|s x s' hp hq R [I2 IH] Hs|s a s' r hp hq hp' hq' R [I2 IH] Hin Hq].
  - split; [apply inv2_init|]. intros _. exists O. split; [reflexivity|]. unfold bound; cbn. split; intros; [reflexivity|lia].
  - split; [eapply inv2_start; eauto|]. intro Hc.
    destruct (IH (start_cctx _ _ _ Hs Hc)) as [k [Hr Hb]]. exists k. split; [exact Hr|].
    eapply bound_start; eauto. apply (inv_reachable rs). eapply hreach_reachable; eauto.
  - split; [eapply inv2_internal; eauto|]. intro Hc.
    rewrite (internal_cctx _ _ _ _ Hin) in Hc. destruct (IH Hc) as [k [Hr Hb]].
    pose proof (inv_reachable rs s (hreach_reachable _ _ _ _ R)) as I.
    unfold internal in Hin. apply in_flat_map in Hin. destruct Hin as [a' [_ Hin]].
    destruct (get_pend s a') as [p|] eqn:Ep; [|destruct Hin].
    apply in_map_iff in Hin. destruct Hin as [[s2 r2] [Heq Hin]]. injection Heq as -> -> ->.
    destruct (actor_eq_dec a H) as [->|Hne].
    + destruct (handler_step_order s p s' r k I I2 Hc Hb Ep Hin) as [_ [[Hsame Hb']|[f [k' [Hpush [Ha Hb']]]]]].
      * exists k. split; [|exact Hb'].
        destruct Hq as [_ -> _|f Hq _ _|f Hq _ _]; [exact Hr| |].
        -- rewrite Hsame in Hq. symmetry in Hq. exfalso. eapply app_one_neq; eauto.
        -- rewrite Hsame in Hq. exfalso. eapply cons_neq; eauto.
      * exists k'. split; [|exact Hb'].
        destruct Hq as [Hq _ _|f0 Hq -> _|f0 Hq _ _].
        -- rewrite Hpush in Hq. exfalso. eapply app_one_neq; eauto.
        -- rewrite Hpush in Hq. apply app_inj_tail in Hq. destruct Hq as [_ <-].
           rewrite run_aut_app, Hr. exact Ha.
        -- rewrite Hpush in Hq. exfalso. eapply cons_app_neq; eauto.
    + destruct (client_step_order s a p s' r k Hne I2 Hb Ep Hin) as [_ [Hb' Hshape]].
      exists k. split; [|exact Hb'].
      destruct Hq as [_ -> _|f Hq _ _|f Hq -> _]; [exact Hr| |exact Hr].
      destruct Hshape as [Hsame|[g Hpop]].
      * rewrite Hsame in Hq. symmetry in Hq. exfalso. eapply app_one_neq; eauto.
      * rewrite Hpop in Hq. exfalso. apply (f_equal (@length frame)) in Hq. rewrite app_length in Hq. cbn in Hq. lia.
Qed.


(* ---- what the automaton accepts: Hdr? Data* Tlr? Err? ---- *)
Definition opt_frame {A} (c : A -> frame) (o : option A) : list frame := match o with Some x => [c x] | None => [] end.
Definition shape (h : option md) (ds : list Z) (t : option md) (e : option Z) : list frame :=
  opt_frame FHdr h ++ map FData ds ++ opt_frame FTlr t ++ opt_frame FErr e.

Lemma run3 l k : run_aut 3 l = Some k -> l = [].
Proof. destruct l as [|[m|x|m|c] l]; cbn; intro E; [reflexivity|discriminate..]. Qed.
Lemma run2 l k : run_aut 2 l = Some k -> exists e, l = opt_frame FErr e.
Proof.
  destruct l as [|[m|x|m|c] l]; cbn; intro E; try discriminate.
  - exists None; reflexivity.
  - apply run3 in E. subst l. exists (Some c); reflexivity.
Qed.
Lemma run1 l : forall k, run_aut 1 l = Some k -> exists ds t e, l = map FData ds ++ opt_frame FTlr t ++ opt_frame FErr e.
Proof.
  induction l as [|f l IH]; intros k E.
  - exists [], None, None; reflexivity.
  - destruct f as [m|x|m|c]; cbn in E; try discriminate.
    + destruct (IH _ E) as [ds [t [e ->]]]. exists (x :: ds), t, e; reflexivity.
    + destruct (run2 _ _ E) as [e ->]. exists [], (Some m), e; reflexivity.
    + apply run3 in E. subst l. exists [], None, (Some c); reflexivity.
Qed.
Lemma run0 l k : run_aut 0 l = Some k -> exists h ds t e, l = shape h ds t e.
Proof.
  destruct l as [|f l]; intro E.
  - exists None, [], None, None; reflexivity.
  - destruct f as [m|x|m|c]; cbn in E.
    + destruct (run1 _ _ E) as [ds [t [e ->]]]. exists (Some m), ds, t, e; reflexivity.
    + destruct (run1 _ _ E) as [ds [t [e ->]]]. exists None, (x :: ds), t, e; reflexivity.
    + destruct (run2 _ _ E) as [e ->]. exists None, [], (Some m), e; reflexivity.
    + apply run3 in E. subst l. exists None, [], None, (Some c); reflexivity.
Qed.

(* THE ORDER THEOREM.  In every reachable state of the complete stream, under every interleaving of
   the client's sender, closer and receiver with the handler, as long as the caller's context is
   live: the frames the server side has put on the response channel are, in this order, at most
   one header frame, then message frames only, then at most one trailer frame, then at most one
   error frame. *)
Theorem frames_in_order rs s hp hq :
  hreach rs s hp hq -> cctx s = 0 -> exists h ds t e, hp = shape h ds t e.
Proof.
  intros R Hc. destruct (order_invariant _ _ _ _ R) as [_ HK]. destruct (HK Hc) as [k [Hr _]].
  eapply run0; eauto.
Qed.

(* what the client library has taken off is a prefix of what was pushed, so the messages it has
   taken are the first messages pushed, in order, none lost or repeated -- contexts live or not *)
Definition datas (l : list frame) : list Z := flat_map (fun f => match f with FData x => [x] | _ => [] end) l.

Theorem taken_prefix_of_pushed rs s hp hq :
  hreach rs s hp hq -> exists rest, hp = hq ++ rest /\ datas hp = datas hq ++ datas rest /\ (length rest <= resp_capn)%nat.
Proof.
  intro R. exists (respQ s). pose proof (conservation _ _ _ _ R) as E. split; [exact E|]. split.
  - rewrite E. unfold datas. apply flat_map_app.
  - apply (i_resp _ (inv_reachable rs s (hreach_reachable _ _ _ _ R))).
Qed.

(* ---- non-vacuity: a run whose history uses every part of the shape ---- *)
Definition frame_eq_dec (a b : frame) : {a = b} + {a <> b}.
Proof. decide equality; try apply Z.eq_dec; apply (list_eq_dec Z.eq_dec). Defined.
Definition frames_eq_dec := list_eq_dec frame_eq_dec.

Definition hist_step (q q' hp hq : list frame) : option (list frame * list frame) :=
  if frames_eq_dec q' q then Some (hp, hq)
  else match rev q' with
       | f :: _ => if frames_eq_dec q' (q ++ [f]) then Some (hp ++ [f], hq)
                   else match q with g :: r => if frames_eq_dec q' r then Some (hp, hq ++ [g]) else None | [] => None end
       | [] => match q with g :: r => if frames_eq_dec q' r then Some (hp, hq ++ [g]) else None | [] => None end
       end.

Lemma hist_step_sound q q' hp hq hp' hq' : hist_step q q' hp hq = Some (hp', hq') -> qstep q q' hp hq hp' hq'.
Proof.
  unfold hist_step. destruct (frames_eq_dec q' q) as [->|_].
  - intro E; injection E as <- <-. apply qs_same; reflexivity.
  - assert (Hpop : match q with g :: r => if frames_eq_dec q' r then Some (hp, hq ++ [g]) else None | [] => None end = Some (hp', hq') ->
                   qstep q q' hp hq hp' hq').
    { destruct q as [|g r]; [discriminate|]. destruct (frames_eq_dec q' r) as [->|_]; [|discriminate].
      intro E; injection E as <- <-. eapply qs_pop; reflexivity. }
    destruct (rev q') as [|f l]; [exact Hpop|].
    destruct (frames_eq_dec q' (q ++ [f])) as [->|_]; [|exact Hpop].
    intro E; injection E as <- <-. eapply qs_push; reflexivity.
Qed.

Fixpoint hexec (s : st) (hp hq : list frame) (l : list mv) : option (st * list frame * list frame) :=
  match l with
  | [] => Some (s, hp, hq)
  | MStart x :: r => match apply_start s x with Some s' => hexec s' hp hq r | None => None end
  | MInt n :: r => match nth_error (internal s) n with
                   | Some (_, (s', _)) => match hist_step (respQ s) (respQ s') hp hq with
                                          | Some (hp', hq') => hexec s' hp' hq' r
                                          | None => None
                                          end
                   | None => None
                   end
  end.

Lemma hexec_hreach rs l : forall s hp hq s' hp' hq',
  hreach rs s hp hq -> hexec s hp hq l = Some (s', hp', hq') -> hreach rs s' hp' hq'.
Proof.
  induction l as [|m l IH]; intros s hp hq s' hp' hq' R He; cbn [hexec] in He.
  - injection He as <- <- <-. exact R.
  - destruct m as [x|n]; cbn [hexec] in He.
    + destruct (apply_start s x) as [s1|] eqn:Ea; [|discriminate]. eapply IH; [|exact He]. eapply h_start; eauto.
    + destruct (nth_error (internal s) n) as [[a [s1 r]]|] eqn:En; [|discriminate].
      destruct (hist_step (respQ s) (respQ s1) hp hq) as [[hp1 hq1]|] eqn:Eh; [|discriminate].
      eapply IH; [|exact He]. eapply h_internal; [exact R|eapply nth_error_In; exact En|apply hist_step_sound; exact Eh].
Qed.

(* headers set, a message sent, a trailer set, the handler fails with NotFound, the client receives
   everything: header, message, trailer and error frames were pushed in that order and all taken *)
(* headers set, a message sent, a trailer set, the handler fails with NotFound, the client receives
   everything: header, message, trailer and error frames were pushed in that order and all taken *)
Example full_shape_reachable :
  exists s hq, hreach true s (shape (Some [7]) [9] (Some [8]) (Some 5)) hq /\ cctx s = 0 /\ datas hq = [9].
Proof.
  destruct (hexec (init true) [] []
     [MStart (Call H (HSetHeader [7])); MInt 0; MStart (Call H (HSetTrailer [8])); MInt 0;
      MStart (Call H (HSend 9)); MInt 0; MStart (Call CR CRecv); MInt 0; MInt 0; MInt 0;
      MStart (Call H (HReturn 5)); MInt 0; MInt 0; MInt 0; MStart (Call CR CRecv); MInt 0; MInt 0; MInt 0; MInt 0])
    as [[[s hp] hq]|] eqn:E.
  - exists s, hq. pose proof (hexec_hreach true _ _ _ _ _ _ _ (h_init true) E) as R.
    vm_compute in E. injection E as <- <- <-. split; [exact R|]. split; reflexivity.
  - vm_compute in E. discriminate.
Qed.

(* ---- the histories restrict nothing: every step has one of the three shapes ---- *)
Lemma step_shape s a p s' r :
  get_pend s a = Some p -> In (s', r) (steps_of s a p) ->
  respQ s' = respQ s \/ (exists f, respQ s' = respQ s ++ [f]) \/ (exists f, respQ s = f :: respQ s').
Proof.
  intros Hp Hin.
  destruct a; destruct p as [o| | | | | |]; try (destruct Hin; fail); try destruct o; cbn [steps_of] in Hin;
    try (destruct Hin; fail).
  all: split_in Hin.
  all: repeat match goal with H : (if ?c then _ else _) = (_, _) |- _ => destruct c eqn:? end.
  all: try match goal with H : _ = (_, _) |- _ => unfold done, goto in H; injection H as <- <- end.
  all: fields.
  all: try (left; reflexivity).
  all: try (left; assumption).
  all: try (left; symmetry; assumption).
  all: try (right; left; eexists; reflexivity).
  all: try (right; right; eexists; reflexivity).
  all: try (right; right; eexists; eassumption).
Qed.

Theorem reachable_has_history rs s : reachable rs s -> exists hp hq, hreach rs s hp hq.
Proof.
  induction 1 as [|s x s' _ [hp [hq IH]] Hs|s a s' r _ [hp [hq IH]] Hin].
  - exists [], []. constructor.
  - exists hp, hq. eapply h_start; eauto.
  - assert (Hsh : respQ s' = respQ s \/ (exists f, respQ s' = respQ s ++ [f]) \/ (exists f, respQ s = f :: respQ s')).
    { pose proof Hin as Hin'. unfold internal in Hin'. apply in_flat_map in Hin'. destruct Hin' as [a' [_ Hin']].
      destruct (get_pend s a') as [p|] eqn:Ep; [|destruct Hin'].
      apply in_map_iff in Hin'. destruct Hin' as [[s2 r2] [Heq Hin']]. injection Heq as -> -> ->.
      eapply step_shape; eauto. }
    destruct Hsh as [E|[[f E]|[f E]]].
    + exists hp, hq. eapply h_internal; [exact IH|exact Hin|apply qs_same; auto].
    + exists (hp ++ [f]), hq. eapply h_internal; [exact IH|exact Hin|eapply qs_push; eauto].
    + exists hp, (hq ++ [f]). eapply h_internal; [exact IH|exact Hin|eapply qs_pop; eauto].
Qed.
