From Coq Require Import ZArith String List Bool Lia.
From Grpchan Require Import lib.Str model.Creds.
Import ListNotations.
Open Scope Z_scope.

Theorem insecure_refused c out :
  require_secure c = true -> call false false (Some c) out = {| requests := 0; failed := true; handler_md := None |}.
Proof. intro H. unfold call, apply_creds. rewrite H. reflexivity. Qed.

Theorem cred_error_refused https inproc rs out :
  call https inproc (Some {| require_secure := rs; cred_md := None |}) out =
  {| requests := 0; failed := true; handler_md := None |}.
Proof. unfold call, apply_creds. cbn. destruct (rs && negb (inproc || https)); reflexivity. Qed.

Theorem no_creds_unchanged https inproc out :
  call https inproc None out = {| requests := 1; failed := false; handler_md := out |}.
Proof. reflexivity. Qed.

Lemma md_get_add_same k vs m : md_get k (md_add k vs m) = md_get k m ++ vs.
Proof.
  induction m as [|[k' vs'] r IH]; cbn [md_add md_get]; [now rewrite String.eqb_refl|].
  destruct (String.eqb k k') eqn:E; cbn [md_get]; rewrite E; [reflexivity|exact IH].
Qed.

Lemma md_get_add_other k k2 vs m : k <> k2 -> md_get k (md_add k2 vs m) = md_get k m.
Proof.
  intro Hne. apply String.eqb_neq in Hne.
  induction m as [|[k' vs'] r IH]; cbn [md_add md_get]; [now rewrite Hne|].
  destruct (String.eqb k2 k') eqn:E2; cbn [md_get].
  - apply String.eqb_eq in E2. subst k'. now rewrite Hne.
  - destruct (String.eqb k k'); [reflexivity|exact IH].
Qed.

(* for every key: the caller's values followed by the credential's (credential keys distinct) *)
Theorem join_values k : forall b a,
  NoDup (map fst b) -> md_get k (md_join a b) = md_get k a ++ md_get k b.
Proof.
  unfold md_join. induction b as [|[k2 vs] b IH]; intros a Hnd; cbn [fold_left md_get].
  - now rewrite app_nil_r.
  - inversion Hnd as [|? ? Hnin Hnd']; subst. rewrite IH by exact Hnd'. cbn [fst snd].
    destruct (String.eqb_spec k k2) as [->|Hne].
    + rewrite md_get_add_same, <- app_assoc. f_equal.
      assert (md_get k2 b = []) as ->; [|now rewrite app_nil_r].
      clear -Hnin. induction b as [|[k3 v3] b IHb]; cbn; [reflexivity|].
      cbn in Hnin. destruct (String.eqb_spec k2 k3); [exfalso; apply Hnin; now left|]. apply IHb. tauto.
    + now rewrite md_get_add_other by exact Hne.
Qed.

Theorem merged_for_handler https inproc c m out k :
  cred_md c = Some m -> m <> [] -> NoDup (map fst m) -> (require_secure c && negb (inproc || https)) = false ->
  exists h, handler_md (call https inproc (Some c) out) = Some h /\
            md_get k h = md_get k (match out with Some o => o | None => [] end) ++ md_get k m.
Proof.
  intros Hm Hne Hnd Hs. unfold call, apply_creds. rewrite Hs, Hm.
  destruct m as [|x m']; [congruence|]. destruct out as [o|]; cbn [handler_md].
  - eexists. split; [reflexivity|]. now apply join_values.
  - eexists. split; [reflexivity|]. reflexivity.
Qed.

Theorem peer_auth_iff_tls conn_tls : peer_has_auth conn_tls = true <-> conn_tls = true.
Proof. reflexivity. Qed.

Theorem peer_default_port host https : peer_addr host false https = (host ++ (if https then ":443" else ":80"))%string.
Proof. reflexivity. Qed.

Lemma example :
  call false false (Some {| require_secure := false; cred_md := Some [("k"%string, ["c"%string]); ("t"%string, ["tok"%string])] |})
       (Some [("k"%string, ["a"%string; "b"%string])]) =
  {| requests := 1; failed := false; handler_md := Some [("k"%string, ["a"; "b"; "c"]%string); ("t"%string, ["tok"%string])] |}.
Proof. reflexivity. Qed.
