(* Termination side of C05 for the HTTP client stream (model/HttpClient.v):
   (1) every run of internal steps is finite, with an explicit bound (no livelock, and the exploration fuel of
       the correspondence check is enough);
   (2) once the call's context has ended, or the stream is marked done, or the transport has delivered the end
       of the body, no receive stays blocked: a state in which nothing can move has no pending RecvMsg. *)
From Coq Require Import ZArith List Bool Lia.
From Grpchan Require Import model.HttpClient proofs.HttpClient.
From Grpchan Require proofs.HttpTrace.
Import ListNotations.
Open Scope Z_scope.

Definition ph_w (p : rphase) : nat := match p with RHold _ => 5 | RRead => 4 | RDrain _ _ => 2 | RExit => 0 end.
Definition pd_w (p : option pend) : nat :=
  match p with Some PStart => 4 | Some PWait => 3 | Some (PWait2 _) => 2 | Some PGot2 => 1 | None => 0 end.
Definition mu (s : st) : nat := (3 * length (body s) + ph_w (rph s) + pd_w (pCR s))%nat.

Lemma internal_decreases s a s' r : In (a, (s', r)) (internal s) -> (mu s' < mu s)%nat.
Proof.
  intro Hin. unfold internal in Hin. apply in_app_or in Hin. destruct Hin as [Hin|Hin].
  - apply in_map_iff in Hin. destruct Hin as [[s2 r2] [Heq Hin]]. injection Heq as <- -> ->.
    unfold reader_steps in Hin. destruct (rph s) eqn:Eph; [| | |destruct Hin].
    all: split_in Hin.
    all: try match goal with H : _ = (_, _) |- _ => injection H as <- <- end.
    all: unfold mu; unf; rewrite ?Eph.
    all: repeat match goal with E : body ?s = _ |- _ => rewrite E in *; clear E end.
    all: cbn [ph_w length]; lia.
  - destruct (pCR s) as [p|] eqn:Ep; [|destruct Hin].
    apply in_map_iff in Hin. destruct Hin as [[s2 r2] [Heq Hin]]. injection Heq as <- -> ->.
    unfold receiver_steps in Hin. destruct p.
    all: split_in Hin.
    all: repeat match goal with
                | H : (if ?c then _ else _) = (_, _) |- _ => destruct c eqn:?
                | H : match ?x with _ => _ end = (_, _) |- _ => destruct x eqn:?
                end.
    all: try match goal with H : _ = (_, _) |- _ => unfold ret in H; injection H as <- <- end.
    all: unfold mu; unf; rewrite ?Ep.
    all: repeat match goal with E : rph ?s = _ |- _ => rewrite E in *; clear E end.
    all: cbn [ph_w pd_w]; lia.
Qed.

(* n internal steps *)
Inductive irun : st -> nat -> st -> Prop :=
| ir_nil s : irun s O s
| ir_step s a s1 r n s2 : In (a, (s1, r)) (internal s) -> irun s1 n s2 -> irun s (S n) s2.

Theorem internal_runs_are_bounded s n s' : irun s n s' -> (n + mu s' <= mu s)%nat.
Proof.
  induction 1 as [|s a s1 r n s2 Hin _ IH]; [lia|]. apply internal_decreases in Hin. lia.
Qed.

(* so between two events of the environment at most 3*|body| + 9 steps happen *)
Corollary internal_run_length s n s' : irun s n s' -> (n <= 3 * length (body s) + 9)%nat.
Proof.
  intro R. apply internal_runs_are_bounded in R. unfold mu in R.
  assert (ph_w (rph s) <= 5)%nat by (destruct (rph s); cbn; lia).
  assert (pd_w (pCR s) <= 4)%nat by (destruct (pCR s) as [[]|]; cbn; lia).
  lia.
Qed.

(* the exploration of the correspondence check never runs out of fuel when it is given more than mu *)
Theorem explore_has_enough_fuel f : forall s acc, (mu s < f)%nat -> ~ In None (explore f s acc).
Proof.
  induction f as [|f IH]; intros s acc Hm Hin; [lia|]. cbn [explore] in Hin.
  destruct (internal s) as [|x steps] eqn:Ei.
  - destruct Hin as [Hin|[]]. discriminate.
  - apply in_flat_map in Hin. destruct Hin as [[a [s' r]] [Hx Hin]].
    assert (Hd : (mu s' < mu s)%nat) by (apply (internal_decreases s a s' r); rewrite Ei; exact Hx).
    apply (IH s' _ ltac:(lia) Hin).
Qed.

(* ---- no blocked receive ---- *)
Record Live (s : st) : Prop := {
  l_avail : ended s = true -> (length (body s) <= avail s)%nat;
  l_done : done s = true -> rph s = RExit \/ libCancel s = true
}.

Lemma live_init rs b0 e0 : Live (init rs b0 e0).
Proof. constructor; cbn; intro X; discriminate X. Qed.

Lemma firstn_le {A} n (l : list A) : (length (firstn n l) <= n)%nat.
Proof. rewrite firstn_length. lia. Qed.

Lemma live_start s x s' : Live s -> apply_start s x = Some s' -> Live s'.
Proof.
  intros [A B] Hs. destruct x; unfold apply_start in Hs.
  - destruct (pCR s); [discriminate|]. injection Hs as <-. constructor; unf; assumption.
  - destruct (Nat.ltb (avail s) (length (body s))) eqn:E; [|discriminate]. injection Hs as <-.
    constructor; unf; [|assumption]. intro X. specialize (A X). apply Nat.ltb_lt in E. lia.
  - destruct (ended s); [discriminate|]. injection Hs as <-. constructor; cbn; [|assumption].
    intros _. apply firstn_le.
  - injection Hs as <-. destruct (cctx s =? 0); [constructor; cbn; assumption|constructor; assumption].
  - injection Hs as <-. destruct (cctx s =? 0); [constructor; cbn; assumption|constructor; assumption].
Qed.

Lemma live_step s a s' r : Live s -> In (a, (s', r)) (internal s) -> Live s'.
Proof.
  intros [A B] Hin. unfold internal in Hin. apply in_app_or in Hin. destruct Hin as [Hin|Hin].
  - apply in_map_iff in Hin. destruct Hin as [[s2 r2] [Heq Hin]]. injection Heq as <- -> ->.
    unfold reader_steps in Hin. destruct (rph s) eqn:Eph; [| | |destruct Hin].
    all: split_in Hin.
    all: try match goal with H : _ = (_, _) |- _ => injection H as <- <- end.
    all: constructor; unf.
    all: repeat match goal with E : body ?s = _ |- _ => rewrite E in *; clear E end.
    all: repeat match goal with E : avail ?s = _ |- _ => rewrite E in *; clear E end.
    all: cbn [length] in *.
    all: try (intro X; specialize (A X); lia).
    all: try (intros _; left; reflexivity).
    all: try (intro X; destruct (B X) as [Y|Y]; [discriminate Y|right; exact Y]).
    all: try assumption.
    all: try (intros _; lia).
  - destruct (pCR s) as [p|] eqn:Ep; [|destruct Hin].
    apply in_map_iff in Hin. destruct Hin as [[s2 r2] [Heq Hin]]. injection Heq as <- -> ->.
    unfold receiver_steps in Hin. destruct p.
    all: split_in Hin.
    all: repeat match goal with
                | H : (if ?c then _ else _) = (_, _) |- _ => destruct c eqn:?
                | H : match ?x with _ => _ end = (_, _) |- _ => destruct x eqn:?
                end.
    all: try match goal with H : _ = (_, _) |- _ => unfold ret in H; injection H as <- <- end.
    all: constructor; unf.
    all: try assumption.
    all: try (intro X; destruct (B X) as [Y|Y]; [congruence|right; exact Y]).
    all: try (intros _; exact (B eq_refl)).
    all: destruct (rErr s); rewrite ?orb_false_r, ?orb_true_r; [exact B|intros _; right; reflexivity].
Qed.

Lemma live_reachable rs b0 e0 s rd dn lg : hreach rs b0 e0 s rd dn lg -> Live s.
Proof.
  induction 1 as [|s x s' rd dn lg _ IH Hs|s a s' r rd dn lg rd' dn' lg' _ IH Hin Hb Hl].
  - apply live_init.
  - eapply live_start; eauto.
  - eapply live_step; eauto.
Qed.

(* a state in which no internal step is enabled *)
Definition quiescent (s : st) : Prop := internal s = [].

Lemma receiver_moves_when_closed s p :
  rph s = RExit -> chClosed s = true -> receiver_steps s p <> [].
Proof.
  intros Hx Hc E. unfold receiver_steps, lock_held in E. rewrite Hx, Hc in E.
  destruct p.
  - destruct (done s); discriminate E.
  - apply app_eq_nil in E. destruct E as [_ E]. cbn in E. discriminate E.
  - apply app_eq_nil in E. destruct E as [_ E]. cbn in E. discriminate E.
  - discriminate E.
Qed.

Lemma receiver_moves_when_held s p x : rph s = RHold x -> receiver_steps s p <> [].
Proof.
  intros Hx E. unfold receiver_steps, lock_held in E. rewrite Hx in E.
  destruct p.
  - destruct (done s); discriminate E.
  - apply app_eq_nil in E. destruct E as [_ E]. destruct (respStream s); discriminate E.
  - apply app_eq_nil in E. destruct E as [_ E]. discriminate E.
  - discriminate E.
Qed.

Lemma reader_moves_when_ctx_done s : sctx s <> 0 -> rph s <> RExit -> reader_steps s <> [].
Proof.
  intros Hc Hx E. apply Z.eqb_neq in Hc. unfold reader_steps in E. rewrite Hc in E. cbn [negb] in E.
  destruct (rph s); [| | |exact (Hx eq_refl)].
  - apply app_eq_nil in E. destruct E as [_ E]. discriminate E.
  - discriminate E.
  - apply app_eq_nil in E. destruct E as [_ E]. discriminate E.
Qed.

Lemma reader_moves_when_body_ended s :
  ended s = true -> (length (body s) <= avail s)%nat -> rph s <> RExit -> (forall x, rph s <> RHold x) ->
  reader_steps s <> [].
Proof.
  intros He Ha Hx Hh E. unfold reader_steps in E. rewrite He in E.
  destruct (rph s) as [|x|lk e|]; [| exact (Hh x eq_refl) | | exact (Hx eq_refl)].
  - apply app_eq_nil in E. destruct E as [E _].
    destruct (body s) as [|f rest]; [discriminate E|]. cbn [length] in Ha.
    destruct (avail s) as [|n]; [lia|]. destruct f; discriminate E.
  - apply app_eq_nil in E. destruct E as [E _].
    destruct (body s) as [|f rest]; [discriminate E|]. cbn [length] in Ha.
    destruct (avail s) as [|n]; [lia|]. discriminate E.
Qed.

(* once the call's context has ended (the caller's or by the library's own cancel), or the stream has been
   marked done, or the transport has delivered the end of the body: a state in which nothing can move has no
   pending RecvMsg -- every receive issued has returned *)
Theorem no_blocked_receive rs b0 e0 s rd dn lg :
  hreach rs b0 e0 s rd dn lg -> quiescent s ->
  sctx s <> 0 \/ done s = true \/ ended s = true ->
  pCR s = None.
Proof.
  intros R Q Hend. pose proof (live_reachable _ _ _ _ _ _ _ R) as [A B].
  pose proof (inv_reachable _ _ _ _ _ _ _ R) as I. pose proof (i_exit _ _ _ _ _ I) as X.
  unfold quiescent, internal in Q. apply app_eq_nil in Q. destruct Q as [Q1 Q2].
  apply map_eq_nil in Q1.
  destruct (pCR s) as [p|] eqn:Ep; [exfalso|reflexivity]. apply map_eq_nil in Q2.
  destruct (rph s) as [|x|lk e|] eqn:Eph.
  - (* reading *)
    assert (Hc : sctx s <> 0 \/ ended s = true).
    { destruct Hend as [H|[H|H]]; [left; exact H| |right; exact H].
      destruct (B H) as [Y|Y]; [discriminate Y|]. left. unfold sctx. rewrite Y.
      destruct (cctx s =? 0) eqn:E; cbn; [discriminate|apply Z.eqb_neq; exact E]. }
    destruct Hc as [Hc|Hc].
    + apply (reader_moves_when_ctx_done s Hc); [rewrite Eph; discriminate|exact Q1].
    + apply (reader_moves_when_body_ended s Hc (A Hc)); [rewrite Eph; discriminate|intro y; rewrite Eph; discriminate|exact Q1].
  - exact (receiver_moves_when_held s p x Eph Q2).
  - assert (Hc : sctx s <> 0 \/ ended s = true).
    { destruct Hend as [H|[H|H]]; [left; exact H| |right; exact H].
      destruct (B H) as [Y|Y]; [discriminate Y|]. left. unfold sctx. rewrite Y.
      destruct (cctx s =? 0) eqn:E; cbn; [discriminate|apply Z.eqb_neq; exact E]. }
    destruct Hc as [Hc|Hc].
    + apply (reader_moves_when_ctx_done s Hc); [rewrite Eph; discriminate|exact Q1].
    + apply (reader_moves_when_body_ended s Hc (A Hc)); [rewrite Eph; discriminate|intro y; rewrite Eph; discriminate|exact Q1].
  - exact (receiver_moves_when_closed s p Eph (X eq_refl) Q2).
Qed.

(* ... and it has returned something: with the theorems above, a RecvMsg issued after the end of the context,
   after the completion of the call or after the end of the body returns within 3*|body|+9 steps *)
Theorem receive_returns rs b0 e0 s rd dn lg n s' :
  hreach rs b0 e0 s rd dn lg -> irun s n s' -> quiescent s' ->
  sctx s' <> 0 \/ done s' = true \/ ended s' = true ->
  pCR s' = None /\ (n <= 3 * length (body s) + 9)%nat.
Proof.
  intros R Hrun Q Hend. split; [|eapply internal_run_length; eauto].
  assert (R' : exists rd' dn' lg', hreach rs b0 e0 s' rd' dn' lg').
  { clear Q Hend. revert rd dn lg R. induction Hrun as [|s a s1 r n s2 Hin _ IH]; intros rd dn lg R; [eauto|].
    destruct (Grpchan.proofs.HttpTrace.step_has_history _ _ _ _ _ _ _ _ _ _ R Hin) as [rd1 [dn1 R1]].
    eapply IH; eauto. }
  destruct R' as [rd' [dn' [lg' R']]]. eapply no_blocked_receive; eauto.
Qed.

(* the correspondence check explores with fuel 40 (corr/HttpSched.v): enough for reply bodies of up to ten
   frames, which is what the harness generates *)
Theorem exploration_never_runs_out_of_fuel s acc :
  (length (body s) <= 10)%nat -> ~ In None (explore 40 s acc).
Proof.
  intro Hb. apply explore_has_enough_fuel. unfold mu.
  assert (ph_w (rph s) <= 5)%nat by (destruct (rph s); cbn; lia).
  assert (pd_w (pCR s) <= 4)%nat by (destruct (pCR s) as [[]|]; cbn; lia).
  lia.
Qed.
