From Coq Require Import ZArith String Ascii List Bool Lia.
From Grpchan Require Import lib.Str model.Routing.
Import ListNotations.
Open Scope string_scope.

Lemma split_first_cons c r :
  split_first (String c r) = if Ascii.eqb c slash then (EmptyString, Some r)
                             else let '(a, b) := split_first r in (String c a, b).
Proof. reflexivity. Qed.

Lemma app_cons c (r t : string) : (String c r ++ t) = String c (r ++ t).
Proof. reflexivity. Qed.

Lemma split_first_app s m : no_slash s = true -> split_first (s ++ "/" ++ m) = (s, Some m).
Proof.
  induction s as [|c r IH]; intro H; [reflexivity|]. cbn in H. apply andb_true_iff in H as [Hc Hr].
  rewrite app_cons, split_first_cons. apply negb_true_iff in Hc. rewrite Hc, (IH Hr). reflexivity.
Qed.

Lemma split_first_some s a b : split_first s = (a, Some b) -> s = a ++ "/" ++ b /\ no_slash a = true.
Proof.
  revert a b. induction s as [|c r IH]; intros a b H; [discriminate|]. cbn in H.
  destruct (Ascii.eqb c slash) eqn:E.
  - injection H as <- <-. apply Ascii.eqb_eq in E. subst c. split; reflexivity.
  - destruct (split_first r) as [a' b'] eqn:R. injection H as <- ->.
    destruct (IH a' b eq_refl) as [-> Hn]. split; [reflexivity|]. cbn. now rewrite E, Hn.
Qed.

Lemma find_svc_some n r s : find_svc n r = Some s -> In s r /\ r_name s = n.
Proof.
  induction r as [|x r IH]; cbn; [discriminate|]. destruct (String.eqb_spec (r_name x) n).
  - intros [= <-]. split; [now left|assumption].
  - intro H. destruct (IH H). split; [now right|assumption].
Qed.

Lemma str_mem_in x l : str_mem x l = true <-> In x l.
Proof.
  induction l as [|y l IH]; cbn; [split; [discriminate|tauto]|].
  rewrite orb_true_iff, IH. split; (intros [H|H]; [left|now right]).
  - apply String.eqb_eq in H. now subst.
  - apply String.eqb_eq. now subst.
Qed.

Definition methods_of (unary : bool) (s : svc) := if unary then r_unary s else r_streams s.

(* a registered service/method resolves to exactly that handler, with or without the leading slash *)
Theorem inproc_resolves reg unary s m :
  find_svc (r_name s) reg = Some s -> In m (methods_of unary s) -> no_slash (r_name s) = true ->
  route_inproc reg unary ("/" ++ r_name s ++ "/" ++ m) = Run (r_name s) m.
Proof.
  intros Hf Hm Hn. unfold route_inproc. cbn [append]. change (Ascii.eqb "/"%char slash) with true. cbn iota.
  change (String "/"%char m) with ("/" ++ m).
  rewrite split_first_app by exact Hn. rewrite Hf. fold (methods_of unary s).
  apply str_mem_in in Hm. now rewrite Hm.
Qed.

Theorem inproc_resolves_noslash reg unary s m c rest :
  r_name s = String c rest -> find_svc (r_name s) reg = Some s -> In m (methods_of unary s) -> no_slash (r_name s) = true ->
  route_inproc reg unary (r_name s ++ "/" ++ m) = Run (r_name s) m.
Proof.
  intros Hs Hf Hm Hn. unfold route_inproc. rewrite Hs in *. cbn [append].
  cbn in Hn. apply andb_true_iff in Hn as [Hc Hr]. apply negb_true_iff in Hc. rewrite Hc.
  change (String "/"%char m) with ("/" ++ m).
  rewrite split_first_cons, Hc. rewrite (split_first_app rest m Hr). rewrite Hf.
  fold (methods_of unary s). apply str_mem_in in Hm. now rewrite Hm.
Qed.

(* conversely: a handler runs only for its own name -- nothing else reaches it *)
Theorem inproc_only_own_name reg unary n sv m :
  route_inproc reg unary n = Run sv m ->
  (n = "/" ++ sv ++ "/" ++ m \/ n = sv ++ "/" ++ m) /\
  exists s, find_svc sv reg = Some s /\ In m (methods_of unary s).
Proof.
  unfold route_inproc. intro H.
  assert (G : forall rest, match split_first rest with
                           | (_, None) => Unimplemented
                           | (sname, Some mname) =>
                               match find_svc sname reg with
                               | None => Unimplemented
                               | Some s => if str_mem mname (if unary then r_unary s else r_streams s) then Run sname mname else Unimplemented
                               end
                           end = Run sv m ->
                           rest = sv ++ "/" ++ m /\ exists s, find_svc sv reg = Some s /\ In m (methods_of unary s)).
  { intros rest G. destruct (split_first rest) as [a [b|]] eqn:S; [|discriminate].
    destruct (find_svc a reg) as [s|] eqn:F; [|discriminate].
    destruct (str_mem b _) eqn:M; [|discriminate]. injection G as <- <-.
    apply split_first_some in S as [-> _]. split; [reflexivity|]. exists s. split; [exact F|].
    now apply str_mem_in. }
  destruct n as [|c r].
  - cbn in H. discriminate.
  - destruct (Ascii.eqb c slash) eqn:E.
    + apply Ascii.eqb_eq in E. subst c. destruct (G r H) as [-> Hex]. split; [now left|exact Hex].
    + cbn [append] in H. destruct (G (String c r) H) as [Heq Hex]. split; [right; exact Heq|exact Hex].
Qed.

(* no method-name string makes the in-process channel index out of range *)
Theorem inproc_total reg unary n : route_inproc reg unary n <> PanicIdx.
Proof.
  unfold route_inproc. destruct n as [|c r].
  - cbn. discriminate.
  - destruct (Ascii.eqb c slash).
    + destruct (split_first r) as [a [b|]]; [|discriminate].
      destruct (find_svc a reg); [|discriminate]. destruct (str_mem _ _); discriminate.
    + cbn [append]. destruct (split_first (String c r)) as [a [b|]]; [|discriminate].
      destruct (find_svc a reg); [|discriminate]. destruct (str_mem _ _); discriminate.
Qed.

Lemma malformed_refused reg unary :
  route_inproc reg unary "" = Unimplemented /\ route_inproc reg unary "foo" = Unimplemented /\
  route_inproc reg unary "/" = Unimplemented /\ route_inproc reg unary "/foo" = Unimplemented.
Proof. repeat split; reflexivity. Qed.

(* ---- HTTP: joining the base path, on segment lists ---- *)
Lemma clean_step_plain st seg : plain seg = true -> clean_step st seg = (st ++ [seg])%list.
Proof.
  unfold plain, clean_step. intro H. repeat (apply andb_true_iff in H as [H ?]).
  repeat match goal with H : negb _ = true |- _ => apply negb_true_iff in H end.
  now rewrite H, H1, H2.
Qed.

Lemma clean_app (a b : list string) : clean_segs (a ++ b)%list = fold_left clean_step b (clean_segs a).
Proof. unfold clean_segs. now rewrite fold_left_app. Qed.

(* for every base path and plain service / method segments the joined path is the cleaned base
   followed by exactly those two segments: client and server agree, and distinct (service,
   method) pairs give distinct paths *)
Theorem http_join base s m :
  plain s = true -> plain m = true -> join_segs base [s; m] = (clean_segs base ++ [s; m])%list.
Proof.
  intros Hs Hm. unfold join_segs. rewrite clean_app. cbn [fold_left].
  rewrite (clean_step_plain _ s Hs), (clean_step_plain _ m Hm).
  now rewrite <- app_assoc.
Qed.

Theorem http_injective base s m s' m' :
  plain s = true -> plain m = true -> plain s' = true -> plain m' = true ->
  (join_segs base [s; m] = join_segs base [s'; m'] <-> (s = s' /\ m = m')).
Proof.
  intros. rewrite !http_join by assumption. split.
  - intro E. apply app_inv_head in E. now injection E.
  - intros [-> ->]. reflexivity.
Qed.

(* the repaired in-process behaviour differs from HTTP on names with empty or dot segments:
   path.Join normalises them and the handler runs (known finding) *)
Lemma http_normalises_refuted :
  exists name, join "/" name = join "/" "/S/M" /\ name <> "/S/M" /\ name <> "S/M".
Proof. exists "//S//M". split; [vm_compute; reflexivity|split; discriminate]. Qed.
