(* Global invariants of the complete in-process stream LTS (model/InprocStream.v): for every
   state reachable by any sequence of operation starts (any actor, any operation, at any time
   the actor is idle), cancellations, deadlines and internal steps. *)
From Coq Require Import ZArith List Bool Lia.
From Grpchan Require Import gen.Inproc model.InprocStream.
Import ListNotations.
Open Scope Z_scope.

Inductive reachable (rs : bool) : st -> Prop :=
| reach_init : reachable rs (init rs)
| reach_start s x s' : reachable rs s -> apply_start s x = Some s' -> reachable rs s'
| reach_internal s a s' r : reachable rs s -> In (a, (s', r)) (internal s) -> reachable rs s'.

Definition h_phase_ok (s : st) : Prop :=
  match pH s with
  | Some (PSendData _) | Some (PStart (HReturn _)) => respClosed s = false
  | Some (PRetHdr _) | Some (PRetTlr _) | Some (PRetErr _) | Some PRetClose => respClosed s = false /\ svrDone s = true
  | _ => True
  end.

Record Inv (s : st) : Prop := {
  i_req : (length (reqQ s) <= req_capn)%nat;
  i_resp : (length (respQ s) <= resp_capn)%nat;
  i_nopanic : panicked s = false;
  i_reqclosed : reqClosed s = sendClosed s;
  i_closed : respClosed s = true -> sState s = 2;
  i_phase : h_phase_ok s;
  i_done : svrDone s = false -> respClosed s = false
}.

Lemma inv_init rs : Inv (init rs).
Proof. constructor; cbn; auto; try lia; try discriminate. Qed.

Lemma inv_set_pend_other s a p :
  a <> H -> Inv s -> Inv (set_pend s a p).
Proof. intros Ha [A B C D E F G]. destruct a; try congruence; constructor; cbn; auto. Qed.

(* what starting an operation does *)
Lemma apply_start_call s a o s' :
  apply_start s (Call a o) = Some s' ->
  get_pend s a = None /\ s' = set_pend s a (Some (PStart o)) /\ (forall c, o = HReturn c -> svrDone s = false).
Proof.
  unfold apply_start. destruct (get_pend s a) eqn:Eg; [discriminate|]. intro Hs. split; [reflexivity|].
  destruct o; try (destruct a; cbn in Hs; try discriminate; injection Hs as <-; (split; [reflexivity|intros; discriminate]); fail).
  - revert Hs. destruct (recv_pending s); intro Hs; [discriminate|]. injection Hs as <-. split; [reflexivity|intros; discriminate].
  - revert Hs. destruct (svrDone s) eqn:Ed; intro Hs; [discriminate|]. injection Hs as <-. split; [reflexivity|intros; reflexivity].
Qed.

Lemma inv_start s x s' : Inv s -> apply_start s x = Some s' -> Inv s'.
Proof.
  intros I Hs. destruct x as [a o| |].
  - destruct (apply_start_call _ _ _ _ Hs) as [Eg [-> Hret]].
    destruct I as [A B C D E F G].
    destruct a; constructor; cbn; auto; try (unfold h_phase_ok; cbn; exact Logic.I).
    unfold h_phase_ok; cbn. destruct o; try exact Logic.I. apply G. eapply Hret. reflexivity.
  - cbn in Hs. injection Hs as <-. destruct I as [A B C D E F G]. destruct (cctx s =? 0); [|constructor; auto].
    constructor; cbn; auto.
  - cbn in Hs. injection Hs as <-. destruct I as [A B C D E F G]. destruct (cctx s =? 0); [|constructor; auto].
    constructor; cbn; auto.
Qed.

(* ---- internal steps ---- *)
Ltac split_in H :=
  repeat match type of H with
         | In _ (_ ++ _) => apply in_app_or in H; destruct H as [H|H]
         | In _ [] => destruct H
         | In _ (_ :: _) => destruct H as [H|H]; [|try (destruct H; fail)]
         | In _ (if ?c then _ else _) => destruct c eqn:?
         | In _ (match ?x with _ => _ end) => destruct x eqn:?
         | In _ (srv_write _ _ _ _) => unfold srv_write in H
         | In _ (srv_recv _ _) => unfold srv_recv in H
         end.

Lemma has_room_req_spec s : has_room_req s = true -> (length (reqQ s) < req_capn)%nat.
Proof. unfold has_room_req. apply Nat.ltb_lt. Qed.
Lemma has_room_resp_spec s : has_room_resp s = true -> (length (respQ s) < resp_capn)%nat.
Proof. unfold has_room_resp. apply Nat.ltb_lt. Qed.

Lemma tl_len {A} (x : A) r n : (length (x :: r) <= n)%nat -> (length r <= n)%nat.
Proof. cbn. lia. Qed.

Ltac norm :=
  repeat match goal with
         | H : has_room_req _ = true |- _ => apply has_room_req_spec in H; cbn [respQ reqQ upd_srv upd_req upd_cli upd_ctx set_pend] in H
         | H : has_room_resp _ = true |- _ => apply has_room_resp_spec in H; cbn [respQ reqQ upd_srv upd_req upd_cli upd_ctx set_pend] in H
         | H : reqQ ?s = _ :: _, A : (length (reqQ ?s) <= _)%nat |- _ => rewrite H in A; cbn [length] in A
         | H : respQ ?s = _ :: _, B : (length (respQ ?s) <= _)%nat |- _ => rewrite H in B; cbn [length] in B
         end.

(* the response channel is still open whenever the server stream is not in its closed state *)
Ltac derive_open :=
  try match goal with
      | E : respClosed ?s = true -> sState ?s = 2 |- _ =>
          match goal with
          | Hopen : respClosed s = false |- _ => idtac
          | H0 : (sState s =? 0) = true |- _ =>
              assert (Hopen : respClosed s = false)
                by (destruct (respClosed s); [specialize (E eq_refl); rewrite E in H0; discriminate|reflexivity])
          | H0 : negb (sState s =? 0) = false |- _ =>
              assert (Hopen : respClosed s = false)
                by (destruct (respClosed s); [specialize (E eq_refl); rewrite E in H0; discriminate|reflexivity])
          | H0 : _ || (sState s =? 2) = false |- _ =>
              assert (Hopen : respClosed s = false)
                by (destruct (respClosed s); [specialize (E eq_refl); rewrite E in H0; rewrite orb_true_r in H0; discriminate|reflexivity])
          end
      end.

Ltac one_goal :=
  first [ assumption
        | reflexivity
        | exact Logic.I
        | (rewrite ?app_length; cbn [length]; lia)
        | (cbn [length]; lia)
        | (match goal with H : respQ ?s = [] |- context [respQ ?s] => rewrite H end; cbn [length]; lia)
        | (match goal with H : reqQ ?s = [] |- context [reqQ ?s] => rewrite H end; cbn [length]; lia)
        | congruence
        | (intro; congruence)
        | (let X := fresh in intro X; match goal with G : svrDone _ = false -> _ |- _ => specialize (G X) end; congruence)
        | match goal with C : panicked _ = false |- _ => rewrite C; cbn [orb]; congruence end
        | match goal with C : panicked ?s = false, O : respClosed ?s = false |- _ => rewrite C, O; reflexivity end
        | match goal with |- h_phase_ok _ => unfold h_phase_ok in *; cbn in *; try split; try assumption; try exact Logic.I; try reflexivity; congruence end ].

Ltac fin_inv := norm; derive_open; constructor; cbn [reqQ respQ panicked reqClosed sendClosed respClosed sState pH svrDone set_pend upd_req upd_srv upd_cli upd_ctx]; one_goal.

Lemma inv_client_step s a p s' r :
  a <> H -> Inv s -> get_pend s a = Some p -> In (s', r) (steps_of s a p) -> Inv s'.
Proof.
  intros Ha [A B C D E F G] Hp Hin.
  destruct a; try congruence; destruct p as [o| | | | | |]; try (destruct Hin; fail); try destruct o; cbn [steps_of] in Hin;
    try (destruct Hin; fail).
  all: split_in Hin.
  all: repeat match goal with H : (if ?c then _ else _) = (_, _) |- _ => destruct c eqn:? end.
  all: try match goal with H : _ = (_, _) |- _ => unfold done, goto in H; injection H as <- <- end.
  all: cbn [length] in *.
  all: try fin_inv.
Qed.

(* the handler's operations, phase by phase *)
Lemma inv_handler_step s p s' r :
  Inv s -> get_pend s H = Some p -> In (s', r) (steps_of s H p) -> Inv s'.
Proof.
  intros [A B C D E F G] Hp Hin. cbn in Hp. unfold h_phase_ok in F. rewrite Hp in F.
  destruct p as [o| | | | | |]; try destruct o; cbn [steps_of] in Hin; try (destruct Hin; fail).
  all: split_in Hin.
  all: repeat match goal with H : (if ?c then _ else _) = (_, _) |- _ => destruct c eqn:? end.
  all: try match goal with H : _ = (_, _) |- _ => unfold done, goto in H; injection H as <- <- end.
  all: cbn [length] in *.
  all: try match type of F with _ /\ _ => destruct F as [F F2] end.
  all: try fin_inv.
Qed.

Lemma actor_eq_dec (a b : actor) : {a = b} + {a <> b}.
Proof. decide equality. Qed.

Lemma inv_internal s a s' r : Inv s -> In (a, (s', r)) (internal s) -> Inv s'.
Proof.
  intros I Hin. unfold internal in Hin. apply in_flat_map in Hin. destruct Hin as [a' [_ Hin]].
  destruct (get_pend s a') as [p|] eqn:Ep; [|destruct Hin].
  apply in_map_iff in Hin. destruct Hin as [[s2 r2] [Heq Hin]]. injection Heq as -> -> ->.
  destruct (actor_eq_dec a H) as [->|Hne].
  - eapply inv_handler_step; eauto.
  - eapply inv_client_step; eauto.
Qed.

(* Every reachable state of the full LTS satisfies the invariant. *)
Theorem inv_reachable rs s : reachable rs s -> Inv s.
Proof.
  induction 1 as [|s x s' _ IH Hs|s a s' r _ IH Hin].
  - apply inv_init.
  - eapply inv_start; eauto.
  - eapply inv_internal; eauto.
Qed.

(* Corollaries in the vocabulary of the properties. *)
Corollary reachable_never_panics rs s : reachable rs s -> panicked s = false.
Proof. intros R. apply (i_nopanic _ (inv_reachable _ _ R)). Qed.

Corollary reachable_queues_bounded rs s :
  reachable rs s -> (length (reqQ s) <= req_capn)%nat /\ (length (respQ s) <= resp_capn)%nat.
Proof. intros R. pose proof (inv_reachable _ _ R) as I. split; [apply (i_req _ I)|apply (i_resp _ I)]. Qed.

(* The response channel is closed only by the returning handler, after which the server
   stream refuses everything (state 2); and before the handler has returned it is open. *)
Corollary reachable_resp_closed_only_after_return rs s :
  reachable rs s -> respClosed s = true -> svrDone s = true /\ sState s = 2.
Proof.
  intros R Hc. pose proof (inv_reachable _ _ R) as I. split.
  - destruct (svrDone s) eqn:Ed; [reflexivity|]. rewrite (i_done _ I Ed) in Hc. discriminate.
  - apply (i_closed _ I Hc).
Qed.

(* Non-vacuity: a concrete multi-step run is reachable. *)

Inductive mv := MStart (x : start) | MInt (n : nat).
Fixpoint exec (s : st) (l : list mv) : option st :=
  match l with
  | [] => Some s
  | MStart x :: r => match apply_start s x with Some s' => exec s' r | None => None end
  | MInt n :: r => match nth_error (internal s) n with Some (_, (s', _)) => exec s' r | None => None end
  end.

Lemma exec_reachable rs l : forall s s', reachable rs s -> exec s l = Some s' -> reachable rs s'.
Proof.
  induction l as [|m l IH]; intros s s' R He; cbn [exec] in He.
  - injection He as <-. exact R.
  - destruct m as [x|n]; cbn [exec] in He.
    + destruct (apply_start s x) as [s1|] eqn:Ea; [|discriminate]. eapply IH; [|exact He]. eapply reach_start; eauto.
    + destruct (nth_error (internal s) n) as [[a [s1 r]]|] eqn:En; [|discriminate].
      eapply IH; [|exact He]. eapply reach_internal; [exact R|]. eapply nth_error_In; exact En.
Qed.

(* a client send, a handler receive, a handler send, then the handler returns: the response
   queue is occupied and the handler is in its return phases *)
Example reachable_nontrivial :
  exists s, reachable true s /\ svrDone s = true /\ respQ s <> [] /\ respClosed s = false.
Proof.
  destruct (exec (init true)
     [MStart (Call CS (CSend 7)); MInt 0; MStart (Call H HRecv); MInt 0;
      MStart (Call H (HSend 9)); MInt 0; MInt 0; MStart (Call H (HReturn 0)); MInt 0]) as [s|] eqn:E.
  - exists s. split; [eapply exec_reachable; [apply reach_init|exact E]|].
    vm_compute in E. injection E as <-. cbn. repeat split; discriminate.
  - vm_compute in E. discriminate.
Qed.
