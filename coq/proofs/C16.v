From Coq Require Import ZArith String List Bool Lia.
From Grpchan Require Import model.Intercept.
Import ListNotations.
Open Scope Z_scope.

Lemma nil_identity d : intercept_server d None None = None.
Proof. reflexivity. Qed.

Lemma not_nil_new d u s : (u <> None \/ s <> None) -> intercept_server d u s <> None.
Proof. intros [H|H]; destruct u, s; cbn; congruence. Qed.

Lemma names_preserved d u s :
  sv_name (intercepted d u s) = sv_name d /\ sv_meta (intercepted d u s) = sv_meta d /\
  map m_name (sv_methods (intercepted d u s)) = map m_name (sv_methods d) /\
  map (fun x => (s_name x, s_cs x, s_ss x)) (sv_streams (intercepted d u s)) =
  map (fun x => (s_name x, s_cs x, s_ss x)) (sv_streams d).
Proof.
  unfold intercepted. destruct u, s; cbn; repeat split; try reflexivity;
    rewrite map_map; apply map_ext; reflexivity.
Qed.

(* the i-th method of the decorated description, for ANY original handler and interceptors *)
Lemma compose_unary d u s i m :
  nth_error (sv_methods d) i = Some m ->
  exists m', nth_error (sv_methods (intercepted d (Some u) s)) i = Some m' /\
             m_name m' = m_name m /\
             forall t ctx req, m_handler m' t ctx req = m_handler m (Some (combine t u)) ctx req.
Proof.
  intro H. unfold intercepted. destruct s; cbn; rewrite nth_error_map, H; cbn;
    eexists; repeat split; reflexivity.
Qed.

Lemma no_unary_same d s : sv_methods (intercepted d None s) = sv_methods d.
Proof. unfold intercepted. destruct s; reflexivity. Qed.

Lemma no_stream_same d u : sv_streams (intercepted d u None) = sv_streams d.
Proof. unfold intercepted. destruct u; reflexivity. Qed.

Lemma compose_stream d u s i x :
  nth_error (sv_streams d) i = Some x ->
  exists x', nth_error (sv_streams (intercepted d u (Some s))) i = Some x' /\
             s_name x' = s_name x /\ s_cs x' = s_cs x /\ s_ss x' = s_ss x /\
             forall stream, s_handler x' stream =
                            s stream {| i_method := full_method (sv_name d) (s_name x); i_cs := s_cs x; i_ss := s_ss x |} (s_handler x).
Proof.
  intro H. unfold intercepted. destruct u; cbn; rewrite nth_error_map, H; cbn;
    eexists; repeat split; reflexivity.
Qed.

(* with a generated-shape original handler: transport first, decoration next, then the
   method, each given what the previous one passed on; info is the full method name *)
Lemma dispatch_generated svc name method (t u : uint) ctx req :
  (fun tr => generated_handler svc name method (Some (combine tr u)) ctx req) (Some t) =
  t ctx req {| i_method := full_method svc name; i_cs := false; i_ss := false |}
    (fun ctx' req' => u ctx' req' {| i_method := full_method svc name; i_cs := false; i_ss := false |} method).
Proof. reflexivity. Qed.

Lemma dispatch_generated_no_transport svc name method (u : uint) ctx req :
  generated_handler svc name method (Some (combine None u)) ctx req =
  u ctx req {| i_method := full_method svc name; i_cs := false; i_ss := false |} method.
Proof. reflexivity. Qed.

(* decoration nested to ANY depth.  decorate d [t1; ...; tn] applies t1 first (innermost)
   and tn last (outermost); the transport's interceptor t is outside all of them. *)
Fixpoint chain (t : option uint) (tags : list Z) : option uint :=
  match tags with
  | [] => t
  | tg :: rest => Some (combine (chain t rest) (log_uint tg))
  end.

Lemma decorate_method : forall tags d i m,
  nth_error (sv_methods d) i = Some m ->
  exists m', nth_error (sv_methods (decorate d tags)) i = Some m' /\ m_name m' = m_name m /\
             forall t ctx req, m_handler m' t ctx req = m_handler m (chain t tags) ctx req.
Proof.
  induction tags as [|tg rest IH]; intros d i m H.
  - exists m. repeat split; auto.
  - cbn [decorate].
    destruct (compose_unary d (log_uint tg) (Some (log_sint tg)) i m H) as (m1 & H1 & N1 & E1).
    destruct (IH _ i m1 H1) as (m' & H' & N' & E').
    exists m'. split; [exact H'|]. split; [congruence|]. intros t ctx req.
    rewrite E', E1. reflexivity.
Qed.

Definition enters (i : info) (ctx req : Z) (tags : list Z) : log := map (fun tg => Enter tg i ctx req) tags.
Definition leaves (tags : list Z) : log := map Leave tags.

(* the run of the chain with a logging transport interceptor t0, around ANY handler h *)
Lemma chain_run : forall tags t0 ctx req i (h : uhandler) l,
  match chain (Some (log_uint t0)) tags with
  | Some c => c ctx req i h l =
              (fst (h ctx req (l ++ Enter t0 i ctx req :: enters i ctx req (rev tags))),
               snd (h ctx req (l ++ Enter t0 i ctx req :: enters i ctx req (rev tags))) ++ leaves tags ++ [Leave t0])
  | None => False
  end.
Proof.
  induction tags as [|tg rest IH]; intros t0 ctx req i h l.
  - cbn. unfold log_uint. destruct (h ctx req (l ++ [Enter t0 i ctx req])); reflexivity.
  - cbn [chain]. specialize (IH t0 ctx req i (fun c r => log_uint tg c r i h) l).
    destruct (chain (Some (log_uint t0)) rest) as [c|]; [|destruct IH].
    cbn [combine]. rewrite IH. unfold log_uint.
    replace (l ++ Enter t0 i ctx req :: enters i ctx req (rev (tg :: rest)))
      with ((l ++ Enter t0 i ctx req :: enters i ctx req (rev rest)) ++ [Enter tg i ctx req])
      by (cbn [rev]; unfold enters; rewrite map_app; cbn [map]; rewrite <- app_assoc; reflexivity).
    destruct (h ctx req _) as [o l']. cbn [fst snd leaves map].
    f_equal. rewrite <- !app_assoc. reflexivity.
Qed.

Lemma chain_run_no_transport : forall tags ctx req i (h : uhandler) l,
  tags <> [] ->
  match chain None tags with
  | Some c => c ctx req i h l =
              (fst (h ctx req (l ++ enters i ctx req (rev tags))),
               snd (h ctx req (l ++ enters i ctx req (rev tags))) ++ leaves tags)
  | None => False
  end.
Proof.
  induction tags as [|tg rest IH]; intros ctx req i h l Hne; [congruence|].
  cbn [chain]. destruct rest as [|tg2 rest'].
  - cbn. unfold log_uint. destruct (h ctx req (l ++ [Enter tg i ctx req])); reflexivity.
  - specialize (IH ctx req i (fun c r => log_uint tg c r i h) l ltac:(discriminate)).
    destruct (chain None (tg2 :: rest')) as [c|]; [|destruct IH].
    cbn [combine]. rewrite IH. unfold log_uint.
    replace (l ++ enters i ctx req (rev (tg :: tg2 :: rest')))
      with ((l ++ enters i ctx req (rev (tg2 :: rest'))) ++ [Enter tg i ctx req])
      by (cbn [rev]; unfold enters; rewrite !map_app; cbn [map]; rewrite <- !app_assoc; reflexivity).
    destruct (h ctx req _) as [o l']. cbn [fst snd leaves map].
    f_equal. rewrite <- !app_assoc. reflexivity.
Qed.

(* the headline statement for a generated-shape method handler that logs when it runs:
   every interceptor is entered exactly once, transport first, outermost decoration next,
   the method last, with context and request unchanged; the response comes back unchanged *)
Definition ui (svc name : string) : info := {| i_method := full_method svc name; i_cs := false; i_ss := false |}.

Definition logging_method (name : string) : uhandler :=
  fun ctx req l => (Ok (req * 2 + ctx), l ++ [Handled name ctx req]).

Theorem nested_dispatch svc name tags t0 ctx req l d i :
  nth_error (sv_methods d) i = Some {| m_name := name; m_handler := generated_handler svc name (logging_method name) |} ->
  exists m', nth_error (sv_methods (decorate d tags)) i = Some m' /\ m_name m' = name /\
    m_handler m' (Some (log_uint t0)) ctx req l =
    (Ok (req * 2 + ctx),
     l ++ Enter t0 (ui svc name) ctx req :: enters (ui svc name) ctx req (rev tags)
       ++ [Handled name ctx req] ++ leaves tags ++ [Leave t0]).
Proof.
  intro H. destruct (decorate_method tags d i _ H) as (m' & H' & N' & E').
  exists m'. split; [exact H'|]. split; [exact N'|]. rewrite E'. cbn [m_handler].
  pose proof (chain_run tags t0 ctx req (ui svc name) (logging_method name) l) as R.
  destruct (chain (Some (log_uint t0)) tags) as [c|] eqn:C; [|destruct R].
  unfold generated_handler. fold (ui svc name). rewrite R. unfold logging_method. cbn [fst snd].
  f_equal. rewrite <- !app_assoc. cbn [app]. reflexivity.
Qed.

(* an interceptor that does not call onward: the handler does not run, nothing inside is entered *)
Definition short_uint (tag code : Z) : uint := fun ctx req i h l => (Err code, l ++ [Enter tag i ctx req; Leave tag]).

Lemma short_circuit svc name (u : uint) code ctx req l :
  generated_handler svc name (logging_method name) (Some (combine (Some (short_uint 0 code)) u)) ctx req l =
  (Err code, l ++ [Enter 0 (ui svc name) ctx req; Leave 0]).
Proof. reflexivity. Qed.

(* streams: transport's interceptor, then the decorating one, then the original handler *)
Lemma stream_dispatch d (s t : sint) i x stream :
  nth_error (sv_streams d) i = Some x ->
  exists x', nth_error (sv_streams (intercepted d None (Some s))) i = Some x' /\
    dispatch_stream (sv_name d) x' (Some t) stream =
    t stream {| i_method := full_method (sv_name d) (s_name x); i_cs := s_cs x; i_ss := s_ss x |} (s_handler x') /\
    forall st, s_handler x' st =
               s st {| i_method := full_method (sv_name d) (s_name x); i_cs := s_cs x; i_ss := s_ss x |} (s_handler x).
Proof.
  intro H. destruct (compose_stream d None s i x H) as (x' & H' & N & C & S & E).
  exists x'. split; [exact H'|]. split; [|exact E]. unfold dispatch_stream. now rewrite N, C, S.
Qed.

(* ---- the general statement: ANY interceptors, ANY nesting depth, ANY method ---- *)
Fixpoint chainU (t : option uint) (us : list uint) : option uint :=
  match us with
  | [] => t
  | u :: rest => Some (combine (chainU t rest) u)
  end.

Lemma decorate_with_method : forall us d i m,
  nth_error (sv_methods d) i = Some m ->
  exists m', nth_error (sv_methods (decorate_with d us)) i = Some m' /\ m_name m' = m_name m /\
             forall t ctx req, m_handler m' t ctx req = m_handler m (chainU t us) ctx req.
Proof.
  unfold decorate_with. induction us as [|u rest IH]; intros d i m H.
  - exists m. repeat split; auto.
  - cbn [fold_left].
    destruct (compose_unary d u None i m H) as (m1 & H1 & N1 & E1).
    destruct (IH _ i m1 H1) as (m' & H' & N' & E').
    exists m'. split; [exact H'|]. split; [congruence|]. intros t ctx req.
    rewrite E', E1. reflexivity.
Qed.

Lemma spec_chain_snoc : forall (A : list uint) u i method,
  spec_chain (A ++ [u]) i method = spec_chain A i (fun c r => u c r i method).
Proof.
  induction A as [|a A IH]; intros u i method; [reflexivity|].
  cbn [app spec_chain]. now rewrite IH.
Qed.

Lemma generated_chain svc name : forall us t method ctx req,
  generated_handler svc name method (chainU t us) ctx req =
  spec_chain (opt_list t ++ rev us) (ui svc name) method ctx req.
Proof.
  induction us as [|u rest IH]; intros t method ctx req.
  - cbn [chainU rev]. rewrite app_nil_r. destruct t; reflexivity.
  - cbn [chainU rev]. rewrite app_assoc, spec_chain_snoc.
    rewrite <- (IH t (fun c r => u c r (ui svc name) method) ctx req).
    unfold generated_handler. destruct (chainU t rest); reflexivity.
Qed.

Theorem dispatch_spec svc name method us t ctx req d i :
  nth_error (sv_methods d) i = Some {| m_name := name; m_handler := generated_handler svc name method |} ->
  exists m', nth_error (sv_methods (decorate_with d us)) i = Some m' /\ m_name m' = name /\
             m_handler m' t ctx req = spec_chain (opt_list t ++ rev us) (ui svc name) method ctx req.
Proof.
  intro H. destruct (decorate_with_method us d i _ H) as (m' & H' & N' & E').
  exists m'. split; [exact H'|]. split; [exact N'|]. rewrite E'. cbn [m_handler]. apply generated_chain.
Qed.
