(* Back-pressure over the complete in-process stream LTS, in terms of what operations did (ghost histories and
   the operation log): in every interleaving each side can run ahead of its peer by at most the buffer. *)
From Coq Require Import ZArith List Bool Lia.
From Grpchan Require Import gen.Inproc model.InprocStream proofs.StreamInv proofs.StreamOrder proofs.StreamDeliver.
Import ListNotations.
Open Scope Z_scope.

Lemma datas_length_le l : (length (datas l) <= length l)%nat.
Proof.
  induction l as [|f l IH]; [cbn; lia|]. unfold datas in *. cbn [flat_map]. rewrite app_length.
  destruct f; cbn [length]; lia.
Qed.

Lemma datas_app a b : datas (a ++ b) = datas a ++ datas b.
Proof. unfold datas. apply flat_map_app. Qed.

(* frames put on the response channel never exceed the frames taken off it by more than the capacity *)
Theorem responses_in_flight rs s h :
  lreach rs s h -> (length (hp h) <= length (hq h) + resp_capn)%nat.
Proof.
  intro R. pose proof (conservation _ _ _ _ (lreach_hreach _ _ _ R)) as E.
  pose proof (i_resp _ (inv_reachable _ _ (lreach_reachable _ _ _ R))) as B.
  rewrite E, app_length. lia.
Qed.

Theorem requests_in_flight rs s h :
  lreach rs s h -> (length (rp h) <= length (rq h) + req_capn)%nat.
Proof.
  intro R. pose proof (conservation_requests _ _ _ R) as E.
  pose proof (i_req _ (inv_reachable _ _ (lreach_reachable _ _ _ R))) as B.
  rewrite E, app_length. lia.
Qed.

(* the handler's SendMsg calls that returned nil are at most the messages taken off the channel by the client
   plus the capacity: a handler cannot complete more sends than that, however many it attempts *)
Theorem handler_sends_ahead rs s h :
  lreach rs s h -> (length (handler_acked (lg h)) <= length (datas (hq h)) + resp_capn)%nat.
Proof.
  intro R. destruct (DH_reachable _ _ _ R) as [un [E1 _]].
  pose proof (conservation _ _ _ _ (lreach_hreach _ _ _ R)) as E.
  pose proof (i_resp _ (inv_reachable _ _ (lreach_reachable _ _ _ R))) as B.
  assert (L : length (datas (hp h)) = (length (handler_acked (lg h)) + length un)%nat) by (rewrite E1, app_length; reflexivity).
  rewrite E, datas_app, app_length in L. pose proof (datas_length_le (respQ s)). lia.
Qed.

(* the client's SendMsg calls that returned nil are at most the messages the handler side took plus the capacity *)
Theorem client_sends_ahead rs s h :
  lreach rs s h -> (length (client_acked (lg h)) <= length (rq h) + req_capn)%nat.
Proof.
  intro R. destruct (DR_reachable _ _ _ R) as [_ [un [B1 _]]].
  pose proof (requests_in_flight _ _ _ R) as F. rewrite B1, app_length in F. lia.
Qed.
