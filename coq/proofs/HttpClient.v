(* Invariants of the HTTP client-stream LTS (model/HttpClient.v) over every reachable state: every
   interleaving of the reader goroutine, the caller's receives, the transport's deliveries and
   cancellation, for every reply body. *)
From Coq Require Import ZArith List Bool Lia.
From Grpchan Require Import model.HttpClient.
Import ListNotations.
Open Scope Z_scope.

Definition datas (l : list ev) : list Z := flat_map (fun e => match e with EData x => [x] | _ => [] end) l.
Definition msgs_of (l : list res) : list Z := flat_map (fun r => match r with RMsg x => [x] | _ => [] end) l.

Definition draining (p : rphase) : bool := match p with RDrain _ _ => true | _ => false end.

(* reachability with ghost histories: the frames the reader's loop has read (rd), the frames the deferred
   ReadAll has thrown away after the loop (dn), and what RecvMsg has returned (lg) *)
Definition body_step (s s' : st) (rd dn rd' dn' : list ev) : Prop :=
  (body s' = body s /\ rd' = rd /\ dn' = dn) \/
  (exists e, body s = e :: body s' /\
             if draining (rph s) then rd' = rd /\ dn' = dn ++ [e] else rd' = rd ++ [e] /\ dn' = dn).

Inductive hreach (rs : bool) (b0 : list ev) (e0 : ending) : st -> list ev -> list ev -> list res -> Prop :=
| h_init : hreach rs b0 e0 (init rs b0 e0) [] [] []
| h_start s x s' rd dn lg : hreach rs b0 e0 s rd dn lg -> apply_start s x = Some s' -> hreach rs b0 e0 s' rd dn lg
| h_step s a s' r rd dn lg rd' dn' lg' :
    hreach rs b0 e0 s rd dn lg -> In (a, (s', r)) (internal s) ->
    body_step s s' rd dn rd' dn' ->
    lg' = (match a, r with CR, Some x => lg ++ [x] | _, _ => lg end) ->
    hreach rs b0 e0 s' rd' dn' lg'.

Ltac split_in H :=
  repeat match type of H with
         | In _ (_ ++ _) => apply in_app_or in H; destruct H as [H|H]
         | In _ [] => destruct H
         | In _ (_ :: _) => destruct H as [H|H]; [|try (destruct H; fail)]
         | In _ (if ?c then _ else _) => destruct c eqn:?
         | In _ (match ?x with _ => _ end) => destruct x eqn:?
         end.

Ltac fields := cbn [body bend avail ended rph cctx libCancel done rErr tr chClosed respStream pCR panicked upd finish ret set_ph] in *.

(* the message the reader holds while it waits for a receiver *)
Definition hold (s : st) : list Z := match rph s with RHold x => [x] | _ => [] end.

Definition drain_ok (s : st) : Prop :=
  match rph s with
  | RDrain _ (Some _) => True
  | RDrain true None => rErr s <> None \/ tr s <> None
  | RDrain false None => False
  | _ => True
  end.

Definition gave_up (s : st) : Prop :=
  (exists e, rph s = RDrain false (Some e)) \/ (rph s = RExit /\ rErr s <> None).

Record Inv (b0 : list ev) (s : st) (rd dn : list ev) (lg : list res) : Prop := {
  i_cons : exists lost, b0 = rd ++ dn ++ body s ++ lost;
  i_nopanic : panicked s = false;
  i_dn : match rph s with RRead | RHold _ => dn = [] | _ => True end;
  i_closed : chClosed s = true -> done s = true /\ rph s = RExit;
  i_exit : rph s = RExit -> chClosed s = true;
  i_drain : drain_ok s;
  i_final : rph s = RExit -> rErr s = None -> tr s <> None;
  i_done : respStream s = true -> done s = true -> rph s = RExit;
  i_deliv : respStream s = true ->
            exists dropped, datas rd = msgs_of lg ++ hold s ++ dropped /\ (dropped <> [] -> gave_up s);
  i_eof : respStream s = true -> In REOF lg -> rph s = RExit /\ rErr s = None /\ tr s = Some 0;
  i_probe : (exists x, pCR s = Some (PWait2 x)) \/ pCR s = Some PGot2 -> respStream s = false
}.

Lemma cons_neq {A} (q : list A) g : q <> g :: q.
Proof. intro E. apply (f_equal (@length A)) in E. cbn in E. lia. Qed.

Lemma flat_map_snoc {A B} (f : A -> list B) l x : flat_map f (l ++ [x]) = flat_map f l ++ f x.
Proof. rewrite flat_map_app. cbn. rewrite app_nil_r. reflexivity. Qed.
Lemma datas_snoc l e : datas (l ++ [e]) = datas l ++ match e with EData x => [x] | _ => [] end.
Proof. apply flat_map_snoc. Qed.
Lemma msgs_snoc l r : msgs_of (l ++ [r]) = msgs_of l ++ match r with RMsg x => [x] | _ => [] end.
Proof. apply flat_map_snoc. Qed.

Lemma final_no_msg s : match final s with RMsg x => [x] | _ => [] end = [].
Proof. unfold final. destruct (rErr s) as [e|]; [destruct (0 <=? e); reflexivity|]. destruct (tr s) as [[| |]|]; reflexivity. Qed.

Lemma inv_init rs b0 e0 : Inv b0 (init rs b0 e0) [] [] [].
Proof.
  constructor; cbn; auto; try discriminate; try exact Logic.I.
  - exists []. rewrite app_nil_r. reflexivity.
  - intros _. exists []. split; [reflexivity|]. intro X; exfalso; apply X; reflexivity.
  - intros _ [].
  - intros [[x X]|X]; discriminate X.
Qed.

Lemma final_eof s : final s = REOF -> rErr s = None /\ (tr s = Some 0 \/ tr s = None).
Proof.
  unfold final. destruct (rErr s) as [e|]; [destruct (0 <=? e); discriminate|].
  destruct (tr s) as [[| |]|]; intro X; try discriminate; split; auto.
Qed.

Lemma inv_start b0 s x s' rd dn lg : Inv b0 s rd dn lg -> apply_start s x = Some s' -> Inv b0 s' rd dn lg.
Proof.
  intros [[lost A] B DN C D DR F G E H P] Hs. unfold hold, drain_ok, gave_up in *. revert Hs.
  destruct x; unfold apply_start.
  - destruct (pCR s) eqn:Ep; intro Hs; [discriminate|]. injection Hs as <-. constructor; fields; auto.
    + exists lost; exact A.
    + intros [[x X]|X]; discriminate X.
  - destruct (Nat.ltb (avail s) (length (body s))); intro Hs; [|discriminate]. injection Hs as <-. constructor; fields; auto.
    exists lost; exact A.
  - destruct (ended s); intro Hs; [discriminate|]. injection Hs as <-. constructor; cbn; auto.
    exists (skipn (avail s) (body s) ++ lost). rewrite A. f_equal. f_equal. rewrite app_assoc, firstn_skipn. reflexivity.
  - intro Hs. injection Hs as <-. destruct (cctx s =? 0); constructor; cbn; auto; exists lost; exact A.
  - intro Hs. injection Hs as <-. destruct (cctx s =? 0); constructor; cbn; auto; exists lost; exact A.
Qed.

Ltac unf := unfold finish, upd, set_ph, ret in *; fields.

Ltac body_same Hb :=
  destruct Hb as [[Hb1 [-> ->]]|[e' [Hb1 _]]]; [|exfalso; apply cons_neq in Hb1; exact Hb1].

Lemma inv_step b0 s a s' r rd dn lg rd' dn' lg' :
  Inv b0 s rd dn lg -> In (a, (s', r)) (internal s) -> body_step s s' rd dn rd' dn' ->
  lg' = (match a, r with CR, Some x => lg ++ [x] | _, _ => lg end) ->
  Inv b0 s' rd' dn' lg'.
Proof.
  intros [[lost A] B DN C D DR F G E H P] Hin Hb ->. unfold hold, drain_ok, gave_up, body_step in *.
  unfold internal in Hin. apply in_app_or in Hin. destruct Hin as [Hin|Hin].
  - apply in_map_iff in Hin. destruct Hin as [[s2 r2] [Heq Hin]]. injection Heq as <- -> ->.
    unfold reader_steps in Hin. destruct (rph s) eqn:Eph; [| | |destruct Hin].
    + (* the loop reads *)
      split_in Hin.
      all: try match goal with H : _ = (_, _) |- _ => injection H as <- <- end.
      all: unf.
      all: repeat match goal with E : body ?s = _ |- _ => rewrite E in *; clear E end.
      all: cbn [draining] in Hb.
      all: destruct Hb as [[Hb1 [-> ->]]|[e' [Hb1 [-> ->]]]].
      all: try (exfalso; first [discriminate Hb1 | (apply cons_neq in Hb1; exact Hb1) | (symmetry in Hb1; apply cons_neq in Hb1; exact Hb1)]).
      all: try (injection Hb1 as <-).
      all: assert (Hnd : respStream s = true -> datas rd = msgs_of lg)
        by (intro X; destruct (E X) as [dr [E1 E2]]; destruct dr as [|d dr];
            [rewrite E1, app_nil_r; reflexivity
            |exfalso; destruct (E2 ltac:(discriminate)) as [[e0 Z]|[Z _]]; discriminate Z]).
      all: assert (Hne : respStream s = true -> ~ In REOF lg) by (intros X Y; destruct (H X Y) as [Z _]; discriminate Z).
      all: try subst dn.
      all: constructor; unfold hold, drain_ok, gave_up; unf.
      all: try reflexivity.
      all: try (exists lost; rewrite A; cbn [app]; repeat rewrite <- app_assoc; cbn [app]; reflexivity).
      all: try exact B.
      all: try exact P.
      all: try exact Logic.I.
      all: try (right; discriminate).
      all: try (left; discriminate).
      all: try (let X := fresh in let Y := fresh in intro X; destruct (C X) as [_ Y]; discriminate Y).
      all: try (let X := fresh in intro X; discriminate X).
      all: try (let X := fresh in let Y := fresh in intros X Y; specialize (G X Y); discriminate G).
      all: try (let X := fresh in let Y := fresh in intros X Y; exfalso; exact (Hne X Y)).
      all: try (let X := fresh in intro X; exists (@nil Z); rewrite ?datas_snoc, (Hnd X); cbn [app]; rewrite ?app_nil_r;
                split; [reflexivity|let N := fresh in intro N; exfalso; apply N; reflexivity]).
    + (* the reader holds a message and gives up because the call's context ended: the message is dropped *)
      split_in Hin.
      all: try match goal with H : _ = (_, _) |- _ => injection H as <- <- end.
      all: unf. all: body_same Hb.
      all: constructor; unfold hold, drain_ok, gave_up; unf.
      all: try (exists lost; exact A).
      all: try exact B. all: try exact P. all: try exact Logic.I.
      all: try (let X := fresh in let Y := fresh in intro X; destruct (C X) as [_ Y]; discriminate Y).
      all: try (let X := fresh in intro X; discriminate X).
      all: try (let X := fresh in let Y := fresh in intros X Y; specialize (G X Y); discriminate G).
      all: try (let X := fresh in let Y := fresh in let Z := fresh in intros X Y; destruct (H X Y) as [Z _]; discriminate Z).
      intro X. destruct (E X) as [dr [E1 E2]]. exists (x :: dr). split; [rewrite E1; reflexivity|].
      intros _. left. eexists; reflexivity.
    + (* the deferred ReadAll: frames are read and thrown away, then the completion block runs *)
      split_in Hin.
      all: try match goal with H : _ = (_, _) |- _ => injection H as <- <- end.
      all: unf.
      all: repeat match goal with E : body ?s = _ |- _ => rewrite E in *; clear E end.
      all: cbn [draining] in Hb.
      all: destruct Hb as [[Hb1 [-> ->]]|[e' [Hb1 [-> ->]]]].
      all: try (exfalso; first [discriminate Hb1 | (apply cons_neq in Hb1; exact Hb1) | (symmetry in Hb1; apply cons_neq in Hb1; exact Hb1)]).
      all: try (injection Hb1 as <-).
      all: constructor; unfold hold, drain_ok, gave_up; unf.
      all: try (exists lost; rewrite A; cbn [app]; repeat rewrite <- app_assoc; cbn [app]; reflexivity).
      all: try exact B. all: try exact P. all: try exact Logic.I. all: try exact DR. all: try exact E.
      all: try (intros _; split; reflexivity).
      all: try (intros _; reflexivity).
      all: try (intros _ _; reflexivity).
      all: try (let X := fresh in let Y := fresh in intro X; destruct (C X) as [_ Y]; discriminate Y).
      all: try (let X := fresh in intro X; discriminate X).
      all: try (let X := fresh in let Y := fresh in intros X Y; specialize (G X Y); discriminate G).
      all: try (let X := fresh in let Y := fresh in let Z := fresh in intros X Y; destruct (H X Y) as [Z _]; discriminate Z).
      all: try (intros _; destruct (rErr s) eqn:Er, e, locked; cbn in *;
                repeat match goal with |- context [if ?c then _ else _] => destruct c end;
                first [ (let X := fresh in intro X; discriminate X)
                      | (intros _; destruct DR as [X|X]; [exfalso; apply X; reflexivity|exact X])
                      | (exfalso; exact DR) ]).
      all: try (let X := fresh in intro X; destruct (E X) as [dr [E1 E2]]; exists dr; split; [exact E1|];
                let N := fresh in intro N; right; split; [reflexivity|];
                destruct (E2 N) as [[e0 Z]|[Z _]]; [injection Z as -> ->|discriminate Z];
                destruct (rErr s); cbn; repeat match goal with |- context [if ?c then _ else _] => destruct c end; discriminate).
  - destruct (pCR s) as [p|] eqn:Ep; [|destruct Hin].
    apply in_map_iff in Hin. destruct Hin as [[s2 r2] [Heq Hin]]. injection Heq as <- -> ->.
    unfold receiver_steps in Hin. destruct p.
    all: split_in Hin.
    all: repeat match goal with
                | H : (if ?c then _ else _) = (_, _) |- _ => destruct c eqn:?
                | H : match ?x with _ => _ end = (_, _) |- _ => destruct x eqn:?
                end.
    all: try match goal with H : _ = (_, _) |- _ => unfold ret in H; injection H as <- <- end.
    all: unf. all: body_same Hb.
    all: repeat match goal with X : rph ?s = _ |- _ => rewrite X in * end.
    all: constructor; unfold hold, drain_ok, gave_up; unf.
    all: try (exists lost; exact A).
    all: try exact B. all: try exact DN. all: try exact C. all: try exact D. all: try exact DR. all: try exact F.
    all: try exact G. all: try exact E. all: try exact H. all: try exact P. all: try exact Logic.I.
    all: try (intros [[? X]|X]; discriminate X).
    all: try (intros _; assumption).
    all: try (intros _; exact (P ltac:(first [left; eexists; reflexivity|right; reflexivity]))).
    all: try (exfalso; match goal with Hc : chClosed ?s = true |- _ => destruct (C Hc); congruence end).
    all: try (let X := fresh in intro X; exfalso;
              rewrite (P ltac:(first [left; eexists; reflexivity|right; reflexivity])) in X; discriminate X).
    all: try (let X := fresh in intros X _; exact (G X eq_refl)).
    all: try (let X := fresh in intro X; destruct (C X) as [? ?]; split; congruence).
    all: try (let X := fresh in intro X; discriminate X).
    all: try (intros _ _; discriminate).
    all: try (let X := fresh in let Y := fresh in intros X Y; specialize (G X Y); congruence).
    all: try (let X := fresh in intro X; match goal with Hf : respStream ?s = false |- _ => rewrite Hf in X; discriminate X end).
    all: try (let X := fresh in intro X; destruct (E X) as [dr [E1 E2]]; exists dr;
              rewrite ?msgs_snoc, ?final_no_msg; cbn [app]; rewrite ?app_nil_r;
              split; [rewrite E1; cbn [app]; repeat rewrite <- app_assoc; cbn [app]; reflexivity
                     |first [exact E2
                            |(let N := fresh in let Z := fresh in intro N; destruct (E2 N) as [[? Z]|[Z _]]; discriminate Z)]]).
    all: try (let X := fresh in let Y := fresh in intros X Y; apply in_app_or in Y; destruct Y as [Y|[Y|[]]];
              [exact (H X Y)|try discriminate Y]).
    all: try (match goal with
              | Hf : final ?s0 = REOF |- _ =>
                  destruct (final_eof _ Hf) as [Hr Ht];
                  assert (Hex : rph s0 = RExit)
                    by (first [ match goal with X : respStream s0 = true |- _ => exact (G X eq_refl) end
                              | match goal with Hc : chClosed s0 = true |- _ => destruct (C Hc); assumption end ]);
                  split; [exact Hex|split; [exact Hr|destruct Ht as [Ht|Ht]; [exact Ht|exfalso; exact (F Hex Hr Ht)]]]
              end).
    all: try (let Y := fresh in intros _ Y; specialize (G eq_refl Y); discriminate G).
    all: try (intros _; destruct (E eq_refl) as [dr [E1 E2]]; exists dr;
              rewrite ?msgs_snoc; cbn [app]; rewrite ?app_nil_r;
              split; [rewrite E1; cbn [app]; repeat rewrite <- app_assoc; cbn [app]; reflexivity
                     |let N := fresh in let Z := fresh in intro N; destruct (E2 N) as [[? Z]|[Z _]]; discriminate Z]).
    all: try (let Y := fresh in let Z := fresh in intros _ Y; apply in_app_or in Y; destruct Y as [Y|[Y|[]]];
              [destruct (H eq_refl Y) as [Z _]; discriminate Z|discriminate Y]).
    all: try (intros _; split; [assumption|exact (proj2 (C eq_refl))]).
    all: try (exfalso; destruct (C eq_refl) as [X _]; discriminate X).
    + intro X. destruct (C X) as [Y Z]. rewrite Y. split; [reflexivity|exact Z].
    + destruct (rph s) as [| |[|] [e0|]|]; try exact Logic.I; try exact DR.
      left. destruct (rErr s); discriminate.
    + intros _. destruct (rErr s); discriminate.
Qed.

Theorem inv_reachable rs b0 e0 s rd dn lg : hreach rs b0 e0 s rd dn lg -> Inv b0 s rd dn lg.
Proof.
  induction 1 as [|s x s' rd dn lg _ IH Hs|s a s' r rd dn lg rd' dn' lg' _ IH Hin Hb Hl].
  - apply inv_init.
  - eapply inv_start; eauto.
  - eapply inv_step; eauto.
Qed.

(* ---- the theorems ---- *)

(* the library's own "this shouldn't be possible" panics are unreachable *)
Theorem no_sanity_panic rs b0 e0 s rd dn lg : hreach rs b0 e0 s rd dn lg -> panicked s = false.
Proof. intro R. apply (i_nopanic _ _ _ _ _ (inv_reachable _ _ _ _ _ _ _ R)). Qed.

(* frames are read once and in order: what the loop read, then what was thrown away after it, then what is
   still unread, then what the transport never delivered, make up the reply body *)
Theorem read_in_order rs b0 e0 s rd dn lg :
  hreach rs b0 e0 s rd dn lg -> exists lost, b0 = rd ++ dn ++ body s ++ lost.
Proof. intro R. apply (i_cons _ _ _ _ _ (inv_reachable _ _ _ _ _ _ _ R)). Qed.

(* response streams: the messages RecvMsg has returned are, in order, a prefix of the data frames of the
   reply body -- whatever the interleaving, cancellation included *)
Theorem delivered_prefix b0 e0 s rd dn lg :
  hreach true b0 e0 s rd dn lg -> respStream s = true -> exists rest, datas b0 = msgs_of lg ++ rest.
Proof.
  intros R Hs. pose proof (inv_reachable _ _ _ _ _ _ _ R) as I. destruct (i_deliv _ _ _ _ _ I Hs) as [dr [E _]].
  destruct (i_cons _ _ _ _ _ I) as [lost A].
  exists (hold s ++ dr ++ datas (dn ++ body s ++ lost)).
  rewrite A. unfold datas at 1. rewrite flat_map_app. fold (datas rd). fold (datas (dn ++ body s ++ lost)).
  rewrite E. repeat rewrite <- app_assoc. reflexivity.
Qed.

(* response streams: io.EOF is returned only after the loop has read a trailer frame that says OK, and then
   EVERY data frame it read has been delivered: a clean end of stream is a complete stream *)
Theorem eof_means_complete b0 e0 s rd dn lg :
  hreach true b0 e0 s rd dn lg -> respStream s = true -> In REOF lg ->
  tr s = Some 0 /\ rErr s = None /\ datas rd = msgs_of lg.
Proof.
  intros R Hs Hin. pose proof (inv_reachable _ _ _ _ _ _ _ R) as I.
  destruct (i_eof _ _ _ _ _ I Hs Hin) as [Hex [Hr Ht]]. split; [exact Ht|]. split; [exact Hr|].
  destruct (i_deliv _ _ _ _ _ I Hs) as [dr [E E2]]. unfold hold in E. rewrite Hex in E. cbn [app] in E.
  destruct dr as [|d dr]; [rewrite E, app_nil_r; reflexivity|].
  exfalso. destruct (E2 ltac:(discriminate)) as [[e X]|[_ X]]; [rewrite Hex in X; discriminate X|apply X; exact Hr].
Qed.


Lemma final_not_msg s x : final s <> RMsg x.
Proof. unfold final. destruct (rErr s) as [e|]; [destruct (0 <=? e); discriminate|]. destruct (tr s) as [[| |]|]; discriminate. Qed.

(* ---- single-response methods, while the caller's context is live ---- *)
Record Single (s : st) (rd : list ev) (lg : list res) : Prop := {
  s_probe : forall x, pCR s = Some (PWait2 x) -> msgs_of lg = [] /\ datas rd = [x] ++ hold s /\ libCancel s = false;
  s_idle : done s = false -> pCR s <> Some PGot2 -> (forall x, pCR s <> Some (PWait2 x)) ->
           msgs_of lg = [] /\ datas rd = hold s /\ libCancel s = false;
  s_once : msgs_of lg = [] \/
           exists x, msgs_of lg = [x] /\ datas rd = [x] /\ rph s = RExit /\ rErr s = None /\ tr s = Some 0;
  s_cancel : libCancel s = true -> done s = true;
  s_wait : pCR s = Some PWait -> done s = true -> rph s = RExit;
  s_got2 : pCR s = Some PGot2 -> msgs_of lg = [];
  s_err : rErr s <> None -> done s = true \/ lock_held s = true
}.

Definition SingleInv (s : st) (rd : list ev) (lg : list res) : Prop :=
  respStream s = false -> cctx s = 0 -> Single s rd lg.

Lemma single_init b0 e0 : SingleInv (init false b0 e0) [] [].
Proof.
  intros _ _. constructor; cbn; auto; try discriminate.
Qed.

Lemma start_fields s x s' :
  apply_start s x = Some s' ->
  respStream s' = respStream s /\ (cctx s' = 0 -> cctx s = 0) /\ rph s' = rph s /\ done s' = done s /\ libCancel s' = libCancel s /\
  rErr s' = rErr s /\ tr s' = tr s /\
  (pCR s' = pCR s \/ (pCR s = None /\ pCR s' = Some PStart)).
Proof.
  destruct x; unfold apply_start.
  - destruct (pCR s) eqn:Ep; intro Hs; [discriminate|]. injection Hs as <-. cbn. repeat split; auto.
  - destruct (Nat.ltb (avail s) (length (body s))); intro Hs; [|discriminate]. injection Hs as <-. cbn. repeat split; auto.
  - destruct (ended s); intro Hs; [discriminate|]. injection Hs as <-. cbn. repeat split; auto.
  - intro Hs. injection Hs as <-. destruct (cctx s =? 0) eqn:Ec; cbn; repeat split; auto; intro X; discriminate X.
  - intro Hs. injection Hs as <-. destruct (cctx s =? 0) eqn:Ec; cbn; repeat split; auto; intro X; discriminate X.
Qed.

Lemma single_start s x s' rd lg : SingleInv s rd lg -> apply_start s x = Some s' -> SingleInv s' rd lg.
Proof.
  intros S Hs Hr Hc. destruct (start_fields _ _ _ Hs) as [E1 [E2 [E3 [E4 [E5 [E6 [E7 E8]]]]]]].
  rewrite E1 in Hr. specialize (S Hr (E2 Hc)). destruct S as [A B C D W G E].
  unfold hold, lock_held in *. constructor; unfold hold, lock_held; rewrite ?E3, ?E4, ?E5, ?E6, ?E7.
  - intros y Hx. destruct E8 as [E8|[_ E8]]; rewrite E8 in Hx; [exact (A y Hx)|discriminate Hx].
  - intros Hd Hn Hp. destruct E8 as [E8|[E8 E9]].
    + rewrite E8 in Hn, Hp. exact (B Hd Hn Hp).
    + apply B; [exact Hd|rewrite E8; discriminate|intro y; rewrite E8; discriminate].
  - exact C.
  - exact D.
  - intros Hw. destruct E8 as [E8|[_ E8]]; rewrite E8 in Hw; [exact (W Hw)|discriminate Hw].
  - intros Hw. destruct E8 as [E8|[_ E8]]; rewrite E8 in Hw; [exact (G Hw)|discriminate Hw].
  - exact E.
Qed.

Lemma internal_static s a s' r : In (a, (s', r)) (internal s) -> respStream s' = respStream s /\ cctx s' = cctx s.
Proof.
  intro Hin. unfold internal in Hin. apply in_app_or in Hin. destruct Hin as [Hin|Hin].
  - apply in_map_iff in Hin. destruct Hin as [[s2 r2] [Heq Hin]]. injection Heq as <- -> ->.
    unfold reader_steps in Hin. destruct (rph s) eqn:Eph; [| | |destruct Hin].
    all: split_in Hin.
    all: try match goal with H : _ = (_, _) |- _ => injection H as <- <- end.
    all: unfold finish, upd, set_ph; cbn; split; reflexivity.
  - destruct (pCR s) as [p|] eqn:Ep; [|destruct Hin].
    apply in_map_iff in Hin. destruct Hin as [[s2 r2] [Heq Hin]]. injection Heq as <- -> ->.
    unfold receiver_steps in Hin. destruct p.
    all: split_in Hin.
    all: repeat match goal with
                | H : (if ?c then _ else _) = (_, _) |- _ => destruct c eqn:?
                | H : match ?x with _ => _ end = (_, _) |- _ => destruct x eqn:?
                end.
    all: try match goal with H : _ = (_, _) |- _ => unfold ret in H; injection H as <- <- end.
    all: unfold finish, upd, set_ph; cbn; split; first [reflexivity|symmetry; assumption|assumption].
Qed.

Lemma single_step b0 s a s' r rd dn lg rd' dn' lg' :
  Inv b0 s rd dn lg -> SingleInv s rd lg -> In (a, (s', r)) (internal s) -> body_step s s' rd dn rd' dn' ->
  lg' = (match a, r with CR, Some x => lg ++ [x] | _, _ => lg end) ->
  SingleInv s' rd' lg'.
Proof.
  intros I S Hin Hb -> Hr Hc. destruct (internal_static _ _ _ _ Hin) as [Es Ec]. rewrite Es in Hr. rewrite Ec in Hc.
  specialize (S Hr Hc). destruct S as [SA SB SC SD SW SG SE]. destruct I as [_ _ _ C D DR F _ _ _ _].
  assert (Hsc : sctx s = if libCancel s then 1 else 0) by (unfold sctx; rewrite Hc; reflexivity).
  unfold hold, drain_ok, body_step in *.
  unfold internal in Hin. apply in_app_or in Hin. destruct Hin as [Hin|Hin].
  - apply in_map_iff in Hin. destruct Hin as [[s2 r2] [Heq Hin]]. injection Heq as <- -> ->.
    unfold reader_steps in Hin. destruct (rph s) eqn:Eph; [| | |destruct Hin].
    all: split_in Hin.
    all: try match goal with H : _ = (_, _) |- _ => injection H as <- <- end.
    all: unf.
    all: repeat match goal with E : body ?s = _ |- _ => rewrite E in *; clear E end.
    all: cbn [draining] in Hb.
    all: destruct Hb as [[Hb1 [-> ->]]|[e' [Hb1 [-> ->]]]].
    all: try (exfalso; first [discriminate Hb1 | (apply cons_neq in Hb1; exact Hb1) | (symmetry in Hb1; apply cons_neq in Hb1; exact Hb1)]).
    all: try (injection Hb1 as <-).
    all: assert (Hm : msgs_of lg = []) by (destruct SC as [Hm|[x0 [_ [_ [X _]]]]]; [exact Hm|discriminate X]).
    all: try (assert (Hlc : libCancel s = true)
                by (destruct (libCancel s); [reflexivity|rewrite Hsc in *; discriminate])).
    all: constructor; unfold hold; unf; rewrite ?datas_snoc; cbn [app]; rewrite ?app_nil_r.
    all: try (left; exact Hm).
    all: try exact SD.
    all: try (intros _; reflexivity).
    all: try (intros _ _; reflexivity).
    all: try (let X := fresh in let Y := fresh in intros X Y; specialize (SW X Y); discriminate SW).
    all: try (let y := fresh in let Hy := fresh in intros y Hy; destruct (SA y Hy) as [M [Dd L]];
              first [ (rewrite Hlc in L; discriminate L)
                    | (split; [exact M|split; [rewrite Dd; cbn [app]; reflexivity|exact L]]) ]).
    all: try (let Hd := fresh in let Hn := fresh in let Hp := fresh in intros Hd Hn Hp;
              first [ (rewrite (SD Hlc) in Hd; discriminate Hd)
                    | (destruct (SB Hd Hn Hp) as [M [Dd L]]; split; [exact M|split; [rewrite Dd; cbn [app]; reflexivity|exact L]]) ]).
    all: try (let X := fresh in intro X; discriminate X).
    all: try (intros _; exact Hm).
    all: try (let X := fresh in intro X; unfold lock_held in *; cbn; rewrite ?Eph in SE;
              first [ (left; reflexivity) | (right; reflexivity)
                    | (destruct (SE X) as [Y|Y]; [left; exact Y|first [discriminate Y|right; exact Y]]) ]).
  - destruct (pCR s) as [p|] eqn:Ep; [|destruct Hin].
    apply in_map_iff in Hin. destruct Hin as [[s2 r2] [Heq Hin]]. injection Heq as <- -> ->.
    unfold receiver_steps in Hin. destruct p.
    all: split_in Hin.
    all: repeat match goal with
                | H : (if ?c then _ else _) = (_, _) |- _ => destruct c eqn:?
                | H : match ?x with _ => _ end = (_, _) |- _ => destruct x eqn:?
                end.
    all: try match goal with H : _ = (_, _) |- _ => unfold ret in H; injection H as <- <- end.
    all: unf. all: body_same Hb.
    all: try (assert (Hlc : libCancel s = true)
                by (destruct (libCancel s); [reflexivity|rewrite Hsc in *; discriminate])).
    all: constructor; unfold hold; unf; rewrite ?msgs_snoc, ?final_no_msg; cbn [app]; rewrite ?app_nil_r.
    all: try (exfalso; congruence).
    all: try exact SD.
    all: try exact SC.
    all: try exact SG.
    all: try exact SE.
    all: try (let X := fresh in intro X; unfold lock_held in *; cbn [rph];
              first [ (left; assumption) | (left; reflexivity)
                    | (destruct (SE X) as [Y|Y]; cbn in Y;
                       repeat match goal with E : rph _ = _ |- _ => rewrite E in Y; clear E end;
                       first [discriminate Y|(left; exact Y)|(right; exact Y)]) ]).
    all: try (intros _; exact (proj1 (SA _ eq_refl))).
    all: try (let y := fresh in let X := fresh in intros y X; discriminate X).
    all: try (let X := fresh in intro X; discriminate X).
    all: try (intros _ X; discriminate X).
    all: try (let Hd := fresh in let Hn := fresh in let Hp := fresh in intros Hd Hn Hp;
              exact (SB Hd ltac:(discriminate) ltac:(intros ? ?; discriminate))).
    all: try (let Hd := fresh in let Hn := fresh in let Hp := fresh in intros Hd Hn Hp;
              exfalso; first [ exact (Hn eq_refl) | exact (Hp _ eq_refl) | (rewrite (SD Hlc) in Hd; discriminate Hd) ]).
    all: try (intros _; exact SW).
    all: try (exfalso; match goal with Hf : final _ = RMsg _ |- _ => exact (final_not_msg _ _ Hf) end).
    all: try (let X := fresh in intro X; exfalso; congruence).
    all: try (let y := fresh in let X := fresh in intros y X; injection X as <-;
              destruct (done s) eqn:Ed; [specialize (SW eq_refl eq_refl); discriminate SW|];
              destruct (SB eq_refl ltac:(discriminate) ltac:(intros ? ?; discriminate)) as [M [Dd L]];
              split; [exact M|split; [rewrite Dd; reflexivity|exact L]]).
    all: try (intros _; assumption).
    all: try (exfalso; destruct (C eq_refl) as [X _]; discriminate X).
    all: try (destruct SC as [M|[? [_ [_ [X _]]]]]; [left; exact M|discriminate X]).
    all: try (match goal with
              | Hf : final ?s0 = REOF |- _ =>
                  destruct (final_eof _ Hf) as [Hre Htr]; destruct (C eq_refl) as [_ Hex];
                  destruct (SA _ eq_refl) as [M [Dd _]]; right; eexists; rewrite M; cbn [app];
                  split; [reflexivity|]; rewrite Hex in Dd; cbn [app] in Dd;
                  split; [exact Dd|split; [exact Hex|split; [exact Hre|]]];
                  destruct Htr as [Htr|Htr]; [exact Htr|exfalso; exact (F Hex Hre Htr)]
              end).
    all: try (intros _ _ _; destruct (SB eq_refl) as [M [Dd L]]; [congruence|intros; congruence|auto]).
    all: destruct (rErr s) as [e|] eqn:Ee; cbn [orb]; rewrite ?Bool.orb_true_r, ?Bool.orb_false_r.
    all: try (let X := fresh in intro X; discriminate X).
    all: try (intros _; reflexivity).
    all: try exact SD.
    all: try (left; destruct (0 <=? e); rewrite app_nil_r; exact (SG eq_refl)).
    all: try (left; rewrite app_nil_r; exact (SG eq_refl)).
    all: try (let X := fresh in intros X _ _; exfalso; destruct SE as [Y|Y]; [discriminate|congruence|discriminate Y]).
    all: try (intros _; left; reflexivity).
    all: try (let X := fresh in intro X; destruct (SE X) as [Y|Y]; [left; exact Y|discriminate Y]).
Qed.

Theorem single_reachable rs b0 e0 s rd dn lg : hreach rs b0 e0 s rd dn lg -> SingleInv s rd lg.
Proof.
  induction 1 as [|s x s' rd dn lg _ IH Hs|s a s' r rd dn lg rd' dn' lg' R IH Hin Hb Hl].
  - intros Hr Hc. cbn in Hr. subst rs. apply single_init; reflexivity.
  - eapply single_start; eauto.
  - eapply single_step; eauto. eapply inv_reachable; eauto.
Qed.

Lemma respStream_const rs b0 e0 s rd dn lg : hreach rs b0 e0 s rd dn lg -> respStream s = rs.
Proof.
  induction 1 as [|s x s' rd dn lg _ IH Hs|s a s' r rd dn lg rd' dn' lg' R IH Hin Hb Hl].
  - reflexivity.
  - destruct (start_fields _ _ _ Hs) as [E _]. congruence.
  - destruct (internal_static _ _ _ _ Hin) as [E _]. congruence.
Qed.

Lemma in_msgs l x : In (RMsg x) l -> In x (msgs_of l).
Proof. intro H. unfold msgs_of. apply in_flat_map. exists (RMsg x). split; [exact H|left; reflexivity]. Qed.

(* single-response methods (unary and client-streaming), caller's context still live: the caller is handed a
   message only when the response body held exactly one message followed by a trailer frame that says OK, the
   reader has finished, and no error was recorded; and it is handed at most one. *)
Theorem single_response_exactly_one b0 e0 s rd dn lg x :
  hreach false b0 e0 s rd dn lg -> cctx s = 0 -> In (RMsg x) lg ->
  msgs_of lg = [x] /\ datas rd = [x] /\ rph s = RExit /\ rErr s = None /\ tr s = Some 0.
Proof.
  intros R Hc Hin. pose proof (single_reachable _ _ _ _ _ _ _ R (respStream_const _ _ _ _ _ _ _ R) Hc) as S.
  apply in_msgs in Hin. destruct (s_once _ _ _ S) as [M|[y [M rest]]]; rewrite M in Hin.
  - destruct Hin.
  - destruct Hin as [<-|[]]. split; [exact M|exact rest].
Qed.

(* ... and while the context is live, nothing but a failure can follow: a second message makes the call fail
   with Internal and never reaches the caller *)
Theorem single_response_at_most_one b0 e0 s rd dn lg :
  hreach false b0 e0 s rd dn lg -> cctx s = 0 -> (length (msgs_of lg) <= 1)%nat.
Proof.
  intros R Hc. pose proof (single_reachable _ _ _ _ _ _ _ R (respStream_const _ _ _ _ _ _ _ R) Hc) as S.
  destruct (s_once _ _ _ S) as [M|[y [M _]]]; rewrite M; cbn; lia.
Qed.
