From Coq Require Import List Bool.
From Grpchan Require Import model.LateWrite.
Import ListNotations.

Lemma late_write_app t u b :
  late_write (t ++ u) b = late_write t b || late_write u (b || existsb (fun e => match e with Ret => true | _ => false end) t).
Proof.
  revert b; induction t as [|e t IH]; intro b; cbn.
  - rewrite orb_false_r. reflexivity.
  - destruct e; cbn.
    + rewrite IH. destruct b; cbn; [reflexivity|]. reflexivity.
    + rewrite IH. cbn. rewrite orb_true_r. reflexivity.
Qed.

Definition Inv (s : st) : Prop :=
  late_write (trace s) false = false /\
  existsb (fun e => match e with Ret => true | _ => false end) (trace s) = returned s.

Lemma inv_reach s : reachable s -> Inv s.
Proof.
  induction 1 as [|s l s' _ [A B] Hs]; [split; reflexivity|].
  destruct l; cbn in Hs.
  - destruct (sent s || closed s); [discriminate|]. injection Hs as <-. split; assumption.
  - destruct (closed s); [discriminate|]. injection Hs as <-. split; assumption.
  - destruct (sent s && negb (copied s) && negb (returned s)) eqn:E; [|discriminate]. injection Hs as <-. unfold Inv; cbn.
    apply andb_true_iff in E. destruct E as [_ E]. apply negb_true_iff in E.
    split; [rewrite late_write_app, A, B, E; reflexivity|rewrite existsb_app, B, E; reflexivity].
  - destruct (closed s && (negb (sent s) || copied s) && negb (returned s)); [|discriminate]. injection Hs as <-. unfold Inv; cbn.
    split; [rewrite late_write_app, A; reflexivity|rewrite existsb_app; cbn; rewrite orb_true_r; reflexivity].
  - destruct (ctx_done s && negb (returned s)); [|discriminate]. injection Hs as <-. unfold Inv; cbn.
    split; [rewrite late_write_app, A; reflexivity|rewrite existsb_app; cbn; rewrite orb_true_r; reflexivity].
  - injection Hs as <-. split; assumption.
Qed.

(* whatever the interleaving of the server goroutine, the caller's loop and cancellation: the caller's
   response message is never written after Invoke has returned -- an abandoned call's late answer stays
   in the channel *)
Theorem no_late_write s : reachable s -> late_write (trace s) false = false.
Proof. intro R. apply (inv_reach s R). Qed.

(* non-vacuity: an abandoned call whose handler answers afterwards *)
Fixpoint run (s : st) (ls : list label) : option st :=
  match ls with [] => Some s | l :: r => match step s l with Some s' => run s' r | None => None end end.
Lemma run_reachable ls : forall s s', reachable s -> run s ls = Some s' -> reachable s'.
Proof.
  induction ls as [|l ls IH]; intros s s' R E; cbn in E; [injection E as <-; exact R|].
  destruct (step s l) as [s1|] eqn:Es; [|discriminate]. eapply IH; [|exact E]. eapply r_step; eauto.
Qed.

Example abandoned_then_answered :
  exists s, reachable s /\ returned s = true /\ sent s = true /\ copied s = false.
Proof.
  destruct (run init [Cancel; RetCtx; Respond; Close]) as [s|] eqn:E; [|discriminate].
  exists s. split; [eapply run_reachable; [apply r_init|exact E]|]. cbn in E. injection E as <-. cbn. auto.
Qed.

(* ---- the executable acceptance test is sound: an accepted event trace is the trace of a reachable state,
   so an observed run that the correspondence check accepts has no late write ---- *)
Lemma tr_eqb_eq p : forall t, tr_eqb p t = true -> p = t.
Proof.
  induction p as [|a p IH]; intros [|b t] E; cbn in E; try discriminate; [reflexivity|].
  apply andb_true_iff in E. destruct E as [E1 E2]. rewrite (IH _ E2). destruct a, b; cbn in E1; try discriminate; reflexivity.
Qed.

Lemma possible_sound f : forall s t, reachable s -> possible f s t = true -> exists s', reachable s' /\ trace s' = t.
Proof.
  induction f as [|f IH]; intros s t R E; cbn [possible] in E; apply orb_true_iff in E; destruct E as [E|E].
  - exists s. split; [exact R|apply tr_eqb_eq; exact E].
  - discriminate E.
  - exists s. split; [exact R|apply tr_eqb_eq; exact E].
  - apply existsb_exists in E. destruct E as [l [_ E]]. destruct (step s l) as [s1|] eqn:Es; [|discriminate E].
    apply andb_true_iff in E. destruct E as [_ E]. apply (IH s1 t); [eapply r_step; eauto|exact E].
Qed.

Theorem accepted_trace_has_no_late_write f t : possible f init t = true -> late_write t false = false.
Proof.
  intro E. destruct (possible_sound f init t r_init E) as [s [R <-]]. apply no_late_write. exact R.
Qed.

Example late_trace_rejected : possible 8 init [Ret; WriteResp] = false /\ possible 8 init [Ret] = true /\ possible 8 init [WriteResp; Ret] = true.
Proof. vm_compute. auto. Qed.
