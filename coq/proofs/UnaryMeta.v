From Coq Require Import ZArith String Ascii List Bool Lia.
From Coq Require Import DecimalString Decimal.
From Grpchan Require Import lib.Str lib.Dec model.Creds model.StatusHttp model.UnaryMeta proofs.C14.
Import ListNotations.
Open Scope string_scope.

(* ---- the status header is SET: nothing the handler put into its response metadata survives under that key ---- *)
Lemma md_get_set k vs m : md_get k (md_set k vs m) = vs.
Proof.
  induction m as [|[k' vs'] r IH]; cbn [md_set md_get]; [now rewrite String.eqb_refl|].
  destruct (String.eqb k k') eqn:E; cbn [md_get]; rewrite E; [reflexivity|exact IH].
Qed.

Lemma status_header_is_the_handlers hmd tmd c msg :
  md_get status_key (server_unary_reply hmd tmd (Some (c, msg))) = [status_header_code c ++ ":" ++ msg].
Proof. unfold server_unary_reply. apply md_get_set. Qed.

(* ---- the code part of that header is the decimal code: a decimal numeral has no colon ---- *)
Lemma before_colon_uint d rest :
  before_colon (NilEmpty.string_of_uint d ++ String ":" rest) = NilEmpty.string_of_uint d.
Proof.
  induction d as [|d IH|d IH|d IH|d IH|d IH|d IH|d IH|d IH|d IH|d IH]; cbn [NilEmpty.string_of_uint append before_colon];
    try (rewrite IH; reflexivity).
  reflexivity.
Qed.

Lemma before_colon_uint0 d rest :
  before_colon (NilZero.string_of_uint d ++ String ":" rest) = NilZero.string_of_uint d.
Proof. destruct d; [reflexivity | exact (before_colon_uint _ rest) ..]. Qed.

Lemma before_colon_fmt_d z rest : before_colon (fmt_d z ++ String ":" rest) = fmt_d z.
Proof.
  unfold fmt_d, NilZero.string_of_int.
  destruct (Z.to_int z) as [d|d].
  - apply before_colon_uint0.
  - change (String "-" (NilZero.string_of_uint d) ++ String ":" rest)
      with (String "-" (NilZero.string_of_uint d ++ String ":" rest)).
    cbn [before_colon]. change (Ascii.eqb "-" ":") with false. cbv iota.
    f_equal. apply before_colon_uint0.
Qed.

(* the caller of a failed unary call recovers the handler's code whatever the handler's own response metadata
   says, x-grpc-status included (a relaying handler) *)
Lemma unary_code_recovered hmd tmd c msg hs :
  0 < c < 2 ^ 32 -> client_unary_code hs (server_unary_reply hmd tmd (Some (c, msg))) = c.
Proof.
  intro H. unfold client_unary_code. rewrite status_header_is_the_handlers.
  unfold status_header_code at 1. change (fmt_d (i32 (server_err_code c)) ++ ":" ++ msg)
    with (fmt_d (i32 (server_err_code c)) ++ String ":" msg).
  rewrite before_colon_fmt_d. apply (code_recovered c hs H).
Qed.

(* had the status been ADDED after the handler's metadata, a relayed "0:OK" would win: refuted on a concrete reply *)
Definition server_unary_reply_added (hmd tmd : md) (c : Z) (msg : string) : md :=
  md_add status_key [status_header_code c ++ ":" ++ msg] (to_headers "X-GRPC-Trailer-" tmd (to_headers "" hmd [])).

Lemma added_status_refuted :
  client_unary_code 503 (server_unary_reply_added [("x-grpc-status", ["0:OK"])] [] 14 "backend down") = 0%Z.
Proof. vm_compute. reflexivity. Qed.

(* ---- trailer keys: the name after the prefix, for every name ---- *)
Lemma trailer_key_roundtrip name :
  name <> "" ->
  is_trailer_key (trailer_prefix ++ name) = true /\
  drop (String.length trailer_prefix) (trailer_prefix ++ name) = name.
Proof.
  intro H. unfold is_trailer_key. cbn. split; [|reflexivity].
  destruct name; [congruence|reflexivity].
Qed.

(* reading "strip the prefix" as "trim the prefix's characters" loses the start of everyday names *)
Lemma trim_cutset_refuted :
  trim_left (trailer_prefix ++ "trace-id") trailer_prefix = "d" /\
  trim_left (trailer_prefix ++ "request-id") trailer_prefix = "quest-id" /\
  trim_left (trailer_prefix ++ "t") trailer_prefix = "".
Proof. vm_compute. repeat split. Qed.

(* non-vacuity: a reply with headers, trailers under everyday keys and a relayed status, taken apart again *)
Example unary_reply_example :
  let h := server_unary_reply [("k", ["v1"; "v2"]); ("x-grpc-status", ["0:OK"]); ("Content-Type", ["mine"])]
                              [("trace-id", ["t"]); ("retry-after", ["5"])] (Some (14%Z, "down")) in
  client_split h = ([("k", ["v1"; "v2"]); ("x-grpc-status", ["14:down"])], [("trace-id", ["t"]); ("retry-after", ["5"])])
  /\ client_unary_code 503 h = 14%Z.
Proof. vm_compute. split; reflexivity. Qed.

(* ================= every trailer the handler set reaches the caller under its own key ================= *)
From Grpchan Require Import proofs.C13.
From Coq Require FinFun.

Definition clean_md (m : md) : Prop :=
  NoDup (map fst m) /\ Forall (fun kv => to_lower (fst kv) = fst kv /\ str_mem (fst kv) reserved = false) m.
Definition prefixed (p : string) (m : md) : md := map (fun kv => (p ++ fst kv, snd kv)) m.

Lemma app_eqb p a b : String.eqb (p ++ a) (p ++ b) = String.eqb a b.
Proof. induction p as [|c p IH]; cbn; [reflexivity|]. now rewrite Ascii.eqb_refl. Qed.
Lemma app_inj p a b : p ++ a = p ++ b -> a = b.
Proof. intro H. apply String.eqb_eq. rewrite <- (app_eqb p). now apply String.eqb_eq. Qed.

Lemma prefixed_nil m : prefixed "" m = m.
Proof. unfold prefixed. induction m as [|[k v] m IH]; cbn [map]; [reflexivity|]. rewrite IH. reflexivity. Qed.

Lemma to_headers_join p m :
  Forall (fun kv => to_lower (fst kv) = fst kv /\ str_mem (fst kv) reserved = false) m ->
  forall h, to_headers p m h = md_join h (prefixed (to_lower p) m).
Proof.
  unfold to_headers, md_join. induction m as [|kv m IH]; intros F h; cbn [fold_left prefixed map]; [reflexivity|].
  inversion F as [|? ? [L R] F']; subst. cbn [fst snd]. rewrite L, R. apply IH. exact F'.
Qed.

Lemma md_get_prefixed p m k : md_get (p ++ k) (prefixed p m) = md_get k m.
Proof. induction m as [|[k' v] m IH]; cbn [prefixed map md_get fst snd]; [reflexivity|]. rewrite app_eqb. destruct (String.eqb k k'); [reflexivity|exact IH]. Qed.

Lemma md_get_none k m : Forall (fun kv => fst kv <> k) m -> md_get k m = [].
Proof.
  induction m as [|[k' v] m IH]; intro F; cbn [md_get]; [reflexivity|]. inversion F as [|? ? Hn F']; subst. cbn in Hn.
  destruct (String.eqb_spec k k'); [congruence|]. apply IH, F'.
Qed.

Lemma str_mem_In x l : str_mem x l = true <-> In x l.
Proof.
  induction l as [|y l IH]; cbn; [split; [discriminate|tauto]|].
  rewrite Bool.orb_true_iff, IH. destruct (String.eqb_spec x y); split; intros [H|H]; auto; try discriminate; congruence.
Qed.

Lemma md_get_notin k m : str_mem k (map fst m) = false -> md_get k m = [].
Proof.
  intro H. apply md_get_none. apply Forall_forall. intros kv Hin E. subst k.
  assert (str_mem (fst kv) (map fst m) = true) by (apply str_mem_In, in_map, Hin). congruence.
Qed.

Lemma In_keys_add x k vs m : In x (map fst (md_add k vs m)) -> x = k \/ In x (map fst m).
Proof.
  induction m as [|[k' v'] m IH]; cbn [md_add map fst In]; [intros [H|[]]; left; congruence|].
  destruct (String.eqb k k'); cbn [map fst In]; [tauto|]. intros [H|H]; [tauto|]. destruct (IH H); tauto.
Qed.
Lemma NoDup_keys_add k vs m : NoDup (map fst m) -> NoDup (map fst (md_add k vs m)).
Proof.
  induction m as [|[k' v'] m IH]; cbn [md_add map fst]; intro N; [repeat constructor; tauto|].
  inversion N as [|? ? Hnin N']; subst. destruct (String.eqb_spec k k'); cbn [map fst]; [constructor; assumption|].
  constructor; [|apply IH, N']. intro Hin. destruct (In_keys_add _ _ _ _ Hin); [congruence|tauto].
Qed.
Lemma In_keys_set x k vs m : In x (map fst (md_set k vs m)) -> x = k \/ In x (map fst m).
Proof.
  induction m as [|[k' v'] m IH]; cbn [md_set map fst In]; [intros [H|[]]; left; congruence|].
  destruct (String.eqb k k'); cbn [map fst In]; [tauto|]. intros [H|H]; [tauto|]. destruct (IH H); tauto.
Qed.
Lemma NoDup_keys_set k vs m : NoDup (map fst m) -> NoDup (map fst (md_set k vs m)).
Proof.
  induction m as [|[k' v'] m IH]; cbn [md_set map fst]; intro N; [repeat constructor; tauto|].
  inversion N as [|? ? Hnin N']; subst. destruct (String.eqb_spec k k'); cbn [map fst]; [constructor; assumption|].
  constructor; [|apply IH, N']. intro Hin. destruct (In_keys_set _ _ _ _ Hin); [congruence|tauto].
Qed.
Lemma NoDup_keys_join b : forall a, NoDup (map fst a) -> NoDup (map fst (md_join a b)).
Proof. unfold md_join. induction b as [|kv b IH]; intros a N; cbn [fold_left]; [exact N|]. apply IH, NoDup_keys_add, N. Qed.

Lemma md_get_set_other k k2 vs m : k <> k2 -> md_get k (md_set k2 vs m) = md_get k m.
Proof.
  intro Hne. apply String.eqb_neq in Hne.
  induction m as [|[k' vs'] r IH]; cbn [md_set md_get]; [now rewrite Hne|].
  destruct (String.eqb k2 k') eqn:E2; cbn [md_get].
  - apply String.eqb_eq in E2. subst k'. now rewrite Hne.
  - destruct (String.eqb k k'); [reflexivity|exact IH].
Qed.

Lemma has_prefix_app p s : has_prefix p (p ++ s) = true.
Proof. induction p as [|c p IH]; cbn; [reflexivity|]. now rewrite Ascii.eqb_refl. Qed.
Lemma has_prefix_drop p : forall k, has_prefix p k = true -> k = p ++ drop (String.length p) k.
Proof.
  induction p as [|c p IH]; intros k H; cbn in *; [reflexivity|].
  destruct k as [|d k]; [discriminate|]. apply Bool.andb_true_iff in H as [E H]. apply Ascii.eqb_eq in E. subst d.
  f_equal. apply IH, H.
Qed.

Lemma trailer_key_name k : is_trailer_key k = true -> k = trailer_prefix ++ drop (String.length trailer_prefix) k.
Proof. unfold is_trailer_key. intro H. apply Bool.andb_true_iff in H as [H _]. now apply has_prefix_drop. Qed.

(* setMetadata, trailer side: under a trailer's name the caller finds the values of the prefixed header *)
Lemma split_trailers name : name <> "" -> forall h acc,
  NoDup (map fst h) ->
  md_get name (snd (fold_left split_step h acc)) =
    if str_mem (trailer_prefix ++ name) (map fst h) then md_get (trailer_prefix ++ name) h else md_get name (snd acc).
Proof.
  intro Hn. induction h as [|[k vs] r IH]; intros acc N; cbn [fold_left map fst str_mem md_get]; [reflexivity|].
  inversion N as [|? ? Hnin N']; subst. rewrite (IH _ N').
  destruct (String.eqb_spec (trailer_prefix ++ name) k) as [E|NE]; cbn [orb].
  - subst k. assert (str_mem (trailer_prefix ++ name) (map fst r) = false) as ->.
    { destruct (str_mem _ _) eqn:S; [|reflexivity]. apply str_mem_In in S. tauto. }
    unfold split_step. cbn [fst snd]. destruct (trailer_key_roundtrip name Hn) as [T D]. rewrite T, D. cbn [snd].
    apply md_get_set.
  - destruct (str_mem (trailer_prefix ++ name) (map fst r)); [reflexivity|].
    unfold split_step. cbn [fst snd]. destruct (is_trailer_key k) eqn:T; cbn [snd]; [|reflexivity].
    apply md_get_set_other. intro E. apply NE. rewrite (trailer_key_name k T). now rewrite <- E.
Qed.

Theorem trailers_delivered hmd tmd st name :
  clean_md hmd -> clean_md tmd -> Forall (fun kv => is_trailer_key (fst kv) = false) hmd -> name <> "" ->
  md_get name (snd (client_split (server_unary_reply hmd tmd st))) = md_get name tmd.
Proof.
  intros [Nh Ch] [Nt Ct] Fh Hn.
  assert (Hkey : is_trailer_key (trailer_prefix ++ name) = true) by apply (trailer_key_roundtrip name Hn).
  set (H2 := to_headers "X-GRPC-Trailer-" tmd (to_headers "" hmd [])).
  assert (E2 : H2 = md_join (md_join [] hmd) (prefixed trailer_prefix tmd)).
  { unfold H2. rewrite (to_headers_join "" hmd Ch), (to_headers_join "X-GRPC-Trailer-" tmd Ct).
    change (to_lower "") with "". change (to_lower "X-GRPC-Trailer-") with trailer_prefix. now rewrite prefixed_nil. }
  assert (Np : NoDup (map fst (prefixed trailer_prefix tmd))).
  { unfold prefixed. rewrite map_map. cbn [fst]. rewrite <- (map_map fst (fun k => trailer_prefix ++ k)).
    apply FinFun.Injective_map_NoDup; [|exact Nt]. intros a b. apply app_inj. }
  assert (N2 : NoDup (map fst H2)) by (rewrite E2; apply NoDup_keys_join, NoDup_keys_join; constructor).
  assert (G2 : md_get (trailer_prefix ++ name) H2 = md_get name tmd).
  { rewrite E2, (join_values _ _ _ Np), (join_values _ _ _ Nh), md_get_prefixed. cbn [md_get app].
    rewrite md_get_none; [reflexivity|]. eapply Forall_impl; [|exact Fh]. intros kv T E. cbv beta in T. rewrite E, Hkey in T. discriminate T. }
  assert (Hst : trailer_prefix ++ name <> status_key).
  { intro E. pose proof (has_prefix_app trailer_prefix name) as P. rewrite E in P. discriminate P. }
  unfold client_split, server_unary_reply. fold H2.
  destruct st as [[c msg]|].
  - rewrite split_trailers by (try exact Hn; apply NoDup_keys_set, N2). cbn [snd md_get].
    destruct (str_mem _ _) eqn:S.
    + now rewrite md_get_set_other by exact Hst.
    + apply md_get_notin in S. rewrite md_get_set_other in S by exact Hst. now rewrite <- G2.
  - rewrite split_trailers by (try exact Hn; exact N2). cbn [snd md_get].
    destruct (str_mem _ _) eqn:S; [exact G2|]. apply md_get_notin in S. now rewrite <- G2.
Qed.

(* the hypotheses are met by the reply of the example above *)
Example trailers_delivered_applies :
  clean_md [("k", ["v1"; "v2"]); ("x-grpc-status", ["0:OK"])] /\ clean_md [("trace-id", ["t"]); ("retry-after", ["5"])] /\
  Forall (fun kv => is_trailer_key (fst kv) = false) [("k", ["v1"; "v2"]); ("x-grpc-status", ["0:OK"])].
Proof.
  repeat split; repeat constructor; cbn; try tauto; try (intros [H|H]; [discriminate|tauto]); intuition discriminate.
Qed.
