(* Soundness of the trace-acceptance function of the HTTP client-stream correspondence
   (corr/HttpSched.v accepts_from): an accepted schedule is a run of the LTS of model/HttpClient.v with
   ghost histories, so the invariants of proofs/HttpClient.v hold at its end. *)
From Coq Require Import ZArith List Bool Lia.
From Grpchan Require Import lib.Cases model.HttpClient corr.HttpSched proofs.HttpClient.
Import ListNotations.
Open Scope Z_scope.

Lemma step_body_shape s a s' r :
  In (a, (s', r)) (internal s) -> body s' = body s \/ exists e, body s = e :: body s'.
Proof.
  intro Hin. unfold internal in Hin. apply in_app_or in Hin. destruct Hin as [Hin|Hin].
  - apply in_map_iff in Hin. destruct Hin as [[s2 r2] [Heq Hin]]. injection Heq as <- -> ->.
    unfold reader_steps in Hin. destruct (rph s) eqn:Eph; [| | |destruct Hin].
    all: split_in Hin.
    all: try match goal with H : _ = (_, _) |- _ => injection H as <- <- end.
    all: unfold finish, upd, set_ph; cbn [body].
    all: try (left; reflexivity).
    all: try (left; symmetry; assumption).
    all: try (right; eexists; eassumption).
    all: try (right; eexists; reflexivity).
    all: try (left; assumption).
  - destruct (pCR s) as [p|] eqn:Ep; [|destruct Hin].
    apply in_map_iff in Hin. destruct Hin as [[s2 r2] [Heq Hin]]. injection Heq as <- -> ->.
    unfold receiver_steps in Hin. destruct p.
    all: split_in Hin.
    all: repeat match goal with
                | H : (if ?c then _ else _) = (_, _) |- _ => destruct c eqn:?
                | H : match ?x with _ => _ end = (_, _) |- _ => destruct x eqn:?
                end.
    all: try match goal with H : _ = (_, _) |- _ => unfold ret in H; injection H as <- <- end.
    all: unfold finish, upd, set_ph; cbn [body]; left; reflexivity.
Qed.

(* every step can be given its ghost update; the log grows by exactly what the receiver returned *)
Definition step_log (a : actor) (r : option res) (lg : list res) : list res :=
  match a, r with CR, Some x => lg ++ [x] | _, _ => lg end.

Lemma step_has_history rs b0 e0 s a s' r rd dn lg :
  hreach rs b0 e0 s rd dn lg -> In (a, (s', r)) (internal s) ->
  exists rd' dn', hreach rs b0 e0 s' rd' dn' (step_log a r lg).
Proof.
  intros R Hin. unfold step_log. destruct (step_body_shape _ _ _ _ Hin) as [E|[e E]].
  - exists rd, dn.
    eapply h_step; [exact R|exact Hin| |reflexivity]. left. auto.
  - destruct (draining (rph s)) eqn:Ed.
    + exists rd, (dn ++ [e]).
      eapply h_step; [exact R|exact Hin| |reflexivity]. right. exists e. rewrite Ed. auto.
    + exists (rd ++ [e]), dn.
      eapply h_step; [exact R|exact Hin| |reflexivity]. right. exists e. rewrite Ed. auto.
Qed.

(* only the receiver returns results *)
Lemma reader_returns_nothing s a s' r : In (a, (s', r)) (internal s) -> a = R -> r = None.
Proof.
  intros Hin ->. unfold internal in Hin. apply in_app_or in Hin. destruct Hin as [Hin|Hin].
  - apply in_map_iff in Hin. destruct Hin as [[s2 r2] [Heq Hin]]. injection Heq as <- ->.
    unfold reader_steps in Hin. destruct (rph s) eqn:Eph; [| | |destruct Hin].
    all: split_in Hin.
    all: try match goal with H : _ = (_, _) |- _ => injection H as <- <- end.
    all: reflexivity.
  - destruct (pCR s) as [p|]; [|destruct Hin].
    apply in_map_iff in Hin. destruct Hin as [[s2 r2] [Heq _]]. discriminate Heq.
Qed.

(* a state with a ghost history whose log is lg, and on which Q holds *)
Definition has_log rs b0 e0 (Q : st -> Prop) (s : st) (lg : list res) : Prop :=
  (exists rd dn, hreach rs b0 e0 s rd dn lg) /\ Q s.

Definition internal_stable (Q : st -> Prop) : Prop :=
  forall s a s' r, Q s -> In (a, (s', r)) (internal s) -> Q s'.

Lemma crs_snoc acc a x : crs (acc ++ [(a, x)]) = crs acc ++ match a with CR => [x] | R => [] end.
Proof. unfold crs. rewrite flat_map_app. cbn. rewrite app_nil_r. destruct a; reflexivity. Qed.

Lemma explore_history rs b0 e0 Q (HQ : internal_stable Q) f : forall s acc s2 got lg,
  has_log rs b0 e0 Q s (lg ++ crs acc) -> In (Some (s2, got)) (explore f s acc) ->
  has_log rs b0 e0 Q s2 (lg ++ crs got).
Proof.
  induction f as [|f IH]; intros s acc s2 got lg Hh Hin; cbn [explore] in Hin.
  - destruct Hin as [Hin|[]]. discriminate.
  - destruct (internal s) as [|x steps] eqn:Ei.
    + destruct Hin as [Hin|[]]. injection Hin as <- <-. exact Hh.
    + apply in_flat_map in Hin. destruct Hin as [[a [s' r]] [Hx Hin]].
      eapply IH; [|exact Hin]. destruct Hh as [[rd [dn Rh]] Hq].
      assert (Hin' : In (a, (s', r)) (internal s)) by (rewrite Ei; exact Hx).
      split; [|eapply HQ; eauto].
      destruct (step_has_history _ _ _ _ _ _ _ _ _ _ Rh Hin') as [rd' [dn' R']].
      exists rd', dn'. unfold step_log in R'.
      destruct r as [x0|].
      * rewrite crs_snoc. destruct a.
        -- pose proof (reader_returns_nothing _ _ _ _ Hin' eq_refl) as X. discriminate X.
        -- rewrite app_assoc. exact R'.
      * destruct a; exact R'.
Qed.

Lemma res_eqb_eq x y : res_eqb x y = true <-> x = y.
Proof.
  destruct x, y; cbn; split; intro E; try discriminate; try reflexivity;
    try (apply Z.eqb_eq in E; congruence); try (injection E as ->; apply Z.eqb_refl).
Qed.

(* the acceptance function is sound: every state it keeps after a list of rounds has a ghost history whose
   result log is EXACTLY what the real client was observed to return in those rounds, in order; and any
   predicate that the internal steps and the rounds' start events preserve still holds *)
Theorem accepts_sound rs b0 e0 Q (okx : start -> Prop)
  (HQ : internal_stable Q)
  (HS : forall s x s', okx x -> Q s -> apply_start s x = Some s' -> Q s') rounds : forall S pre,
  Forall (fun r : hround => okx (fst r)) rounds ->
  (forall s, In s S -> has_log rs b0 e0 Q s pre) ->
  accepts_from S rounds = true -> exists s, has_log rs b0 e0 Q s (pre ++ all_res rounds).
Proof.
  induction rounds as [|[x obs] rest IH]; intros S pre Hok HSt Ha; cbn [accepts_from] in Ha.
  - destruct S as [|s S]; [discriminate|]. exists s. unfold all_res. cbn. rewrite app_nil_r. apply HSt. left. reflexivity.
  - set (S1 := flat_map (fun s => match apply_start s x with Some s' => [s'] | None => [] end) S) in *.
    set (ends := flat_map (fun s => explore fuel s []) S1) in *.
    destruct (existsb _ ends); [discriminate|].
    set (S2 := flat_map _ ends) in *.
    destruct S2 as [|y S2'] eqn:E2; [discriminate|]. rewrite <- E2 in Ha.
    inversion Hok as [|r0 l0 Hx Hrest]; subst. cbn [fst] in Hx.
    unfold all_res. cbn [flat_map snd]. fold (all_res rest). rewrite app_assoc.
    apply (IH S2 (pre ++ obs)); [exact Hrest| |exact Ha]. intros s2 Hin2.
    unfold S2 in Hin2. apply in_flat_map in Hin2. destruct Hin2 as [e [He Hin2]].
    destruct e as [[s2' got]|]; [|destruct Hin2].
    destruct (list_eqb res_eqb (crs got) obs) eqn:El; [|destruct Hin2]. destruct Hin2 as [<-|[]].
    apply (list_eqb_eq res_eqb res_eqb_eq) in El. rewrite <- El.
    unfold ends in He. apply in_flat_map in He. destruct He as [s1 [H1 He]].
    unfold S1 in H1. apply in_flat_map in H1. destruct H1 as [s [Hs H1]].
    destruct (apply_start s x) as [s1'|] eqn:Ea; [|destruct H1]. destruct H1 as [<-|[]].
    eapply explore_history; [exact HQ| |exact He]. cbn [crs flat_map]. rewrite app_nil_r.
    destruct (HSt s Hs) as [[rd [dn Rh]] Hq]. split; [|eapply HS; eauto].
    exists rd, dn. eapply h_start; eauto.
Qed.

(* what an accepted HTTP schedule means: a run of the LTS whose receiver returned exactly the observed results *)
Theorem accepted_http_schedule_is_a_run rs b0 e0 rounds :
  accepts_from [init rs b0 e0] rounds = true ->
  exists s rd dn, hreach rs b0 e0 s rd dn (all_res rounds) /\ Inv b0 s rd dn (all_res rounds).
Proof.
  intro Ha.
  destruct (accepts_sound rs b0 e0 (fun _ => True) (fun _ => True) ltac:(intros ? ? ? ? ? ?; exact Logic.I)
              ltac:(intros; exact Logic.I) rounds [init rs b0 e0] []) as [s [[rd [dn Rh]] _]].
  - apply Forall_forall. intros; exact Logic.I.
  - intros s [<-|[]]. split; [|exact Logic.I]. exists [], []. constructor.
  - exact Ha.
  - cbn [app] in Rh. exists s, rd, dn. split; [exact Rh|apply (inv_reachable _ _ _ _ _ _ _ Rh)].
Qed.

(* the caller's context is live at the end of a schedule that never cancels nor lets the deadline fire *)
Definition no_ctx_end (x : start) : Prop := match x with Cancel | Deadline => False | _ => True end.

Lemma live_internal : internal_stable (fun s => cctx s = 0).
Proof. intros s a s' r Hq Hin. destruct (internal_static _ _ _ _ Hin) as [_ E]. congruence. Qed.

Lemma live_start s x s' : no_ctx_end x -> cctx s = 0 -> apply_start s x = Some s' -> cctx s' = 0.
Proof.
  intros Hx Hc Hs. destruct x; try destruct Hx; unfold apply_start in Hs.
  - destruct (pCR s); [discriminate|]. injection Hs as <-. exact Hc.
  - destruct (Nat.ltb (avail s) (length (body s))); [|discriminate]. injection Hs as <-. exact Hc.
  - destruct (ended s); [discriminate|]. injection Hs as <-. exact Hc.
Qed.

(* single-response methods, on the OBSERVED results of an accepted schedule in which the caller's context
   stays live: at most one message is handed to the caller, and if message x is, then the response body's
   frames up to the first non-data frame are exactly [x] *)
Theorem accepted_single_response_schedule b0 e0 rounds :
  accepts_from [init false b0 e0] rounds = true ->
  Forall (fun r : hround => no_ctx_end (fst r)) rounds ->
  (length (got_msgs rounds) <= 1)%nat /\
  forall x, In (RMsg x) (all_res rounds) ->
    got_msgs rounds = [x] /\ exists rd rest, b0 = rd ++ rest /\ datas rd = [x].
Proof.
  intros Ha Hok.
  destruct (accepts_sound false b0 e0 (fun s => cctx s = 0) no_ctx_end live_internal live_start
              rounds [init false b0 e0] [] Hok) as [s [[rd [dn Rh]] Hc]].
  - intros s [<-|[]]. split; [|reflexivity]. exists [], []. constructor.
  - exact Ha.
  - cbn [app] in Rh. split.
    + exact (single_response_at_most_one _ _ _ _ _ _ Rh Hc).
    + intros x Hin. destruct (single_response_exactly_one _ _ _ _ _ _ x Rh Hc Hin) as [M [Dd _]].
      split; [exact M|].
      destruct (i_cons _ _ _ _ _ (inv_reachable _ _ _ _ _ _ _ Rh)) as [lost E].
      exists rd, (dn ++ body s ++ lost). split; [exact E|exact Dd].
Qed.
