(* Soundness of the trace-acceptance function of the HTTP client-stream correspondence
   (corr/HttpSched.v accepts_from): an accepted schedule is a run of the LTS of model/HttpClient.v with
   ghost histories, so the invariants of proofs/HttpClient.v hold at its end. *)
From Coq Require Import ZArith List Bool Lia.
From Grpchan Require Import lib.Cases model.HttpClient corr.HttpSched proofs.HttpClient.
Import ListNotations.
Open Scope Z_scope.

Lemma step_body_shape s a s' r :
  In (a, (s', r)) (internal s) -> body s' = body s \/ exists e, body s = e :: body s'.
Proof.
  intro Hin. unfold internal in Hin. apply in_app_or in Hin. destruct Hin as [Hin|Hin].
  - apply in_map_iff in Hin. destruct Hin as [[s2 r2] [Heq Hin]]. injection Heq as <- -> ->.
    unfold reader_steps in Hin. destruct (rph s) eqn:Eph; [| | |destruct Hin].
    all: split_in Hin.
    all: try match goal with H : _ = (_, _) |- _ => injection H as <- <- end.
    all: unfold finish, upd, set_ph; cbn [body].
    all: try (left; reflexivity).
    all: try (left; symmetry; assumption).
    all: try (right; eexists; eassumption).
    all: try (right; eexists; reflexivity).
    all: try (left; assumption).
  - destruct (pCR s) as [p|] eqn:Ep; [|destruct Hin].
    apply in_map_iff in Hin. destruct Hin as [[s2 r2] [Heq Hin]]. injection Heq as <- -> ->.
    unfold receiver_steps in Hin. destruct p.
    all: split_in Hin.
    all: repeat match goal with
                | H : (if ?c then _ else _) = (_, _) |- _ => destruct c eqn:?
                | H : match ?x with _ => _ end = (_, _) |- _ => destruct x eqn:?
                end.
    all: try match goal with H : _ = (_, _) |- _ => unfold ret in H; injection H as <- <- end.
    all: unfold finish, upd, set_ph; cbn [body]; left; reflexivity.
Qed.

(* every step can be given its ghost update *)
Lemma step_has_history rs b0 e0 s a s' r rd dn lg :
  hreach rs b0 e0 s rd dn lg -> In (a, (s', r)) (internal s) ->
  exists rd' dn' lg', hreach rs b0 e0 s' rd' dn' lg'.
Proof.
  intros R Hin. destruct (step_body_shape _ _ _ _ Hin) as [E|[e E]].
  - exists rd, dn, (match a, r with CR, Some x => lg ++ [x] | _, _ => lg end).
    eapply h_step; [exact R|exact Hin| |reflexivity]. left. auto.
  - destruct (draining (rph s)) eqn:Ed.
    + exists rd, (dn ++ [e]), (match a, r with CR, Some x => lg ++ [x] | _, _ => lg end).
      eapply h_step; [exact R|exact Hin| |reflexivity]. right. exists e. rewrite Ed. auto.
    + exists (rd ++ [e]), dn, (match a, r with CR, Some x => lg ++ [x] | _, _ => lg end).
      eapply h_step; [exact R|exact Hin| |reflexivity]. right. exists e. rewrite Ed. auto.
Qed.

Definition has_history rs b0 e0 (s : st) : Prop := exists rd dn lg, hreach rs b0 e0 s rd dn lg.

Lemma explore_history rs b0 e0 f : forall s acc s2 got,
  has_history rs b0 e0 s -> In (Some (s2, got)) (explore f s acc) -> has_history rs b0 e0 s2.
Proof.
  induction f as [|f IH]; intros s acc s2 got Hh Hin; cbn [explore] in Hin.
  - destruct Hin as [Hin|[]]. discriminate.
  - destruct (internal s) as [|x steps] eqn:Ei.
    + destruct Hin as [Hin|[]]. injection Hin as <- <-. exact Hh.
    + apply in_flat_map in Hin. destruct Hin as [[a [s' r]] [Hx Hin]].
      eapply IH; [|exact Hin]. destruct Hh as [rd [dn [lg R]]].
      eapply step_has_history; [exact R|rewrite Ei; exact Hx].
Qed.

Theorem accepts_sound rs b0 e0 rounds : forall S,
  (forall s, In s S -> has_history rs b0 e0 s) ->
  accepts_from S rounds = true -> exists s, has_history rs b0 e0 s.
Proof.
  induction rounds as [|[x obs] rest IH]; intros S HS Ha; cbn [accepts_from] in Ha.
  - destruct S as [|s S]; [discriminate|]. exists s. apply HS. left. reflexivity.
  - set (S1 := flat_map (fun s => match apply_start s x with Some s' => [s'] | None => [] end) S) in *.
    set (ends := flat_map (fun s => explore fuel s []) S1) in *.
    destruct (existsb _ ends); [discriminate|].
    set (S2 := flat_map _ ends) in *.
    destruct S2 as [|y S2'] eqn:E2; [discriminate|]. rewrite <- E2 in Ha.
    apply (IH S2); [|exact Ha]. intros s2 Hin2.
    unfold S2 in Hin2. apply in_flat_map in Hin2. destruct Hin2 as [e [He Hin2]].
    destruct e as [[s2' got]|]; [|destruct Hin2].
    destruct (list_eqb res_eqb (crs got) obs); [|destruct Hin2]. destruct Hin2 as [<-|[]].
    unfold ends in He. apply in_flat_map in He. destruct He as [s1 [H1 He]].
    unfold S1 in H1. apply in_flat_map in H1. destruct H1 as [s [Hs H1]].
    destruct (apply_start s x) as [s1'|] eqn:Ea; [|destruct H1]. destruct H1 as [<-|[]].
    eapply explore_history; [|exact He].
    destruct (HS s Hs) as [rd [dn [lg R]]]. exists rd, dn, lg. eapply h_start; eauto.
Qed.

(* what an accepted HTTP schedule means *)
Theorem accepted_http_schedule_is_a_run rs b0 e0 rounds :
  accepts_from [init rs b0 e0] rounds = true ->
  exists s rd dn lg, hreach rs b0 e0 s rd dn lg /\ Inv b0 s rd dn lg.
Proof.
  intro Ha. destruct (accepts_sound rs b0 e0 rounds [init rs b0 e0]) as [s [rd [dn [lg R]]]].
  - intros s [<-|[]]. exists [], [], []. constructor.
  - exact Ha.
  - exists s, rd, dn, lg. split; [exact R|apply (inv_reachable _ _ _ _ _ _ _ R)].
Qed.
