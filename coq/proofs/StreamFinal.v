(* What a SUCCESSFUL end of an in-process stream means, for every interleaving (complete LTS of
   model/InprocStream.v with ghost histories): when the client's RecvMsg has returned io.EOF on a response
   stream, or a message on a single-response method, then the response channel has been closed by the
   returning handler, no error frame was ever put on it, and every message put on it has been delivered. *)
From Coq Require Import ZArith List Bool Lia.
From Grpchan Require Import gen.Inproc model.InprocStream proofs.StreamInv proofs.StreamOrder proofs.StreamDeliver.
Import ListNotations.
Open Scope Z_scope.

Definition is_err (f : frame) : bool := match f with FErr _ => true | _ => false end.

(* an error frame the client has taken off the channel stays visible: it is the client's last frame, unless
   the call's context had ended (then the frame was dropped and the context error is reported) *)
Definition ErrSeen (s : st) (h : hist) : Prop :=
  existsb is_err (hq h) = true -> last_err s \/ cctx s <> 0.

Lemma existsb_snoc {A} (f : A -> bool) l x : existsb f (l ++ [x]) = existsb f l || f x.
Proof. rewrite existsb_app. cbn. rewrite orb_false_r. reflexivity. Qed.

Lemma errseen_client_step s p s' r h h' :
  DC s h -> ErrSeen s h -> get_pend s CR = Some p -> In (s', r) (steps_of s CR p) ->
  qstep (respQ s) (respQ s') (hp h) (hq h) (hp h') (hq h') -> ErrSeen s' h'.
Proof.
  intros [D1 [Dw [Dp _]]] ES Hp Hin Hq. cbn in Hp. unfold ErrSeen, last_err, wf_last in *.
  try match type of Hp with _ = Some (PProbe ?x) => rewrite (Dp x Hp) in * end.
  destruct p as [o| | | | | |]; try (destruct Hin; fail); try destruct o; cbn [steps_of] in Hin; try (destruct Hin; fail).
  all: split_in Hin.
  all: repeat match goal with H : (if ?c then _ else _) = (_, _) |- _ => destruct c eqn:? end.
  all: try match goal with H : _ = (_, _) |- _ => unfold done, goto in H; injection H as <- <- end.
  all: fields; zb.
  all: try match goal with P : pCR ?s = Some (PProbe ?x) |- _ => rewrite (Dp x P) in * end.
  all: repeat match goal with E : respQ ?s = _ |- _ => rewrite E in *; clear E end.
  all: repeat match goal with E : cLast ?s = _ |- _ => rewrite E in * end.
  all: use_q Hq.
  all: try match goal with E : cState ?s = 0 |- _ => rewrite (D1 E) in * end.
  all: try (exfalso; exact Dw).
  all: repeat match goal with E : hq _ = _ |- _ => rewrite E; clear E end.
  all: rewrite ?existsb_snoc; cbn [is_err]; rewrite ?orb_false_r.
  all: try exact ES.
  all: try (intros _; left; exact Logic.I).
  all: try (intros _; right; assumption).
  all: try (let X := fresh in intro X; destruct (ES X) as [Y|Y]; [destruct Y|right; exact Y]).
Qed.

Lemma errseen_other_step s a p s' r h h' :
  a <> CR -> ErrSeen s h -> get_pend s a = Some p -> In (s', r) (steps_of s a p) ->
  qstep (respQ s) (respQ s') (hp h) (hq h) (hp h') (hq h') -> ErrSeen s' h'.
Proof.
  intros Ha ES Hp Hin Hq.
  destruct (other_step_client_fields s a p s' r Ha Hp Hin) as [E1 [E2 [E3 [E4 Hsh]]]].
  assert (Ehq : hq h' = hq h).
  { destruct Hsh as [E|[f E]]; rewrite E in Hq.
    - apply qstep_same_inv in Hq. apply Hq.
    - apply qstep_push_inv in Hq. apply Hq. }
  unfold ErrSeen, last_err in *. rewrite E1, E4, Ehq. exact ES.
Qed.

Lemma errseen_start s x s' h : ErrSeen s h -> apply_start s x = Some s' -> ErrSeen s' h.
Proof.
  intros ES Hs. unfold ErrSeen, last_err in *. destruct x as [a o| |].
  - destruct (apply_start_call _ _ _ _ Hs) as [_ [-> _]]. destruct a; exact ES.
  - cbn in Hs. injection Hs as <-. destruct (cctx s =? 0) eqn:Ec; [cbn; intros _; right; discriminate|exact ES].
  - cbn in Hs. injection Hs as <-. destruct (cctx s =? 0) eqn:Ec; [cbn; intros _; right; discriminate|exact ES].
Qed.

Theorem errseen_reachable rs s h : lreach rs s h -> ErrSeen s h.
Proof.
  induction 1 as [|s x s' h R IH Hs|s a s' r h h' R IH Hin Hq _ Hl].
  - intro X. discriminate X.
  - eapply errseen_start; eauto.
  - unfold internal in Hin. apply in_flat_map in Hin. destruct Hin as [a' [_ Hin]].
    destruct (get_pend s a') as [p|] eqn:Ep; [|destruct Hin].
    apply in_map_iff in Hin. destruct Hin as [[s2 r2] [Heq Hin]]. injection Heq as -> -> ->.
    destruct (actor_eq_dec a CR) as [->|Hne].
    + eapply errseen_client_step; eauto. eapply DC_reachable; eauto.
    + eapply errseen_other_step; eauto.
Qed.


(* ---- success ---- *)
Definition ok_entry (rs : bool) (e : entry) : bool :=
  match e with
  | (CR, _, REOF) => rs
  | (CR, _, RMsg _) => negb rs
  | _ => false
  end.
Definition succeeded (rs : bool) (l : list entry) : bool := existsb (ok_entry rs) l.

Record OkInv (s : st) (h : hist) : Prop := {
  o_closed : respClosed s = true;
  o_empty : respQ s = [];
  o_last : cLast s = None;
  o_noprobe : forall x, pCR s <> Some (PProbe x);
  o_noerr : existsb is_err (hp h) = false;
  o_all : datas (hp h) = client_msgs (lg h);
  o_one : respStream s = false -> exists x, client_msgs (lg h) = [x]
}.

Lemma no_ok_no_msgs l : existsb (ok_entry false) l = false -> client_msgs l = [].
Proof.
  induction l as [|[[a o] x] l IH]; intro E; [reflexivity|]. cbn [existsb] in E. apply orb_false_iff in E. destruct E as [E1 E2].
  unfold client_msgs. cbn [flat_map]. fold (client_msgs l). rewrite (IH E2), app_nil_r.
  destruct a; try reflexivity. destruct x; try reflexivity. cbn in E1. discriminate E1.
Qed.
Definition Fin (s : st) (h : hist) : Prop := succeeded (respStream s) (lg h) = true -> OkInv s h.

Lemma fin_client_step s p s' r h h' :
  DC s h -> ErrSeen s h -> hp h = hq h ++ respQ s -> Fin s h ->
  get_pend s CR = Some p -> In (s', r) (steps_of s CR p) ->
  qstep (respQ s) (respQ s') (hp h) (hq h) (hp h') (hq h') -> lg h' = log_step s CR r (lg h) -> Fin s' h'.
Proof.
  intros [D1 [Dw [Dp [dr [D2 D3]]]]] ES Hcons F Hp Hin Hq Hl. unfold log_step in Hl. rewrite Hp in Hl.
  cbn in Hp. unfold Fin, succeeded, ErrSeen, held, last_err, wf_last in *. rewrite Hp in D2.
  try match type of Hp with _ = Some (PProbe ?x) => rewrite (Dp x Hp) in * end.
  remember (existsb (ok_entry (respStream s)) (lg h)) as okb eqn:Eokb.
  destruct p as [o| | | | | |]; try (destruct Hin; fail); try destruct o; cbn [steps_of] in Hin; try (destruct Hin; fail).
  all: split_in Hin.
  all: repeat match goal with H : (if ?c then _ else _) = (_, _) |- _ => destruct c eqn:? end.
  all: try match goal with H : _ = (_, _) |- _ => unfold done, goto in H; injection H as <- <- end.
  all: fields; zb.
  all: try match goal with P : pCR ?s = Some (PProbe ?x) |- _ => rewrite (Dp x P) in * end.
  all: repeat match goal with E : cLast ?s = _ |- _ => rewrite E in * end.
  all: try match goal with E : cState ?s = 0 |- _ => rewrite (D1 E) in * end.
  all: try (exfalso; exact Dw).
  all: rewrite Hl; rewrite ?existsb_snoc; cbn [ok_entry op_of_pend]; rewrite ?orb_false_r; try rewrite <- Eokb.
  (* already succeeded: the client stream is at its end, only the closed branches are possible *)
  all: intro Hs.
  all: repeat match goal with E : respStream ?s0 = _ |- _ => rewrite E in Hs end.
  all: try rewrite <- Eokb in Hs.
  all: destruct okb.
  all: try (destruct (F eq_refl) as [Oc Oe Ol Op On Oa Oo]; try (exfalso; congruence)).
  all: try (exfalso; match goal with P : pCR ?s0 = Some (PProbe ?x0) |- _ => exact (Op x0 P) end).
  all: try (cbn in Hs; discriminate Hs).
  all: repeat match goal with E : respQ ?s = _ |- _ => rewrite E in *; clear E end.
  all: use_q Hq.
  all: constructor; fields.
  all: try assumption.
  all: try reflexivity.
  all: try (intros ? X; discriminate X).
  all: try (rewrite Ehp; exact On).
  all: try (rewrite Ehp, Hl, client_msgs_snoc; cbn [op_of_pend]; rewrite app_nil_r; exact Oa).
  all: try (rewrite Hl, client_msgs_snoc; cbn [op_of_pend]; rewrite app_nil_r; exact Oo).
  all: try (let X := fresh in intro X; cbn in Hs; first [ congruence
              | (rewrite X in Eokb; symmetry in Eokb; eexists; rewrite Hl, client_msgs_snoc, (no_ok_no_msgs _ Eokb); cbn [op_of_pend app]; reflexivity) ]).
  all: assert (dr = []) by (destruct (nil_or_not dr) as [?|N]; [assumption|exfalso; destruct (D3 N) as [Y|Y]; [apply Y; assumption|exact Y]]); subst dr.
  all: rewrite Ehp, Hcons, app_nil_r.
  all: try (destruct (existsb is_err (hq h)) eqn:X; [exfalso; destruct (ES eq_refl) as [Y|Y]; [exact Y|apply Y; assumption]|reflexivity]).
  all: rewrite Hl, client_msgs_snoc, D2; cbn [op_of_pend app]; rewrite ?app_nil_r; reflexivity.
Qed.


(* other actors: the server side and the client's senders *)
Lemma other_step_resp s a p s' r :
  a <> CR -> get_pend s a = Some p -> In (s', r) (steps_of s a p) ->
  respStream s' = respStream s /\ (respClosed s = true -> respClosed s' = true) /\
  (forall f, respQ s' = respQ s ++ [f] -> respClosed s = true -> panicked s' = true).
Proof.
  intros Ha Hp Hin.
  destruct a; try congruence; destruct p as [o| | | | | |]; try (destruct Hin; fail); try destruct o; cbn [steps_of] in Hin;
    try (destruct Hin; fail).
  all: split_in Hin.
  all: repeat match goal with H : (if ?c then _ else _) = (_, _) |- _ => destruct c eqn:? end.
  all: try match goal with H : _ = (_, _) |- _ => unfold done, goto in H; injection H as <- <- end.
  all: fields.
  all: split; [reflexivity|split; [try (intro X; exact X); try (intros _; reflexivity)|]].
  all: intros f0 E Hc; try (exfalso; symmetry in E; eapply app_one_neq; eauto; fail).
  all: try (rewrite Hc, orb_true_r; reflexivity).
Qed.

Lemma ok_entry_other rs a o x : a <> CR -> ok_entry rs (a, o, x) = false.
Proof. intro Ha. destruct a; try congruence; reflexivity. Qed.

Lemma fin_other_step s a p s' r h h' :
  a <> CR -> panicked s' = false -> Fin s h -> get_pend s a = Some p -> In (s', r) (steps_of s a p) ->
  qstep (respQ s) (respQ s') (hp h) (hq h) (hp h') (hq h') -> lg h' = log_step s a r (lg h) -> Fin s' h'.
Proof.
  intros Ha Hnp F Hp Hin Hq Hl.
  destruct (other_step_client_fields s a p s' r Ha Hp Hin) as [E1 [E2 [E3 [E4 Hsh]]]].
  destruct (other_step_resp s a p s' r Ha Hp Hin) as [R1 [R2 R3]].
  assert (Es : succeeded (respStream s') (lg h') = succeeded (respStream s) (lg h)).
  { rewrite R1, Hl. unfold log_step, succeeded. rewrite Hp. destruct r as [x|]; [|reflexivity].
    rewrite existsb_snoc, (ok_entry_other _ _ _ _ Ha), orb_false_r. reflexivity. }
  assert (El : client_msgs (lg h') = client_msgs (lg h)).
  { rewrite Hl. unfold log_step. rewrite Hp. destruct r as [x|]; [apply client_msgs_other; exact Ha|reflexivity]. }
  unfold Fin. rewrite Es. intro Hs. destruct (F Hs) as [Oc Oe Ol Op On Oa Oo].
  destruct Hsh as [E|[f E]].
  - rewrite E in Hq. apply qstep_same_inv in Hq. destruct Hq as [Ehp Ehq].
    constructor; rewrite ?E1, ?E2, ?E, ?Ehp, ?El, ?R1; auto.
  - exfalso. rewrite (R3 f E Oc) in Hnp. discriminate Hnp.
Qed.

Lemma fin_start s x s' h : Fin s h -> apply_start s x = Some s' -> Fin s' h.
Proof.
  intros F Hs. unfold Fin in *. destruct x as [a o| |].
  - destruct (apply_start_call _ _ _ _ Hs) as [Eg [-> _]].
    assert (Er : respStream (set_pend s a (Some (PStart o))) = respStream s) by (destruct a; reflexivity).
    rewrite Er. intro X. destruct (F X) as [Oc Oe Ol Op On Oa Oo].
    destruct a; constructor; cbn; auto; intros y Y; discriminate Y.
  - cbn in Hs. injection Hs as <-. destruct (cctx s =? 0); [|exact F].
    cbn. intro X. destruct (F X) as [Oc Oe Ol Op On Oa Oo]. constructor; auto.
  - cbn in Hs. injection Hs as <-. destruct (cctx s =? 0); [|exact F].
    cbn. intro X. destruct (F X) as [Oc Oe Ol Op On Oa Oo]. constructor; auto.
Qed.

Theorem fin_reachable rs s h : lreach rs s h -> Fin s h.
Proof.
  induction 1 as [|s x s' h R IH Hs|s a s' r h h' R IH Hin Hq Hz Hl].
  - intro X. discriminate X.
  - eapply fin_start; eauto.
  - assert (R' : lreach rs s' h') by (eapply l_internal; eauto).
    pose proof (i_nopanic _ (inv_reachable _ _ (lreach_reachable _ _ _ R'))) as Hnp.
    unfold internal in Hin. apply in_flat_map in Hin. destruct Hin as [a' [_ Hin]].
    destruct (get_pend s a') as [p|] eqn:Ep; [|destruct Hin].
    apply in_map_iff in Hin. destruct Hin as [[s2 r2] [Heq Hin]]. injection Heq as -> -> ->.
    destruct (actor_eq_dec a CR) as [->|Hne].
    + eapply fin_client_step; eauto.
      * eapply DC_reachable; eauto.
      * eapply errseen_reachable; eauto.
      * eapply conservation. eapply lreach_hreach; eauto.
    + eapply fin_other_step; eauto.
Qed.

Lemma respStream_const rs s h : lreach rs s h -> respStream s = rs.
Proof.
  induction 1 as [|s x s' h R IH Hs|s a s' r h h' R IH Hin Hq Hz Hl].
  - reflexivity.
  - rewrite <- IH. destruct x as [a o| |].
    + destruct (apply_start_call _ _ _ _ Hs) as [_ [-> _]]. destruct a; reflexivity.
    + cbn in Hs. injection Hs as <-. destruct (cctx s =? 0); reflexivity.
    + cbn in Hs. injection Hs as <-. destruct (cctx s =? 0); reflexivity.
  - rewrite <- IH. unfold internal in Hin. apply in_flat_map in Hin. destruct Hin as [a' [_ Hin]].
    destruct (get_pend s a') as [p|] eqn:Ep; [|destruct Hin].
    apply in_map_iff in Hin. destruct Hin as [[s2 r2] [Heq Hin]]. injection Heq as -> -> ->.
    destruct (actor_eq_dec a CR) as [->|Hne].
    + clear - Ep Hin. cbn in Ep.
      destruct p as [o| | | | | |]; try (destruct Hin; fail); try destruct o; cbn [steps_of] in Hin; try (destruct Hin; fail).
      all: split_in Hin.
      all: repeat match goal with H : (if ?c then _ else _) = (_, _) |- _ => destruct c eqn:? end.
      all: try match goal with H : _ = (_, _) |- _ => unfold done, goto in H; injection H as <- <- end.
      all: fields; first [reflexivity|congruence].
    + apply (other_step_resp s a p s' r Hne Ep Hin).
Qed.

(* THE THEOREMS.  Response streams: io.EOF from RecvMsg means that the handler's side closed the response
   channel, that no error frame was ever put on it, and that every message put on it has been delivered, in
   order (with client_receives_prefix_of_pushed): a clean end of stream is a complete stream. *)
Theorem eof_means_complete s h :
  lreach true s h -> In (CR, CRecv, REOF) (lg h) ->
  respClosed s = true /\ respQ s = [] /\ existsb is_err (hp h) = false /\ datas (hp h) = client_msgs (lg h).
Proof.
  intros R Hin. pose proof (fin_reachable _ _ _ R) as F. unfold Fin in F. rewrite (respStream_const _ _ _ R) in F.
  assert (Hs : succeeded true (lg h) = true).
  { unfold succeeded. apply existsb_exists. exists (CR, CRecv, REOF). split; [exact Hin|reflexivity]. }
  destruct (F Hs) as [Oc Oe _ _ On Oa _]. auto.
Qed.

(* Single-response methods: a message handed to the caller means that it is the ONLY message ever put on the
   response channel, that no error frame was, and that the handler's side has closed the channel; and the
   caller is handed no second one *)
Theorem single_response_means_one s h x :
  lreach false s h -> In (CR, CRecv, RMsg x) (lg h) ->
  respClosed s = true /\ existsb is_err (hp h) = false /\ datas (hp h) = [x] /\ client_msgs (lg h) = [x].
Proof.
  intros R Hin. pose proof (fin_reachable _ _ _ R) as F. unfold Fin in F.
  pose proof (respStream_const _ _ _ R) as Er. rewrite Er in F.
  assert (Hs : succeeded false (lg h) = true).
  { unfold succeeded. apply existsb_exists. exists (CR, CRecv, RMsg x). split; [exact Hin|reflexivity]. }
  destruct (F Hs) as [Oc Oe _ _ On Oa Oo]. destruct (Oo Er) as [y Ey].
  assert (Hx : In x (client_msgs (lg h))).
  { unfold client_msgs. apply in_flat_map. exists (CR, CRecv, RMsg x). split; [exact Hin|left; reflexivity]. }
  rewrite Ey in Hx. destruct Hx as [<-|[]]. rewrite Oa, Ey. auto.
Qed.

(* ---- non-vacuity: executable runs with their ghost histories ---- *)
Definition frame_eq_dec (a b : frame) : {a = b} + {a <> b}.
Proof. decide equality; try apply Z.eq_dec; apply (list_eq_dec Z.eq_dec). Defined.
Definition lf_eq_dec := list_eq_dec frame_eq_dec.
Definition lz_eq_dec := list_eq_dec Z.eq_dec.

(* the ghost update that goes with a step from queue q to q', when there is one *)
Definition upd_hist {A} (dec : forall a b : list A, {a = b} + {a <> b}) (q q' p g : list A) : option (list A * list A) :=
  if dec q' q then Some (p, g)
  else match rev q' with
       | x :: _ => if dec q' (q ++ [x]) then Some (p ++ [x], g)
                   else match q with y :: t => if dec t q' then Some (p, g ++ [y]) else None | [] => None end
       | [] => match q with y :: t => if dec t q' then Some (p, g ++ [y]) else None | [] => None end
       end.

Fixpoint lexec (s : st) (h : hist) (l : list mv) : option (st * hist) :=
  match l with
  | [] => Some (s, h)
  | MStart x :: r => match apply_start s x with Some s' => lexec s' h r | None => None end
  | MInt n :: r =>
      match nth_error (internal s) n with
      | Some (a, (s', res)) =>
          match upd_hist lf_eq_dec (respQ s) (respQ s') (hp h) (hq h), upd_hist lz_eq_dec (reqQ s) (reqQ s') (rp h) (rq h) with
          | Some (p1, g1), Some (p2, g2) =>
              lexec s' {| hp := p1; hq := g1; rp := p2; rq := g2; lg := log_step s a res (lg h) |} r
          | _, _ => None
          end
      | None => None
      end
  end.

Lemma upd_hist_qstep q q' p g p' g' :
  upd_hist lf_eq_dec q q' p g = Some (p', g') -> qstep q q' p g p' g'.
Proof.
  unfold upd_hist. destruct (lf_eq_dec q' q) as [E|_]; [intro X; injection X as <- <-; apply qs_same; auto|].
  assert (Hpop : match q with y :: t => if lf_eq_dec t q' then Some (p, g ++ [y]) else None | [] => None end = Some (p', g') ->
                 qstep q q' p g p' g').
  { destruct q as [|y t]; [discriminate|]. destruct (lf_eq_dec t q') as [E|_]; [|discriminate].
    intro X. injection X as <- <-. eapply qs_pop; eauto. rewrite E. reflexivity. }
  destruct (rev q') as [|x t]; [exact Hpop|].
  destruct (lf_eq_dec q' (q ++ [x])) as [E|_]; [|exact Hpop].
  intro X. injection X as <- <-. eapply qs_push; eauto.
Qed.

Lemma upd_hist_qstepZ q q' p g p' g' :
  upd_hist lz_eq_dec q q' p g = Some (p', g') -> qstepZ q q' p g p' g'.
Proof.
  unfold upd_hist. destruct (lz_eq_dec q' q) as [E|_]; [intro X; injection X as <- <-; apply zs_same; auto|].
  assert (Hpop : match q with y :: t => if lz_eq_dec t q' then Some (p, g ++ [y]) else None | [] => None end = Some (p', g') ->
                 qstepZ q q' p g p' g').
  { destruct q as [|y t]; [discriminate|]. destruct (lz_eq_dec t q') as [E|_]; [|discriminate].
    intro X. injection X as <- <-. eapply zs_pop; eauto. rewrite E. reflexivity. }
  destruct (rev q') as [|x t]; [exact Hpop|].
  destruct (lz_eq_dec q' (q ++ [x])) as [E|_]; [|exact Hpop].
  intro X. injection X as <- <-. eapply zs_push; eauto.
Qed.

Lemma lexec_lreach rs l : forall s h s' h', lreach rs s h -> lexec s h l = Some (s', h') -> lreach rs s' h'.
Proof.
  induction l as [|m l IH]; intros s h s' h' R E; cbn [lexec] in E; [injection E as <- <-; exact R|].
  destruct m as [x|n].
  - destruct (apply_start s x) as [s1|] eqn:Ea; [|discriminate]. eapply IH; [|exact E]. eapply l_start; eauto.
  - destruct (nth_error (internal s) n) as [[a [s1 res]]|] eqn:En; [|discriminate].
    destruct (upd_hist lf_eq_dec (respQ s) (respQ s1) (hp h) (hq h)) as [[p1 g1]|] eqn:U1; [|discriminate].
    destruct (upd_hist lz_eq_dec (reqQ s) (reqQ s1) (rp h) (rq h)) as [[p2 g2]|] eqn:U2; [|discriminate].
    eapply IH; [|exact E]. eapply l_internal; [exact R|eapply nth_error_In; exact En| | |reflexivity]; cbn.
    + apply upd_hist_qstep. exact U1.
    + apply upd_hist_qstepZ. exact U2.
Qed.

(* a server-streaming call: two messages and a trailer, the client reads to io.EOF *)
Example eof_run :
  exists s h, lreach true s h /\ In (CR, CRecv, REOF) (lg h) /\ datas (hp h) = [9; 10] /\ client_msgs (lg h) = [9; 10].
Proof.
  set (l := [MStart (Call H (HSend 9)); MInt 0; MInt 0; MStart (Call CR CRecv); MInt 0;
             MStart (Call H (HSend 10)); MInt 0; MInt 0; MStart (Call CR CRecv); MInt 0;
             MStart (Call H (HSetTrailer [5])); MInt 0;
             MStart (Call H (HReturn 0)); MInt 0; MInt 0; MInt 0; MInt 0; MInt 0;
             MStart (Call CR CRecv); MInt 0; MInt 0]).
  destruct (lexec (init true) hist0 l) as [[s h]|] eqn:E; [|vm_compute in E; discriminate E].
  exists s, h. split; [eapply lexec_lreach; [apply l_init|exact E]|].
  vm_compute in E. injection E as <- <-. cbn. auto 10.
Qed.

(* a client-streaming call: one response, the handler returns nil: the caller is handed the message *)
Example single_run :
  exists s h, lreach false s h /\ In (CR, CRecv, RMsg 9) (lg h).
Proof.
  set (l := [MStart (Call H (HSend 9)); MInt 0; MInt 0; MStart (Call CR CRecv); MInt 0;
             MStart (Call H (HReturn 0)); MInt 0; MInt 0; MInt 0; MInt 0; MInt 0; MInt 0]).
  destruct (lexec (init false) hist0 l) as [[s h]|] eqn:E; [|vm_compute in E; discriminate E].
  exists s, h. split; [eapply lexec_lreach; [apply l_init|exact E]|].
  vm_compute in E. injection E as <- <-. cbn. auto 10.
Qed.
