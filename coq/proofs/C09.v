From Coq Require Import ZArith String Ascii List Bool Lia.
From Grpchan Require Import lib.Int lib.Dec lib.Hex lib.Str gen.Units model.Timeout.
Open Scope Z_scope.

Lemma byte_of_char_of z : 0 <= z < 256 -> byte_of (char_of z) = z.
Proof.
  intro H. unfold byte_of, char_of, Z_of_ascii, ascii_of_Z.
  rewrite N_ascii_embedding; [apply Z2N.id; lia|]. change 256%N with (Z.to_N 256). apply Z2N.inj_lt; lia.
Qed.

Lemma string_app_nonempty s c : (s ++ String c EmptyString)%string <> EmptyString.
Proof. destruct s; discriminate. Qed.

(* the millisecond count the client sends *)
Definition millis (r : Z) : Z := client_clamp (client_div r).

Lemma millis_spec r : 0 <= r ->
  (r < 1000000 -> millis r = 1) /\ (1000000 <= r -> millis r = r / 1000000).
Proof.
  intro H. unfold millis, client_clamp, client_div.
  rewrite Z.quot_div_nonneg by lia. split; intro Hr.
  - rewrite Z.div_small by lia. reflexivity.
  - assert (1 <= r / 1000000) by (apply Z.div_le_lower_bound; lia).
    destruct (Z.leb_spec (r / 1000000) 0); [lia|reflexivity].
Qed.

Lemma millis_pos r : 0 <= r -> 1 <= millis r.
Proof.
  intro H. destruct (millis_spec r H) as [A B]. destruct (Z_lt_ge_dec r 1000000).
  - rewrite A by lia. lia.
  - rewrite B by lia. apply Z.div_le_lower_bound; lia.
Qed.

Lemma millis_mono r1 r2 : 0 <= r1 <= r2 -> millis r1 <= millis r2.
Proof.
  intros [H0 H]. destruct (millis_spec r1 H0) as [A1 B1]. destruct (millis_spec r2 ltac:(lia)) as [A2 B2].
  destruct (Z_lt_ge_dec r1 1000000); destruct (Z_lt_ge_dec r2 1000000); try lia.
  - pose proof (millis_pos r2 ltac:(lia)). lia.
  - rewrite B1, B2 by lia. apply Z.div_le_mono; lia.
Qed.

Lemma client_suffix_is_m : client_suffix = 109.
Proof. reflexivity. Qed.

Lemma unit_of_m : unit_of 109 = 1000000.
Proof. reflexivity. Qed.

Lemma server_timeout_exact v unit :
  0 < unit -> 0 <= v -> v * unit <= maxint64 -> server_timeout v unit = v * unit.
Proof.
  intros Hu Hv Hm. unfold server_timeout.
  assert (Hq : v <= Z.quot 9223372036854775807 unit).
  { rewrite Z.quot_div_nonneg by lia. apply Z.div_le_lower_bound; unfold maxint64 in Hm; lia. }
  rewrite Z.gtb_ltb. destruct (Z.ltb_spec (Z.quot 9223372036854775807 unit) v); [lia|].
  apply wrap64_small. unfold in64, maxint64 in *. nia.
Qed.

Lemma server_timeout_saturates v unit :
  0 < unit -> 0 <= v -> maxint64 < v * unit -> server_timeout v unit = maxint64.
Proof.
  intros Hu Hv Hm. unfold server_timeout.
  rewrite Z.gtb_ltb. destruct (Z.ltb_spec (Z.quot 9223372036854775807 unit) v); [reflexivity|].
  exfalso. rewrite Z.quot_div_nonneg in * by lia.
  assert (v * unit <= 9223372036854775807).
  { pose proof (Z.mul_div_le 9223372036854775807 unit Hu). nia. }
  unfold maxint64 in Hm. lia.
Qed.

Lemma server_timeout_min v unit :
  0 < unit -> 0 <= v -> server_timeout v unit = Z.min (v * unit) maxint64.
Proof.
  intros Hu Hv. destruct (Z_le_gt_dec (v * unit) maxint64).
  - rewrite server_timeout_exact by assumption. lia.
  - rewrite server_timeout_saturates by lia. lia.
Qed.

Lemma decode_digits_unit v u :
  0 <= v < 2 ^ 63 -> 0 <= u < 256 -> unit_of u <> 0 ->
  decode_timeout (fmt_d v ++ String (char_of u) EmptyString) = Deadline (server_timeout v (unit_of u)).
Proof.
  intros Hv Hu Hn. unfold decode_timeout.
  destruct (String.eqb_spec (fmt_d v ++ String (char_of u) EmptyString) ""); [exfalso; eapply string_app_nonempty; eauto|].
  rewrite split_last_app, parse_int_fmt_d, byte_of_char_of by
      (try assumption; unfold in_bits; change (2 ^ (64 - 1)) with (2 ^ 63); lia).
  destruct (Z.eqb_spec (unit_of u) 0); [contradiction|reflexivity].
Qed.

(* the client's header decodes, on the server, to the whole milliseconds of the remaining time *)
Lemma roundtrip r :
  0 <= r < 2 ^ 63 -> decode_timeout (encode_timeout r) = Deadline (millis r * 1000000).
Proof.
  intro Hr. unfold encode_timeout. fold (millis r). rewrite client_suffix_is_m.
  pose proof (millis_pos r ltac:(lia)) as Hp.
  assert (Hm : millis r * 1000000 <= maxint64).
  { destruct (millis_spec r ltac:(lia)) as [A B]. destruct (Z_lt_ge_dec r 1000000).
    - rewrite A by lia. unfold maxint64. lia.
    - rewrite B by lia. pose proof (Z.mul_div_le r 1000000 ltac:(lia)). unfold maxint64. lia. }
  rewrite decode_digits_unit; [|unfold maxint64 in Hm; lia|lia|rewrite unit_of_m; lia].
  rewrite unit_of_m. now rewrite server_timeout_exact by lia.
Qed.

Lemma roundtrip_bounds r d :
  0 <= r < 2 ^ 63 -> decode_timeout (encode_timeout r) = Deadline d ->
  (1000000 <= r -> r - 1000000 < d <= r) /\ (r < 1000000 -> d = 1000000).
Proof.
  intros Hr E. rewrite roundtrip in E by exact Hr. injection E as <-.
  destruct (millis_spec r ltac:(lia)) as [A B]. split; intro H.
  - rewrite B by lia. pose proof (Z.mul_div_le r 1000000 ltac:(lia)).
    pose proof (Z.mul_succ_div_gt r 1000000 ltac:(lia)). lia.
  - rewrite A by lia. reflexivity.
Qed.

(* deadlines: sent/arrival instants in Z nanoseconds *)
Lemma deadline_bracket r d sent arrival :
  1000000 <= r < 2 ^ 63 -> sent <= arrival ->
  decode_timeout (encode_timeout r) = Deadline d ->
  let caller := sent + r in let handler := arrival + d in
  caller - 1000000 < handler /\ handler <= caller + (arrival - sent).
Proof.
  intros Hr Ha E. destruct (roundtrip_bounds r d ltac:(lia) E) as [B _]. specialize (B ltac:(lia)). cbn. lia.
Qed.

Lemma valid_units u : spec_unit u <> None -> 0 <= u < 256 /\ spec_unit u = Some (unit_of u) /\ 0 < unit_of u.
Proof.
  unfold spec_unit.
  repeat match goal with |- context [u =? ?k] => destruct (Z.eqb_spec u k); [subst u; intros _; repeat split; cbn; lia|] end.
  congruence.
Qed.

Lemma valid_values v u :
  0 <= v < 2 ^ 63 -> spec_unit u <> None ->
  decode_timeout (fmt_d v ++ String (char_of u) EmptyString) = Deadline (Z.min (v * unit_of u) maxint64).
Proof.
  intros Hv Hu. destruct (valid_units u Hu) as (Hr & _ & Hp).
  rewrite decode_digits_unit by (try assumption; lia). now rewrite server_timeout_min by lia.
Qed.

Lemma decode_total s : decode_timeout s <> Panic.
Proof.
  unfold decode_timeout. destruct (String.eqb_spec s ""); [discriminate|].
  destruct (split_last s) as [[body suf]|] eqn:E; [|exfalso; eapply split_last_nonempty; eauto].
  destruct (parse_int body 64); [|discriminate]. destruct (_ =? 0); discriminate.
Qed.

Lemma no_deadline : client_header None = None /\ server_deadline None = NoDeadline.
Proof. split; reflexivity. Qed.

(* witnesses: the values that used to wrap around now saturate *)
Lemma saturation_examples :
  decode_timeout "2562048H" = Deadline maxint64 /\ decode_timeout "99999999H" = Deadline maxint64 /\
  decode_timeout "5124096H" = Deadline maxint64 /\ decode_timeout "18446744074S" = Deadline maxint64 /\
  decode_timeout "2562047H" = Deadline 9223369200000000000.
Proof. vm_compute. repeat split. Qed.

(* what the unsaturated product did (the defect repaired by the saturation guard) *)
Lemma wrap_witness : wrap64 (2562048 * 3600000000000) < 0.
Proof. vm_compute. reflexivity. Qed.

(* ---- attempts: the header belongs to the instant it was computed at ---------------------------------
   A client that makes a second attempt (a lost first round trip) may re-send the header it computed for the
   first one, or compute a new one from what remains.  [computed] is when the header was computed from the
   remaining time r, [sent2 >= computed] when the attempt that reaches the server is handed to the transport. *)

(* whatever is re-sent, the handler's deadline exceeds the caller's by at most the time since the header was computed *)
Lemma resent_header_bound r d computed sent2 arrival :
  1000000 <= r < 2 ^ 63 -> computed <= sent2 <= arrival ->
  decode_timeout (encode_timeout r) = Deadline d ->
  arrival + d <= (computed + r) + (arrival - computed).
Proof.
  intros Hr Ht E. destruct (deadline_bracket r d computed arrival Hr ltac:(lia) E) as [_ B]. cbn in B. lia.
Qed.

(* a header computed anew for the attempt keeps the bound of the property: the transit of THAT attempt *)
Lemma recomputed_header_bracket r d computed sent2 arrival :
  let r2 := r - (sent2 - computed) in
  1000000 <= r2 -> r < 2 ^ 63 -> computed <= sent2 <= arrival ->
  decode_timeout (encode_timeout r2) = Deadline d ->
  let caller := computed + r in let handler := arrival + d in
  caller - 1000000 < handler /\ handler <= caller + (arrival - sent2).
Proof.
  intros r2 Hr2 Hr Ht E. subst r2.
  destruct (deadline_bracket (r - (sent2 - computed)) d sent2 arrival ltac:(lia) ltac:(lia) E) as [A B].
  cbn in A, B |- *. lia.
Qed.

(* a header re-sent as it was breaks it: a 3 s call whose first attempt is lost after 400 ms and whose second
   attempt takes 1 ms to arrive gives the handler 400 ms more than the caller has *)
Lemma resent_header_refuted :
  exists r d computed sent2 arrival,
    1000000 <= r < 2 ^ 63 /\ computed <= sent2 <= arrival /\
    decode_timeout (encode_timeout r) = Deadline d /\
    (computed + r) + (arrival - sent2) + 1000000 < arrival + d.
Proof.
  exists 3000000000, 3000000000, 0, 400000000, 401000000.
  split; [lia|]. split; [lia|]. split; [vm_compute; reflexivity|lia].
Qed.
