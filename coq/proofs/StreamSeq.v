From Coq Require Import ZArith List Bool Lia.
From Grpchan Require Import model.StreamSeq.
Import ListNotations.
Open Scope Z_scope.

(* frames a script has emitted never contain trailers or errors, and headers only in front *)
Definition is_data (f : frame) := match f with FData _ => true | _ => false end.
Definition no_tail_frames (fs : list frame) := forallb (fun f => match f with FTlr _ | FErr _ => false | _ => true end) fs.

(* shape of what the server has written so far: at most one header frame, first; then data only *)
Definition shape_ok (fs : list frame) : bool :=
  match fs with
  | FHdr _ :: r => forallb is_data r
  | r => forallb is_data r
  end.

Lemma forallb_app_data a b : forallb is_data (a ++ b) = forallb is_data a && forallb is_data b.
Proof. apply forallb_app. Qed.

Definition SInv (s : sst) : Prop :=
  shape_ok (out s) = true /\ (phase s = 0 -> out s = []) /\ (phase s = 0 \/ phase s = 1) /\ (phase s = 1 -> hdr s = []).

Lemma sinv_init : SInv sinit.
Proof. repeat split; auto. Qed.

Lemma shape_snoc_data fs x : shape_ok fs = true -> shape_ok (fs ++ [FData x]) = true.
Proof.
  destruct fs as [|f r]; [reflexivity|]. destruct f; cbn [shape_ok app]; intro H.
  - rewrite forallb_app_data, H. reflexivity.
  - change (FData x0 :: r ++ [FData x]) with ((FData x0 :: r) ++ [FData x]).
    rewrite forallb_app_data, H. reflexivity.
  - cbn in H. discriminate.
  - cbn in H. discriminate.
Qed.

Lemma sinv_step s o : SInv s -> SInv (sstep s o).
Proof.
  intros (Hs & H0 & Hp & H1). unfold SInv. destruct o; cbn [sstep].
  - destruct (Z.eqb_spec (phase s) 0) as [E|E]; cbn [phase hdr tlr out].
    + repeat split; auto. intro; discriminate.
    + repeat split; auto.
  - destruct (Z.eqb_spec (phase s) 0) as [E|E]; cbn [phase hdr tlr out].
    + rewrite (H0 E). unfold flush_hdr. cbn [hdr app].
      split; [destruct (hdr s ++ m); reflexivity|]. split; [intro; discriminate|]. split; [now right|reflexivity].
    + repeat split; auto.
  - destruct (Z.eqb_spec (phase s) 0) as [E|E]; cbn [phase hdr tlr out].
    + rewrite (H0 E). unfold flush_hdr. cbn [app].
      split; [destruct (hdr s); reflexivity|]. split; [intro; discriminate|]. split; [now right|reflexivity].
    + cbn [app]. split; [now apply shape_snoc_data|]. split; [intro; discriminate|]. split; [now right|reflexivity].
  - cbn [phase hdr tlr out]. repeat split; auto.
Qed.

Lemma sinv_run script : SInv (run_script script).
Proof.
  unfold run_script. assert (G : forall s, SInv s -> SInv (fold_left sstep script s)).
  { induction script as [|o r IH]; intros s H; [exact H|]. cbn. apply IH. now apply sinv_step. }
  apply G, sinv_init.
Qed.

(* consuming frames of the right shape *)
Lemma consume_data_only fs : forall msgs h t rest,
  forallb is_data fs = true ->
  consume (fs ++ rest) msgs h t = consume rest (msgs ++ datas fs) h t.
Proof.
  induction fs as [|f r IH]; intros msgs h t rest H; [cbn; now rewrite app_nil_r|].
  destruct f; cbn in H; try discriminate. cbn [app consume datas flat_map]. rewrite IH by exact H.
  now rewrite <- app_assoc.
Qed.

Definition first_hdr (fs : list frame) : md := match fs with FHdr m :: _ => m | _ => [] end.

Lemma consume_shape fs rest : shape_ok fs = true ->
  consume (fs ++ rest) [] [] [] = consume rest (datas fs) (first_hdr fs) [].
Proof.
  destruct fs as [|f r]; [reflexivity|]. destruct f; cbn [shape_ok]; intro H.
  - cbn [app consume first_hdr datas flat_map]. rewrite consume_data_only by exact H. reflexivity.
  - change ((FData x :: r) ++ rest) with ([FData x] ++ r ++ rest). cbn [app consume].
    cbn in H. rewrite consume_data_only by exact H. reflexivity.
  - cbn in H. discriminate.
  - cbn in H. discriminate.
Qed.

Definition tail_view (msgs : list Z) (h : md) (t : md) (code : Z) : view :=
  {| v_msgs := msgs; v_fin := if code =? 0 then FinEOF else FinStatus (final_code code); v_hdr := h; v_tlr := t |}.

(* THE CONTENT THEOREM: for every handler script and return value, a client that reads the whole
   stream sees exactly the messages sent, in order; the final status is the handler's (success
   only for a nil return); the trailers are everything passed to SetTrailer *)
Theorem view_of_script script code :
  let s := run_script script in
  exists h, client_view (server_emit script code) = tail_view (datas (out s ++ [])) h (tlr s) code /\
            v_msgs (client_view (server_emit script code)) = datas (out s).
Proof.
  cbn. destruct (sinv_run script) as (Hs & H0 & Hp & H1). set (s := run_script script) in *.
  unfold client_view, server_emit, finish. fold s. rewrite app_nil_r.
  destruct (Z.eqb_spec (phase s) 0) as [E|E].
  - (* nothing was written yet: the header frame (if any) is written by finish *)
    rewrite (H0 E). cbn [app]. unfold flush_hdr, tail_view.
    destruct (hdr s) as [|p hh]; destruct (tlr s) as [|q tt]; destruct (code =? 0); cbn; eexists; split; reflexivity.
  - rewrite consume_shape by exact Hs. cbn [app]. unfold tail_view.
    destruct (tlr s) as [|q tt]; destruct (code =? 0); cbn; eexists; split; reflexivity.
Qed.

Theorem status_is_handlers script code :
  v_fin (client_view (server_emit script code)) = if code =? 0 then FinEOF else FinStatus (final_code code).
Proof. destruct (view_of_script script code) as (h & E & _). rewrite E. reflexivity. Qed.

Theorem success_only_if_nil script code : v_fin (client_view (server_emit script code)) = FinEOF -> code = 0.
Proof. rewrite status_is_handlers. destruct (Z.eqb_spec code 0); [auto|discriminate]. Qed.

Theorem trailers_delivered script code : v_tlr (client_view (server_emit script code)) = tlr (run_script script).
Proof. destruct (view_of_script script code) as (h & E & _). rewrite E. reflexivity. Qed.

Theorem messages_delivered script code :
  v_msgs (client_view (server_emit script code)) = datas (out (run_script script)).
Proof. now destruct (view_of_script script code) as (h & _ & E). Qed.

(* setting headers after they were sent fails, and changes nothing *)
Theorem set_after_sent_fails s m : phase s = 1 ->
  sstep s (SetHeader m) = {| phase := 1; hdr := hdr s; tlr := tlr s; out := out s; acks := acks s ++ [false] |} /\
  sstep s (SendHeader m) = {| phase := 1; hdr := hdr s; tlr := tlr s; out := out s; acks := acks s ++ [false] |}.
Proof. intro H. cbn. rewrite H. split; reflexivity. Qed.

Theorem send_marks_headers_sent s x : phase (sstep s (SendMsg x)) = 1.
Proof. reflexivity. Qed.

(* ---- single-response methods ---- *)
Lemma probe_ok fs x y : single_probe fs x = OneOk y -> y = x /\ datas fs = [] /\ err_of fs = None.
Proof.
  induction fs as [|f r IH]; cbn; [intros [= <-]; auto|].
  destruct f; try discriminate; intro H; destruct (IH H) as (A & B & C); auto.
Qed.

(* success carrying x only if the server sent exactly one response, x, and no error *)
Theorem single_ok_exactly_one fs y :
  single_recv fs = OneOk y -> datas fs = [y] /\ err_of fs = None.
Proof.
  induction fs as [|f r IH]; cbn; [discriminate|].
  destruct f; try discriminate; intro H.
  - destruct (IH H). auto.
  - destruct (probe_ok r x y H) as (-> & D & E). split.
    + unfold datas in *. cbn. now rewrite D.
    + unfold err_of in *. cbn. exact E.
  - destruct (IH H). auto.
Qed.

Lemma probe_when_clean fs x : datas fs = [] -> err_of fs = None -> single_probe fs x = OneOk x.
Proof.
  induction fs as [|f r IH]; [reflexivity|]. destruct f; intros D E.
  - apply IH; assumption.
  - unfold datas in D. cbn in D. discriminate.
  - apply IH; assumption.
  - unfold err_of in E. cbn in E. discriminate.
Qed.

(* and conversely: exactly one response and no error gives success with it *)
Theorem single_one_gives_ok fs y : datas fs = [y] -> err_of fs = None -> single_recv fs = OneOk y.
Proof.
  induction fs as [|f r IH]; [discriminate|]. destruct f; intros D E.
  - apply IH; assumption.
  - unfold datas in D. cbn in D. injection D as -> D. cbn [single_recv]. apply probe_when_clean; [exact D|].
    unfold err_of in *. cbn in E. exact E.
  - apply IH; assumption.
  - unfold err_of in E. cbn in E. discriminate.
Qed.

(* no response, or more than one, is never a success *)
Theorem single_zero_or_many_fails fs : (datas fs = [] \/ (2 <= length (datas fs))%nat) -> forall y, single_recv fs <> OneOk y.
Proof.
  intros H y E. destruct (single_ok_exactly_one fs y E) as [D _]. rewrite D in H. destruct H as [H|H]; [discriminate|cbn in H; lia].
Qed.
