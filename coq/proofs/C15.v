From Coq Require Import ZArith String List Bool Lia Permutation.
From Grpchan Require Import model.Registry.
Import ListNotations.
Open Scope Z_scope.

Lemma lookup_app n r1 r2 :
  lookup n (r1 ++ r2) = match lookup n r1 with Some e => Some e | None => lookup n r2 end.
Proof.
  induction r1 as [|e r1 IH]; cbn; [reflexivity|]. destruct (String.eqb _ n); [reflexivity|exact IH].
Qed.

Lemma run_state r ops : fst (run r ops) = fold_left (fun s o => fst (step s o)) ops r.
Proof.
  revert r. induction ops as [|o ops IH]; intro r; cbn; [reflexivity|].
  destruct (step r o) as [r' x] eqn:E. specialize (IH r'). destruct (run r' ops) as [r'' xs]. cbn in *.
  now rewrite IH.
Qed.

Definition next (r : reg) (o : op) : reg :=
  match o with
  | Reg d h true => match lookup (d_name d) r with
                    | Some _ => r
                    | None => r ++ [{| e_desc := d; e_handler := h |}]
                    end
  | _ => r
  end.

Lemma step_next r o : fst (step r o) = next r o.
Proof.
  destruct o as [d h [|]| | |]; cbn; try reflexivity.
  unfold register. cbn. destruct (lookup (d_name d) r); reflexivity.
Qed.

(* the general form of the lookup theorem: from any state *)
Lemma lookup_fold n ops : forall r,
  lookup n (fold_left (fun s o => fst (step s o)) ops r) =
  match lookup n r with Some e => Some e | None => first_reg n ops end.
Proof.
  induction ops as [|o ops IH]; intro r.
  - cbn. destruct (lookup n r); reflexivity.
  - cbn [fold_left]. rewrite IH, step_next. clear IH.
    destruct o as [d h [|]| | |]; cbn [next first_reg]; try (destruct (lookup n r); reflexivity).
    destruct (lookup (d_name d) r) as [e0|] eqn:L.
    + destruct (String.eqb_spec (d_name d) n) as [E|E].
      * rewrite <- E, L. reflexivity.
      * destruct (lookup n r); reflexivity.
    + rewrite lookup_app. cbn [lookup e_desc d_name].
      destruct (lookup n r) eqn:Ln; [reflexivity|].
      destruct (String.eqb_spec (d_name d) n); reflexivity.
Qed.

Lemma lookup_run n r ops :
  lookup n (fst (run r ops)) = match lookup n r with Some e => Some e | None => first_reg n ops end.
Proof. rewrite run_state. apply lookup_fold. Qed.

Theorem lookup_history n ops : lookup n (final ops) = first_reg n ops.
Proof. unfold final. rewrite lookup_run. reflexivity. Qed.

Theorem query_history n ops :
  query (final ops) n = option_map (fun e => (d_id (e_desc e), e_handler e)) (first_reg n ops).
Proof. unfold query. now rewrite lookup_history. Qed.

Lemma first_reg_none n ops :
  (forall d h, ~ In (Reg d h true) ops \/ d_name d <> n) -> first_reg n ops = None.
Proof.
  induction ops as [|o ops IH]; intro H; [reflexivity|].
  assert (H' : forall d h, ~ In (Reg d h true) ops \/ d_name d <> n).
  { intros d h. destruct (H d h) as [A|A]; [left; intro; apply A; now right|now right]. }
  destruct o as [d h [|]| | |]; cbn; auto.
  destruct (String.eqb_spec (d_name d) n) as [E|E]; [|auto].
  destruct (H d h) as [A|A]; [exfalso; apply A; now left|contradiction].
Qed.

(* refusal leaves the state equal *)
Theorem refused_unchanged r d h i :
  i = false \/ lookup (d_name d) r <> None -> register r d h i = (r, Panic).
Proof.
  unfold register. intros [->|H]; [reflexivity|]. destruct i; [|reflexivity]. cbn.
  destruct (lookup (d_name d) r); [reflexivity|congruence].
Qed.

Theorem accepted_adds r d h :
  lookup (d_name d) r = None -> register r d h true = (r ++ [{| e_desc := d; e_handler := h |}], Done).
Proof. unfold register. cbn. now intros ->. Qed.

(* names in the registry are pairwise distinct: iteration visits each registration once *)
Definition names (r : reg) : list string := map (fun e => d_name (e_desc e)) r.

Lemma lookup_none_not_in n r : lookup n r = None -> ~ In n (names r).
Proof.
  induction r as [|e r IH]; cbn; [tauto|]. destruct (String.eqb_spec (d_name (e_desc e)) n); [discriminate|].
  intros H [A|A]; [contradiction|]. now apply IH.
Qed.

Lemma NoDup_snoc {A} (l : list A) x : NoDup l -> ~ In x l -> NoDup (l ++ [x]).
Proof.
  induction l as [|y l IH]; intros H Hx; cbn; [repeat constructor; tauto|].
  inversion H as [|? ? Hy Hl]; subst. constructor.
  - rewrite in_app_iff. cbn. intros [Q|[Q|[]]]; [contradiction|]. apply Hx. now left.
  - apply IH; [exact Hl|]. intro Q. apply Hx. now right.
Qed.

Lemma step_nodup r o : NoDup (names r) -> NoDup (names (fst (step r o))).
Proof.
  intro H. destruct o as [d h i| | |]; cbn; try exact H.
  unfold register. destruct i; cbn; [|exact H].
  destruct (lookup (d_name d) r) eqn:L; cbn; [exact H|].
  unfold names. rewrite map_app. cbn. apply NoDup_snoc; [exact H|].
  now apply lookup_none_not_in.
Qed.

Theorem names_nodup ops : NoDup (names (final ops)).
Proof.
  unfold final. rewrite run_state.
  assert (G : forall r, NoDup (names r) -> NoDup (names (fold_left (fun s o => fst (step s o)) ops r))).
  { induction ops as [|o ops IH]; intros r H; cbn; [exact H|]. apply IH. now apply step_nodup. }
  apply G. constructor.
Qed.

(* every entry is the first successful registration of its name, and vice versa *)
Lemma in_lookup e r : NoDup (names r) -> In e r -> lookup (d_name (e_desc e)) r = Some e.
Proof.
  induction r as [|x r IH]; intros H Hin; [destruct Hin|]. cbn.
  inversion H as [|? ? Hx Hr]; subst. destruct Hin as [->|Hin].
  - now rewrite String.eqb_refl.
  - destruct (String.eqb_spec (d_name (e_desc x)) (d_name (e_desc e))) as [E|E].
    + exfalso. apply Hx. rewrite E. unfold names. apply in_map_iff. now exists e.
    + now apply IH.
Qed.

Lemma lookup_in n r e : lookup n r = Some e -> In e r /\ d_name (e_desc e) = n.
Proof.
  induction r as [|x r IH]; cbn; [discriminate|].
  destruct (String.eqb_spec (d_name (e_desc x)) n) as [E|E].
  - intros [= <-]. split; [now left|exact E].
  - intro H. destruct (IH H). split; [now right|assumption].
Qed.

Theorem iterate_once ops e :
  In e (final ops) <-> first_reg (d_name (e_desc e)) ops = Some e.
Proof.
  rewrite <- lookup_history. split.
  - apply in_lookup, names_nodup.
  - intro H. now apply lookup_in in H.
Qed.

Theorem for_each_is_state ops :
  for_each (final ops) = map (fun e => (d_name (e_desc e), d_id (e_desc e), e_handler e)) (final ops).
Proof. reflexivity. Qed.

(* service info equals the reference server's when names inside a descriptor are distinct *)
Lemma dedup_last_nodup {A} (key : A -> string) (l : list A) : NoDup (map key l) -> dedup_last key l = l.
Proof.
  induction l as [|x l IH]; intro H; [reflexivity|]. cbn in *. inversion H as [|? ? Hx Hl]; subst.
  destruct (existsb (fun y => String.eqb (key y) (key x)) l) eqn:E.
  - exfalso. apply existsb_exists in E as [y [Hy Hk]]. apply String.eqb_eq in Hk.
    apply Hx. rewrite <- Hk. now apply in_map.
  - now rewrite IH.
Qed.

Definition well_named (d : sdesc) : Prop :=
  NoDup (d_methods d) /\ NoDup (map mi_name (d_streams d)).

Theorem info_matches_reference r :
  Forall (fun e => well_named (e_desc e)) r -> service_info r = ref_service_info r.
Proof.
  intro H. unfold service_info, ref_service_info. apply map_ext_in. intros e He.
  rewrite Forall_forall in H. destruct (H e He) as [Hm Hs].
  unfold ref_methods_info, methods_info.
  rewrite (dedup_last_nodup (fun n => n)) by (now rewrite map_id).
  now rewrite dedup_last_nodup.
Qed.

(* a concrete non-trivial history *)
Definition dA := {| d_id := 1; d_name := "a.A"; d_methods := ["M"%string]; d_streams := []; d_meta := 7 |}.
Definition dA' := {| d_id := 2; d_name := "a.A"; d_methods := []; d_streams := []; d_meta := 8 |}.
Definition dB := {| d_id := 3; d_name := "b.B"; d_methods := []; d_streams := [{| mi_name := "S"; mi_cs := true; mi_ss := false |}]; d_meta := 9 |}.

Lemma example_history :
  snd (run [] [Reg dA 10 false; Reg dA 11 true; Reg dA' 12 true; Reg dB 13 true; Query "a.A"; Query "c.C"; Each]) =
  [OPanic; ODone; OPanic; ODone; OQuery (Some (1, 11)); OQuery None; OEach [("a.A"%string, 1, 11); ("b.B"%string, 3, 13)]].
Proof. vm_compute. reflexivity. Qed.
