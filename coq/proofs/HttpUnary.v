From Coq Require Import ZArith List Bool Lia.
From Grpchan Require Import model.HttpUnary.
Import ListNotations.
Open Scope Z_scope.

Definition Inv (s : st) : Prop :=
  (body s = RFailCtx -> ctx s <> 0) /\
  (ctx s = 0 \/ ctx s = 1 \/ ctx s = 2) /\
  match result s with
  | Some (ORawCtx _) => False
  | Some (OStatus c) => ctx s <> 0 /\ c = ctx_status (ctx s)
  | _ => True
  end.

Lemma inv_step s l s' : Inv s -> step true s l = Some s' -> Inv s'.
Proof.
  intros [A [B C]] Hs. unfold step in Hs. destruct (result s) eqn:Er; [discriminate|].
  destruct l.
  - destruct ((ctx s =? 0) && ((k =? 1) || (k =? 2))) eqn:E; [|discriminate]. injection Hs as <-.
    apply andb_true_iff in E. destruct E as [_ E]. apply orb_true_iff in E.
    unfold Inv; cbn. repeat split; [intros _; destruct E as [E|E]; apply Z.eqb_eq in E; lia|destruct E as [E|E]; apply Z.eqb_eq in E; auto].
  - destruct (body s) eqn:Eb; try discriminate. injection Hs as <-. unfold Inv; cbn. repeat split; [discriminate|exact B].
  - destruct (body s) eqn:Eb; try discriminate. destruct (ctx s =? 0) eqn:Ec; [discriminate|]. injection Hs as <-.
    unfold Inv; cbn. repeat split; [intros _; apply Z.eqb_neq; exact Ec|exact B].
  - destruct (body s) eqn:Eb; try discriminate. injection Hs as <-. unfold Inv; cbn. repeat split; [discriminate|exact B].
  - destruct (at_select s); [discriminate|]. injection Hs as <-. unfold Inv; cbn. repeat split; [exact A|exact B].
  - destruct (at_select s && negb (ctx s =? 0)) eqn:E; [|discriminate]. injection Hs as <-.
    apply andb_true_iff in E. destruct E as [_ E]. apply negb_true_iff in E. apply Z.eqb_neq in E.
    unfold Inv; cbn. repeat split; [exact A|exact B|exact E].
  - destruct (at_select s); [|discriminate]. destruct (body s) eqn:Eb; try discriminate; injection Hs as <-; unfold Inv; cbn.
    + repeat split; [discriminate|exact B].
    + repeat split; [intros _; apply A; reflexivity|exact B|apply A; reflexivity].
    + destruct (negb (ctx s =? 0)) eqn:E; cbn; repeat split; try discriminate; try exact B.
      apply negb_true_iff in E. apply Z.eqb_neq in E. exact E.
Qed.

Theorem inv_reachable s : reachable true s -> Inv s.
Proof.
  induction 1 as [|s l s' _ IH Hs]; [|eapply inv_step; eauto].
  unfold Inv; cbn. repeat split; [discriminate|auto].
Qed.

(* C04 for the unary HTTP call, every interleaving of the end of the context, the body read and the two
   goroutines: the caller is never handed the bare context error; a status it gets for the context is
   Canceled or DeadlineExceeded according to how the context ended *)
Theorem never_the_bare_context_error s k : reachable true s -> result s <> Some (ORawCtx k).
Proof. intros R E. destruct (inv_reachable s R) as [_ [_ C]]. rewrite E in C. exact C. Qed.

Theorem context_status_is_the_contexts s c :
  reachable true s -> result s = Some (OStatus c) -> ctx s <> 0 /\ c = ctx_status (ctx s).
Proof. intros R E. destruct (inv_reachable s R) as [_ [_ C]]. rewrite E in C. exact C. Qed.

(* the code as it was (F29): the read arm of the select can win against the ended context *)
Theorem unrepaired_returns_the_bare_context_error :
  exists s, reachable false s /\ result s = Some (ORawCtx 1).
Proof.
  assert (G : forall ls s0 s1, reachable false s0 ->
              fold_left (fun o l => match o with Some s => step false s l | None => None end) ls (Some s0) = Some s1 ->
              reachable false s1).
  { induction ls as [|l ls IH]; intros s0 s1 R E; cbn in E; [injection E as <-; exact R|].
    destruct (step false s0 l) as [s2|] eqn:Es.
    - eapply IH; [eapply r_step; eauto|exact E].
    - exfalso. clear - E. induction ls as [|x xs IHx]; cbn in E; [discriminate|auto]. }
  eexists. split.
  - eapply (G [CtxEnds 1; ReadFailsCtx; ReachSelect; TakeReadArm] init); [apply r_init|reflexivity].
  - reflexivity.
Qed.

(* the executable enumeration is sound: what it lists is reachable *)
Lemma outcomes_sound fixed f : forall s r, reachable fixed s -> In r (outcomes fixed f s) ->
  exists s', reachable fixed s' /\ result s' = Some r.
Proof.
  induction f as [|f IH]; intros s r R Hin; cbn [outcomes] in Hin; destruct (result s) as [r0|] eqn:Er.
  - destruct Hin as [<-|[]]. exists s. auto.
  - destruct Hin.
  - destruct Hin as [<-|[]]. exists s. auto.
  - apply in_flat_map in Hin. destruct Hin as [l [_ Hin]]. destruct (step fixed s l) as [s1|] eqn:Es; [|destruct Hin].
    apply (IH s1 r); [eapply r_step; eauto|exact Hin].
Qed.

Theorem possible_excludes_raw k : possible true (ORawCtx k) = false.
Proof.
  destruct (possible true (ORawCtx k)) eqn:E; [exfalso|reflexivity]. unfold possible in E.
  apply existsb_exists in E. destruct E as [r [Hin Hr]].
  destruct (outcomes_sound true 6 init r (r_init true) Hin) as [s [R Es]].
  destruct r; cbn in Hr; try discriminate. apply Z.eqb_eq in Hr. subst.
  exact (never_the_bare_context_error s k0 R Es).
Qed.

Example possible_outcomes :
  possible true OSuccess = true /\ possible true (OStatus 1) = true /\ possible true (OStatus 4) = true /\
  possible true ONet = true /\ possible false (ORawCtx 1) = true.
Proof. vm_compute. auto. Qed.
