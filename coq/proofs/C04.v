From Coq Require Import ZArith List Bool Lia.
From Grpchan Require Import model.InprocUnary.
From Grpchan Require model.InprocStream.
Import ListNotations.
Open Scope Z_scope.

(* ---- the in-process unary call ---- *)
Record Inv (frames : list frame) (s : st) : Prop := {
  i_skip : skipped s = true -> cctx s <> 0;
  i_all : skipped s = false -> frames = recvd s ++ q s ++ todo s;
  i_closed : closed s = true -> todo s = []
}.

Lemma inv_init frames : Inv frames (init frames).
Proof. constructor; cbn; auto; discriminate. Qed.

Lemma inv_step frames s l s' : Inv frames s -> step s l = Some s' -> Inv frames s'.
Proof.
  intros [Isk Iall Icl] H. destruct l; cbn in H.
  - (* SWrite *)
    destruct (todo s) as [|f r] eqn:Et; [discriminate|]. destruct (q s) eqn:Eq; [|discriminate].
    injection H as <-. constructor; cbn.
    + exact Isk.
    + intro Hs. rewrite (Iall Hs). reflexivity.
    + intro Hc. specialize (Icl Hc). discriminate.
  - (* SSkip *)
    destruct (todo s) as [|f r] eqn:Et; [discriminate|]. destruct (Z.eqb_spec (cctx s) 0); [discriminate|].
    injection H as <-. constructor; cbn.
    + intros _. assumption.
    + discriminate.
    + intro Hc. specialize (Icl Hc). discriminate.
  - (* SClose *)
    destruct (todo s) eqn:Et; [|discriminate]. destruct (closed s); [discriminate|]. injection H as <-.
    constructor; cbn; [exact Isk|exact Iall|reflexivity].
  - (* CTake *)
    destruct (res s) eqn:Er; try discriminate. destruct (q s) as [|f r] eqn:Eq; [discriminate|]. injection H as <-.
    assert (G : skipped s = false -> frames = (recvd s ++ [f]) ++ r ++ todo s)
      by (intro Hs; rewrite (Iall Hs); rewrite <- !app_assoc; reflexivity).
    destruct f; [| destruct (got_resp s) | |]; constructor; cbn; assumption.
  - (* CClosed *)
    destruct (res s) eqn:Er; try discriminate. destruct (q s) eqn:Eq; [|discriminate].
    destruct (closed s) eqn:Ec; [|discriminate]. injection H as <-. constructor; cbn; assumption.
  - (* CCtx *)
    destruct (res s) eqn:Er; try discriminate. destruct (Z.eqb_spec (cctx s) 0); [discriminate|].
    injection H as <-. constructor; cbn; assumption.
  - (* Cancel *)
    destruct ((cctx s =? 0) && ((k =? 1) || (k =? 2))) eqn:E; [|discriminate]. injection H as <-.
    apply andb_true_iff in E as [_ E]. constructor; cbn; [|exact Iall|exact Icl]. intros _.
    apply orb_true_iff in E as [E|E]; apply Z.eqb_eq in E; lia.
Qed.

Lemma inv_reachable frames s : reachable frames s -> Inv frames s.
Proof. induction 1; [apply inv_init|eapply inv_step; eauto]. Qed.

(* NO MIXTURE.  At the moment the caller returns success (the step that produces nil) the
   context is live, no write was skipped, and everything the server had to send -- response,
   headers, trailers -- has been received *)
Theorem success_is_complete frames s s' :
  reachable frames s -> step s CClosed = Some s' -> res s' = RetNil ->
  cctx s = 0 /\ recvd s' = frames /\ got_resp s' = true.
Proof.
  intros R H Hr. pose proof (inv_reachable frames s R) as [Isk Iall Icl]. cbn in H.
  destruct (res s) eqn:Er; try discriminate. destruct (q s) eqn:Eq; [|discriminate].
  destruct (closed s) eqn:Ec; [|discriminate]. injection H as <-. cbn in *.
  destruct (Z.eqb_spec (cctx s) 0) as [E0|E0]; cbn in Hr; [|discriminate].
  destruct (got_resp s) eqn:Eg; [|discriminate].
  split; [exact E0|]. split; [|reflexivity].
  destruct (skipped s) eqn:Es; [exfalso; apply (Isk eq_refl); exact E0|].
  rewrite (Iall eq_refl), (Icl eq_refl). now rewrite !app_nil_r.
Qed.

(* a call that returns when the context has ended returns the matching status, never a bare
   io.EOF and never success *)
Theorem closed_after_cancel_is_status s s' :
  cctx s <> 0 -> step s CClosed = Some s' -> res s' = RetStatus (ctx_status (cctx s)).
Proof.
  intros Hc H. cbn in H. destruct (res s); try discriminate. destruct (q s); [|discriminate].
  destruct (closed s); [|discriminate]. injection H as <-. cbn.
  destruct (Z.eqb_spec (cctx s) 0); [contradiction|reflexivity].
Qed.

Theorem ctx_branch_is_status s s' : step s CCtx = Some s' -> res s' = RetStatus (ctx_status (cctx s)) /\ cctx s <> 0.
Proof.
  intro H. cbn in H. destruct (res s); try discriminate. destruct (Z.eqb_spec (cctx s) 0); [discriminate|].
  injection H as <-. cbn. auto.
Qed.

(* once the context has ended the caller always has an enabled returning step (promptness) *)
Theorem prompt s : res s = Pending -> cctx s <> 0 -> step s CCtx <> None.
Proof. intros Hr Hc. cbn. rewrite Hr. destruct (Z.eqb_spec (cctx s) 0); [contradiction|discriminate]. Qed.

(* the state that the repaired defect mishandled is reachable: a write skipped after cancellation,
   the channel closed and empty, the response already taken -- without the re-check of the context
   the caller's select could take the close and return nil without the trailers *)
Definition run (frames : list frame) (ls : list label) : option st :=
  fold_left (fun o l => match o with Some s => step s l | None => None end) ls (Some (init frames)).

Lemma run_reachable frames ls : forall s, run frames ls = Some s -> reachable frames s.
Proof.
  unfold run. induction ls as [|l ls IH] using rev_ind; intros s H; [injection H as <-; constructor|].
  rewrite fold_left_app in H. cbn in H.
  destruct (fold_left _ ls (Some (init frames))) as [s0|] eqn:E; [|discriminate].
  eapply reach_step; [apply IH; reflexivity|exact H].
Qed.

Example unchecked_close_witness :
  exists s, reachable [UData; UTlr] s /\ skipped s = true /\ closed s = true /\ q s = [] /\ got_resp s = true /\ res s = Pending /\ cctx s = 1.
Proof.
  destruct (run [UData; UTlr] [SWrite; CTake; Cancel 1; SSkip; SClose]) as [s|] eqn:E; [|discriminate].
  exists s. split; [eapply run_reachable; exact E|]. vm_compute in E. injection E as <-. repeat split.
Qed.

(* ---- in-process streams: receives after the context ended (all states of the stream LTS) ---- *)
Import InprocStream.

Definition is_status (r : InprocStream.res) : Prop := match r with RStatus _ => True | _ => False end.

(* a stream receive that completes while the context has ended returns a gRPC status: the
   cancellation status, or the call's real final status if the error frame had already been read
   -- never a message, never io.EOF, never a raw context error.  (A data frame that Header() had
   peeked before the cancellation is the one exception, stated as a hypothesis.) *)
Theorem stream_recv_after_done s s' r :
  cctx s <> 0 -> (forall x, cLast s <> Some (FData x)) ->
  In (s', Some r) (steps_of s CR (PStart CRecv)) -> is_status r.
Proof.
  intros Hc Hl H. apply Z.eqb_neq in Hc. unfold steps_of in H.
  destruct (cLast s) as [[m|x|m|c]|] eqn:El; try (exfalso; eapply Hl; reflexivity).
  all: try (cbn in H; destruct H as [H|[]]; injection H as _ <-; exact I).
  all: rewrite Hc in H; cbn [negb] in H; apply in_app_or in H as [H|H];
    [destruct (respQ s) as [|f q']; [destruct (respClosed s); [|destruct H]|]|];
    cbn in H; try (destruct H as [H|[]]; injection H as _ <-; exact I); try destruct H.
Qed.

Theorem stream_probe_after_done s s' r x :
  cctx s <> 0 -> In (s', Some r) (steps_of s CR (PProbe x)) -> is_status r.
Proof.
  intros Hc H. apply Z.eqb_neq in Hc. unfold steps_of in H. rewrite Hc in H. cbn [negb] in H.
  apply in_app_or in H as [H|H];
    [destruct (respQ s) as [|f q']; [destruct (respClosed s); [|destruct H]|]|];
    cbn in H; try (destruct H as [H|[]]; injection H as _ <-; exact I); try destruct H.
Qed.

(* and some returning step is always enabled then: the receive does not depend on the peer *)
Theorem stream_recv_prompt s : cctx s <> 0 -> (forall x, cLast s <> Some (FData x)) -> steps_of s CR (PStart CRecv) <> [].
Proof.
  intros Hc Hl. apply Z.eqb_neq in Hc. unfold steps_of.
  destruct (cLast s) as [[m|x|m|c]|]; try discriminate; try (exfalso; eapply Hl; reflexivity);
    rewrite Hc; cbn [negb]; intro E; apply app_eq_nil in E as [_ E]; discriminate.
Qed.

(* the handler's context ends with the caller's *)
Theorem handler_ctx_follows s : cctx s <> 0 -> sctx s <> 0.
Proof. intro H. unfold sctx. apply Z.eqb_neq in H. rewrite H. cbn. now apply Z.eqb_neq. Qed.

(* a handler that returns its context's error is reported with the matching code *)
Theorem handler_ctx_error_code s : err_code_of_return s (-2) = ctx_status (sctx s).
Proof. reflexivity. Qed.
Theorem ctx_status_codes : InprocStream.ctx_status 1 = 1 /\ InprocStream.ctx_status 2 = 4.
Proof. split; reflexivity. Qed.
