From Coq Require Import ZArith List Bool Lia.
From Grpchan Require Import lib.Int model.Framing proofs.C07 proofs.C07gen gen.Wire.
Import ListNotations.
Open Scope Z_scope.

Lemma C08_second_request m rest e :
  blen m <= max_size -> rest <> [] ->
  s_fin (server_decode_single size_rejected (enc_frame m ++ rest) e) = STooMany /\
  s_msgs (server_decode_single size_rejected (enc_frame m ++ rest) e) = [].
Proof.
  intros Hm Hr. unfold server_decode_single, enc_frame. rewrite <- app_assoc, read4_frame.
  pose proof (blen_nonneg m). pose proof max_ok.
  rewrite of_be32_be32 by (unfold in32; lia).
  assert (size_rejected (blen m) = false) as -> by (apply srv_guard; lia).
  rewrite read_full_app by reflexivity.
  unfold read_full. cbn [Z.eqb]. destruct rest as [|b r]; [congruence|].
  destruct (Z.leb_spec 4 (blen (b :: r))); [split; reflexivity|].
  destruct e; [|split; reflexivity].
  assert (blen (b :: r) =? 0 = false) as -> by (apply Z.eqb_neq; unfold blen; cbn; lia).
  split; reflexivity.
Qed.
