From Coq Require Import ZArith List Bool Lia.
From Grpchan Require Import lib.Int model.Framing.
Import ListNotations.
Open Scope Z_scope.

Definition is_byte (b : Z) : Prop := 0 <= b < 256.

Lemma be32_length z : length (be32 z) = 4%nat.
Proof. reflexivity. Qed.

Lemma blen_be32 z : blen (be32 z) = 4.
Proof. reflexivity. Qed.

Lemma blen_app a b : blen (a ++ b) = blen a + blen b.
Proof. unfold blen. rewrite app_length. lia. Qed.

Lemma blen_nonneg a : 0 <= blen a.
Proof. unfold blen. lia. Qed.

Lemma be32_bytes z : Forall is_byte (be32 z).
Proof.
  unfold be32, is_byte. pose proof (Z.mod_pos_bound z (2 ^ 32)) as H.
  set (u := z mod 2 ^ 32) in *.
  repeat constructor; try (apply Z.mod_pos_bound; lia).
  - apply Z.div_pos; lia.
  - apply Z.div_lt_upper_bound; lia.
Qed.

Lemma of_be32_be32 z : in32 z -> of_be32 (be32 z) = z.
Proof.
  intro H. unfold of_be32, be32.
  set (u := z mod 2 ^ 32).
  assert (Hu : 0 <= u < 2 ^ 32) by (apply Z.mod_pos_bound; lia).
  assert (E : u / 2 ^ 24 * 2 ^ 24 + (u / 2 ^ 16) mod 256 * 2 ^ 16 + (u / 2 ^ 8) mod 256 * 2 ^ 8 + u mod 256 = u).
  { clearbody u. clear H z.
    pose proof (Z.div_mod u 256 ltac:(lia)).
    pose proof (Z.div_mod (u / 2 ^ 8) 256 ltac:(lia)).
    pose proof (Z.div_mod (u / 2 ^ 16) 256 ltac:(lia)).
    replace (u / 2 ^ 16) with (u / 2 ^ 8 / 256) in * by (rewrite Z.div_div by lia; reflexivity).
    replace (u / 2 ^ 24) with (u / 2 ^ 8 / 256 / 256) by (rewrite !Z.div_div by lia; reflexivity).
    change (2 ^ 8) with 256 in *. lia. }
  rewrite E. unfold wrap32, u, in32 in *.
  destruct (Z_lt_ge_dec z 0).
  - replace z with ((z + 2 ^ 32) + (-1) * 2 ^ 32) at 1 by lia.
    rewrite Z.mod_add by lia. rewrite (Z.mod_small (z + 2 ^ 32)) by lia.
    replace (z + 2 ^ 32 + 2 ^ 31) with ((z + 2 ^ 31) + 1 * 2 ^ 32) by lia.
    rewrite Z.mod_add by lia. rewrite Z.mod_small by lia. lia.
  - rewrite (Z.mod_small z) by lia. rewrite Z.mod_small by lia. lia.
Qed.

Lemma be32_of_be32 b0 b1 b2 b3 :
  is_byte b0 -> is_byte b1 -> is_byte b2 -> is_byte b3 ->
  be32 (of_be32 [b0; b1; b2; b3]) = [b0; b1; b2; b3].
Proof.
  unfold is_byte. intros H0 H1 H2 H3. unfold of_be32, be32.
  set (u := b0 * 2 ^ 24 + b1 * 2 ^ 16 + b2 * 2 ^ 8 + b3).
  assert (Hu : 0 <= u < 2 ^ 32) by (unfold u; lia).
  assert (E : wrap32 u mod 2 ^ 32 = u).
  { unfold wrap32. rewrite Zminus_mod, Zmod_mod, <- Zminus_mod.
    replace (u + 2 ^ 31 - 2 ^ 31) with u by lia. apply Z.mod_small; lia. }
  rewrite E.
  assert (D3 : u mod 256 = b3).
  { unfold u. replace (b0 * 2 ^ 24 + b1 * 2 ^ 16 + b2 * 2 ^ 8 + b3) with (b3 + (b0 * 2 ^ 16 + b1 * 2 ^ 8 + b2) * 256) by lia.
    rewrite Z.mod_add by lia. apply Z.mod_small; lia. }
  assert (Q1 : u / 2 ^ 8 = b0 * 2 ^ 16 + b1 * 2 ^ 8 + b2).
  { unfold u. replace (b0 * 2 ^ 24 + b1 * 2 ^ 16 + b2 * 2 ^ 8 + b3) with (b3 + (b0 * 2 ^ 16 + b1 * 2 ^ 8 + b2) * 2 ^ 8) by lia.
    rewrite Z.div_add by lia. rewrite Z.div_small by lia. lia. }
  assert (Q2 : u / 2 ^ 16 = b0 * 2 ^ 8 + b1).
  { replace (2 ^ 16) with (2 ^ 8 * 2 ^ 8) by reflexivity. rewrite <- Z.div_div by lia. rewrite Q1.
    replace (b0 * 2 ^ 16 + b1 * 2 ^ 8 + b2) with (b2 + (b0 * 2 ^ 8 + b1) * 2 ^ 8) by lia.
    rewrite Z.div_add by lia. rewrite Z.div_small by lia. lia. }
  assert (Q3 : u / 2 ^ 24 = b0).
  { replace (2 ^ 24) with (2 ^ 16 * 2 ^ 8) by reflexivity. rewrite <- Z.div_div by lia. rewrite Q2.
    replace (b0 * 2 ^ 8 + b1) with (b1 + b0 * 2 ^ 8) by lia.
    rewrite Z.div_add by lia. rewrite Z.div_small by lia. lia. }
  assert (M1 : (b0 * 2 ^ 8 + b1) mod 256 = b1).
  { replace (b0 * 2 ^ 8 + b1) with (b1 + b0 * 256) by lia. rewrite Z.mod_add by lia. apply Z.mod_small; lia. }
  assert (M2 : (b0 * 2 ^ 16 + b1 * 2 ^ 8 + b2) mod 256 = b2).
  { replace (b0 * 2 ^ 16 + b1 * 2 ^ 8 + b2) with (b2 + (b0 * 2 ^ 8 + b1) * 256) by lia. rewrite Z.mod_add by lia. apply Z.mod_small; lia. }
  rewrite D3, Q1, Q2, Q3, M1, M2. reflexivity.
Qed.

(* ---- read_full ---- *)

Lemma read_full_app n a b e : blen a = n -> read_full n (a ++ b) e = inl (a, b).
Proof.
  intro H. unfold read_full. destruct (Z.eqb_spec n 0) as [E|E].
  - destruct a; [reflexivity|]. unfold blen in H. cbn in H. lia.
  - rewrite blen_app. pose proof (blen_nonneg b).
    destruct (Z.leb_spec n (blen a + blen b)); [|lia].
    assert (L : Z.to_nat n = length a) by (unfold blen in H; lia).
    rewrite L, firstn_app, skipn_app, Nat.sub_diag, firstn_all, skipn_all. cbn.
    now rewrite app_nil_r.
Qed.

Lemma read_full_ok n bs e a b :
  0 <= n -> read_full n bs e = inl (a, b) -> bs = a ++ b /\ blen a = n.
Proof.
  intros Hn. unfold read_full. destruct (Z.eqb_spec n 0) as [E|E].
  - intros [= <- <-]. split; [reflexivity|unfold blen; cbn; lia].
  - destruct (Z.leb_spec n (blen bs)); [|destruct e; try destruct (blen bs =? 0); discriminate].
    intros [= <- <-]. split; [now rewrite firstn_skipn|].
    unfold blen in *. rewrite firstn_length. lia.
Qed.

Lemma read_full_short n bs e : blen bs < n -> exists err, read_full n bs e = inr err /\ (e = Clean -> err <> EOther).
Proof.
  intro H. unfold read_full. pose proof (blen_nonneg bs).
  destruct (Z.eqb_spec n 0); [lia|]. destruct (Z.leb_spec n (blen bs)); [lia|].
  eexists; split; [reflexivity|]. intros ->. destruct (blen bs =? 0); discriminate.
Qed.

Lemma enc_msgs_cons m ms : enc_msgs (m :: ms) = enc_frame m ++ enc_msgs ms.
Proof. reflexivity. Qed.

Lemma enc_stream_cons m ms t : enc_stream (m :: ms) t = enc_frame m ++ enc_stream ms t.
Proof. unfold enc_stream. rewrite enc_msgs_cons. now rewrite app_assoc. Qed.

Lemma enc_stream_nil t : enc_stream [] t = enc_trailer t.
Proof. reflexivity. Qed.

Lemma read4_frame z rest e : read_full 4 (be32 z ++ rest) e = inl (be32 z, rest).
Proof. apply read_full_app. reflexivity. Qed.

Section Guards.
  Context (srv_rejects cli_rejects : Z -> bool) (mx : Z).
  Context (Hmx : 0 < mx < 2 ^ 31).
  Context (Hsrv : forall n, srv_rejects n = false <-> 0 <= n <= mx).
  Context (Hcli : forall n, 0 <= n -> (cli_rejects n = false <-> n <= mx)).

  Notation client_dec := (client_dec srv_rejects cli_rejects).
  Notation client_decode := (client_decode srv_rejects cli_rejects).
  Notation server_dec := (server_dec srv_rejects).
  Notation server_decode := (server_decode srv_rejects).

  Definition fits (m : bytes) : Prop := blen m <= mx.

  Lemma in32_len m : fits m -> in32 (blen m) /\ in32 (- blen m).
  Proof. unfold fits, in32. pose proof (blen_nonneg m). lia. Qed.

  (* ---- round trip, client ---- *)
  Lemma client_dec_stream ms t tail e fuel :
    Forall fits ms -> fits t -> t <> [] -> (length ms < fuel)%nat ->
    client_dec fuel (enc_stream ms t ++ tail) e =
    {| c_msgs := ms; c_fin := CTrailer t; c_allocs := map blen ms ++ [blen t] |}.
  Proof.
    intros Hms Ht Hne. revert fuel. induction Hms as [|m ms Hm Hms IH]; intros fuel Hf.
    - destruct fuel; [cbn in Hf; lia|]. cbn [client_dec]. rewrite enc_stream_nil.
      unfold enc_trailer. rewrite <- app_assoc, read4_frame.
      destruct (in32_len t Ht) as [_ Hneg]. rewrite of_be32_be32 by exact Hneg.
      assert (0 < blen t) by (destruct t; [congruence|unfold blen; cbn; lia]).
      destruct (Z.ltb_spec (- blen t) 0); [|lia].
      rewrite Z.opp_involutive. rewrite wrap32_small by (unfold in32, fits in *; lia).
      assert (srv_rejects (blen t) = false) as -> by (apply Hsrv; unfold fits in Ht; lia).
      rewrite read_full_app by reflexivity. reflexivity.
    - destruct fuel; [cbn in Hf; lia|]. cbn [client_dec]. rewrite enc_stream_cons.
      unfold enc_frame at 1. rewrite <- !app_assoc, read4_frame.
      destruct (in32_len m Hm) as [Hpos _]. rewrite of_be32_be32 by exact Hpos.
      pose proof (blen_nonneg m). destruct (Z.ltb_spec (blen m) 0); [lia|].
      assert (cli_rejects (blen m) = false) as -> by (apply Hcli; [lia|exact Hm]).
      rewrite read_full_app by reflexivity.
      rewrite IH by (cbn in Hf; lia). reflexivity.
  Qed.

  Lemma enc_msgs_length ms : (4 * length ms <= length (enc_msgs ms))%nat.
  Proof.
    induction ms as [|m ms IH]; [cbn; lia|].
    rewrite enc_msgs_cons. unfold enc_frame. rewrite !app_length, be32_length. cbn [length]. lia.
  Qed.

  Lemma client_roundtrip ms t e :
    Forall fits ms -> fits t -> t <> [] ->
    client_decode (enc_stream ms t) e =
    {| c_msgs := ms; c_fin := CTrailer t; c_allocs := map blen ms ++ [blen t] |}.
  Proof.
    intros. unfold client_decode. rewrite <- (app_nil_r (enc_stream ms t)) at 2.
    apply client_dec_stream; auto.
    unfold enc_stream. rewrite app_length. pose proof (enc_msgs_length ms). lia.
  Qed.

  (* ---- round trip, server ---- *)
  Lemma server_dec_msgs ms fuel :
    Forall fits ms -> (length ms < fuel)%nat ->
    server_dec fuel (enc_msgs ms) Clean =
    {| s_msgs := ms; s_fin := SErr EEOF; s_allocs := map blen ms |}.
  Proof.
    intros Hms. revert fuel. induction Hms as [|m ms Hm Hms IH]; intros fuel Hf.
    - destruct fuel; [cbn in Hf; lia|]. reflexivity.
    - destruct fuel; [cbn in Hf; lia|]. cbn [server_dec]. rewrite enc_msgs_cons.
      unfold enc_frame at 1. rewrite <- app_assoc, read4_frame.
      destruct (in32_len m Hm) as [Hpos _]. rewrite of_be32_be32 by exact Hpos.
      pose proof (blen_nonneg m).
      assert (srv_rejects (blen m) = false) as -> by (apply Hsrv; unfold fits in Hm; lia).
      rewrite read_full_app by reflexivity.
      rewrite IH by (cbn in Hf; lia). reflexivity.
  Qed.

  Lemma server_roundtrip ms :
    Forall fits ms ->
    server_decode (enc_msgs ms) Clean = {| s_msgs := ms; s_fin := SErr EEOF; s_allocs := map blen ms |}.
  Proof.
    intros. unfold server_decode. apply server_dec_msgs; auto. pose proof (enc_msgs_length ms). lia.
  Qed.

  (* ---- allocation bound: for EVERY byte string and ending ---- *)
  Definition alloc_ok (a : Z) : Prop := 0 <= a <= mx.

  Lemma client_alloc_bound fuel bs e : Forall alloc_ok (c_allocs (client_dec fuel bs e)).
  Proof.
    revert bs. induction fuel as [|f IH]; intro bs; cbn [client_dec]; [constructor|].
    destruct (read_full 4 bs e) as [[hd rest]|err]; [|constructor].
    destruct (Z.ltb_spec (of_be32 hd) 0) as [Hneg|Hpos].
    - destruct (srv_rejects (wrap32 (- of_be32 hd))) eqn:R; [constructor|].
      apply Hsrv in R.
      destruct (read_full _ rest e) as [[t ?]|?]; cbn; (constructor; [exact R|constructor]).
    - destruct (cli_rejects (of_be32 hd)) eqn:R; [constructor|].
      apply Hcli in R; [|lia].
      assert (A : alloc_ok (of_be32 hd)) by (unfold alloc_ok; lia).
      destruct (read_full _ rest e) as [[m rest']|?]; cbn; (constructor; [exact A|]); [exact (IH rest')|constructor].
  Qed.

  Lemma server_alloc_bound fuel bs e : Forall alloc_ok (s_allocs (server_dec fuel bs e)).
  Proof.
    revert bs. induction fuel as [|f IH]; intro bs; cbn [server_dec]; [constructor|].
    destruct (read_full 4 bs e) as [[hd rest]|err]; [|constructor].
    destruct (srv_rejects (of_be32 hd)) eqn:R; [constructor|]. apply Hsrv in R.
    destruct (read_full _ rest e) as [[m rest']|?]; cbn; (constructor; [exact R|]); [exact (IH rest')|constructor].
  Qed.

  Lemma server_single_alloc_bound bs e : Forall alloc_ok (s_allocs (server_decode_single srv_rejects bs e)).
  Proof.
    unfold server_decode_single.
    destruct (read_full 4 bs e) as [[hd rest]|err]; [|constructor].
    destruct (srv_rejects (of_be32 hd)) eqn:R; [constructor|]. apply Hsrv in R.
    destruct (read_full _ rest e) as [[m rest']|?]; [|cbn; constructor; [exact R|constructor]].
    destruct (read_full 4 rest' e) as [[? ?]|[]]; cbn; (constructor; [exact R|constructor]).
  Qed.

  (* ---- enough fuel: the decoders never run out ---- *)
  Lemma client_fuel fuel bs e : (length bs < fuel)%nat -> c_fin (client_dec fuel bs e) <> CFuel.
  Proof.
    revert bs. induction fuel as [|f IH]; intros bs Hf; [lia|]. cbn [client_dec].
    destruct (read_full 4 bs e) as [[hd rest]|err] eqn:R4; [|discriminate].
    apply read_full_ok in R4 as [-> L4]; [|lia].
    destruct (of_be32 hd <? 0).
    - destruct (srv_rejects _); [discriminate|]. destruct (read_full _ rest e) as [[? ?]|?]; discriminate.
    - destruct (cli_rejects _); [discriminate|].
      destruct (read_full _ rest e) as [[m rest']|?] eqn:R; [|discriminate]. cbn.
      apply IH. rewrite app_length in Hf. unfold blen in L4.
      unfold read_full in R. destruct (_ =? 0).
      + injection R as <- <-. lia.
      + destruct (_ <=? _); [|destruct e; try destruct (_ =? 0); discriminate].
        injection R as <- <-. rewrite skipn_length. lia.
  Qed.

  (* ---- no fabrication: what is delivered is literally in the input ---- *)
  Lemma is_prefix_app a b : is_prefix a (a ++ b) = true.
  Proof. induction a as [|x a IH]; cbn; [reflexivity|]. now rewrite Z.eqb_refl, IH. Qed.

  Lemma is_prefix_cons_app a b c : is_prefix b c = true -> is_prefix (a ++ b) (a ++ c) = true.
  Proof. intro H. induction a as [|x a IH]; cbn; [exact H|]. now rewrite Z.eqb_refl, IH. Qed.

  Lemma four_bytes hd : blen hd = 4 -> exists b0 b1 b2 b3, hd = [b0; b1; b2; b3].
  Proof.
    unfold blen. destruct hd as [|b0 [|b1 [|b2 [|b3 [|? ?]]]]]; cbn; try lia. intros _. now eexists _, _, _, _.
  Qed.

  Lemma client_no_fabrication fuel bs e :
    Forall is_byte bs -> is_prefix (enc_msgs (c_msgs (client_dec fuel bs e))) bs = true.
  Proof.
    revert bs. induction fuel as [|f IH]; intros bs Hb; cbn [client_dec]; [reflexivity|].
    destruct (read_full 4 bs e) as [[hd rest]|err] eqn:R4; [|reflexivity].
    apply read_full_ok in R4 as [-> L4]; [|lia].
    destruct (Z.ltb_spec (of_be32 hd) 0) as [Hneg|Hpos].
    - destruct (srv_rejects _); [reflexivity|]. destruct (read_full _ rest e) as [[? ?]|?]; reflexivity.
    - destruct (cli_rejects _); [reflexivity|].
      destruct (read_full _ rest e) as [[m rest']|?] eqn:R; [|reflexivity].
      apply read_full_ok in R as [-> Lm]; [|lia]. cbn [c_msgs enc_msgs flat_map].
      apply Forall_app in Hb as [Hhd Hrest]. apply Forall_app in Hrest as [_ Hrest'].
      unfold enc_frame. rewrite Lm.
      destruct (four_bytes hd L4) as (b0 & b1 & b2 & b3 & ->).
      rewrite be32_of_be32 by (repeat match goal with H : Forall _ (_ :: _) |- _ => inversion H; subst; clear H end; assumption).
      rewrite <- !app_assoc. apply is_prefix_cons_app, is_prefix_cons_app. apply IH. exact Hrest'.
  Qed.

  Lemma server_no_fabrication fuel bs e :
    Forall is_byte bs -> is_prefix (enc_msgs (s_msgs (server_dec fuel bs e))) bs = true.
  Proof.
    revert bs. induction fuel as [|f IH]; intros bs Hb; cbn [server_dec]; [reflexivity|].
    destruct (read_full 4 bs e) as [[hd rest]|err] eqn:R4; [|reflexivity].
    apply read_full_ok in R4 as [-> L4]; [|lia].
    destruct (srv_rejects _) eqn:Rj; [reflexivity|]. apply Hsrv in Rj.
    destruct (read_full _ rest e) as [[m rest']|?] eqn:R; [|reflexivity].
    apply read_full_ok in R as [-> Lm]; [|lia]. cbn [s_msgs enc_msgs flat_map].
    apply Forall_app in Hb as [Hhd Hrest]. apply Forall_app in Hrest as [_ Hrest'].
    unfold enc_frame. rewrite Lm.
    destruct (four_bytes hd L4) as (b0 & b1 & b2 & b3 & ->).
    rewrite be32_of_be32 by (repeat match goal with H : Forall _ (_ :: _) |- _ => inversion H; subst; clear H end; assumption).
    rewrite <- !app_assoc. apply is_prefix_cons_app, is_prefix_cons_app. apply IH. exact Hrest'.
  Qed.

  (* ---- truncation: a reply cut anywhere before the end of the trailer frame ---- *)
  Lemma firstn_app_ge (a b : bytes) k : (length a <= k)%nat -> firstn k (a ++ b) = a ++ firstn (k - length a) b.
  Proof. intro H. rewrite firstn_app. now rewrite firstn_all2 by exact H. Qed.

  Lemma blen_firstn (l : bytes) k : (k <= length l)%nat -> blen (firstn k l) = Z.of_nat k.
  Proof. intro H. unfold blen. rewrite firstn_length. lia. Qed.

  Lemma read_full_cut n (l : bytes) k e :
    (k < length l)%nat -> blen l = n -> exists err, read_full n (firstn k l) e = inr err.
  Proof.
    intros Hk Hn. destruct (read_full_short n (firstn k l) e) as [err [E _]].
    - rewrite blen_firstn by lia. unfold blen in Hn. lia.
    - eauto.
  Qed.

  Lemma read4_cut (l : bytes) k e : (k < 4)%nat -> (k <= length l)%nat -> exists err, read_full 4 (firstn k l) e = inr err.
  Proof.
    intros Hk Hl. destruct (read_full_short 4 (firstn k l) e) as [err [E _]].
    - rewrite blen_firstn by lia. lia.
    - eauto.
  Qed.

  (* the outcome of decoding a cut reply: an error, and an intact prefix of the messages *)
  Definition cut_ok (r : cres) (ms : list bytes) : Prop :=
    (exists err, c_fin r = CErr err) /\ (exists rest, ms = c_msgs r ++ rest).

  Lemma client_truncation ms t e : forall (k fuel : nat),
    Forall fits ms -> fits t -> t <> [] ->
    (k < length (enc_stream ms t))%nat -> (length ms < fuel)%nat ->
    cut_ok (client_dec fuel (firstn k (enc_stream ms t)) e) ms.
  Proof. unfold cut_ok.
    induction ms as [|m ms IH]; intros k fuel Hms Ht Hne Hk Hf.
    - destruct fuel; [cbn in Hf; lia|]. cbn [client_dec]. rewrite enc_stream_nil in *.
      unfold enc_trailer in *. rewrite app_length, be32_length in Hk.
      destruct (Nat.lt_ge_cases k 4) as [H4|H4].
      + destruct (read4_cut (be32 (- blen t) ++ t) k e H4) as [err ->]; [rewrite app_length, be32_length; lia|].
        split; [cbn; eauto|exists []; reflexivity].
      + rewrite firstn_app_ge by (rewrite be32_length; lia). rewrite be32_length, read4_frame.
        destruct (in32_len t Ht) as [_ Hneg]. rewrite of_be32_be32 by exact Hneg.
        assert (0 < blen t) by (destruct t; [congruence|unfold blen; cbn; lia]).
        destruct (Z.ltb_spec (- blen t) 0); [|lia].
        rewrite Z.opp_involutive, wrap32_small by (unfold in32, fits in *; lia).
        assert (srv_rejects (blen t) = false) as -> by (apply Hsrv; unfold fits in Ht; lia).
        destruct (read_full_cut (blen t) t (k - 4) e) as [err ->]; [lia|reflexivity|].
        split; [cbn; eauto|exists []; reflexivity].
    - destruct fuel; [cbn in Hf; lia|]. cbn [client_dec]. inversion Hms as [|? ? Hm Hms']; subst.
      rewrite enc_stream_cons in *. unfold enc_frame in *.
      rewrite <- app_assoc in *. rewrite !app_length, be32_length in Hk.
      destruct (Nat.lt_ge_cases k 4) as [H4|H4].
      + destruct (read4_cut (be32 (blen m) ++ m ++ enc_stream ms t) k e H4) as [err ->]; [rewrite !app_length, be32_length; lia|].
        split; [cbn; eauto|exists (m :: ms); reflexivity].
      + rewrite firstn_app_ge by (rewrite be32_length; lia). rewrite be32_length, read4_frame.
        destruct (in32_len m Hm) as [Hpos _]. rewrite of_be32_be32 by exact Hpos.
        pose proof (blen_nonneg m). destruct (Z.ltb_spec (blen m) 0); [lia|].
        assert (cli_rejects (blen m) = false) as -> by (apply Hcli; [lia|exact Hm]).
        destruct (Nat.lt_ge_cases (k - 4) (length m)) as [Hm'|Hm'].
        * destruct (read_full_short (blen m) (firstn (k - 4) (m ++ enc_stream ms t)) e) as [err [-> _]].
          { rewrite blen_firstn by (rewrite app_length; lia). unfold blen. lia. }
          split; [cbn; eauto|exists (m :: ms); reflexivity].
        * rewrite firstn_app_ge by exact Hm'. rewrite read_full_app by reflexivity. cbn [c_fin c_msgs].
          destruct (IH (k - 4 - length m)%nat fuel Hms' Ht Hne) as [Hfin [rest Hrest]]; [lia|cbn in Hf; lia|].
          split; [exact Hfin|]. exists rest. cbn. now rewrite <- Hrest.
  Qed.

  Lemma client_truncation_decode ms t e k :
    Forall fits ms -> fits t -> t <> [] -> (k < length (enc_stream ms t))%nat ->
    cut_ok (client_decode (firstn k (enc_stream ms t)) e) ms.
  Proof.
    intros Hms Ht Hne Hk. unfold client_decode.
    (* the fuel S (length input) is more than enough: rerun with the fuel the input has *)
    assert (G : forall fuel1 fuel2 bs, (length bs < fuel1)%nat -> (length bs < fuel2)%nat ->
                client_dec fuel1 bs e = client_dec fuel2 bs e).
    { induction fuel1 as [|f1 IH1]; intros fuel2 bs H1 H2; [lia|]. destruct fuel2 as [|f2]; [lia|].
      cbn [client_dec]. destruct (read_full 4 bs e) as [[hd rest]|?] eqn:R4; [|reflexivity].
      apply read_full_ok in R4 as [-> L4]; [|lia].
      destruct (_ <? 0); [reflexivity|]. destruct (cli_rejects _); [reflexivity|].
      destruct (read_full _ rest e) as [[m' rest']|?] eqn:R; [|reflexivity].
      assert (length rest' <= length rest)%nat.
      { unfold read_full in R. destruct (_ =? 0); [injection R as <- <-; lia|].
        destruct (_ <=? _); [|destruct e; try destruct (_ =? 0); discriminate].
        injection R as <- <-. rewrite skipn_length. lia. }
      rewrite app_length in H1, H2. unfold blen in L4.
      rewrite (IH1 f2 rest') by lia. reflexivity. }
    set (bs := firstn k (enc_stream ms t)).
    assert (Lb : length bs = k) by (unfold bs; rewrite firstn_length; lia).
    pose proof (enc_msgs_length ms) as Lm. unfold enc_stream in Hk. rewrite app_length in Hk.
    unfold enc_trailer in Hk. rewrite app_length, be32_length in Hk.
    rewrite (G (S (length bs)) (S (length bs) + length ms)%nat bs) by lia.
    apply client_truncation; auto; try lia. unfold enc_stream, enc_trailer. rewrite !app_length, be32_length. lia.
  Qed.
End Guards.
