(* The lemmas of proofs/C07.v instantiated with the guards generated from the source. *)
From Coq Require Import ZArith List Bool Lia.
From Grpchan Require Import lib.Int gen.Wire model.Framing proofs.C07.
Import ListNotations.
Open Scope Z_scope.

Ltac guard_tac :=
  repeat match goal with
         | |- context [?a >? ?b] => rewrite (Z.gtb_ltb a b)
         | |- context [?a >=? ?b] => rewrite (Z.geb_leb a b)
         end;
  repeat match goal with
         | |- context [?a <? ?b] => destruct (Z.ltb_spec a b)
         | |- context [?a <=? ?b] => destruct (Z.leb_spec a b)
         | |- context [?a =? ?b] => destruct (Z.eqb_spec a b)
         end;
  cbv beta iota; cbn [orb andb negb]; split; intros; try lia; try discriminate; try reflexivity.

Lemma max_ok : 0 < max_size < 2 ^ 31.
Proof. unfold max_size. lia. Qed.

Lemma srv_guard n : size_rejected n = false <-> 0 <= n <= max_size.
Proof. unfold size_rejected, max_size. guard_tac. Qed.

Lemma cli_guard n : 0 <= n -> (client_size_rejected n = false <-> n <= max_size).
Proof. intro. unfold client_size_rejected, max_size. guard_tac. Qed.

Local Hint Resolve max_ok srv_guard cli_guard : guards.
Notation cdecode := (client_decode size_rejected client_size_rejected).

Lemma client_roundtrip_now ms t e :
  Forall (fits max_size) ms -> fits max_size t -> t <> [] ->
  cdecode (enc_stream ms t) e = {| c_msgs := ms; c_fin := CTrailer t; c_allocs := map blen ms ++ [blen t] |}.
Proof. intros. eapply client_roundtrip; eauto with guards. Qed.

Lemma server_roundtrip_now ms :
  Forall (fits max_size) ms ->
  server_decode size_rejected (enc_msgs ms) Clean = {| s_msgs := ms; s_fin := SErr EEOF; s_allocs := map blen ms |}.
Proof. intros. eapply server_roundtrip; eauto with guards. Qed.

Lemma client_alloc_now bs e : Forall (alloc_ok max_size) (c_allocs (cdecode bs e)).
Proof. unfold client_decode. eapply client_alloc_bound; eauto with guards. Qed.

Lemma server_alloc_now bs e : Forall (alloc_ok max_size) (s_allocs (server_decode size_rejected bs e)).
Proof. unfold server_decode. eapply server_alloc_bound; eauto with guards. Qed.

Lemma server_single_alloc_now bs e : Forall (alloc_ok max_size) (s_allocs (server_decode_single size_rejected bs e)).
Proof. eapply server_single_alloc_bound; eauto with guards. Qed.

Lemma client_nofab_now bs e : Forall is_byte bs -> is_prefix (enc_msgs (c_msgs (cdecode bs e))) bs = true.
Proof. intros. unfold client_decode. eapply client_no_fabrication; eauto with guards. Qed.

Lemma server_nofab_now bs e : Forall is_byte bs -> is_prefix (enc_msgs (s_msgs (server_decode size_rejected bs e))) bs = true.
Proof. intros. unfold server_decode. eapply server_no_fabrication; eauto with guards. Qed.

Lemma client_truncation_now ms t e k :
  Forall (fits max_size) ms -> fits max_size t -> t <> [] -> (k < length (enc_stream ms t))%nat ->
  cut_ok (cdecode (firstn k (enc_stream ms t)) e) ms.
Proof. intros. eapply client_truncation_decode; eauto with guards. Qed.

Lemma client_total_now bs e : c_fin (cdecode bs e) <> CFuel.
Proof. apply client_fuel. lia. Qed.

Lemma client_unguarded_witness :
  c_allocs (client_decode size_rejected (fun _ => false) [127; 255; 255; 255] Clean) = [2147483647].
Proof. vm_compute. reflexivity. Qed.

Lemma roundtrip_example :
  client_decode size_rejected client_size_rejected (enc_stream [[1; 2; 3]; []; [255]] [8; 5]) Clean =
  {| c_msgs := [[1; 2; 3]; []; [255]]; c_fin := CTrailer [8; 5]; c_allocs := [3; 0; 1; 2] |}.
Proof. vm_compute. reflexivity. Qed.
