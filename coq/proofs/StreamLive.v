(* Termination side of C05 for the complete in-process stream LTS (model/InprocStream.v):
   (1) every run of internal steps is finite, with an explicit bound;
   (2) no operation stays blocked once the call's context has ended or the handler has completely returned,
       and no CLIENT operation stays blocked once the handler has returned. *)
From Coq Require Import ZArith List Bool Lia.
From Grpchan Require Import gen.Inproc model.InprocStream proofs.StreamInv.
Import ListNotations.
Open Scope Z_scope.

Definition w_pend (p : pend) : nat :=
  match p with
  | PStart (HReturn _) => 8
  | PRetHdr _ => 7 | PRetTlr _ => 5 | PRetErr _ => 3 | PRetClose => 1
  | PStart (HSend _) => 4
  | PSendData _ => 2
  | PStart CRecv => 2
  | PProbe _ => 1
  | PStart _ => 2
  end.
Definition w_opt (p : option pend) : nat := match p with Some p => w_pend p | None => 0 end.
Definition mu (s : st) : nat :=
  (length (respQ s) + w_opt (pCS s) + w_opt (pCC s) + w_opt (pCR s) + w_opt (pH s) + w_opt (pHR s))%nat.

Ltac unfold_step :=
  unfold done, goto, mu, w_opt in *;
  cbn [respQ pCS pCC pCR pH pHR set_pend upd_req upd_srv upd_cli upd_ctx w_pend fst snd] in *.

Lemma step_decreases s a p s' r :
  get_pend s a = Some p -> In (s', r) (steps_of s a p) -> (mu s' < mu s)%nat.
Proof.
  intros Hp Hin.
  destruct a; destruct p as [o| | | | | |]; try (destruct Hin; fail); try destruct o; cbn [steps_of] in Hin;
    try (destruct Hin; fail).
  all: cbn [get_pend] in Hp.
  all: split_in Hin.
  all: repeat match goal with H : (if ?c then _ else _) = (_, _) |- _ => destruct c eqn:? end.
  all: try match goal with H : _ = (_, _) |- _ => unfold done, goto in H; injection H as <- <- end.
  all: unfold mu, w_opt; cbn [respQ pCS pCC pCR pH pHR set_pend upd_req upd_srv upd_cli upd_ctx]; rewrite ?Hp.
  all: repeat match goal with E : ?f ?s0 = Some _ |- context [match ?f ?s0 with _ => _ end] => rewrite E end.
  all: repeat match goal with E : respQ ?s = _ |- _ => rewrite E in *; clear E end.
  all: rewrite ?app_length; cbn [length w_pend]; try lia.
  all: discriminate Hp.
Qed.

Lemma internal_decreases s a s' r : In (a, (s', r)) (internal s) -> (mu s' < mu s)%nat.
Proof.
  intro Hin. unfold internal in Hin. apply in_flat_map in Hin. destruct Hin as [a' [_ Hin]].
  destruct (get_pend s a') as [p|] eqn:Ep; [|destruct Hin].
  apply in_map_iff in Hin. destruct Hin as [[s2 r2] [Heq Hin]]. injection Heq as -> -> ->.
  eapply step_decreases; eauto.
Qed.

(* n internal steps *)
Inductive irun : st -> nat -> st -> Prop :=
| ir_nil s : irun s O s
| ir_step s a s1 r n s2 : In (a, (s1, r)) (internal s) -> irun s1 n s2 -> irun s (S n) s2.

Theorem internal_runs_are_bounded s n s' : irun s n s' -> (n + mu s' <= mu s)%nat.
Proof.
  induction 1 as [|s a s1 r n s2 Hin _ IH]; [lia|]. apply internal_decreases in Hin. lia.
Qed.

Lemma w_opt_le p : (w_opt p <= 8)%nat.
Proof. destruct p as [[[]| | | | | |]|]; cbn; lia. Qed.

(* between two events of the environment at most |respQ| + 40 steps happen; with the buffer bound of
   StreamInv that is resp_cap + 40 *)
Corollary internal_run_length rs s n s' :
  reachable rs s -> irun s n s' -> (n <= resp_capn + 40)%nat.
Proof.
  intros R Hrun. apply internal_runs_are_bounded in Hrun. pose proof (i_resp _ (inv_reachable _ _ R)) as B.
  unfold mu in Hrun.
  pose proof (w_opt_le (pCS s)). pose proof (w_opt_le (pCC s)). pose proof (w_opt_le (pCR s)).
  pose proof (w_opt_le (pH s)). pose proof (w_opt_le (pHR s)). lia.
Qed.

(* the exploration of the correspondence check never runs out of fuel when it is given more than mu *)
Theorem explore_has_enough_fuel f : forall s acc, (mu s < f)%nat -> ~ In None (explore f s acc).
Proof.
  induction f as [|f IH]; intros s acc Hm Hin; [lia|]. cbn [explore] in Hin.
  destruct (internal s) as [|x steps] eqn:Ei.
  - destruct Hin as [Hin|[]]. discriminate.
  - apply in_flat_map in Hin. destruct Hin as [[a [s' r]] [Hx Hin]].
    assert (Hd : (mu s' < mu s)%nat) by (apply (internal_decreases s a s' r); rewrite Ei; exact Hx).
    apply (IH s' _ ltac:(lia) Hin).
Qed.


(* ---- no blocked operation ---- *)

(* each actor issues its own operations only (the harness never does otherwise; apply_start itself does not
   check it) *)
Definition op_ok (a : actor) (p : pend) : bool :=
  match a, p with
  | CS, PStart (CSend _) | CS, PStart CClose | CC, PStart CClose => true
  | CR, PStart CRecv | CR, PStart CHeader | CR, PStart CTrailer | CR, PProbe _ => true
  | H, PStart HRecv | H, PStart (HSend _) | H, PStart (HSetHeader _) | H, PStart (HSendHeader _)
  | H, PStart (HSetTrailer _) | H, PStart (HReturn _) => true
  | H, PSendData _ | H, PRetHdr _ | H, PRetTlr _ | H, PRetErr _ | H, PRetClose => true
  | HR, PStart HRecv => true
  | _, _ => false
  end.
Definition opt_ok (a : actor) (p : option pend) : bool := match p with Some p => op_ok a p | None => true end.
Definition wf_start (x : start) : bool := match x with Call a o => op_ok a (PStart o) | _ => true end.

Inductive wreach (rs : bool) : st -> Prop :=
| wr_init : wreach rs (init rs)
| wr_start s x s' : wreach rs s -> wf_start x = true -> apply_start s x = Some s' -> wreach rs s'
| wr_internal s a s' r : wreach rs s -> In (a, (s', r)) (internal s) -> wreach rs s'.

Lemma wreach_reachable rs s : wreach rs s -> reachable rs s.
Proof. induction 1; [constructor|eapply reach_start; eauto|eapply reach_internal; eauto]. Qed.

Definition ret_phase (p : option pend) : bool :=
  match p with Some (PRetHdr _) | Some (PRetTlr _) | Some (PRetErr _) | Some PRetClose => true | _ => false end.

Record Live (s : st) : Prop := {
  l_cs : opt_ok CS (pCS s) = true;
  l_cc : opt_ok CC (pCC s) = true;
  l_cr : opt_ok CR (pCR s) = true;
  l_h : opt_ok H (pH s) = true;
  l_hr : opt_ok HR (pHR s) = true;
  l_ret : svrDone s = true -> ret_phase (pH s) = true \/ (respClosed s = true /\ svrCancelled s = true)
}.

Lemma live_init rs : Live (init rs).
Proof. constructor; cbn; auto; intro X; discriminate X. Qed.

Lemma live_start s x s' : Live s -> wf_start x = true -> apply_start s x = Some s' -> Live s'.
Proof.
  intros [A B C D E F] Hw Hs. destruct x as [a o| |].
  - destruct (apply_start_call _ _ _ _ Hs) as [Eg [-> Hret]]. cbn in Hw.
    destruct a; cbn in Eg; constructor; cbn [pCS pCC pCR pH pHR set_pend svrDone respClosed svrCancelled opt_ok]; auto.
    all: intro X; destruct (F X) as [Y|Y]; [rewrite Eg in Y; discriminate Y|right; exact Y].
  - cbn in Hs. injection Hs as <-. destruct (cctx s =? 0); constructor; auto.
  - cbn in Hs. injection Hs as <-. destruct (cctx s =? 0); constructor; auto.
Qed.

Lemma live_step s a p s' r :
  Live s -> get_pend s a = Some p -> In (s', r) (steps_of s a p) -> Live s'.
Proof.
  intros [A B C D E F] Hp Hin.
  destruct a; destruct p as [o| | | | | |]; try (destruct Hin; fail); try destruct o; cbn [steps_of] in Hin;
    try (destruct Hin; fail).
  all: cbn [get_pend] in Hp.
  all: split_in Hin.
  all: repeat match goal with H : (if ?c then _ else _) = (_, _) |- _ => destruct c eqn:? end.
  all: try match goal with H : _ = (_, _) |- _ => unfold done, goto in H; injection H as <- <- end.
  all: constructor; cbn [pCS pCC pCR pH pHR set_pend upd_req upd_srv upd_cli upd_ctx svrDone respClosed svrCancelled opt_ok op_ok ret_phase].
  all: try match goal with E : pCS ?s0 = _ |- context [pCS ?s0] => rewrite E end.
  all: try assumption.
  all: try reflexivity.
  all: try (intros _; left; reflexivity).
  all: try (intros _; right; split; reflexivity).
  all: try (let X := fresh in intro X; destruct (F X) as [Y|Y]; [rewrite Hp in Y; discriminate Y|right; exact Y]).
  all: try (let X := fresh in intro X; destruct (F X) as [Y|[Y1 Y2]]; [left; exact Y|right; split; [assumption|exact Y2]]).
Qed.

Lemma live_internal s a s' r : Live s -> In (a, (s', r)) (internal s) -> Live s'.
Proof.
  intros L Hin. unfold internal in Hin. apply in_flat_map in Hin. destruct Hin as [a' [_ Hin]].
  destruct (get_pend s a') as [p|] eqn:Ep; [|destruct Hin].
  apply in_map_iff in Hin. destruct Hin as [[s2 r2] [Heq Hin]]. injection Heq as -> -> ->.
  eapply live_step; eauto.
Qed.

Theorem live_reachable rs s : wreach rs s -> Live s.
Proof.
  induction 1 as [|s x s' _ IH Hw Hs|s a s' r _ IH Hin].
  - apply live_init.
  - eapply live_start; eauto.
  - eapply live_internal; eauto.
Qed.


Definition quiescent (s : st) : Prop := internal s = [].

Lemma quiescent_actor s a p : quiescent s -> get_pend s a = Some p -> steps_of s a p = [].
Proof.
  unfold quiescent, internal. intros Q Hp.
  assert (Ha : In a actors) by (destruct a; cbn; auto 6).
  destruct (steps_of s a p) as [|o l] eqn:Es; [reflexivity|exfalso].
  assert (Hin : In (a, o) (flat_map (fun a => match get_pend s a with
                     | Some p => map (fun o => (a, o)) (steps_of s a p)
                     | None => []
                     end) actors)).
  { apply in_flat_map. exists a. split; [exact Ha|]. rewrite Hp, Es. left. reflexivity. }
  rewrite Q in Hin. destruct Hin.
Qed.

Lemma resp_cap_pos : (0 < resp_capn)%nat.
Proof. vm_compute. lia. Qed.

(* what "the call is over" gives: the server's context has ended and the client's sends see the remote end *)
Lemma over_facts s :
  Inv s -> Live s -> cctx s <> 0 \/ respClosed s = true ->
  (sctx s =? 0) = false /\ remote_done s = true /\ (negb (cctx s =? 0) = true \/ respClosed s = true).
Proof.
  intros I L [Hc|Hc].
  - apply Z.eqb_neq in Hc. unfold sctx, remote_done. rewrite Hc. cbn [negb]. rewrite orb_true_r.
    split; [exact Hc|]. split; [reflexivity|left; reflexivity].
  - assert (Hd : svrDone s = true).
    { destruct (svrDone s) eqn:Ed; [reflexivity|]. rewrite (i_done _ I Ed) in Hc. discriminate Hc. }
    assert (Hk : svrCancelled s = true).
    { destruct (l_ret _ L Hd) as [Y|[_ Y]]; [|exact Y]. exfalso.
      pose proof (i_phase _ I) as P. unfold h_phase_ok in P. unfold ret_phase in Y.
      destruct (pH s) as [[]|]; try discriminate Y; destruct P as [P _]; congruence. }
    unfold sctx, remote_done. rewrite Hd, Hk. cbn [orb].
    split; [destruct (negb (cctx s =? 0)) eqn:E; [apply negb_true_iff in E; exact E|reflexivity]|].
    split; [reflexivity|right; exact Hc].
Qed.

Ltac kill_all :=
  repeat match goal with
         | E : _ ++ _ = [] |- _ => apply app_eq_nil in E; destruct E
         | E : (if ?c then _ else _) = [] |- _ => destruct c eqn:?
         | E : match ?x with _ => _ end = [] |- _ => destruct x eqn:?
         | E : _ :: _ = [] |- _ => discriminate E
         | E : [] = [] |- _ => clear E
         end.

Lemma cs_send_moves s x : remote_done s = true -> steps_of s CS (PStart (CSend x)) <> [].
Proof.
  intros F2 E. cbn [steps_of] in E. rewrite F2 in E. kill_all.
Qed.

(* once the call's context has ended or the handler has completely returned (its response channel is closed),
   a state in which nothing can move has no pending operation at all, on either side *)
Theorem nothing_blocked_when_over rs s a :
  wreach rs s -> quiescent s -> cctx s <> 0 \/ respClosed s = true -> get_pend s a = None.
Proof.
  intros R Q Hov. pose proof (live_reachable _ _ R) as L.
  pose proof (inv_reachable _ _ (wreach_reachable _ _ R)) as I.
  destruct (over_facts s I L Hov) as [F1 [F2 F3]].
  assert (F4 : (rctx s =? 0) = false).
  { unfold sctx in F1. unfold rctx. destruct (negb (cctx s =? 0)); [exact F1|].
    destruct (svrCancelled s); [reflexivity|discriminate F1]. }
  destruct (get_pend s a) as [p|] eqn:Hp; [exfalso|reflexivity].
  pose proof (quiescent_actor s a p Q Hp) as E.
  assert (Hok : op_ok a p = true).
  { destruct L as [A B C D E' _]. destruct a; cbn [get_pend] in Hp; rewrite Hp in *; assumption. }
  destruct a; destruct p as [o| | | | | |]; try discriminate Hok; try destruct o; try discriminate Hok.
  all: cbn [steps_of] in E; unfold srv_write, srv_recv, done, goto in E; rewrite ?F1, ?F2, ?F4 in E; cbn [negb orb] in E.
  all: kill_all.
  all: try (cbn [get_pend] in Hp; congruence).
  all: try (match goal with Hcs : pCS ?s0 = Some (PStart (CSend ?x0)) |- _ =>
              exact (cs_send_moves s0 x0 F2 (quiescent_actor s0 CS _ Q Hcs)) end).
  all: try (destruct F3 as [X|X]; discriminate X).
  all: unfold sctx in *; cbn [cctx svrCancelled upd_srv] in *.
  all: repeat match goal with X : negb _ = false |- _ => apply negb_false_iff in X end.
  all: congruence.
Qed.


Lemma has_room_empty s : respQ s = [] -> has_room_resp s = true.
Proof. intro E. unfold has_room_resp. rewrite E. apply Nat.ltb_lt. exact resp_cap_pos. Qed.

(* the returning handler is never stuck while the response buffer is empty *)
Lemma h_ret_moves s p : ret_phase (Some p) = true -> respQ s = [] -> steps_of s H p <> [].
Proof.
  intros Hr Hq E. pose proof (has_room_empty s Hq) as Hroom.
  destruct p as [o| | | | | |]; try discriminate Hr; cbn [steps_of] in E; unfold srv_write in E; rewrite ?Hroom in E; kill_all.
Qed.

(* once the handler has returned (the library may still be flushing its last frames, which waits for the
   client to make room while the context is live), nothing but that flush is pending: the client's sends,
   CloseSend and receives and a receive still in flight on another handler goroutine have all returned in a
   state in which nothing can move *)
Theorem only_the_return_waits_after_return rs s a :
  wreach rs s -> quiescent s -> svrDone s = true -> a <> H -> get_pend s a = None.
Proof.
  intros R Q Hd Ha. pose proof (live_reachable _ _ R) as L.
  pose proof (inv_reachable _ _ (wreach_reachable _ _ R)) as I.
  assert (F2 : remote_done s = true) by (unfold remote_done; rewrite Hd; reflexivity).
  assert (F4 : (rctx s =? 0) = false).
  { unfold rctx. rewrite Hd, orb_true_r. destruct (negb (cctx s =? 0)) eqn:E; [apply negb_true_iff in E; exact E|reflexivity]. }
  destruct (get_pend s a) as [p|] eqn:Hp; [exfalso|reflexivity].
  pose proof (quiescent_actor s a p Q Hp) as E.
  assert (Hok : op_ok a p = true).
  { destruct L as [A B C D E' _]. destruct a; cbn [get_pend] in Hp; rewrite Hp in *; assumption. }
  (* the handler is in its return phases, or everything is closed *)
  assert (Hret : (exists q, pH s = Some q /\ ret_phase (Some q) = true) \/ respClosed s = true).
  { destruct (l_ret _ L Hd) as [Y|[Y _]]; [left|right; exact Y].
    destruct (pH s) as [q|]; [exists q; split; [reflexivity|exact Y]|discriminate Y]. }
  destruct a; [| | |exfalso; apply Ha; reflexivity|];
    destruct p as [o| | | | | |]; try discriminate Hok; try destruct o; try discriminate Hok.
  all: cbn [steps_of] in E; unfold srv_recv, done, goto in E; rewrite ?F2, ?F4 in E; cbn [negb] in E.
  all: kill_all.
  all: try (cbn [get_pend] in Hp; congruence).
  all: try (match goal with Hcs : pCS ?s0 = Some (PStart (CSend ?x0)) |- _ =>
              exact (cs_send_moves s0 x0 F2 (quiescent_actor s0 CS _ Q Hcs)) end).
  all: try (destruct Hret as [[q [Hq Hr]]|X]; [|congruence];
            match goal with Hempty : respQ ?s0 = [] |- _ =>
              exact (h_ret_moves s0 q Hr Hempty (quiescent_actor s0 H q Q Hq)) end).
Qed.

(* non-vacuity: a handler that has returned with its last frames flushed and a client that has drained them:
   quiescent, closed, and indeed nothing pending *)
Example over_state_reachable :
  exists s, wreach true s /\ quiescent s /\ respClosed s = true /\ svrDone s = true.
Proof.
  set (l := [MStart (Call CS (CSend 7)); MInt 0; MStart (Call H HRecv); MInt 0;
             MStart (Call H (HSend 9)); MInt 0; MInt 0; MStart (Call CR CRecv); MInt 0;
             MStart (Call H (HReturn 0)); MInt 0; MInt 0; MInt 0; MInt 0; MInt 0]).
  destruct (exec (init true) l) as [s|] eqn:E; [|vm_compute in E; discriminate E].
  exists s. split.
  - revert E. unfold l. clear l.
    assert (G : forall l s0 s1, wreach true s0 ->
                (forall x, In (MStart x) l -> wf_start x = true) -> exec s0 l = Some s1 -> wreach true s1).
    { induction l as [|m l IH]; intros s0 s1 R0 Hw He; cbn [exec] in He; [injection He as <-; exact R0|].
      destruct m as [x|n]; cbn [exec] in He.
      - destruct (apply_start s0 x) as [s2|] eqn:Ea; [|discriminate].
        eapply IH; [|intros y Hy; apply Hw; right; exact Hy|exact He].
        eapply wr_start; [exact R0|apply Hw; left; reflexivity|exact Ea].
      - destruct (nth_error (internal s0) n) as [[a [s2 r]]|] eqn:En; [|discriminate].
        eapply IH; [|intros y Hy; apply Hw; right; exact Hy|exact He].
        eapply wr_internal; [exact R0|]. eapply nth_error_In; exact En. }
    intro E. eapply G; [apply wr_init| |exact E].
    intros x Hin. cbn in Hin.
    repeat (destruct Hin as [Hin|Hin]; [try discriminate Hin; injection Hin as <-; reflexivity|]). destruct Hin.
  - vm_compute in E. injection E as <-. vm_compute. auto.
Qed.


(* the measure of a reachable state is below the fuel the correspondence check explores with
   (corr/Stream.v: 60), so its verdicts never come from running out of fuel *)
Lemma mu_bound rs s : reachable rs s -> (mu s <= resp_capn + 40)%nat.
Proof.
  intro R. pose proof (i_resp _ (inv_reachable _ _ R)) as B. unfold mu.
  pose proof (w_opt_le (pCS s)). pose proof (w_opt_le (pCC s)). pose proof (w_opt_le (pCR s)).
  pose proof (w_opt_le (pH s)). pose proof (w_opt_le (pHR s)). lia.
Qed.

Theorem exploration_never_runs_out_of_fuel rs s acc :
  reachable rs s -> ~ In None (explore 60 s acc).
Proof.
  intro R. apply explore_has_enough_fuel. pose proof (mu_bound _ _ R) as B.
  assert (resp_capn = 1%nat) by (vm_compute; reflexivity). lia.
Qed.
