From Coq Require Import ZArith String List Bool Lia.
From Grpchan Require Import model.Ctx.
Import ListNotations.
Open Scope Z_scope.

Definition library_key (k : key) : bool :=
  match k with KInMD | KPeer | KSTS | KClient => true | _ => false end.

Lemma lookup_server_prefix k m c :
  lookup k (server_ctx m c) =
  match k with
  | KSTS => Some (VStr m)
  | KClient => Some (VCtx c)
  | KPeer => Some (VZ 1)
  | KInMD => option_map VMD (out_md c)
  | _ => None
  end.
Proof.
  unfold server_ctx. destruct (out_md c) as [x|]; destruct k; cbn; try reflexivity.
Qed.

(* none of the caller's values: every key the library does not itself install is absent,
   whatever the caller's chain holds -- including gRPC's own outgoing-metadata key *)
Theorem no_values k m c : library_key k = false -> lookup k (server_ctx m c) = None.
Proof. intro H. rewrite lookup_server_prefix. destruct k; cbn in H; try discriminate; reflexivity. Qed.

(* the handler's incoming metadata is exactly the caller's outgoing metadata (none if none),
   never the incoming metadata of an enclosing handler *)
Theorem incoming_is_callers_outgoing m c : lookup KInMD (server_ctx m c) = option_map VMD (out_md c).
Proof. now rewrite lookup_server_prefix. Qed.

Theorem peer_is_inproc m c : lookup KPeer (server_ctx m c) = Some (VZ 1).
Proof. now rewrite lookup_server_prefix. Qed.

Theorem own_transport_stream m c : lookup KSTS (server_ctx m c) = Some (VStr m).
Proof. now rewrite lookup_server_prefix. Qed.

Lemma deadline_app_nodl a c : (forall l, In l a -> match l with LDeadline _ => False | _ => True end) ->
  deadline (a ++ c) = deadline c.
Proof.
  induction a as [|x a IH]; intro H; [reflexivity|]. cbn [app].
  assert (Hx := H x (or_introl eq_refl)). destruct x; cbn [deadline]; try contradiction; apply IH; intros l Hl; apply H; now right.
Qed.

Lemma cancelled_app_nocancel a c : (forall l, In l a -> match l with LCancelled => False | _ => True end) ->
  cancelled (a ++ c) = cancelled c.
Proof.
  induction a as [|x a IH]; intro H; [reflexivity|]. cbn [app].
  assert (Hx := H x (or_introl eq_refl)). destruct x; cbn [cancelled]; try contradiction; apply IH; intros l Hl; apply H; now right.
Qed.

(* the caller's deadline and cancellation, unchanged *)
Theorem deadline_kept m c : deadline (server_ctx m c) = deadline c.
Proof.
  unfold server_ctx. rewrite !app_assoc. apply deadline_app_nodl.
  intros l Hl. destruct (out_md c); cbn in Hl; repeat (destruct Hl as [<-|Hl]; [exact I|]); destruct Hl.
Qed.

Theorem cancel_kept m c : cancelled (server_ctx m c) = cancelled c.
Proof.
  unfold server_ctx. rewrite !app_assoc. apply cancelled_app_nocancel.
  intros l Hl. destruct (out_md c); cbn in Hl; repeat (destruct Hl as [<-|Hl]; [exact I|]); destruct Hl.
Qed.

(* the sanctioned back door returns the caller's original context, under which every caller value is visible *)
Theorem client_context_is_callers m c : client_context (server_ctx m c) = Some c.
Proof. unfold client_context. now rewrite lookup_server_prefix. Qed.

(* nesting: a call made from inside a handler (any extra layers on top of its context) still
   exposes only its own caller's outgoing metadata and none of the outer call's values *)
Theorem nested_no_leak k m1 m2 c extra :
  library_key k = false -> lookup k (server_ctx m2 (extra ++ server_ctx m1 c)) = None.
Proof. apply no_values. Qed.

Theorem nested_incoming m1 m2 c extra :
  lookup KInMD (server_ctx m2 (extra ++ server_ctx m1 c)) = option_map VMD (out_md (extra ++ server_ctx m1 c)).
Proof. apply incoming_is_callers_outgoing. Qed.

Lemma example :
  let c := [LVal 3 33; LOutMD [("k"%string, ["v"%string])]; LInMD [("outer"%string, ["x"%string])]; LDeadline 9] in
  lookup (KUser 3) (server_ctx "/s/m" c) = None /\
  lookup KInMD (server_ctx "/s/m" c) = Some (VMD [("k"%string, ["v"%string])]) /\
  deadline (server_ctx "/s/m" c) = Some 9 /\ client_context (server_ctx "/s/m" c) = Some c.
Proof. repeat split; reflexivity. Qed.
