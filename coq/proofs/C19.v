From Coq Require Import ZArith String List Bool Lia.
From Grpchan Require Import model.Plugin.
Import ListNotations.
Open Scope Z_scope.

Lemma gen_methods_length fq ms c : length (gen_methods fq ms c) = length ms.
Proof. revert c. induction ms as [|m ms IH]; intro c; cbn; [reflexivity|]. destruct (me_cs m), (me_ss m); cbn; now rewrite IH. Qed.

Definition shape_of (m : method) : shape :=
  if me_cs m then ClientOrBidi else if me_ss m then ServerStream else Unary.

(* the k-th stub describes the k-th method: its own path and the shape of its flags *)
Lemma gen_methods_nth fq : forall ms c k m,
  nth_error ms k = Some m ->
  exists st, nth_error (gen_methods fq ms c) k = Some st /\
             st_path st = path_of fq (me_name m) /\ st_shape st = shape_of m /\
             st_index st = if streaming m then Some (c + Z.of_nat (length (filter streaming (firstn k ms)))) else None.
Proof.
  induction ms as [|x ms IH]; intros c k m H; [destruct k; discriminate|].
  destruct k as [|k].
  - injection H as ->. cbn [gen_methods firstn filter length]. unfold shape_of, streaming.
    destruct (me_cs m), (me_ss m); cbn; eexists; repeat split; cbn; f_equal; lia.
  - cbn [nth_error] in H. cbn [gen_methods].
    destruct (me_cs x) eqn:Ecs; [|destruct (me_ss x) eqn:Ess].
    + assert (Sx : streaming x = true) by (unfold streaming; now rewrite Ecs).
      destruct (IH (c + 1) k m H) as (st & Hn & Hp & Hs & Hi). exists st. cbn [nth_error]. repeat split; auto.
      rewrite Hi. cbn [firstn filter]. rewrite Sx. cbn [length].
      destruct (streaming m); [f_equal; lia|reflexivity].
    + assert (Sx : streaming x = true) by (unfold streaming; now rewrite Ecs, Ess).
      destruct (IH (c + 1) k m H) as (st & Hn & Hp & Hs & Hi). exists st. cbn [nth_error]. repeat split; auto.
      rewrite Hi. cbn [firstn filter]. rewrite Sx. cbn [length].
      destruct (streaming m); [f_equal; lia|reflexivity].
    + assert (Sx : streaming x = false) by (unfold streaming; now rewrite Ecs, Ess).
      destruct (IH c k m H) as (st & Hn & Hp & Hs & Hi). exists st. cbn [nth_error]. repeat split; auto.
      rewrite Hi. cbn [firstn filter]. rewrite Sx. reflexivity.
Qed.

Lemma filter_firstn_nth {A} (f : A -> bool) : forall (l : list A) k x,
  nth_error l k = Some x -> f x = true ->
  nth_error (filter f l) (length (filter f (firstn k l))) = Some x.
Proof.
  induction l as [|y l IH]; intros k x H Hf; [destruct k; discriminate|].
  destruct k as [|k].
  - injection H as ->. cbn. now rewrite Hf.
  - cbn [nth_error] in H. cbn [firstn filter]. destruct (f y); cbn [length nth_error]; now apply IH.
Qed.

(* the index emitted for a streaming method selects that very method in ServiceDesc.Streams *)
Theorem index_selects_method s k m :
  nth_error (sv_ms s) k = Some m -> streaming m = true ->
  exists st i, nth_error (gen_methods (sv_fq s) (sv_ms s) 0) k = Some st /\ st_index st = Some i /\ 0 <= i /\
               nth_error (streams_of s) (Z.to_nat i) = Some m.
Proof.
  intros H Hs. destruct (gen_methods_nth (sv_fq s) (sv_ms s) 0 k m H) as (st & Hn & _ & _ & Hi).
  rewrite Hs in Hi. exists st, (0 + Z.of_nat (length (filter streaming (firstn k (sv_ms s))))).
  repeat split; auto; [lia|]. replace (Z.to_nat _) with (length (filter streaming (firstn k (sv_ms s)))) by lia.
  unfold streams_of. now apply filter_firstn_nth.
Qed.

Theorem unary_has_no_index s k m :
  nth_error (sv_ms s) k = Some m -> streaming m = false ->
  exists st, nth_error (gen_methods (sv_fq s) (sv_ms s) 0) k = Some st /\ st_index st = None /\ st_shape st = Unary.
Proof.
  intros H Hs. destruct (gen_methods_nth (sv_fq s) (sv_ms s) 0 k m H) as (st & Hn & _ & Hsh & Hi).
  rewrite Hs in Hi. exists st. repeat split; auto. rewrite Hsh. unfold shape_of, streaming in *.
  destruct (me_cs m), (me_ss m); cbn in *; congruence.
Qed.

Theorem path_and_shape s k m :
  nth_error (sv_ms s) k = Some m ->
  exists st, nth_error (gen_methods (sv_fq s) (sv_ms s) 0) k = Some st /\
             st_path st = path_of (sv_fq s) (me_name m) /\ st_shape st = shape_of m.
Proof.
  intro H. destruct (gen_methods_nth (sv_fq s) (sv_ms s) 0 k m H) as (st & Hn & Hp & Hs & _). eauto.
Qed.

Lemma shape_flags m :
  (shape_of m = Unary <-> me_cs m = false /\ me_ss m = false) /\
  (shape_of m = ServerStream <-> me_cs m = false /\ me_ss m = true) /\
  (shape_of m = ClientOrBidi <-> me_cs m = true).
Proof. unfold shape_of. destruct (me_cs m), (me_ss m); repeat split; intros; try discriminate; try tauto; destruct H; discriminate. Qed.

(* one registration function per service, bound to that service's own description *)
Theorem one_registration ls ln svcs j s :
  nth_error svcs j = Some s ->
  exists o, nth_error (gen_file ls ln svcs) j = Some o /\
            o_register o = ("RegisterHandler" ++ sv_go s)%string /\ o_desc o = desc_var ln (sv_go s) /\
            length (gen_file ls ln svcs) = length svcs.
Proof.
  intro H. unfold gen_file. rewrite nth_error_map, H. cbn. eexists. repeat split. now rewrite map_length.
Qed.

(* each service counts its own streams from zero *)
Theorem per_service_counter ls ln svcs j s :
  nth_error svcs j = Some s ->
  exists o, nth_error (gen_file ls ln svcs) j = Some o /\
            o_stubs o = if ls then gen_methods (sv_fq s) (sv_ms s) 0 else [].
Proof. intro H. unfold gen_file. rewrite nth_error_map, H. cbn. eexists. split; reflexivity. Qed.

Definition ex_svc := {| sv_fq := "p.S"; sv_go := "S";
  sv_ms := [ {| me_name := "A"; me_cs := false; me_ss := false |}; {| me_name := "B"; me_cs := true; me_ss := false |};
             {| me_name := "C"; me_cs := false; me_ss := false |}; {| me_name := "D"; me_cs := false; me_ss := true |};
             {| me_name := "E"; me_cs := true; me_ss := true |} ] |}.
Lemma example : map st_index (gen_methods "p.S" (sv_ms ex_svc) 0) = [None; Some 0; None; Some 1; Some 2].
Proof. reflexivity. Qed.
