From Coq Require Import ZArith String List Bool Lia.
From Grpchan Require Import gen.Wire gen.Codes model.StatusHttp model.HttpGate proofs.C14.
Import ListNotations.
Open Scope Z_scope.

Theorem unary_at_most_once r h : 0 <= u_user_calls (handle_method r h) <= 1.
Proof.
  unfold handle_method. destruct (is_post r), (unary_codec (media r)), (bin_ok r), (body_ok r), (h =? 0); cbn; lia.
Qed.

Theorem stream_at_most_once r n h : 0 <= s_user_calls (handle_stream r n h) <= 1.
Proof. unfold handle_stream. destruct (is_post r), (stream_codec (media r)), (bin_ok r); cbn; lia. Qed.

Theorem unary_only_if_valid r h :
  u_user_calls (handle_method r h) = 1 -> valid_unary r = true /\ body_ok r = true.
Proof.
  unfold handle_method, valid_unary.
  destruct (is_post r), (unary_codec (media r)), (bin_ok r), (body_ok r), (h =? 0); cbn; intro H; try discriminate; auto.
Qed.

Theorem stream_only_if_valid r n h : s_user_calls (handle_stream r n h) = 1 -> valid_stream r = true.
Proof.
  unfold handle_stream, valid_stream. destruct (is_post r), (stream_codec (media r)), (bin_ok r); cbn; intro H; try discriminate; auto.
Qed.

(* precedence of the refusals: 405, then 415, then 400 *)
Theorem unary_refusals r h :
  (is_post r = false -> u_status (handle_method r h) = 405 /\ u_allow_post (handle_method r h) = true) /\
  (is_post r = true -> unary_codec (media r) = None -> u_status (handle_method r h) = 415) /\
  (is_post r = true -> unary_codec (media r) <> None -> bin_ok r = false -> u_status (handle_method r h) = 400).
Proof.
  unfold handle_method. repeat split; intros;
    destruct (is_post r), (unary_codec (media r)), (bin_ok r); cbn; try congruence; try discriminate; auto.
Qed.

Theorem stream_refusals r n h :
  (is_post r = false -> s_status (handle_stream r n h) = 405 /\ s_allow_post (handle_stream r n h) = true) /\
  (is_post r = true -> stream_codec (media r) = None -> s_status (handle_stream r n h) = 415) /\
  (is_post r = true -> stream_codec (media r) <> None -> bin_ok r = false -> s_status (handle_stream r n h) = 400).
Proof.
  unfold handle_stream. repeat split; intros;
    destruct (is_post r), (stream_codec (media r)), (bin_ok r); cbn; try congruence; try discriminate; auto.
Qed.

(* an undecodable unary request: InvalidArgument, an error HTTP status, application code not run *)
Theorem unary_undecodable r h :
  valid_unary r = true -> body_ok r = false ->
  u_user_calls (handle_method r h) = 0 /\ u_grpc_code (handle_method r h) = Some 3 /\ 400 <= u_status (handle_method r h) < 600.
Proof.
  unfold valid_unary, handle_method. intros V B.
  destruct (is_post r), (unary_codec (media r)), (bin_ok r); cbn in V; try discriminate. rewrite B. cbn.
  repeat split; try reflexivity; pose proof (error_for_non_ok 3 ltac:(lia)); unfold renderer_status; cbn; lia.
Qed.

(* JSON and protobuf encodings of the same request are handled identically *)
Theorem json_same r1 r2 h :
  media r1 = unary_ctype -> media r2 = json_ctype ->
  is_post r1 = is_post r2 -> bin_ok r1 = bin_ok r2 -> body_ok r1 = body_ok r2 ->
  handle_method r1 h = handle_method r2 h.
Proof.
  intros M1 M2 P B D. unfold handle_method, unary_codec. rewrite M1, M2, P, B, D.
  rewrite String.eqb_refl.
  destruct (String.eqb json_ctype unary_ctype) eqn:E; rewrite ?String.eqb_refl; reflexivity.
Qed.

(* a streaming reply that was started ends with exactly one trailer frame, and it is last *)
Definition is_trailer (f : frame) : bool := match f with Trailer _ => true | Data => false end.

Lemma repeat_data_no_trailer n : filter is_trailer (repeat Data n) = [].
Proof. induction n; cbn; auto. Qed.

Theorem one_trailer r n h :
  s_user_calls (handle_stream r n h) = 1 ->
  exists c, s_frames (handle_stream r n h) = repeat Data n ++ [Trailer c] /\
            length (filter is_trailer (s_frames (handle_stream r n h))) = 1%nat.
Proof.
  unfold handle_stream. destruct (is_post r), (stream_codec (media r)), (bin_ok r); cbn; intro H; try discriminate.
  eexists. split; [reflexivity|]. rewrite filter_app, repeat_data_no_trailer. reflexivity.
Qed.

Theorem refused_no_frames r n h : s_user_calls (handle_stream r n h) = 0 -> s_frames (handle_stream r n h) = [].
Proof. unfold handle_stream. destruct (is_post r), (stream_codec (media r)), (bin_ok r); cbn; intro H; try discriminate; reflexivity. Qed.

(* the codecs: streams accept only the stream content type; JSON is unary-only *)
Lemma json_not_for_streams : stream_codec json_ctype = None.
Proof. reflexivity. Qed.
Lemma ctypes_distinct : unary_ctype <> stream_ctype /\ unary_ctype <> json_ctype /\ stream_ctype <> json_ctype.
Proof. repeat split; discriminate. Qed.
