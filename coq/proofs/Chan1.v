From Coq Require Import ZArith List Bool Lia.
From Grpchan Require Import model.Chan1.
Import ListNotations.

Lemma prefix_refl {A} (a : list A) : prefix a a.
Proof. exists []. now rewrite app_nil_r. Qed.

Lemma prefix_app_r {A} (a b : list A) x : prefix a b -> prefix a (b ++ x).
Proof. intros [t ->]. exists (t ++ x). now rewrite app_assoc. Qed.

Lemma prefix_length {A} (a b : list A) : prefix a b -> length a <= length b.
Proof. intros [t ->]. rewrite app_length. lia. Qed.

(* two prefixes of one list are comparable *)
Lemma prefix_of_same {A} : forall (a b l : list A), prefix a l -> prefix b l -> length a <= length b -> prefix a b.
Proof.
  induction a as [|x a IH]; intros b l Ha Hb Hl; [exists b; reflexivity|].
  destruct b as [|y b]; [cbn in Hl; lia|].
  destruct Ha as [ta ->]. destruct Hb as [tb Hb]. cbn in Hb. injection Hb as <- Hb.
  destruct (IH b (a ++ ta)) as [t Ht]; [now exists ta|now exists tb|cbn in Hl; lia|].
  exists t. cbn. now rewrite Ht.
Qed.

Section WithCap.
  Context (cap : nat).

  Record Inv (s : st) : Prop := {
    i_cap : length (q s) <= cap;
    i_enq : enq s = taken s ++ q s;
    i_got : prefix (got s) (taken s);
    i_sent : prefix (sent_ok s) (enq s);
    i_live_sent : ctx s = false -> sent_ok s = enq s;
    i_live_got : rdone s = false -> got s = taken s;
    i_len : length (got s) <= length (sent_ok s);
    i_nopanic : panicked s = false;
    i_closed : closed s = send_closed s
  }.

  Lemma inv_init : Inv init.
  Proof. constructor; cbn; auto using prefix_refl; lia. Qed.

  Lemma inv_step s l s' : Inv s -> step cap s l = Some s' -> Inv s'.
  Proof.
    intros I H. pose proof I as I0. destruct I as [Icap Ienq Igot Isent Ils Ilg Ilen Inp Icl].
    destruct l; unfold step in H.
    - (* SendEnq *)
      destruct (send_closed s) eqn:Esc; [discriminate|].
      destruct (Nat.ltb (length (q s)) cap) eqn:El; [apply Nat.ltb_lt in El|discriminate]. injection H as <-.
      constructor; cbn.
      + rewrite app_length. cbn. lia.
      + rewrite Ienq. now rewrite app_assoc.
      + exact Igot.
      + destruct (ctx s); [now apply prefix_app_r|]. rewrite (Ils eq_refl). apply prefix_refl.
      + intro Hc. rewrite Hc. now rewrite (Ils Hc).
      + exact Ilg.
      + destruct (ctx s); [exact Ilen|]. rewrite app_length. lia.
      + rewrite Inp, Icl. reflexivity.
      + exact Icl.
    - destruct (send_closed s); [discriminate|]. destruct (ctx s); [|discriminate]. injection H as <-. exact I0.
    - destruct (send_closed s); [discriminate|]. destruct (remote s || ctx s); [|discriminate]. injection H as <-. exact I0.
    - destruct (send_closed s); [|discriminate]. injection H as <-. exact I0.
    - (* RecvDeq *)
      destruct (q s) as [|x r] eqn:Eq; [discriminate|]. injection H as <-.
      constructor; cbn.
      + cbn in Icap. lia.
      + rewrite Ienq. now rewrite <- app_assoc.
      + destruct (rdone s) eqn:Er; [now apply prefix_app_r|]. rewrite (Ilg eq_refl). apply prefix_refl.
      + exact Isent.
      + exact Ils.
      + unfold rdone. cbn. fold (rdone s). intro Hr. rewrite Hr. now rewrite (Ilg Hr).
      + destruct (rdone s) eqn:Er; [exact Ilen|].
        (* the receiver's context is live, hence the caller's: everything enqueued was acknowledged *)
        assert (Hc : ctx s = false) by (unfold rdone in Er; destruct (ctx s); [discriminate|reflexivity]).
        rewrite (Ils Hc), Ienq, (Ilg eq_refl), !app_length. cbn. lia.
      + exact Inp.
      + exact Icl.
    - destruct (q s); [|discriminate]. destruct (closed s); [|discriminate]. injection H as <-. exact I0.
    - destruct (rdone s); [|discriminate]. injection H as <-. exact I0.
    - (* Close *)
      injection H as <-. constructor; cbn; auto.
      rewrite Inp, Icl. destruct (send_closed s); reflexivity.
    - (* Cancel *)
      injection H as <-. constructor; cbn; auto; [discriminate|].
      unfold rdone. cbn. discriminate.
    - (* RemoteDone *)
      injection H as <-. constructor; cbn; auto.
    - (* ReceiverCancel *)
      injection H as <-. constructor; cbn; auto. unfold rdone. cbn. rewrite orb_true_r. discriminate.
  Qed.

  Theorem inv_reachable s : reachable cap s -> Inv s.
  Proof. induction 1; [apply inv_init|eapply inv_step; eauto]. Qed.

  (* ---- consequences, for every reachable state ---- *)

  (* what the receiver has obtained is a prefix of the sends that were acknowledged *)
  Theorem got_prefix_sent s : reachable cap s -> prefix (got s) (sent_ok s).
  Proof.
    intro R. destruct (inv_reachable s R) as [_ Ienq Igot Isent _ _ Ilen _ _].
    apply (prefix_of_same _ _ (enq s)); [|exact Isent|exact Ilen].
    destruct Igot as [t Ht]. exists (t ++ q s). rewrite Ienq, Ht. now rewrite app_assoc.
  Qed.

  (* when the receiver sees the clean end of the stream it has everything that was acknowledged *)
  Theorem complete_at_eof s : reachable cap s -> rdone s = false -> step cap s RecvClosed = Some s -> got s = sent_ok s.
  Proof.
    intros R Hr H. destruct (inv_reachable s R) as [_ Ienq _ _ Ils Ilg _ _ _]. cbn in H.
    destruct (q s) eqn:Eq; [|discriminate].
    assert (Hc : ctx s = false) by (unfold rdone in Hr; destruct (ctx s); [discriminate|reflexivity]).
    rewrite (Ilg Hr), (Ils Hc), Ienq. now rewrite app_nil_r.
  Qed.

  (* back-pressure: acknowledged sends never exceed what the peer's library took off by more than the capacity *)
  Theorem backpressure s : reachable cap s -> length (sent_ok s) <= length (taken s) + cap.
  Proof.
    intro R. destruct (inv_reachable s R) as [Icap Ienq _ Isent _ _ _ _ _].
    apply prefix_length in Isent. rewrite Ienq, app_length in Isent. lia.
  Qed.

  (* a full buffer blocks the sender until the peer receives, the peer finishes, or the context ends *)
  Theorem full_blocks s x :
    length (q s) = cap -> ctx s = false -> remote s = false -> send_closed s = false -> send_enabled cap s x = false.
  Proof.
    intros Hq Hc Hr Hs. unfold send_enabled, step. rewrite Hs, Hc, Hr.
    destruct (Nat.ltb (length (q s)) cap) eqn:El; [apply Nat.ltb_lt in El; lia|reflexivity].
  Qed.

  Theorem unblocked_by s x :
    send_closed s = false ->
    (length (q s) < cap \/ ctx s = true \/ remote s = true) -> send_enabled cap s x = true.
  Proof.
    intros Hs H. unfold send_enabled, step. rewrite Hs.
    destruct (Nat.ltb (length (q s)) cap) eqn:El; [reflexivity|apply Nat.ltb_ge in El].
    destruct H as [H|[H|H]]; [lia| |]; rewrite H; [reflexivity|].
    destruct (ctx s); reflexivity.
  Qed.

  (* memory held by a stalled direction: the buffer only *)
  Theorem buffer_bounded s : reachable cap s -> length (q s) <= cap.
  Proof. intro R. now destruct (inv_reachable s R). Qed.

  (* no send on a closed channel and no double close: the library never panics *)
  Theorem no_panic s : reachable cap s -> panicked s = false.
  Proof. intro R. now destruct (inv_reachable s R). Qed.
End WithCap.

(* non-vacuity: a concrete run reaching a state where the bound is tight *)
Definition run (cap : nat) (ls : list label) : option st :=
  fold_left (fun o l => match o with Some s => step cap s l | None => None end) ls (Some init).

Lemma run_reachable cap ls : forall s, run cap ls = Some s -> reachable cap s.
Proof.
  unfold run. induction ls as [|l ls IH] using rev_ind; intros s H; [injection H as <-; constructor|].
  rewrite fold_left_app in H. cbn in H.
  destruct (fold_left _ ls (Some init)) as [s0|] eqn:E; [|discriminate].
  eapply reach_step; [apply IH; reflexivity|exact H].
Qed.

Example tight_run :
  exists s, reachable 1 s /\ length (sent_ok s) = 2 /\ length (taken s) = 1 /\ got s = [7%Z].
Proof.
  destruct (run 1 [SendEnq 7%Z; RecvDeq; SendEnq 8%Z]) as [s|] eqn:E; [|discriminate].
  exists s. split; [eapply run_reachable; exact E|]. vm_compute in E. injection E as <-. repeat split.
Qed.
