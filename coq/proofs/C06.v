From Coq Require Import ZArith List Bool Lia.
From Grpchan Require Import model.LateRead.
Import ListNotations.

Lemma late_read_app t u b : late_read (t ++ u) b = late_read t b || late_read u (b || existsb (fun e => match e with Ret => true | _ => false end) t).
Proof.
  revert b. induction t as [|e t IH]; intro b; cbn; [now rewrite orb_false_r|].
  destruct e; rewrite IH; cbn; [|now rewrite orb_true_r].
  rewrite orb_assoc. reflexivity.
Qed.

(* as long as the context does not end, the request is read before the call returns *)
Definition Inv (s : st) : Prop :=
  ctx_done s = false ->
  late_read (trace s) false = false /\
  (returned s = true -> decoded s = true) /\
  (finished s = true -> decoded s = true) /\
  (existsb (fun e => match e with Ret => true | _ => false end) (trace s) = returned s).

Lemma inv_reach s : reachable s -> Inv s.
Proof.
  induction 1 as [|s l s' R IH H]; [intros _; cbn; auto|].
  intro Hc. destruct l; cbn in H.
  - destruct (decoded s) eqn:Ed; [discriminate|]. injection H as <-. cbn in *.
    destruct (IH Hc) as (A & B & C & D). rewrite late_read_app, A, D. cbn.
    destruct (returned s) eqn:Er; [specialize (B eq_refl); congruence|].
    cbn. split; [reflexivity|]. split; [auto|]. split; [auto|].
    rewrite existsb_app, D. reflexivity.
  - destruct (decoded s && negb (finished s)) eqn:E; [|discriminate]. injection H as <-. cbn in *.
    destruct (IH Hc) as (A & B & C & D). apply andb_true_iff in E as [E _]. repeat split; auto.
  - destruct (finished s && negb (returned s)) eqn:E; [|discriminate]. injection H as <-. cbn in *.
    destruct (IH Hc) as (A & B & C & D). apply andb_true_iff in E as [E1 E2].
    rewrite late_read_app, A. cbn. repeat split; auto. rewrite existsb_app. cbn. now rewrite orb_true_r.
  - destruct (ctx_done s && negb (returned s)) eqn:E; [|discriminate]. injection H as <-. cbn in Hc. discriminate.
  - injection H as <-. cbn in Hc. discriminate.
Qed.

Theorem no_late_read_without_cancel s : reachable s -> ctx_done s = false -> late_read (trace s) false = false.
Proof. intros R Hc. now destruct (inv_reach s R Hc). Qed.

(* KNOWN FINDING F13: when the call returns through its context, the request is read afterwards *)
Theorem late_read_refuted : exists s, reachable s /\ late_read (trace s) false = true.
Proof.
  exists {| decoded := true; finished := false; returned := true; ctx_done := true; trace := [Ret; ReadReq] |}. split; [|reflexivity].
  eapply r_step; [eapply r_step; [eapply r_step; [apply r_init|]|]|].
  - instantiate (1 := {| decoded := false; finished := false; returned := false; ctx_done := true; trace := [] |}).
    instantiate (1 := Cancel). reflexivity.
  - instantiate (1 := {| decoded := false; finished := false; returned := true; ctx_done := true; trace := [Ret] |}).
    instantiate (1 := RetCtx). reflexivity.
  - instantiate (1 := Decode). reflexivity.
Qed.
