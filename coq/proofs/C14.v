From Coq Require Import ZArith String List Bool Lia.
From Grpchan Require Import lib.Dec gen.Codes model.StatusHttp.
Import ListNotations.
Open Scope Z_scope.

(* case analysis over every comparison of the generated if-chains, whatever
   their order or number *)
Ltac split_eqb c :=
  repeat match goal with
         | |- context [c =? ?k] => destruct (Z.eqb_spec c k); [subst c|]
         end.

Ltac split_cmp :=
  repeat match goal with
         | |- context [?a =? ?b] => destruct (Z.eqb_spec a b)
         | |- context [?a <? ?b] => destruct (Z.ltb_spec a b)
         | |- context [?a >=? ?b] => rewrite (Z.geb_leb a b)
         | |- context [?a >? ?b] => rewrite (Z.gtb_ltb a b)
         | |- context [?a <=? ?b] => destruct (Z.leb_spec a b)
         end.

Lemma doc_rows_hold :
  forallb (fun r => http_of_code (fst (fst r)) =? snd (fst r)) doc_table = true.
Proof. vm_compute. reflexivity. Qed.

Lemma doc_table_row c h s : In (c, h, s) doc_table -> http_of_code c = h.
Proof.
  intro H. pose proof doc_rows_hold as F. rewrite forallb_forall in F.
  specialize (F _ H). cbn in F. now apply Z.eqb_eq.
Qed.

Lemma doc_table_complete c :
  c <> 0 -> in_doc_table c = false -> http_of_code c = 500.
Proof.
  intros Hc Hn. unfold http_of_code. split_eqb c;
    try reflexivity; try (exfalso; apply Hc; reflexivity);
    try (exfalso; revert Hn; vm_compute; discriminate).
Qed.

Lemma doc_table_nonempty : doc_table <> [].
Proof. vm_compute. discriminate. Qed.

Lemma error_for_non_ok c : c <> 0 -> 400 <= http_of_code c < 600.
Proof.
  intro Hc. unfold http_of_code. split_eqb c; try lia; exfalso; apply Hc; reflexivity.
Qed.

Lemma http_of_code_never_499 c : http_of_code c <> 499.
Proof. unfold http_of_code. split_eqb c; lia. Qed.

Lemma renderer_499 c e :
  renderer_status c e = 499 <-> ((c = 1 \/ c = 4) /\ e = true).
Proof.
  unfold renderer_status. split.
  - destruct e; rewrite ?andb_true_r, ?andb_false_r.
    + destruct (c =? 1) eqn:E1; [apply Z.eqb_eq in E1; auto|].
      destruct (c =? 4) eqn:E4; [apply Z.eqb_eq in E4; auto|].
      cbn. intro H. exfalso. eapply http_of_code_never_499; eauto.
    + intro H. exfalso. eapply http_of_code_never_499; eauto.
  - intros [[->| ->] ->]; reflexivity.
Qed.

Lemma renderer_otherwise c e :
  renderer_status c e <> 499 -> renderer_status c e = http_of_code c.
Proof.
  unfold renderer_status.
  destruct (((c =? 1) || (c =? 4)) && e); [intro H; exfalso; apply H; reflexivity|reflexivity].
Qed.

(* the starred rows of the documented table are exactly the codes of the 499 rule *)
Lemma starred_iff c :
  in_doc_table c = true -> (starred c = true <-> renderer_status c true = 499).
Proof.
  intro Hin. rewrite renderer_499.
  unfold in_doc_table in Hin. apply existsb_exists in Hin as [r [Hr Hc]].
  apply Z.eqb_eq in Hc. subst c.
  assert (F : forallb (fun r => Bool.eqb (starred (fst (fst r)))
                                   ((fst (fst r) =? 1) || (fst (fst r) =? 4))) doc_table = true)
    by (vm_compute; reflexivity).
  rewrite forallb_forall in F. specialize (F _ Hr). apply Bool.eqb_prop in F.
  rewrite F. rewrite orb_true_iff, !Z.eqb_eq. tauto.
Qed.

Lemma i32_range z : - 2 ^ 31 <= i32 z < 2 ^ 31.
Proof. unfold i32. pose proof (Z.mod_pos_bound (z + 2 ^ 31) (2 ^ 32)). lia. Qed.

Lemma u32_i32 c : 0 <= c < 2 ^ 32 -> u32 (i32 c) = c.
Proof.
  intro H. unfold u32, i32.
  destruct (Z_lt_ge_dec c (2 ^ 31)).
  - rewrite (Z.mod_small (c + 2 ^ 31)) by lia.
    replace (c + 2 ^ 31 - 2 ^ 31) with c by lia. apply Z.mod_small; lia.
  - replace (c + 2 ^ 31) with ((c - 2 ^ 31) + 1 * 2 ^ 32) by lia.
    rewrite Z.mod_add by lia. rewrite (Z.mod_small (c - 2 ^ 31)) by lia.
    replace (c - 2 ^ 31 - 2 ^ 31) with (c + (-1) * 2 ^ 32) by lia.
    rewrite Z.mod_add by lia. apply Z.mod_small; lia.
Qed.

Lemma fmt_d_nonempty z : fmt_d z <> ""%string.
Proof.
  intro E. pose proof (parse_dec_fmt_d z) as P. rewrite E in P. discriminate.
Qed.

Lemma code_recovered c hs :
  0 < c < 2 ^ 32 -> client_code hs (Some (status_header_code c)) = c.
Proof.
  intro H. unfold client_code, status_header_code, server_err_code.
  destruct (Z.eqb_spec c 0); [lia|].
  destruct (String.eqb_spec (fmt_d (i32 c)) ""); [exfalso; eapply fmt_d_nonempty; eauto|].
  rewrite parse_int_fmt_d.
  - apply u32_i32. lia.
  - unfold in_bits. pose proof (i32_range c). change (2 ^ (32 - 1)) with (2 ^ 31). lia.
Qed.

(* an error carrying code OK is reported as Internal, never as success *)
Lemma ok_error_is_internal hs : client_code hs (Some (status_header_code 0)) = 13.
Proof. vm_compute. reflexivity. Qed.

Lemma fallback s : code_of_http s = 0 <-> 200 <= s < 300.
Proof.
  unfold code_of_http. split.
  - split_cmp; cbn; try lia; intro; lia.
  - intro H. split_cmp; cbn; try lia; reflexivity.
Qed.

Lemma fallback_client s : client_code s None = 0 <-> 200 <= s < 300.
Proof. apply fallback. Qed.
