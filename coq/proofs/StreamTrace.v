(* Soundness of the trace-acceptance function used by the correspondence check
   (corr/Stream.v accepts_from): a schedule it accepts IS a run of the in-process stream LTS,
   round by round, ending in the observed returns at a quiescent state; every state on that run
   is reachable, so the invariants of proofs/StreamInv.v hold along it. *)
From Coq Require Import ZArith List Bool Lia.
From Grpchan Require Import gen.Inproc model.InprocStream corr.Stream proofs.StreamInv.
Import ListNotations.
Open Scope Z_scope.

Definition add_ret (acc : rets) (a : actor) (r : option res) : rets :=
  match r with Some x => acc ++ [(a, x)] | None => acc end.

(* internal steps until nothing is enabled, accumulating the returns *)
Inductive quiesce : st -> rets -> st -> rets -> Prop :=
| q_done s acc : internal s = [] -> quiesce s acc s acc
| q_step s acc a s' r s2 acc2 :
    In (a, (s', r)) (internal s) -> quiesce s' (add_ret acc a r) s2 acc2 -> quiesce s acc s2 acc2.

(* the LTS exhibits a list of rounds from a state *)
Inductive exhibits : st -> list round -> st -> Prop :=
| ex_nil s : exhibits s [] s
| ex_round s r rest s1 s2 got s3 :
    apply_start s (r_start r) = Some s1 ->
    quiesce s1 [] s2 got ->
    same_rets got (r_rets r) = true ->
    exhibits s2 rest s3 ->
    exhibits s (r :: rest) s3.

Lemma explore_sound f : forall s acc s2 got,
  In (Some (s2, got)) (explore f s acc) -> quiesce s acc s2 got.
Proof.
  induction f as [|f IH]; intros s acc s2 got Hin; cbn [explore] in Hin.
  - destruct Hin as [Hin|[]]. discriminate.
  - destruct (internal s) as [|x steps] eqn:Ei.
    + destruct Hin as [Hin|[]]. injection Hin as <- <-. apply q_done. exact Ei.
    + apply in_flat_map in Hin. destruct Hin as [[a [s' r]] [Hx Hin]].
      eapply q_step; [rewrite Ei; exact Hx|]. apply IH. exact Hin.
Qed.

Theorem accepts_sound rs : forall S,
  accepts_from S rs = true -> exists s s3, In s S /\ exhibits s rs s3.
Proof.
  induction rs as [|r rest IH]; intros S Ha; cbn [accepts_from] in Ha.
  - destruct S as [|s S]; [discriminate|]. exists s, s. split; [left; reflexivity|constructor].
  - set (S1 := flat_map (fun s => match apply_start s (r_start r) with Some s' => [s'] | None => [] end) S) in *.
    set (ends := flat_map (fun s => explore fuel s []) S1) in *.
    destruct (existsb _ ends); [discriminate|].
    set (S2 := flat_map _ ends) in *.
    destruct S2 as [|x S2'] eqn:E2; [discriminate|].
    rewrite <- E2 in Ha. apply IH in Ha. destruct Ha as [s2 [s3 [Hin2 Hex]]].
    unfold S2 in Hin2. apply in_flat_map in Hin2. destruct Hin2 as [e [He Hin2]].
    destruct e as [[s2' got]|]; [|destruct Hin2].
    destruct (same_rets got (r_rets r)) eqn:Es; [|destruct Hin2].
    destruct Hin2 as [<-|[]].
    unfold ends in He. apply in_flat_map in He. destruct He as [s1 [H1 He]].
    unfold S1 in H1. apply in_flat_map in H1. destruct H1 as [s [Hs H1]].
    destruct (apply_start s (r_start r)) as [s1'|] eqn:Ea; [|destruct H1].
    destruct H1 as [<-|[]].
    exists s, s3. split; [exact Hs|].
    eapply ex_round; eauto. eapply explore_sound; eauto.
Qed.

Lemma quiesce_reachable rs s acc s2 got : reachable rs s -> quiesce s acc s2 got -> reachable rs s2.
Proof.
  intros R Q. induction Q as [|s acc a s' r s2 acc2 Hin _ IH]; [exact R|].
  apply IH. eapply reach_internal; eauto.
Qed.

Lemma exhibits_reachable rs s rounds s3 : reachable rs s -> exhibits s rounds s3 -> reachable rs s3.
Proof.
  intros R E. induction E as [|s r rest s1 s2 got s3 Ha Q _ _ IH]; [exact R|].
  apply IH. eapply quiesce_reachable; [|exact Q]. eapply reach_start; eauto.
Qed.

(* What an accepted schedule means: the observed rounds are a run of the LTS from its initial
   state, and at its end (as at every settle point) the invariant holds: nothing panicked and
   neither direction buffers more than the generated capacity. *)
Theorem accepted_schedule_is_a_safe_run rs rounds :
  accepts_from [init rs] rounds = true ->
  exists s3, exhibits (init rs) rounds s3 /\ reachable rs s3 /\ Inv s3.
Proof.
  intro Ha. apply accepts_sound in Ha. destruct Ha as [s [s3 [[<-|[]] Hex]]].
  exists s3. split; [exact Hex|].
  assert (R : reachable rs s3) by (eapply exhibits_reachable; [apply reach_init|exact Hex]).
  split; [exact R|apply (inv_reachable _ _ R)].
Qed.
