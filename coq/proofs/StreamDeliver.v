(* Delivery: what the operations of the complete in-process stream RETURN, against the ghost
   histories of both channels.  For every reachable state and every interleaving (cancellation and
   deadline included): the messages RecvMsg has returned on either side are, in order, a prefix of
   the messages put on the channel by the peer's SendMsg calls, and all of those but at most the
   last were acknowledged to the sender with nil. *)
From Coq Require Import ZArith List Bool Lia.
From Grpchan Require Import gen.Inproc model.InprocStream proofs.StreamInv proofs.StreamOrder.
Import ListNotations.
Open Scope Z_scope.

(* the operation a pending entry belongs to *)
Definition op_of_pend (p : pend) : op :=
  match p with
  | PStart o => o
  | PSendData x => HSend x
  | PRetHdr c | PRetTlr c | PRetErr c => HReturn c
  | PRetClose => HReturn 0
  | PProbe _ => CRecv
  end.

Definition entry := (actor * op * res)%type.

Definition log_step (s : st) (a : actor) (r : option res) (l : list entry) : list entry :=
  match r, get_pend s a with
  | Some x, Some p => l ++ [(a, op_of_pend p, x)]
  | _, _ => l
  end.

(* request channel: plain values *)
Inductive qstepZ (q q' rp rq rp' rq' : list Z) : Prop :=
| zs_same : q' = q -> rp' = rp -> rq' = rq -> qstepZ q q' rp rq rp' rq'
| zs_push x : q' = q ++ [x] -> rp' = rp ++ [x] -> rq' = rq -> qstepZ q q' rp rq rp' rq'
| zs_pop x : q = x :: q' -> rp' = rp -> rq' = rq ++ [x] -> qstepZ q q' rp rq rp' rq'.

Record hist := { hp : list frame; hq : list frame; rp : list Z; rq : list Z; lg : list entry }.
Definition hist0 : hist := {| hp := []; hq := []; rp := []; rq := []; lg := [] |}.

Inductive lreach (rs : bool) : st -> hist -> Prop :=
| l_init : lreach rs (init rs) hist0
| l_start s x s' h : lreach rs s h -> apply_start s x = Some s' -> lreach rs s' h
| l_internal s a s' r h h' :
    lreach rs s h -> In (a, (s', r)) (internal s) ->
    qstep (respQ s) (respQ s') (hp h) (hq h) (hp h') (hq h') ->
    qstepZ (reqQ s) (reqQ s') (rp h) (rq h) (rp h') (rq h') ->
    lg h' = log_step s a r (lg h) ->
    lreach rs s' h'.

Lemma lreach_hreach rs s h : lreach rs s h -> hreach rs s (hp h) (hq h).
Proof.
  induction 1 as [|s x s' h _ IH Hs|s a s' r h h' _ IH Hin Hq _ _].
  - constructor.
  - eapply h_start; eauto.
  - eapply h_internal; eauto.
Qed.

Lemma lreach_reachable rs s h : lreach rs s h -> reachable rs s.
Proof. intro R. eapply hreach_reachable. apply lreach_hreach. exact R. Qed.

(* ---- projections of the log ---- *)
Definition client_msgs (l : list entry) : list Z :=
  flat_map (fun e => match e with (CR, _, RMsg x) => [x] | _ => [] end) l.
Definition handler_acked (l : list entry) : list Z :=
  flat_map (fun e => match e with (H, HSend x, RNil) => [x] | _ => [] end) l.
Definition handler_msgs (l : list entry) : list Z :=
  flat_map (fun e => match e with ((H | HR), HRecv, RMsg x) => [x] | _ => [] end) l.
Definition client_acked (l : list entry) : list Z :=
  flat_map (fun e => match e with (CS, CSend x, RNil) => [x] | _ => [] end) l.

Lemma flat_map_snoc {A B} (f : A -> list B) l x : flat_map f (l ++ [x]) = flat_map f l ++ f x.
Proof. rewrite flat_map_app. cbn. rewrite app_nil_r. reflexivity. Qed.

(* ---- reading a qstep off the shape of the queues ---- *)
Lemma qstep_same_inv q hp0 hq0 hp1 hq1 : qstep q q hp0 hq0 hp1 hq1 -> hp1 = hp0 /\ hq1 = hq0.
Proof.
  intros [_ -> ->|f E _ _|f E _ _]; [split; reflexivity| |].
  - exfalso. symmetry in E. eapply app_one_neq; eauto.
  - exfalso. eapply cons_neq; eauto.
Qed.
Lemma qstep_push_inv q f hp0 hq0 hp1 hq1 : qstep q (q ++ [f]) hp0 hq0 hp1 hq1 -> hp1 = hp0 ++ [f] /\ hq1 = hq0.
Proof.
  intros [E _ _|g E -> ->|g E _ _].
  - exfalso. eapply app_one_neq; eauto.
  - apply app_inj_tail in E. destruct E as [_ <-]. split; reflexivity.
  - exfalso. eapply cons_app_neq; eauto.
Qed.
Lemma qstep_pop_inv q f hp0 hq0 hp1 hq1 : qstep (f :: q) q hp0 hq0 hp1 hq1 -> hp1 = hp0 /\ hq1 = hq0 ++ [f].
Proof.
  intros [E _ _|g E _ _|g E -> ->].
  - exfalso. eapply cons_neq; eauto.
  - exfalso. apply (f_equal (@length frame)) in E. rewrite app_length in E. cbn in E. lia.
  - injection E as <-. split; reflexivity.
Qed.

Lemma datas_snoc l f : datas (l ++ [f]) = datas l ++ match f with FData x => [x] | _ => [] end.
Proof. unfold datas. rewrite flat_map_snoc. reflexivity. Qed.

(* ---- the client side of the response direction ---- *)
Definition held (s : st) : list Z :=
  match cLast s with Some (FData x) => [x] | _ => [] end ++ match pCR s with Some (PProbe x) => [x] | _ => [] end.
Definition last_err (s : st) : Prop := match cLast s with Some (FErr _) => True | _ => False end.

Definition wf_last (s : st) : Prop :=
  match cLast s with None | Some (FData _) | Some (FErr _) => True | _ => False end.

Definition DC (s : st) (h : hist) : Prop :=
  (cState s = 0 -> cLast s = None) /\
  wf_last s /\
  (forall x, pCR s = Some (PProbe x) -> cLast s = None) /\
  exists dropped, datas (hq h) = client_msgs (lg h) ++ held s ++ dropped /\
                  (dropped <> [] -> cctx s <> 0 \/ last_err s).

Lemma DC_init rs : DC (init rs) hist0.
Proof.
  split; [reflexivity|]. split; [exact Logic.I|]. split; [discriminate|].
  exists []. split; [reflexivity|]. intro X; exfalso; apply X; reflexivity.
Qed.

Lemma nil_or_not {A} (l : list A) : l = [] \/ l <> [].
Proof. destruct l; [left; reflexivity|right; discriminate]. Qed.

Lemma client_msgs_snoc l e : client_msgs (l ++ [e]) = client_msgs l ++ match e with (CR, _, RMsg x) => [x] | _ => [] end.
Proof. unfold client_msgs. rewrite flat_map_snoc. reflexivity. Qed.

Ltac use_q Hq :=
  first [ apply qstep_same_inv in Hq | apply qstep_pop_inv in Hq | apply qstep_push_inv in Hq ];
  let E1 := fresh "Ehp" in let E2 := fresh "Ehq" in destruct Hq as [E1 E2].

Ltac eq_tac D2 :=
  repeat match goal with E : hq _ = _ |- _ => rewrite E; clear E end;
  repeat match goal with E : lg _ = _ |- _ => rewrite E; clear E end;
  rewrite ?datas_snoc, ?client_msgs_snoc; cbn [op_of_pend]; cbv beta iota;
  rewrite ?D2; cbn [app]; rewrite ?app_nil_r; repeat rewrite <- app_assoc; cbn [app]; rewrite ?app_nil_r;
  reflexivity.

Ltac try_w D2 D3 w :=
  exists w; split; [eq_tac D2|];
  first [ exact D3
        | (intros _; left; assumption)
        | (intros _; right; exact Logic.I)
        | (let X := fresh in intro X; exfalso; apply X; reflexivity)
        | (let X := fresh in let Y := fresh in intro X; destruct (D3 X) as [Y|Y]; [left; exact Y|right; exact Y]) ].

Ltac cands D2 D3 dr :=
  first [ try_w D2 D3 dr
        | match goal with E : hq _ = _ ++ [?f] |- _ => try_w D2 D3 (dr ++ match f with FData y => [y] | _ => [] end) end
        | match goal with P : pCR _ = Some (PProbe ?x) |- _ => try_w D2 D3 (x :: dr) end
        | match goal with P : pCR _ = Some (PProbe ?x), E : hq _ = _ ++ [?f] |- _ =>
            try_w D2 D3 (x :: dr ++ match f with FData y => [y] | _ => [] end) end ].

Lemma client_recv_step s p s' r h h' :
  DC s h -> get_pend s CR = Some p -> In (s', r) (steps_of s CR p) ->
  qstep (respQ s) (respQ s') (hp h) (hq h) (hp h') (hq h') -> lg h' = log_step s CR r (lg h) -> DC s' h'.
Proof.
  intros [D1 [Dw [Dp [dr [D2 D3]]]]] Hp Hin Hq Hl. unfold log_step in Hl. rewrite Hp in Hl.
  cbn in Hp. unfold held, last_err, wf_last in *. rewrite Hp in D2.
  try match type of Hp with _ = Some (PProbe ?x) => rewrite (Dp x Hp) in * end.
  destruct p as [o| | | | | |]; try (destruct Hin; fail); try destruct o; cbn [steps_of] in Hin; try (destruct Hin; fail).
  all: split_in Hin.
  all: repeat match goal with H : (if ?c then _ else _) = (_, _) |- _ => destruct c eqn:? end.
  all: try match goal with H : _ = (_, _) |- _ => unfold done, goto in H; injection H as <- <- end.
  all: fields; zb.
  all: try match goal with P : pCR ?s = Some (PProbe ?x) |- _ => rewrite (Dp x P) in * end.
  all: repeat match goal with E : respQ ?s = _ |- _ => rewrite E in *; clear E end.
  all: repeat match goal with E : cLast ?s = _ |- _ => rewrite E in * end.
  all: use_q Hq.
  all: try match goal with E : cState ?s = 0 |- _ => rewrite (D1 E) in * end.
  all: try (exfalso; exact Dw).
  all: unfold DC, held, last_err, wf_last; fields.
  all: repeat match goal with E : cLast ?s = _ |- _ => rewrite E in * end.
  all: (split; [first [exact D1 | (intro; discriminate) | (intro; exfalso; lia) | (intros; reflexivity) | idtac]|]).
  all: (split; [first [exact Dw | exact Logic.I | idtac]|]).
  all: (split; [first [exact Dp | (intros; discriminate) | (intros; reflexivity) | idtac]|]).
  all: try (try_w D2 D3 dr; fail).
  all: try (assert (dr = []) by (destruct (nil_or_not dr) as [?|N]; [assumption|exfalso; destruct (D3 N) as [Y|Y]; [contradiction|exact Y]]); subst dr).
  all: try (cands D2 D3 dr; fail).
  all: try (cands D2 D3 (@nil Z); fail).
Qed.

Lemma other_step_client_fields s a p s' r :
  a <> CR -> get_pend s a = Some p -> In (s', r) (steps_of s a p) ->
  cLast s' = cLast s /\ pCR s' = pCR s /\ cState s' = cState s /\ cctx s' = cctx s /\
  (respQ s' = respQ s \/ exists f, respQ s' = respQ s ++ [f]).
Proof.
  intros Ha Hp Hin.
  destruct a; try congruence; destruct p as [o| | | | | |]; try (destruct Hin; fail); try destruct o; cbn [steps_of] in Hin;
    try (destruct Hin; fail).
  all: split_in Hin.
  all: repeat match goal with H : (if ?c then _ else _) = (_, _) |- _ => destruct c eqn:? end.
  all: try match goal with H : _ = (_, _) |- _ => unfold done, goto in H; injection H as <- <- end.
  all: fields.
  all: repeat (split; [reflexivity|]).
  all: try (left; reflexivity).
  all: try (right; eexists; reflexivity).
Qed.

Lemma client_msgs_other l a o x : a <> CR -> client_msgs (l ++ [(a, o, x)]) = client_msgs l.
Proof. intro Ha. rewrite client_msgs_snoc. destruct a; try congruence; rewrite app_nil_r; reflexivity. Qed.

Lemma other_step_DC s a p s' r h h' :
  a <> CR -> DC s h -> get_pend s a = Some p -> In (s', r) (steps_of s a p) ->
  qstep (respQ s) (respQ s') (hp h) (hq h) (hp h') (hq h') -> lg h' = log_step s a r (lg h) -> DC s' h'.
Proof.
  intros Ha [D1 [Dw [Dp [dr [D2 D3]]]]] Hp Hin Hq Hl.
  destruct (other_step_client_fields s a p s' r Ha Hp Hin) as [E1 [E2 [E3 [E4 Hsh]]]].
  assert (Ehq : hq h' = hq h).
  { destruct Hsh as [E|[f E]]; rewrite E in Hq.
    - apply qstep_same_inv in Hq. apply Hq.
    - apply qstep_push_inv in Hq. apply Hq. }
  assert (El : client_msgs (lg h') = client_msgs (lg h)).
  { rewrite Hl. unfold log_step. rewrite Hp. destruct r as [x|]; [apply client_msgs_other; exact Ha|reflexivity]. }
  unfold DC, held, last_err, wf_last in *. rewrite E1, E2, E3, E4, Ehq, El.
  split; [exact D1|]. split; [exact Dw|]. split; [exact Dp|]. exists dr. split; [exact D2|exact D3].
Qed.

Lemma start_DC s x s' h : DC s h -> apply_start s x = Some s' -> DC s' h.
Proof.
  intros [D1 [Dw [Dp [dr [D2 D3]]]]] Hs. unfold DC, held, last_err, wf_last in *.
  destruct x as [a o| |].
  - destruct (apply_start_call _ _ _ _ Hs) as [Eg [-> _]]. destruct a; cbn in *.
    1,2,4,5: (split; [exact D1|]; split; [exact Dw|]; split; [exact Dp|]; exists dr; split; [exact D2|exact D3]).
    rewrite Eg in D2. split; [exact D1|]. split; [exact Dw|]. split; [intros; discriminate|]. exists dr. split; [exact D2|exact D3].
  - cbn in Hs. injection Hs as <-. destruct (cctx s =? 0) eqn:Ec; cbn.
    + split; [exact D1|]. split; [exact Dw|]. split; [exact Dp|]. exists dr. split; [exact D2|]. intros _. left. discriminate.
    + split; [exact D1|]. split; [exact Dw|]. split; [exact Dp|]. exists dr. split; [exact D2|exact D3].
  - cbn in Hs. injection Hs as <-. destruct (cctx s =? 0) eqn:Ec; cbn.
    + split; [exact D1|]. split; [exact Dw|]. split; [exact Dp|]. exists dr. split; [exact D2|]. intros _. left. discriminate.
    + split; [exact D1|]. split; [exact Dw|]. split; [exact Dp|]. exists dr. split; [exact D2|exact D3].
Qed.

Theorem DC_reachable rs s h : lreach rs s h -> DC s h.
Proof.
  induction 1 as [|s x s' h _ IH Hs|s a s' r h h' _ IH Hin Hq _ Hl].
  - apply DC_init.
  - eapply start_DC; eauto.
  - unfold internal in Hin. apply in_flat_map in Hin. destruct Hin as [a' [_ Hin]].
    destruct (get_pend s a') as [p|] eqn:Ep; [|destruct Hin].
    apply in_map_iff in Hin. destruct Hin as [[s2 r2] [Heq Hin]]. injection Heq as -> -> ->.
    destruct (actor_eq_dec a CR) as [->|Hne].
    + eapply client_recv_step; eauto.
    + eapply other_step_DC; eauto.
Qed.

(* THE DELIVERY THEOREM, response direction.  Whatever the interleaving, the messages the client's
   RecvMsg calls have returned so far are, in order, the first messages the server side has put
   on the response channel: none lost before a delivered one, none repeated, none invented. *)
Theorem client_receives_prefix_of_pushed rs s h :
  lreach rs s h -> exists rest, datas (hp h) = client_msgs (lg h) ++ rest.
Proof.
  intro R. destruct (DC_reachable _ _ _ R) as [_ [_ [_ [dr [D2 _]]]]].
  pose proof (conservation _ _ _ _ (lreach_hreach _ _ _ R)) as E.
  exists (held s ++ dr ++ datas (respQ s)).
  rewrite E. unfold datas at 1. rewrite flat_map_app. fold (datas (hq h)). fold (datas (respQ s)).
  rewrite D2. repeat rewrite <- app_assoc. reflexivity.
Qed.


(* ---- the handler side of the response direction ---- *)
Lemma handler_acked_snoc l e : handler_acked (l ++ [e]) = handler_acked l ++ match e with (H, HSend x, RNil) => [x] | _ => [] end.
Proof. unfold handler_acked. rewrite flat_map_snoc. reflexivity. Qed.

Definition DH (s : st) (h : hist) : Prop :=
  exists un, datas (hp h) = handler_acked (lg h) ++ un /\
             (un <> [] -> sctx s <> 0) /\
             (forall x, pH s = Some (PSendData x) -> un = []) /\
             (length un <= 1)%nat.

Lemma DH_init rs : DH (init rs) hist0.
Proof. exists []. split; [reflexivity|]. split; [intro X; exfalso; apply X; reflexivity|]. split; [discriminate|cbn; lia]. Qed.

Lemma sctx_mono s a p s' r :
  get_pend s a = Some p -> In (s', r) (steps_of s a p) -> sctx s <> 0 -> sctx s' <> 0.
Proof.
  intros Hp Hin.
  destruct a; destruct p as [o| | | | | |]; try (destruct Hin; fail); try destruct o; cbn [steps_of] in Hin;
    try (destruct Hin; fail).
  all: split_in Hin.
  all: repeat match goal with H : (if ?c then _ else _) = (_, _) |- _ => destruct c eqn:? end.
  all: try match goal with H : _ = (_, _) |- _ => unfold done, goto in H; injection H as <- <- end.
  all: unfold sctx; fields; try (intro X; exact X).
  all: destruct (negb (cctx s =? 0)); [intro X; exact X|].
  all: try (intros _; discriminate).
  all: intro X; exact X.
Qed.

Ltac eqh E1 :=
  repeat match goal with E : hp _ = _ |- _ => rewrite E; clear E end;
  repeat match goal with E : lg _ = _ |- _ => rewrite E; clear E end;
  rewrite ?datas_snoc, ?handler_acked_snoc; cbn [op_of_pend]; cbv beta iota;
  rewrite ?E1; cbn [app]; rewrite ?app_nil_r; repeat rewrite <- app_assoc; cbn [app]; rewrite ?app_nil_r;
  reflexivity.

Lemma handler_push_step s p s' r h h' :
  DH s h -> get_pend s H = Some p -> In (s', r) (steps_of s H p) ->
  qstep (respQ s) (respQ s') (hp h) (hq h) (hp h') (hq h') -> lg h' = log_step s H r (lg h) -> DH s' h'.
Proof.
  intros [un [E1 [E2 [E3 E4]]]] Hp Hin Hq Hl.
  pose proof (sctx_mono s H p s' r Hp Hin) as Hmono.
  unfold log_step in Hl. rewrite Hp in Hl. cbn in Hp.
  destruct p as [o| | | | | |]; try destruct o; cbn [steps_of] in Hin; try (destruct Hin; fail).
  all: split_in Hin.
  all: repeat match goal with H : (if ?c then _ else _) = (_, _) |- _ => destruct c eqn:? end.
  all: try match goal with H : _ = (_, _) |- _ => unfold done, goto in H; injection H as <- <- end.
  all: unfold DH; unfold sctx in *; fields; zb.
  all: use_q Hq.
  all: try match goal with P : pH ?s = Some (PSendData ?x) |- _ => pose proof (E3 x P) as Eun; subst un end.
  all: try (assert (un = []) by (destruct (nil_or_not un) as [?|N]; [assumption|exfalso; apply (E2 N); assumption]); subst un).
  all: try (exists un; split; [eqh E1|]; split; [intro X; apply Hmono, E2, X|]; split; [first [exact E3|intros; discriminate]|exact E4]; fail).
  all: try (exists (@nil Z); split; [eqh E1|]; split; [intro X; exfalso; apply X; reflexivity|]; split; [intros; reflexivity|cbn; lia]; fail).
  set (c := if negb (cctx s =? 0) then cctx s else if svrCancelled s then 1 else 0) in *.
  destruct (c =? 0) eqn:Ec.
  - exists []. split; [eqh E1|]. split; [intro X; exfalso; apply X; reflexivity|]. split; [intros; reflexivity|cbn; lia].
  - exists [x]. split; [eqh E1|]. split; [intros _; apply Z.eqb_neq; exact Ec|]. split; [intros; discriminate|cbn; lia].
Qed.

Lemma other_step_handler_fields s a p s' r :
  a <> H -> get_pend s a = Some p -> In (s', r) (steps_of s a p) ->
  pH s' = pH s /\ (respQ s' = respQ s \/ exists f, respQ s = f :: respQ s').
Proof.
  intros Ha Hp Hin.
  destruct a; try congruence; destruct p as [o| | | | | |]; try (destruct Hin; fail); try destruct o; cbn [steps_of] in Hin;
    try (destruct Hin; fail).
  all: split_in Hin.
  all: repeat match goal with H : (if ?c then _ else _) = (_, _) |- _ => destruct c eqn:? end.
  all: try match goal with H : _ = (_, _) |- _ => unfold done, goto in H; injection H as <- <- end.
  all: fields.
  all: (split; [reflexivity|]).
  all: try (left; reflexivity).
  all: try (left; assumption).
  all: try (left; symmetry; assumption).
  all: try (right; eexists; reflexivity).
  all: try (right; eexists; eassumption).
Qed.

Lemma handler_acked_other l a o x : a <> H -> handler_acked (l ++ [(a, o, x)]) = handler_acked l.
Proof. intro Ha. rewrite handler_acked_snoc. destruct a; try congruence; rewrite app_nil_r; reflexivity. Qed.

Lemma other_step_DH s a p s' r h h' :
  a <> H -> DH s h -> get_pend s a = Some p -> In (s', r) (steps_of s a p) ->
  qstep (respQ s) (respQ s') (hp h) (hq h) (hp h') (hq h') -> lg h' = log_step s a r (lg h) -> DH s' h'.
Proof.
  intros Ha [un [E1 [E2 [E3 E4]]]] Hp Hin Hq Hl.
  destruct (other_step_handler_fields s a p s' r Ha Hp Hin) as [EH Hsh].
  assert (Ehp : hp h' = hp h).
  { destruct Hsh as [E|[f E]]; rewrite E in Hq.
    - apply qstep_same_inv in Hq. apply Hq.
    - apply qstep_pop_inv in Hq. apply Hq. }
  assert (El : handler_acked (lg h') = handler_acked (lg h)).
  { rewrite Hl. unfold log_step. rewrite Hp. destruct r as [x|]; [apply handler_acked_other; exact Ha|reflexivity]. }
  exists un. rewrite Ehp, El, EH. split; [exact E1|]. split; [|split; [exact E3|exact E4]].
  intro X. eapply sctx_mono; eauto.
Qed.

Lemma start_sctx s x s' : apply_start s x = Some s' -> sctx s <> 0 -> sctx s' <> 0.
Proof.
  destruct x as [a o| |]; intros Hs Hc.
  - destruct (apply_start_call _ _ _ _ Hs) as [_ [-> _]]. destruct a; exact Hc.
  - cbn in Hs. injection Hs as <-. destruct (cctx s =? 0) eqn:E; [unfold sctx; cbn; discriminate|exact Hc].
  - cbn in Hs. injection Hs as <-. destruct (cctx s =? 0) eqn:E; [unfold sctx; cbn; discriminate|exact Hc].
Qed.

Lemma start_pH s x s' : apply_start s x = Some s' ->
  pH s' = pH s \/ (pH s = None /\ exists o, pH s' = Some (PStart o)).
Proof.
  destruct x as [a o| |]; intros Hs.
  - destruct (apply_start_call _ _ _ _ Hs) as [Eg [-> _]].
    destruct a; cbn; try (left; reflexivity). right. split; [exact Eg|eexists; reflexivity].
  - cbn in Hs. injection Hs as <-. left. destruct (cctx s =? 0); reflexivity.
  - cbn in Hs. injection Hs as <-. left. destruct (cctx s =? 0); reflexivity.
Qed.

Lemma start_DH s x s' h : DH s h -> apply_start s x = Some s' -> DH s' h.
Proof.
  intros [un [E1 [E2 [E3 E4]]]] Hs. exists un. split; [exact E1|]. split; [|split; [|exact E4]].
  - intro X. eapply start_sctx; eauto.
  - intros y Hy. destruct (start_pH _ _ _ Hs) as [E|[_ [o E]]]; rewrite E in Hy; [eapply E3; eauto|discriminate].
Qed.

Theorem DH_reachable rs s h : lreach rs s h -> DH s h.
Proof.
  induction 1 as [|s x s' h _ IH Hs|s a s' r h h' _ IH Hin Hq _ Hl].
  - apply DH_init.
  - eapply start_DH; eauto.
  - unfold internal in Hin. apply in_flat_map in Hin. destruct Hin as [a' [_ Hin]].
    destruct (get_pend s a') as [p|] eqn:Ep; [|destruct Hin].
    apply in_map_iff in Hin. destruct Hin as [[s2 r2] [Heq Hin]]. injection Heq as -> -> ->.
    destruct (actor_eq_dec a H) as [->|Hne].
    + eapply handler_push_step; eauto.
    + eapply other_step_DH; eauto.
Qed.

(* C01, response direction, for every interleaving of the complete stream: what the client's RecvMsg
   calls have returned is, in order, a prefix of what the handler's SendMsg calls have put on the
   channel; and those are the sends that returned nil followed by at most one send that put its
   message on the channel while reporting the end of the handler's context. *)
Theorem response_delivery rs s h :
  lreach rs s h ->
  exists unacked rest,
    handler_acked (lg h) ++ unacked = client_msgs (lg h) ++ rest /\ (length unacked <= 1)%nat.
Proof.
  intro R. destruct (DH_reachable _ _ _ R) as [un [E1 [_ [_ E4]]]].
  destruct (client_receives_prefix_of_pushed _ _ _ R) as [rest E].
  exists un, rest. rewrite <- E1. split; [exact E|exact E4].
Qed.


(* ---- the request direction ---- *)
Lemma app_one_neqZ (q : list Z) x : q ++ [x] <> q.
Proof. apply app_one_neq. Qed.

Lemma qstepZ_same_inv q a0 b0 a1 b1 : qstepZ q q a0 b0 a1 b1 -> a1 = a0 /\ b1 = b0.
Proof.
  intros [_ -> ->|x E _ _|x E _ _]; [split; reflexivity| |].
  - exfalso. symmetry in E. eapply app_one_neq; eauto.
  - exfalso. eapply cons_neq; eauto.
Qed.
Lemma qstepZ_push_inv q x a0 b0 a1 b1 : qstepZ q (q ++ [x]) a0 b0 a1 b1 -> a1 = a0 ++ [x] /\ b1 = b0.
Proof.
  intros [E _ _|g E -> ->|g E _ _].
  - exfalso. eapply app_one_neq; eauto.
  - apply app_inj_tail in E. destruct E as [_ <-]. split; reflexivity.
  - exfalso. eapply cons_app_neq; eauto.
Qed.
Lemma qstepZ_pop_inv q x a0 b0 a1 b1 : qstepZ (x :: q) q a0 b0 a1 b1 -> a1 = a0 /\ b1 = b0 ++ [x].
Proof.
  intros [E _ _|g E _ _|g E -> ->].
  - exfalso. eapply cons_neq; eauto.
  - exfalso. apply (f_equal (@length Z)) in E. rewrite app_length in E. cbn in E. lia.
  - injection E as <-. split; reflexivity.
Qed.

Lemma req_shape s a p s' r :
  get_pend s a = Some p -> In (s', r) (steps_of s a p) ->
  reqQ s' = reqQ s \/ (exists x, reqQ s' = reqQ s ++ [x]) \/ (exists x, reqQ s = x :: reqQ s').
Proof.
  intros Hp Hin.
  destruct a; destruct p as [o| | | | | |]; try (destruct Hin; fail); try destruct o; cbn [steps_of] in Hin;
    try (destruct Hin; fail).
  all: split_in Hin.
  all: repeat match goal with H : (if ?c then _ else _) = (_, _) |- _ => destruct c eqn:? end.
  all: try match goal with H : _ = (_, _) |- _ => unfold done, goto in H; injection H as <- <- end.
  all: fields.
  all: try (left; reflexivity).
  all: try (right; left; eexists; reflexivity).
  all: try (right; right; eexists; eassumption).
  all: try (left; assumption).
  all: try (right; right; eexists; reflexivity).
Qed.

Theorem conservation_requests rs s h : lreach rs s h -> rp h = rq h ++ reqQ s.
Proof.
  induction 1 as [|s x s' h _ IH Hs|s a s' r h h' _ IH _ _ Hq _].
  - reflexivity.
  - assert (E : reqQ s' = reqQ s).
    { destruct x as [a o| |].
      - destruct (apply_start_call _ _ _ _ Hs) as [_ [-> _]]. destruct a; reflexivity.
      - cbn in Hs. injection Hs as <-. destruct (cctx s =? 0); reflexivity.
      - cbn in Hs. injection Hs as <-. destruct (cctx s =? 0); reflexivity. }
    rewrite E. exact IH.
  - destruct Hq as [-> -> ->|f -> -> ->|f Hq -> ->].
    + exact IH.
    + rewrite IH, app_assoc. reflexivity.
    + rewrite IH, Hq, <- app_assoc. reflexivity.
Qed.

Lemma handler_msgs_snoc l e : handler_msgs (l ++ [e]) = handler_msgs l ++ match e with ((H | HR), HRecv, RMsg x) => [x] | _ => [] end.
Proof. unfold handler_msgs. rewrite flat_map_snoc. reflexivity. Qed.
Lemma client_acked_snoc l e : client_acked (l ++ [e]) = client_acked l ++ match e with (CS, CSend x, RNil) => [x] | _ => [] end.
Proof. unfold client_acked. rewrite flat_map_snoc. reflexivity. Qed.

Lemma rctx_mono s a p s' r :
  get_pend s a = Some p -> In (s', r) (steps_of s a p) -> rctx s <> 0 -> rctx s' <> 0.
Proof.
  intros Hp Hin.
  destruct a; destruct p as [o| | | | | |]; try (destruct Hin; fail); try destruct o; cbn [steps_of] in Hin;
    try (destruct Hin; fail).
  all: split_in Hin.
  all: repeat match goal with H : (if ?c then _ else _) = (_, _) |- _ => destruct c eqn:? end.
  all: try match goal with H : _ = (_, _) |- _ => unfold done, goto in H; injection H as <- <- end.
  all: unfold rctx; fields; try (intro X; exact X).
  all: destruct (negb (cctx s =? 0)); [intro X; exact X|].
  all: rewrite ?orb_true_r; cbn [orb].
  all: try (intros _; discriminate).
  all: intro X; exact X.
Qed.

Lemma start_rctx s x s' : apply_start s x = Some s' -> rctx s <> 0 -> rctx s' <> 0.
Proof.
  destruct x as [a o| |]; intros Hs Hc.
  - destruct (apply_start_call _ _ _ _ Hs) as [_ [-> _]]. destruct a; exact Hc.
  - cbn in Hs. injection Hs as <-. destruct (cctx s =? 0) eqn:E; [unfold rctx; cbn; discriminate|exact Hc].
  - cbn in Hs. injection Hs as <-. destruct (cctx s =? 0) eqn:E; [unfold rctx; cbn; discriminate|exact Hc].
Qed.

Definition DR (s : st) (h : hist) : Prop :=
  (exists dr, rq h = handler_msgs (lg h) ++ dr /\ (dr <> [] -> rctx s <> 0)) /\
  (exists un, rp h = client_acked (lg h) ++ un /\ (un <> [] -> cctx s <> 0)).

Lemma DR_init rs : DR (init rs) hist0.
Proof. split; exists []; (split; [reflexivity|intro X; exfalso; apply X; reflexivity]). Qed.

Ltac use_qZ Hq :=
  first [ apply qstepZ_same_inv in Hq | apply qstepZ_pop_inv in Hq | apply qstepZ_push_inv in Hq ];
  let E1 := fresh "Erp" in let E2 := fresh "Erq" in destruct Hq as [E1 E2].

Ltac eqr A1 :=
  repeat match goal with E : rp _ = _ |- _ => rewrite E; clear E end;
  repeat match goal with E : rq _ = _ |- _ => rewrite E; clear E end;
  repeat match goal with E : lg _ = _ |- _ => rewrite E; clear E end;
  rewrite ?handler_msgs_snoc, ?client_acked_snoc; cbn [op_of_pend]; cbv beta iota;
  rewrite ?A1; cbn [app]; rewrite ?app_nil_r; repeat rewrite <- app_assoc; cbn [app]; rewrite ?app_nil_r;
  reflexivity.

Lemma request_step s a p s' r h h' :
  DR s h -> get_pend s a = Some p -> In (s', r) (steps_of s a p) ->
  qstepZ (reqQ s) (reqQ s') (rp h) (rq h) (rp h') (rq h') -> lg h' = log_step s a r (lg h) -> DR s' h'.
Proof.
  intros [[dr [A1 A2]] [un [B1 B2]]] Hp Hin Hq Hl.
  pose proof (rctx_mono s a p s' r Hp Hin) as Hmono.
  unfold log_step in Hl. rewrite Hp in Hl.
  destruct a; destruct p as [o| | | | | |]; try (destruct Hin; fail); try destruct o; cbn [steps_of] in Hin;
    try (destruct Hin; fail).
  all: split_in Hin.
  all: repeat match goal with H : (if ?c then _ else _) = (_, _) |- _ => destruct c eqn:? end.
  all: try match goal with H : _ = (_, _) |- _ => unfold done, goto in H; injection H as <- <- end.
  all: unfold DR; unfold rctx in *; fields; zb.
  all: repeat match goal with E : reqQ ?s = _ |- _ => rewrite E in *; clear E end.
  all: use_qZ Hq.
  all: try (split; [exists dr; split; [eqr A1|intro X; apply Hmono, A2, X]|exists un; split; [eqr B1|exact B2]]; fail).
  all: match goal with Hl : lg _ = _ ++ [(_, _, if ?b then _ else _)] |- _ => destruct b eqn:Ec end.
  all: try (split; [exists dr; split; [eqr A1|intro X; apply Hmono, A2, X]|exists un; split; [eqr B1|exact B2]]; fail).
  - (* CSend enqueues and the context is live: acknowledged *)
    split; [exists dr; split; [eqr A1|intro X; apply Hmono, A2, X]|].
    assert (un = []) by (destruct (nil_or_not un) as [?|N]; [assumption|exfalso; apply (B2 N); apply Z.eqb_eq; exact Ec]). subst un.
    exists []. split; [eqr B1|intro X; exfalso; apply X; reflexivity].
  - (* CSend enqueues but reports the ended context *)
    split; [exists dr; split; [eqr A1|intro X; apply Hmono, A2, X]|].
    exists (un ++ [x]). split; [eqr B1|intros _; apply Z.eqb_neq; exact Ec].
  - (* HRecv dequeues with a live context: delivered *)
    split; [|exists un; split; [eqr B1|exact B2]].
    assert (dr = []) by (destruct (nil_or_not dr) as [?|N]; [assumption|exfalso; apply (A2 N); apply Z.eqb_eq; exact Ec]). subst dr.
    exists []. split; [eqr A1|intro X; exfalso; apply X; reflexivity].
  - (* HRecv dequeues but reports the ended context: the message is dropped *)
    split; [|exists un; split; [eqr B1|exact B2]].
    match goal with E : rq _ = _ ++ [?z] |- _ => exists (dr ++ [z]) end. split; [eqr A1|intros _; apply Z.eqb_neq; exact Ec].
  - (* the second handler goroutine: HRecv dequeues with a live context: delivered *)
    split; [|exists un; split; [eqr B1|exact B2]].
    assert (dr = []) by (destruct (nil_or_not dr) as [?|N]; [assumption|exfalso; apply (A2 N); apply Z.eqb_eq; exact Ec]). subst dr.
    exists []. split; [eqr A1|intro X; exfalso; apply X; reflexivity].
  - (* the second handler goroutine: HRecv dequeues but reports the ended context: the message is dropped *)
    split; [|exists un; split; [eqr B1|exact B2]].
    match goal with E : rq _ = _ ++ [?z] |- _ => exists (dr ++ [z]) end. split; [eqr A1|intros _; apply Z.eqb_neq; exact Ec].
Qed.

Lemma start_DR s x s' h : DR s h -> apply_start s x = Some s' -> DR s' h.
Proof.
  intros [[dr [A1 A2]] [un [B1 B2]]] Hs. split.
  - exists dr. split; [exact A1|]. intro X. eapply start_rctx; eauto.
  - exists un. split; [exact B1|]. intro X. specialize (B2 X). intro Hc. apply B2. eapply start_cctx; eauto.
Qed.

Theorem DR_reachable rs s h : lreach rs s h -> DR s h.
Proof.
  induction 1 as [|s x s' h _ IH Hs|s a s' r h h' _ IH Hin _ Hq Hl].
  - apply DR_init.
  - eapply start_DR; eauto.
  - unfold internal in Hin. apply in_flat_map in Hin. destruct Hin as [a' [_ Hin]].
    destruct (get_pend s a') as [p|] eqn:Ep; [|destruct Hin].
    apply in_map_iff in Hin. destruct Hin as [[s2 r2] [Heq Hin]]. injection Heq as -> -> ->.
    eapply request_step; eauto.
Qed.

(* C01, request direction, for every interleaving: what the handler's RecvMsg calls have returned is,
   in order, a prefix of what the client's SendMsg calls have put on the channel; those are the
   sends that returned nil followed by sends that reported the caller's ended context. *)
Theorem request_delivery rs s h :
  lreach rs s h ->
  exists unacked rest,
    client_acked (lg h) ++ unacked = handler_msgs (lg h) ++ rest /\ (unacked <> [] -> cctx s <> 0).
Proof.
  intro R. destruct (DR_reachable _ _ _ R) as [[dr [A1 _]] [un [B1 B2]]].
  pose proof (conservation_requests _ _ _ R) as E.
  exists un, (dr ++ reqQ s). rewrite <- B1, E, A1, <- app_assoc. split; [reflexivity|exact B2].
Qed.

(* every reachable state has histories (the ghost state restricts nothing) *)
Ltac pick_hist s a r h :=
  match goal with
  | E : respQ _ = respQ s, F : reqQ _ = reqQ s |- _ =>
      exists {| hp := hp h; hq := hq h; rp := rp h; rq := rq h; lg := log_step s a r (lg h) |}
  | E : respQ _ = respQ s ++ [?f], F : reqQ _ = reqQ s |- _ =>
      exists {| hp := hp h ++ [f]; hq := hq h; rp := rp h; rq := rq h; lg := log_step s a r (lg h) |}
  | E : respQ s = ?f :: respQ _, F : reqQ _ = reqQ s |- _ =>
      exists {| hp := hp h; hq := hq h ++ [f]; rp := rp h; rq := rq h; lg := log_step s a r (lg h) |}
  | E : respQ _ = respQ s, F : reqQ _ = reqQ s ++ [?y] |- _ =>
      exists {| hp := hp h; hq := hq h; rp := rp h ++ [y]; rq := rq h; lg := log_step s a r (lg h) |}
  | E : respQ _ = respQ s, F : reqQ s = ?y :: reqQ _ |- _ =>
      exists {| hp := hp h; hq := hq h; rp := rp h; rq := rq h ++ [y]; lg := log_step s a r (lg h) |}
  end.

(* no step touches both channels *)
Lemma one_channel_per_step s a p s' r :
  get_pend s a = Some p -> In (s', r) (steps_of s a p) -> respQ s' = respQ s \/ reqQ s' = reqQ s.
Proof.
  intros Hp Hin.
  destruct a; destruct p as [o| | | | | |]; try (destruct Hin; fail); try destruct o; cbn [steps_of] in Hin;
    try (destruct Hin; fail).
  all: split_in Hin.
  all: repeat match goal with H : (if ?c then _ else _) = (_, _) |- _ => destruct c eqn:? end.
  all: try match goal with H : _ = (_, _) |- _ => unfold done, goto in H; injection H as <- <- end.
  all: fields.
  all: try (left; reflexivity).
  all: try (right; reflexivity).
Qed.

(* every reachable state has histories (the ghost state restricts nothing) *)
Theorem reachable_has_log rs s0 : reachable rs s0 -> exists h, lreach rs s0 h.
Proof.
  induction 1 as [|s x s' _ [h IH] Hs|s a s' r _ [h IH] Hin].
  - exists hist0. constructor.
  - exists h. eapply l_start; eauto.
  - pose proof Hin as Hin'. unfold internal in Hin'. apply in_flat_map in Hin'. destruct Hin' as [a' [_ Hin']].
    destruct (get_pend s a') as [p|] eqn:Ep; [|destruct Hin'].
    apply in_map_iff in Hin'. destruct Hin' as [[s2 r2] [Heq Hin']]. injection Heq as -> -> ->.
    pose proof (one_channel_per_step _ _ _ _ _ Ep Hin') as Hone.
    destruct (step_shape _ _ _ _ _ Ep Hin') as [E|[[f E]|[f E]]];
    destruct (req_shape _ _ _ _ _ Ep Hin') as [F|[[y F]|[y F]]];
    try (exfalso; destruct Hone as [X|X]; rewrite X in *;
         first [eapply app_one_neq; eauto; fail | eapply cons_neq; eauto; fail
               | (symmetry in E; eapply app_one_neq; eauto; fail) | (symmetry in F; eapply app_one_neq; eauto; fail)]);
    pick_hist s a r h;
    (eapply l_internal; [exact IH|exact Hin| | |reflexivity]; cbn;
     [first [apply qs_same; auto; fail|eapply qs_push; eauto; fail|eapply qs_pop; eauto]
     |first [apply zs_same; auto; fail|eapply zs_push; eauto; fail|eapply zs_pop; eauto]]).
Qed.
