From Coq Require Import ZArith List Bool Lia.
From Grpchan Require Import lib.Heap model.Cloner.
Import ListNotations.
Open Scope Z_scope.

Section Proofs.
  Context (compat : Z -> Z -> bool).

  (* what every successful strategy must deliver *)
  Definition good_clone (src : msg) (n : Z) (r : result) : Prop :=
    match r with
    | Ok c n' =>
        erase (m_fields c) = erase (m_fields src) /\ m_ty c = m_ty src /\        (* equal *)
        (forall x, In x (msg_locs c) -> ~ In x (msg_locs src)) /\                (* shares no memory *)
        n <= n'
    | Error => True
    | Panic => True
    end.

  Definition good_copy (out src : msg) (n : Z) (r : result) : Prop :=
    match r with
    | Ok c n' =>
        erase (m_fields c) = erase (m_fields src) /\                              (* equal; nothing of out's old content *)
        m_loc c = m_loc out /\                                                    (* it IS the destination *)
        (forall x, In x (locs (m_fields c)) -> ~ In x (msg_locs src) /\ ~ In x (msg_locs out)) /\
        n <= n'
    | Error => True
    | Panic => True
    end.

  Lemma copy_fields_good f src out n :
    msg_below n src -> msg_below n out ->
    forall x, In x (locs (fst (copy f n))) -> ~ In x (msg_locs src) /\ ~ In x (msg_locs out).
  Proof.
    intros Hs Ho x Hx. destruct (copy_fresh f n) as [_ F]. rewrite Forall_forall in F. specialize (F x Hx).
    unfold msg_below in *. rewrite Forall_forall in Hs, Ho. split; intro H; [specialize (Hs x H)|specialize (Ho x H)]; lia.
  Qed.

  Lemma prim_clone_good src n : m_dyn src = false -> msg_below n src -> good_clone src n (let '(c, n') := prim_clone src n in Ok c n').
  Proof.
    intros Hdyn Hb. unfold prim_clone, merge_fields. rewrite Hdyn. destruct (copy (m_fields src) (n + 1)) as [f n'] eqn:E. cbn.
    pose proof (copy_erase (m_fields src) (n + 1)) as He. pose proof (copy_fresh (m_fields src) (n + 1)) as [Hle F].
    rewrite E in *. cbn in *. repeat split; auto; [|lia].
    intros x [<-|Hx] Hs; unfold msg_below in Hb; rewrite Forall_forall in Hb; specialize (Hb _ Hs); [lia|].
    rewrite Forall_forall in F. specialize (F x Hx). lia.
  Qed.

  Lemma reset_merge_good out src n :
    m_dyn src = false -> m_dyn out = false ->
    msg_below n src -> msg_below n out -> good_copy out src n (prim_reset_merge out src n).
  Proof.
    intros Hds Hdo Hs Ho. unfold prim_reset_merge, merge_fields. rewrite Hds, Hdo. destruct (m_ty out =? m_ty src); cbn; [|exact I].
    destruct (copy (m_fields src) n) as [f n'] eqn:E. cbn.
    pose proof (copy_erase (m_fields src) n) as He. pose proof (copy_fresh (m_fields src) n) as [Hle _].
    pose proof (copy_fields_good (m_fields src) src out n Hs Ho) as G. rewrite E in *. cbn in *. repeat split; auto; apply G; assumption.
  Qed.

  Lemma codec_good out src n :
    msg_below n src -> msg_below n out -> good_copy out src n (prim_codec compat out src n).
  Proof.
    intros Hs Ho. unfold prim_codec. destruct (negb (m_proto src) || negb (m_proto out)); [exact I|].
    destruct (negb (compat (m_ty out) (m_ty src))); [exact I|].
    destruct (copy (m_fields src) n) as [f n'] eqn:E. cbn.
    pose proof (copy_erase (m_fields src) n) as He. pose proof (copy_fresh (m_fields src) n) as [Hle _].
    pose proof (copy_fields_good (m_fields src) src out n Hs Ho) as G. rewrite E in *. cbn in *. repeat split; auto; apply G; assumption.
  Qed.

  (* every strategy's Copy: equal to the source, previous content gone, no memory shared *)
  Theorem copy_good adapter out src n :
    (adapter = 1 \/ (m_dyn src = false /\ m_dyn out = false)) ->
    msg_below n src -> msg_below n out -> good_copy out src n (copy_of compat adapter out src n).
  Proof.
    intros Hdyn Hs Ho. unfold copy_of.
    destruct (Z.eqb_spec adapter 1) as [->|Hn1]; [cbn; now apply codec_good|].
    destruct Hdyn as [?|[Hds Hdo]]; [contradiction|].
    destruct (adapter =? 0); [unfold proto_copy; destruct (m_proto src && m_proto out); [now apply reset_merge_good|now apply codec_good]|].
    destruct (adapter =? 2).
    - unfold clonefunc_copy, clone_of. cbn. destruct (m_proto src); [|exact I].
      pose proof (prim_clone_good src n Hds Hs) as G. destruct (prim_clone src n) as [c n'] eqn:E. cbn in G.
      destruct G as (He & Ht & Hd & Hn).
      destruct (negb (Bool.eqb (m_dyn c) (m_dyn out)) || (negb (m_dyn c) && negb (m_ty c =? m_ty out))); [exact I|]. cbn.
      split; [exact He|]. split; [reflexivity|]. split; [|exact Hn].
      intros x Hx. split.
      + intro Hsrc. apply (Hd x); [right; exact Hx|exact Hsrc].
      + unfold prim_clone, merge_fields in E. rewrite Hds in E.
        destruct (copy (m_fields src) (n + 1)) as [f n2] eqn:E2. injection E as <- <-. cbn in *.
        pose proof (copy_fresh (m_fields src) (n + 1)) as [_ F]. rewrite E2 in F. cbn in F.
        rewrite Forall_forall in F. specialize (F x Hx). intro Hout.
        unfold msg_below in Ho. rewrite Forall_forall in Ho. specialize (Ho x Hout). lia.
    - destruct (m_proto src && m_proto out); [now apply reset_merge_good|exact I].
  Qed.

  (* every strategy's Clone *)
  Lemma copyfunc_clone_good fn src n :
    msg_below n src ->
    (forall out, msg_below (n + 1) out -> m_dyn out = false -> good_copy out src (n + 1) (fn out src (n + 1))) ->
    (forall out m k, fn out src (n + 1) = Ok m k -> m_ty m = m_ty out) ->
    good_clone src n (copyfunc_clone fn src n).
  Proof.
    intros Hs Hfn Hty. unfold copyfunc_clone, new_zero. destruct (m_dyn src); [exact I|].
    set (z := {| m_loc := n; m_ty := m_ty src; m_dyn := false; m_proto := m_proto src; m_fields := VNil |}).
    assert (Hz : msg_below (n + 1) z) by (unfold msg_below, msg_locs, z; cbn; constructor; [lia|constructor]).
    specialize (Hfn z Hz eq_refl). specialize (Hty z). destruct (fn z src (n + 1)) as [c n'| |] eqn:E; cbn in *; auto.
    destruct Hfn as (He & Hl & Hd & Hn). repeat split; auto; [now rewrite (Hty c n' eq_refl)| |lia].
    intros x [Hx|Hx] H.
    - rewrite Hl in Hx. subst x. unfold msg_below, msg_locs in Hs. rewrite Forall_forall in Hs.
      specialize (Hs n H). lia.
    - destruct (Hd x Hx) as [G _]. now apply G.
  Qed.

  Lemma below_up n m : msg_below n m -> msg_below (n + 1) m.
  Proof. unfold msg_below. intro H. eapply Forall_impl; [|exact H]. cbn. intros; lia. Qed.

  Theorem clone_good adapter src n : m_dyn src = false -> msg_below n src -> good_clone src n (clone_of compat adapter src n).
  Proof.
    intros Hdyn Hs. unfold clone_of.
    destruct (adapter =? 0).
    { unfold proto_clone. destruct (m_proto src); [now apply prim_clone_good|].
      apply copyfunc_clone_good; auto.
      - intros out Ho _. apply codec_good; [now apply below_up|exact Ho].
      - intros out m k. unfold codec_copy, prim_codec. destruct (_ || _); [discriminate|]. destruct (negb _); [discriminate|].
        destruct (copy _ _). now intros [= <- _]. }
    destruct (adapter =? 1).
    { apply copyfunc_clone_good; auto.
      - intros out Ho _. apply codec_good; [now apply below_up|exact Ho].
      - intros out m k. unfold codec_copy, prim_codec. destruct (_ || _); [discriminate|]. destruct (negb _); [discriminate|].
        destruct (copy _ _). now intros [= <- _]. }
    destruct (adapter =? 2).
    { destruct (m_proto src); [now apply prim_clone_good|exact I]. }
    apply copyfunc_clone_good; auto.
    - intros out Ho Hod. destruct (m_proto src && m_proto out); [apply reset_merge_good; [exact Hdyn|exact Hod|now apply below_up|exact Ho]|exact I].
    - intros out m k. destruct (_ && _); [|discriminate]. unfold prim_reset_merge. destruct (negb _); [discriminate|].
      destruct (merge_fields _ _ _). now intros [= <- _].
  Qed.

  (* a destination's previous content never influences the result *)
  Theorem copy_replaces adapter out1 out2 src n :
    m_loc out1 = m_loc out2 -> m_ty out1 = m_ty out2 -> m_dyn out1 = m_dyn out2 -> m_proto out1 = m_proto out2 ->
    copy_of compat adapter out1 src n = copy_of compat adapter out2 src n.
  Proof.
    intros Hl Ht Hd Hp. unfold copy_of.
    destruct (adapter =? 0); [|destruct (adapter =? 1); [|destruct (adapter =? 2)]];
      unfold proto_copy, codec_copy, clonefunc_copy, prim_reset_merge, prim_codec;
      rewrite ?Hl, ?Ht, ?Hd, ?Hp; reflexivity.
  Qed.

  (* a destination of a different message type is refused by the default, clone-function and
     copy-function strategies *)
  Theorem mismatch_refused adapter out src n :
    adapter <> 1 -> (adapter = 2 -> m_dyn src = false \/ m_dyn out = false) ->
    m_proto src = true -> m_proto out = true -> m_ty out <> m_ty src ->
    copy_of compat adapter out src n = Error.
  Proof.
    intros Ha Hdyn Hs Ho Hne. apply Z.eqb_neq in Hne. unfold copy_of.
    destruct (adapter =? 0) eqn:E0; [unfold proto_copy, prim_reset_merge; now rewrite Hs, Ho, Hne|].
    destruct (Z.eqb_spec adapter 1); [contradiction|].
    destruct (Z.eqb_spec adapter 2) as [E2|E2].
    - specialize (Hdyn E2). unfold clonefunc_copy, clone_of. cbn. rewrite Hs. destruct (prim_clone src n) as [c n'] eqn:E.
      unfold prim_clone in E. destruct (merge_fields _ _ _). injection E as <- <-. cbn. rewrite Z.eqb_sym, Hne.
      destruct Hdyn as [-> | ->]; destruct (m_dyn out), (m_dyn src); reflexivity.
    - unfold prim_reset_merge. now rewrite Hs, Ho, Hne.
  Qed.

  (* a pointer to something that is not a protobuf message is refused, never copied shallowly *)
  Theorem non_proto_refused adapter out src n :
    m_proto src = false -> copy_of compat adapter out src n = Error.
  Proof.
    intro Hs. unfold copy_of.
    destruct (adapter =? 0); [unfold proto_copy, codec_copy, prim_codec; rewrite Hs; reflexivity|].
    destruct (adapter =? 1); [unfold codec_copy, prim_codec; rewrite Hs; reflexivity|].
    destruct (adapter =? 2); [unfold clonefunc_copy, clone_of; cbn; rewrite Hs; reflexivity|].
    rewrite Hs. reflexivity.
  Qed.

  (* generated <-> dynamic of the same type: default, codec and copy-function strategies copy *)
  Theorem dyn_gen_copies adapter out src n :
    adapter <> 2 -> m_proto src = true -> m_proto out = true -> m_ty out = m_ty src -> compat (m_ty out) (m_ty src) = true ->
    exists c k, copy_of compat adapter out src n = Ok c k.
  Proof.
    intros Ha Hs Ho Ht Hc. unfold copy_of.
    destruct (adapter =? 0).
    { unfold proto_copy, prim_reset_merge. rewrite Hs, Ho, Ht, Z.eqb_refl. cbn. destruct (merge_fields _ _ _); eauto. }
    destruct (adapter =? 1).
    { unfold codec_copy, prim_codec. rewrite Hs, Ho, Hc. cbn. destruct (copy _ _); eauto. }
    destruct (Z.eqb_spec adapter 2); [contradiction|].
    unfold prim_reset_merge. rewrite Hs, Ho, Ht, Z.eqb_refl. cbn. destruct (merge_fields _ _ _); eauto.
  Qed.
End Proofs.

(* KNOWN FINDING F20: the codec strategy copies into a DIFFERENT message type when the bytes parse *)
Lemma codec_mismatch_refuted :
  exists out src, m_ty out <> m_ty src /\
    match copy_of (fun _ _ => true) 1 out src 10 with Ok _ _ => True | _ => False end.
Proof.
  exists {| m_loc := 1; m_ty := 5; m_dyn := false; m_proto := true; m_fields := VNil |},
         {| m_loc := 2; m_ty := 6; m_dyn := false; m_proto := true; m_fields := VLeaf 7 VNil |}.
  split; [cbn; lia|exact I].
Qed.

(* KNOWN FINDING F22: when the source or the destination is a dynamic message, the default,
   clone-function and copy-function strategies share field memory with the source *)
Lemma dyn_shares_refuted :
  exists out src, m_dyn src = true /\
    match copy_of (fun a b => a =? b) 0 out src 10 with
    | Ok c _ => exists x, In x (locs (m_fields c)) /\ In x (msg_locs src)
    | _ => False
    end.
Proof.
  exists {| m_loc := 1; m_ty := 5; m_dyn := false; m_proto := true; m_fields := VNil |},
         {| m_loc := 2; m_ty := 5; m_dyn := true; m_proto := true; m_fields := VNode 3 0 (VLeaf 7 VNil) VNil |}.
  split; [reflexivity|]. cbn. exists 3. split; [now left|right; now left].
Qed.

(* KNOWN FINDING F23: CloneFunc.Copy between two dynamic messages of different message types *)
Lemma clonefunc_dyn_mismatch_refuted :
  exists out src, m_ty out <> m_ty src /\
    match copy_of (fun a b => a =? b) 2 out src 10 with Ok c _ => m_ty c = m_ty src | _ => False end.
Proof.
  exists {| m_loc := 1; m_ty := 5; m_dyn := true; m_proto := true; m_fields := VNil |},
         {| m_loc := 2; m_ty := 6; m_dyn := true; m_proto := true; m_fields := VNil |}.
  split; [cbn; lia|reflexivity].
Qed.

(* KNOWN FINDING F18: Clone of a dynamic message through the copy-function and codec strategies panics *)
Lemma dyn_clone_panics_refuted :
  forall compat src n, m_dyn src = true -> clone_of compat 1 src n = Panic /\ clone_of compat 3 src n = Panic.
Proof. intros compat src n H. unfold clone_of, codec_clone, copyfunc_clone, new_zero. cbn. now rewrite H. Qed.

Lemma example :
  let src := {| m_loc := 1; m_ty := 5; m_dyn := false; m_proto := true; m_fields := VNode 2 0 (VLeaf 9 VNil) (VLeaf 3 VNil) |} in
  let out := {| m_loc := 4; m_ty := 5; m_dyn := false; m_proto := true; m_fields := VNode 5 0 (VLeaf 1 (VLeaf 1 VNil)) VNil |} in
  copy_of (fun a b => a =? b) 0 out src 10 =
  Ok {| m_loc := 4; m_ty := 5; m_dyn := false; m_proto := true; m_fields := VNode 10 0 (VLeaf 9 VNil) (VLeaf 3 VNil) |} 11.
Proof. reflexivity. Qed.
