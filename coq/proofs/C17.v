From Coq Require Import ZArith String List Bool Lia.
From Grpchan Require Import model.Intercept.
Import ListNotations.
Open Scope Z_scope.

Lemma client_nil_identity c : intercept_client c None None = c.
Proof. reflexivity. Qed.

Lemma client_unwrap c u s : (u <> None \/ s <> None) -> unwrap1 (intercept_client c u s) = Some c.
Proof. intros [H|H]; destruct u, s; cbn; congruence. Qed.

Lemma invoke_wrap_some ui s inner m r o :
  invoke (Wrap (Some ui) s inner) m r o = ui m r (root_is_grpc inner) (invoke inner) o.
Proof. reflexivity. Qed.

Lemma invoke_wrap_none s inner : invoke (Wrap None s inner) = invoke inner.
Proof. reflexivity. Qed.

Lemma new_stream_wrap_some u si inner m r o :
  new_stream (Wrap u (Some si) inner) m r o = si m r (root_is_grpc inner) (new_stream inner) o.
Proof. reflexivity. Qed.

Lemma new_stream_wrap_none u inner : new_stream (Wrap u None inner) = new_stream inner.
Proof. reflexivity. Qed.

Lemma root_intercept c u s : root_is_grpc (intercept_client c u s) = root_is_grpc c.
Proof. destruct u, s; reflexivity. Qed.

(* the connection argument is the base, at ANY depth *)
Lemma root_stack layers g tag : root_is_grpc (stack layers (Base g tag)) = g.
Proof.
  induction layers as [|[[tg hu] hs] rest IH]; [reflexivity|]. cbn [stack]. now rewrite root_intercept.
Qed.

Definition client_enters (sel : Z * bool * bool -> bool) (layers : list (Z * bool * bool))
           (m : string) (req : Z) (opts : list Z) (g : bool) : log :=
  map (fun x => ClientEnter (fst (fst x)) m req opts g) (filter sel layers).

(* any nesting depth, any nil/non-nil combination per layer: each unary interceptor is entered
   exactly once, outermost first, then the base, with method, request and options unchanged *)
Lemma invoke_stack layers g tag m req opts : forall l,
  invoke (stack layers (Base g tag)) m req opts l =
  (Ok (req + tag), l ++ client_enters (fun x => snd (fst x)) layers m req opts g ++ [BaseCall m req opts]).
Proof.
  induction layers as [|[[tg hu] hs] rest IH]; intro l; [reflexivity|].
  cbn [stack]. unfold client_enters. cbn [filter fst snd].
  destruct hu; cbn [map].
  - replace (intercept_client (stack rest (Base g tag)) (Some (log_cint tg)) (if hs then Some (log_cint tg) else None))
      with (Wrap (Some (log_cint tg)) (if hs then Some (log_cint tg) else None) (stack rest (Base g tag)))
      by (destruct hs; reflexivity).
    rewrite invoke_wrap_some. unfold log_cint. rewrite root_stack, IH. unfold client_enters.
    rewrite <- app_assoc. reflexivity.
  - destruct hs.
    + cbn [intercept_client]. rewrite invoke_wrap_none. apply IH.
    + cbn [intercept_client]. apply IH.
Qed.

Lemma new_stream_stack layers g tag m req opts : forall l,
  new_stream (stack layers (Base g tag)) m req opts l =
  (Ok (req + tag), l ++ client_enters (fun x => snd x) layers m req opts g ++ [BaseCall m req opts]).
Proof.
  induction layers as [|[[tg hu] hs] rest IH]; intro l; [reflexivity|].
  cbn [stack]. unfold client_enters. cbn [filter fst snd].
  destruct hs; cbn [map].
  - replace (intercept_client (stack rest (Base g tag)) (if hu then Some (log_cint tg) else None) (Some (log_cint tg)))
      with (Wrap (if hu then Some (log_cint tg) else None) (Some (log_cint tg)) (stack rest (Base g tag)))
      by (destruct hu; reflexivity).
    rewrite new_stream_wrap_some. unfold log_cint. rewrite root_stack, IH. unfold client_enters.
    rewrite <- app_assoc. reflexivity.
  - destruct hu.
    + cbn [intercept_client]. rewrite new_stream_wrap_none. apply IH.
    + cbn [intercept_client]. apply IH.
Qed.

(* the defect that was repaired: looking only at the directly wrapped channel *)
Definition immediate_is_grpc (c : chan) : bool := match c with Base g _ => g | Wrap _ _ _ => false end.
Lemma immediate_refuted :
  exists c, root_is_grpc c = true /\ immediate_is_grpc c = false.
Proof. exists (Wrap (Some (log_cint 1)) None (Base true 0)). split; reflexivity. Qed.
