From Coq Require Import ZArith String List Bool.
From Grpchan Require Import lib.Cases lib.Hex.
From Grpchan Require Export model.Ctx.
Import ListNotations.
Open Scope Z_scope.

(* what the handler saw.  user: values of the application keys 0..5; cuser: the same through
   ClientContext(ctx); mutation_isolated: mutating the metadata on either side left the other unchanged *)
Record seen := {
  user : list (option Z); inmd : option md; outmd : option md; peer : option Z; sts : option string;
  dl : option Z; done : bool; cuser : list (option Z); client_ok : bool; mutation_isolated : bool }.

Inductive case := CtxCase (kind : string) (e : cexp) (method : string) (s : seen).

Definition md_eqb (a b : md) : bool :=
  list_eqb (fun x y => String.eqb (fst x) (fst y) && list_eqb String.eqb (snd x) (snd y)) a b.
Definition oz_eqb := option_eqb Z.eqb.

Definition user_keys : list Z := [0; 1; 2; 3; 4; 5].
Definition val_z (v : option value) : option Z := match v with Some (VZ z) => Some z | _ => None end.
Definition val_md (v : option value) : option md := match v with Some (VMD m) => Some m | _ => None end.
Definition val_str (v : option value) : option string := match v with Some (VStr s) => Some s | _ => None end.

Definition check_case (k : case) : bool :=
  match k with
  | CtxCase _ e m s =>
      let c := eval e in let h := server_ctx m c in
      list_eqb oz_eqb (map (fun n => val_z (lookup (KUser n) h)) user_keys) (user s) &&
      option_eqb md_eqb (val_md (lookup KInMD h)) (inmd s) &&
      option_eqb md_eqb (val_md (lookup KOutMD h)) (outmd s) &&
      oz_eqb (val_z (lookup KPeer h)) (peer s) &&
      option_eqb String.eqb (val_str (lookup KSTS h)) (sts s) &&
      oz_eqb (deadline h) (dl s) && Bool.eqb (cancelled h) (done s) &&
      list_eqb oz_eqb (map (fun n => val_z (lookup (KUser n) c)) user_keys) (cuser s) &&
      client_ok s && mutation_isolated s
  end.

(* the property on the observation, from the caller's context expression alone *)
Definition oracle_case (k : case) : bool :=
  match k with
  | CtxCase _ e m s =>
      let c := eval e in
      forallb (fun o => match o with None => true | Some _ => false end) (user s) &&   (* no caller values *)
      option_eqb md_eqb (out_md c) (inmd s) &&                                          (* metadata *)
      (match outmd s with None => true | Some _ => false end) &&
      oz_eqb (Some 1) (peer s) && option_eqb String.eqb (Some m) (sts s) &&
      oz_eqb (deadline c) (dl s) && Bool.eqb (cancelled c) (done s) &&
      list_eqb oz_eqb (map (fun n => val_z (lookup (KUser n) c)) user_keys) (cuser s) &&
      client_ok s && mutation_isolated s
  end.
