From Coq Require Import ZArith String Ascii List Bool.
From Grpchan Require Import lib.Cases lib.Int lib.Dec lib.Hex lib.Str gen.Units model.Timeout.
Import ListNotations.
Open Scope Z_scope.

Inductive case :=
| Srv (hdr : option string) (has_deadline : bool) (lo hi : Z) (panicked : bool)
      (* contextFromHeaders on a header value; the handler's remaining time was in [lo, hi] *)
| Cli (r_after r_before : Z) (has_deadline : bool) (hdr : option string).
      (* headersFromContext with a deadline whose remaining time was r_before before and r_after after the call *)

Definition check_case (k : case) : bool :=
  match k with
  | Srv hdr has lo hi panicked =>
      match server_deadline hdr with
      | NoDeadline => negb has && negb panicked
      | Deadline d => has && (lo <=? d) && (d <=? hi) && negb panicked
      | Panic => panicked
      end
  | Cli ra rb has hdr =>
      if has then
        match hdr with
        | Some s => match split_last s with
                    | Some (body, u) =>
                        (byte_of u =? client_suffix) &&
                        match parse_int body 64 with
                        | Some m => (client_clamp (client_div ra) <=? m) && (m <=? client_clamp (client_div rb))
                        | None => false
                        end
                    | None => false
                    end
        | None => false
        end
      else match hdr with None => true | Some _ => false end
  end.

Definition oracle_case (k : case) : bool :=
  match k with
  | Srv hdr has lo hi panicked =>
      negb panicked &&
      match hdr with
      | None => negb has
      | Some s => match spec_parts s with
                  | Some (v, unit) =>
                      let ns := Z.min (v * unit) maxint64 in
                      if v >? maxint64
                      then (* the number itself exceeds int64 (>= 19 digits; the wire format allows 8):
                              no deadline at all is accepted as saturation -- never earlier than asked *)
                           negb has || ((lo <=? ns) && (ns <=? hi))
                      else has && (lo <=? ns) && (ns <=? hi)
                  | None => true   (* not of the wire form: anything but a crash *)
                  end
      end
  | Cli ra rb has hdr =>
      if has then
        match hdr with
        | Some s => match spec_timeout s with
                    | Some ns => (ra - 1000000 <=? ns) && (ns <=? Z.max rb 0 + 1000000)
                    | None => false
                    end
        | None => false
        end
      else match hdr with None => true | Some _ => false end
  end.
