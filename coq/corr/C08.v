From Coq Require Import ZArith String List Bool.
From Grpchan Require Import lib.Cases lib.Hex.
From Grpchan Require Export corr.Script.
From Grpchan Require corr.Stream model.InprocStream.
Import ListNotations.
Open Scope Z_scope.

(* in-process schedules on the single-response kind: a receive that delivers a message means the
   handler sent exactly that one message and returned nil *)
Definition lts_single_ok (c : Stream.case) : bool :=
  match c with
  | Stream.Sched _ false rounds p _ =>
      negb p &&
      let comp := Stream.completed rounds in
      let ret := flat_map (fun ao => match ao with (_, InprocStream.HReturn c) => [c] | _ => [] end) (Stream.started rounds) in
      forallb (fun t => match t with
                        | (_, InprocStream.CRecv, InprocStream.RMsg x) =>
                            list_eqb Z.eqb (Stream.handler_sent_ok comp) [x] &&
                            match ret with [c] => (c =? 0) || (c =? -2) | _ => false end
                        | _ => true
                        end) comp
  | Stream.Sched _ true _ p _ => negb p
  | Stream.GoChecked _ _ ok => ok
  | Stream.Http c => HttpSched.oracle_case c
  end.

Definition oracle_case (k : case) : bool :=
  match finding_case k with
  | Some _ => true
  | None =>
      match k with
      | Single _ script code res _ =>
          match res with
          | OneOk x => (code =? 0) && list_eqb Z.eqb (sent_msgs script) [x]
          | OneEOF => (code =? 0) && match sent_msgs script with [] => true | _ => false end
          | OneStatus c => negb (c =? 0)
          end
      | Lts c => lts_single_ok c
      | HLts c => HttpSched.oracle_case c
      | Checked _ _ ok => ok
      | _ => true
      end
  end.
