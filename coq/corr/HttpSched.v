(* Trace acceptance for the HTTP client-stream LTS (model/HttpClient.v). *)
From Coq Require Import ZArith String List Bool.
From Grpchan Require Import lib.Cases.
From Grpchan Require Export model.HttpClient.
Import ListNotations.
Open Scope Z_scope.

Definition res_eqb (a b : res) : bool :=
  match a, b with
  | REOF, REOF => true
  | RMsg x, RMsg y | RStatus x, RStatus y | RRaw x, RRaw y => x =? y
  | _, _ => false
  end.

Definition hround := (start * list res)%type.

(* the returns of a round, all of actor CR, in order *)
Definition crs (rs : rets) : list res := flat_map (fun ar => match ar with (CR, r) => [r] | _ => [] end) rs.

Definition fuel : nat := 40.

Fixpoint accepts_from (S : list st) (rounds : list hround) : bool :=
  match rounds with
  | [] => match S with [] => false | _ => true end
  | (x, obs) :: rest =>
      let S1 := flat_map (fun s => match apply_start s x with Some s' => [s'] | None => [] end) S in
      let ends := flat_map (fun s => explore fuel s []) S1 in
      if existsb (fun e => match e with None => true | Some _ => false end) ends then false
      else
        let S2 := flat_map (fun e => match e with
                                     | Some (s, got) => if list_eqb res_eqb (crs got) obs then [s] else []
                                     | None => []
                                     end) ends in
        match S2 with [] => false | _ => accepts_from S2 rest end
  end.

Fixpoint accepted_prefix (S : list st) (rounds : list hround) : Z :=
  match rounds with
  | [] => 0
  | (x, obs) :: rest =>
      let S1 := flat_map (fun s => match apply_start s x with Some s' => [s'] | None => [] end) S in
      let ends := flat_map (fun s => explore fuel s []) S1 in
      let S2 := flat_map (fun e => match e with
                                   | Some (s, got) => if list_eqb res_eqb (crs got) obs then [s] else []
                                   | None => []
                                   end) ends in
      match S2 with [] => 0 | _ => 1 + accepted_prefix S2 rest end
  end.

Inductive case := HSched (resp_stream : bool) (b : list ev) (e : ending) (rounds : list hround) (panicked : bool).

Definition check_case (k : case) : bool :=
  match k with HSched rs b e rounds p => accepts_from [init rs b e] rounds && negb p end.

(* the property on the trace alone *)
Definition all_res (rounds : list hround) : list res := flat_map snd rounds.
Definition got_msgs (rounds : list hround) : list Z := flat_map (fun r => match r with RMsg x => [x] | _ => [] end) (all_res rounds).
Definition body_datas (b : list ev) : list Z := flat_map (fun e => match e with EData x => [x] | _ => [] end) b.
Fixpoint datas_before_trailer (b : list ev) : list Z :=
  match b with
  | EData x :: r => x :: datas_before_trailer r
  | _ => []
  end.
Fixpoint is_prefix (a b : list Z) : bool :=
  match a, b with
  | [], _ => true
  | x :: a', y :: b' => (x =? y) && is_prefix a' b'
  | _, _ => false
  end.
Definition ctx_ended (rounds : list hround) : bool :=
  existsb (fun r => match fst r with Cancel | Deadline => true | _ => false end) rounds.

(* results returned in the rounds from the end of the context on *)
Fixpoint after_end (rounds : list hround) : list res :=
  match rounds with
  | [] => []
  | (x, rs) :: rest => match x with Cancel | Deadline => flat_map snd ((x, rs) :: rest) | _ => after_end rest end
  end.

Fixpoint before_end (rounds : list hround) : list res :=
  match rounds with
  | [] => []
  | (x, rs) :: rest => match x with Cancel | Deadline => [] | _ => rs ++ before_end rest end
  end.

Fixpoint body_ended_before_end (rounds : list hround) : bool :=
  match rounds with
  | [] => false
  | (x, _) :: rest => match x with Cancel | Deadline => false | EndBody => true | _ => body_ended_before_end rest end
  end.

Definition oracle_case (k : case) : bool :=
  match k with
  | HSched rs b e rounds p =>
      negb p &&
      (* once the context has ended a receive returns a status, never a bare error -- unless the reply had
         already come to its end before (the call's real result is then that of the reply) *)
      (negb (existsb (fun r => match r with RRaw _ => true | _ => false end) (after_end rounds)) ||
       existsb (fun r => match r with RRaw _ => true | _ => false end) (before_end rounds) ||
       body_ended_before_end rounds) &&
      (* never a raw non-status error once the context has ended; never the library's sanity panic *)
      negb (existsb (fun r => match r with RRaw x => x =? -9 | _ => false end) (all_res rounds)) &&
      (if rs then
         (* messages are a prefix of the body's data frames; a clean end only after all of them and an OK trailer *)
         is_prefix (got_msgs rounds) (datas_before_trailer b) &&
         (if existsb (fun r => match r with REOF => true | _ => false end) (all_res rounds)
          then list_eqb Z.eqb (got_msgs rounds) (datas_before_trailer b) &&
               match skipn (length (datas_before_trailer b)) b with ETrailer 0 :: _ => true | _ => false end
          else true)
       else
         (* single response: success only with the one message of a reply that is one data frame and an OK trailer *)
         match got_msgs rounds with
         | [] => true
         | [x] => if ctx_ended rounds then true
                  else match b with EData y :: ETrailer 0 :: _ => x =? y | _ => false end
         | _ => false
         end)
  end.
