From Coq Require Import ZArith String List Bool.
From Grpchan Require Import lib.Cases lib.Hex gen.Inproc.
From Grpchan Require Export corr.Stream.
Import ListNotations.
Open Scope Z_scope.

Definition list_eqbz := list_eqb Z.eqb.

(* at every settled point what a receiver has obtained is a prefix of what its peer's sends
   acknowledged; when a receive reports the clean end of the stream the two are equal *)
Definition prefix_ok (rounds : list round) : bool :=
  let c := completed rounds in
  is_prefix (client_got c) (handler_sent_ok c) && is_prefix (handler_got c) (client_sent_ok c) &&
  (if existsb (fun t => match t with (_, CRecv, REOF) => true | _ => false end) c
   then list_eqbz (client_got c) (handler_sent_ok c) else true) &&
  (if existsb (fun t => match t with (_, HRecv, REOF) => true | _ => false end) c
   then list_eqbz (handler_got c) (client_sent_ok c) else true).

Definition oracle_case (k : case) : bool :=
  match k with Sched _ _ rounds p _ => negb p && forallb prefix_ok (prefixes rounds) | GoChecked _ _ ok => ok | Http c => HttpSched.oracle_case c end.
