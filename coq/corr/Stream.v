(* Trace acceptance for the in-process stream LTS and the trace-level oracles shared by the
   stream properties.  A trace is a list of rounds: the operation started (or an environment
   step) and the set of operations that had returned when the system next settled. *)
From Coq Require Import ZArith String List Bool.
From Grpchan Require Import lib.Cases lib.Hex gen.Inproc.
From Grpchan Require Export model.InprocStream.
From Grpchan Require corr.HttpSched.
Import ListNotations.
Open Scope Z_scope.

Record round := { r_start : start; r_rets : rets }.

Definition actor_eqb (a b : actor) : bool :=
  match a, b with CS, CS | CC, CC | CR, CR | H, H | HR, HR => true | _, _ => false end.

Fixpoint insz (x : Z) (l : list Z) : list Z :=
  match l with [] => [x] | y :: r => if x <=? y then x :: l else y :: insz x r end.
Definition sortz (l : list Z) : list Z := fold_right insz [] l.
Definition md_eqb (a b : md) : bool := list_eqb Z.eqb (sortz a) (sortz b).

Definition res_eqb (a b : res) : bool :=
  match a, b with
  | RNil, RNil | REOF, REOF => true
  | RStatus x, RStatus y | RCtx x, RCtx y | ROther x, ROther y | RMsg x, RMsg y => x =? y
  | RMd x, RMd y => md_eqb x y
  | _, _ => false
  end.

Definition ret_of (rs : rets) (a : actor) : option res :=
  match find (fun p => actor_eqb (fst p) a) rs with Some p => Some (snd p) | None => None end.

Definition same_rets (a b : rets) : bool :=
  (Nat.eqb (length a) (length b)) &&
  forallb (fun x => option_eqb res_eqb (ret_of a x) (ret_of b x)) actors.

Definition fuel : nat := 60.

Fixpoint accepts_from (S : list st) (rs : list round) : bool :=
  match rs with
  | [] => match S with [] => false | _ => true end
  | r :: rest =>
      let S1 := flat_map (fun s => match apply_start s (r_start r) with Some s' => [s'] | None => [] end) S in
      let ends := flat_map (fun s => explore fuel s []) S1 in
      if existsb (fun e => match e with None => true | Some _ => false end) ends then false
      else
        let S2 := flat_map (fun e => match e with
                                     | Some (s, got) => if same_rets got (r_rets r) then [s] else []
                                     | None => []
                                     end) ends in
        match S2 with [] => false | _ => accepts_from S2 rest end
  end.

(* how far the model can follow the trace: number of rounds accepted (for diagnostics) *)
Fixpoint accepted_prefix (S : list st) (rs : list round) : Z :=
  match rs with
  | [] => 0
  | r :: rest =>
      let S1 := flat_map (fun s => match apply_start s (r_start r) with Some s' => [s'] | None => [] end) S in
      let ends := flat_map (fun s => explore fuel s []) S1 in
      let S2 := flat_map (fun e => match e with
                                   | Some (s, got) => if same_rets got (r_rets r) then [s] else []
                                   | None => []
                                   end) ends in
      match S2 with [] => 0 | _ => 1 + accepted_prefix S2 rest end
  end.

Inductive case :=
| Sched (kind : string) (resp_stream : bool) (rounds : list round) (panicked leaked : bool)
| GoChecked (kind : string) (id : Z) (ok : bool)    (* a comparison made on the Go side (message contents, other transport) *)
| Http (c : HttpSched.case).                       (* a schedule of the HTTP client stream against a scripted transport *)

Definition check_case (k : case) : bool :=
  match k with
  | Sched _ rs rounds p l => accepts_from [init rs] rounds && negb p
  | GoChecked _ _ ok => ok
  | Http c => HttpSched.check_case c
  end.

(* ---- projections of a trace ---- *)
Definition started (rounds : list round) : list (actor * op) :=
  flat_map (fun r => match r_start r with Call a o => [(a, o)] | _ => [] end) rounds.
Definition all_rets (rounds : list round) : rets := flat_map r_rets rounds.

(* pair every return with the operation of that actor that was in flight *)
Fixpoint pair_ops (rounds : list round) (pend : actor -> option op) : list (actor * op * res) :=
  match rounds with
  | [] => []
  | r :: rest =>
      let pend1 := match r_start r with
                   | Call a o => fun b => if actor_eqb a b then Some o else pend b
                   | _ => pend
                   end in
      let here := flat_map (fun ar => match pend1 (fst ar) with Some o => [(fst ar, o, snd ar)] | None => [] end) (r_rets r) in
      let pend2 := fun b => if existsb (fun ar => actor_eqb (fst ar) b) (r_rets r) then None else pend1 b in
      here ++ pair_ops rest pend2
  end.
Definition completed (rounds : list round) := pair_ops rounds (fun _ => None).

Definition client_sent_ok (c : list (actor * op * res)) : list Z :=
  flat_map (fun t => match t with (_, CSend x, RNil) => [x] | _ => [] end) c.
Definition handler_got (c : list (actor * op * res)) : list Z :=
  flat_map (fun t => match t with (_, HRecv, RMsg x) => [x] | _ => [] end) c.
Definition handler_sent_ok (c : list (actor * op * res)) : list Z :=
  flat_map (fun t => match t with (_, HSend x, RNil) => [x] | _ => [] end) c.
Definition client_got (c : list (actor * op * res)) : list Z :=
  flat_map (fun t => match t with (_, CRecv, RMsg x) => [x] | _ => [] end) c.

Fixpoint is_prefix (a b : list Z) : bool :=
  match a, b with
  | [], _ => true
  | x :: a', y :: b' => (x =? y) && is_prefix a' b'
  | _, _ => false
  end.

Fixpoint prefixes {A} (l : list A) : list (list A) :=
  match l with [] => [[]] | x :: r => [] :: map (cons x) (prefixes r) end.

Definition ctx_ended (rounds : list round) : bool :=
  existsb (fun r => match r_start r with Cancel | Deadline => true | _ => false end) rounds.
