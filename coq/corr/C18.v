From Coq Require Import ZArith String List Bool.
From Grpchan Require Import lib.Cases lib.Hex lib.Heap.
From Grpchan Require Export model.Cloner.
Import ListNotations.
Open Scope Z_scope.

(* outcome classes: 0 ok, 1 error, 2 panic.  The probes were made by the harness on the real
   objects: equal (proto.Equal), independent (mutating every mutable part of either object left
   the other equal to its snapshot), src_same, replaced (nothing of a pre-populated destination
   survived). *)
Inductive case :=
| Op (adapter : Z) (is_copy : bool) (src_ty dst_ty : Z) (src_dyn dst_dyn : bool) (src_proto : bool)
     (compat : bool) (unknown : bool) (what : string)
     (obs : Z) (equal independent src_same replaced : bool).

Definition class_of (r : result) : Z := match r with Ok _ _ => 0 | Error => 1 | Panic => 2 end.

Definition skeleton (loc ty : Z) (dyn proto : bool) : msg :=
  {| m_loc := loc; m_ty := ty; m_dyn := dyn; m_proto := proto; m_fields := VNode (loc + 1) 0 (VLeaf 1 VNil) (VLeaf 2 VNil) |}.

Definition predict (k : case) : Z :=
  match k with
  | Op a is_copy st dt sd dd sp c _ _ _ _ _ _ _ =>
      let src := skeleton 1 st sd sp in
      let compat := fun x y : Z => (x =? y) || c in
      if is_copy then class_of (copy_of compat a (skeleton 10 dt dd true) src 100)
      else class_of (clone_of compat a src 100)
  end.

(* does the model say the result shares memory with the source? (dynamic representations, F22) *)
Definition model_shares (k : case) : bool :=
  match k with
  | Op a is_copy _ _ sd dd _ _ _ _ _ _ _ _ _ =>
      if is_copy then (sd || dd) && negb (a =? 1) else sd && ((a =? 0) || (a =? 2))
  end.

(* the dynamic-message library's merge drops unknown fields (F22) *)
Definition model_drops_unknown (k : case) : bool :=
  match k with
  | Op a is_copy _ _ sd dd _ _ unk _ _ _ _ _ _ =>
      unk && (if is_copy then sd && dd && negb (a =? 1) else sd && ((a =? 0) || (a =? 2)))
  end.

Definition check_case (k : case) : bool :=
  match k with
  | Op _ _ st dt _ _ _ _ _ _ obs eq ind same rep =>
      (predict k =? obs) &&
      (if obs =? 0 then (if st =? dt then Bool.eqb eq (negb (model_drops_unknown k)) && Bool.eqb rep eq else true) &&
                        (model_shares k || ind) && same   (* sharing shows only if the message holds byte content *)
       else same)
  end.

(* the property on the observation *)
Definition oracle_case (k : case) : bool :=
  match k with
  | Op a is_copy st dt sd dd sp c _ _ obs eq ind same rep =>
      same &&
      (if obs =? 0 then eq && ind && rep else true) &&
      (* a non-proto value or a destination of another message type must be refused *)
      (if negb sp then negb (obs =? 0)
       else if is_copy && negb (st =? dt) then negb (obs =? 0) else true) &&
      (* same message type, proto on both sides: must succeed, except clone-func Copy across representations *)
      (if sp && (if is_copy then (st =? dt) && (negb (a =? 2) || Bool.eqb sd dd) else true) then obs =? 0 else true)
  end.

(* known findings: F20 codec Copy into another type whose wire format accepts the bytes;
   F18 Clone of a dynamic message through the copy-function / codec strategies panics *)
Definition finding_case (k : case) : option string :=
  match k with
  | Op a is_copy st dt sd dd sp c _ _ obs eq ind _ _ =>
      if is_copy && sp && negb (st =? dt) && (obs =? 0) && (a =? 2) && sd && dd then Some "F23"%string
      else if (obs =? 0) && ((negb ind && eq && (sd || dd) && negb (a =? 1)) || (negb eq && model_drops_unknown k))
           then Some "F22"%string
      else if is_copy && sp && negb (st =? dt) && (obs =? 0) && (a =? 1) then Some "F20"%string
      else if negb is_copy && sd && sp && (obs =? 2) && ((a =? 1) || (a =? 3)) then Some "F18"%string
      else None
  end.

Definition oracle_or_finding (k : case) : bool :=
  match finding_case k with Some _ => true | None => oracle_case k end.
