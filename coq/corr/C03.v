From Coq Require Import ZArith String List Bool.
From Grpchan Require Import lib.Cases lib.Hex.
From Grpchan Require Export corr.Script.
From Grpchan Require corr.Stream.
From Grpchan Require model.UnaryMeta.   (* case terms name UnaryMeta.agrees *)
Import ListNotations.
Open Scope Z_scope.

Definition oracle_case (k : case) : bool :=
  match finding_case k with
  | Some _ => true
  | None =>
      match k with
      | Script _ _ script code o =>
          (* every header pair set before the headers were sent, every trailer pair, all values in order;
             headers already complete when asked before the first message; setting headers late fails;
             every call-option target filled *)
          md_eqb (o_hdr o) (headers_before_send script) && md_eqb (o_hdr_early o) (headers_before_send script) &&
          md_eqb (o_tlr o) (all_trailers script) &&
          list_eqb Bool.eqb (o_acks o) (expected_acks script false) && o_opts_ok o
      | Single _ script code res t =>
          if 2 <=? Z.of_nat (length (sent_msgs script)) then true else md_eqb t (all_trailers script)
      | Lts c => match c with Stream.Sched _ _ _ p _ => negb p | Stream.GoChecked _ _ ok => ok | Stream.Http _ => true end
      | UnaryStatus _ _ _ _ _ _ _ h t => h && t
      | HLts _ => true
      | StreamStatus _ _ _ _ _ _ _ _ _ _ _ h t => h && t
      | Checked _ _ ok => ok
      end
  end.

(* the status-message finding F9 concerns C02 only *)
Definition finding_c03 (k : case) : option string :=
  match finding_case k with
  | Some f => if String.eqb f "F9" then None else Some f
  | None => None
  end.
