From Coq Require Import ZArith String List Bool.
From Grpchan Require Import lib.Cases lib.Hex.
From Grpchan Require Export corr.Script.
From Grpchan Require corr.Stream model.InprocStream.
Import ListNotations.
Open Scope Z_scope.

(* in-process schedules without cancellation: the terminal result of the client's receives is
   the handler's return value, and io.EOF is seen only after a nil return *)
Definition lts_status_ok (c : Stream.case) : bool :=
  match c with
  | Stream.Sched _ _ rounds p _ =>
      negb p &&
      let comp := Stream.completed rounds in
      let ret := flat_map (fun ao => match ao with (_, InprocStream.HReturn c) => [c] | _ => [] end) (Stream.started rounds) in
      forallb (fun t => match t with
                        | (_, InprocStream.CRecv, InprocStream.REOF) => match ret with [c] => (c =? 0) || ((c =? -2) && negb (Stream.ctx_ended rounds)) | _ => false end
                        | (_, InprocStream.CRecv, InprocStream.RStatus s) =>
                            if Stream.ctx_ended rounds then true
                            else match ret with
                                 | [c] => (s =? (if c =? -1 then 2 else c)) || (s =? 13)   (* 13: more than one response on a single-response method *)
                                 | _ => s =? 13
                                 end
                        | _ => true
                        end) comp
  | Stream.GoChecked _ _ ok => ok
  | Stream.Http c => HttpSched.oracle_case c
  end.

Definition oracle_case (k : case) : bool :=
  match finding_case k with
  | Some _ => true
  | None =>
      match k with
      | Script _ _ script code o =>
          fin_eqb (o_fin o) (if code =? 0 then FinEOF else FinStatus (if code =? -1 then 2 else code)) &&
          list_eqb Z.eqb (o_msgs o) (sent_msgs script)
      | Single _ script code res _ =>
          match res with
          | OneOk x => (code =? 0) && list_eqb Z.eqb (sent_msgs script) [x]
          | OneEOF => (code =? 0)
          | OneStatus c => (c =? (if code =? -1 then 2 else code)) || ((c =? 13) && (2 <=? Z.of_nat (length (sent_msgs script))))
          end
      | Lts c => lts_status_ok c
      | HLts c => HttpSched.oracle_case c
      | Checked _ _ ok => ok
      | UnaryStatus _ code _ _ oc ms ds _ _ => (oc =? (if code =? 0 then 13 else code)) && ms && ds
      | StreamStatus _ kind sends code cls _ failed oc om ms ds _ _ =>
          (* never a success: the receive that ends the stream returns an error that is not io.EOF;
             the handler's own code, message and details; no message lost before the status *)
          failed && ((cls =? 6) || (negb (oc =? 0) && (oc =? code) && ms && ds)) && (om <=? sends) && ((kind =? 3) || (om =? sends))
      end
  end.
