From Coq Require Import ZArith String List Bool.
From Grpchan Require Import lib.Cases lib.Hex.
From Grpchan Require Export model.Registry.
Import ListNotations.
Open Scope Z_scope.

(* a history and what the real registry (or a transport delegating to it) answered;
   lists the implementation returns in map order are sorted by name by the harness *)
Inductive case := Hist (carrier : string) (ops : list op) (obs : list out).

Definition minfo_eqb (a b : minfo) : bool :=
  String.eqb (mi_name a) (mi_name b) && Bool.eqb (mi_cs a) (mi_cs b) && Bool.eqb (mi_ss a) (mi_ss b).

Definition triple_eqb (a b : string * Z * Z) : bool :=
  let '(n1, d1, h1) := a in let '(n2, d2, h2) := b in String.eqb n1 n2 && (d1 =? d2) && (h1 =? h2).

Definition info_eqb (a b : string * list minfo * Z) : bool :=
  let '(n1, m1, x1) := a in let '(n2, m2, x2) := b in String.eqb n1 n2 && list_eqb minfo_eqb m1 m2 && (x1 =? x2).

(* insertion sort by name, to compare with the harness's sorted output *)
Fixpoint ins {A} (key : A -> string) (x : A) (l : list A) : list A :=
  match l with
  | [] => [x]
  | y :: r => if String.leb (key x) (key y) then x :: l else y :: ins key x r
  end.
Definition sort_by {A} (key : A -> string) (l : list A) : list A := fold_right (ins key) [] l.

Definition out_eqb (m o : out) : bool :=
  match m, o with
  | ODone, ODone => true
  | OPanic, OPanic => true
  | OQuery a, OQuery b => option_eqb (fun x y => (fst x =? fst y) && (snd x =? snd y)) a b
  | OEach a, OEach b => list_eqb triple_eqb (sort_by (fun t => fst (fst t)) a) b
  | OInfo a, OInfo b => list_eqb info_eqb (sort_by (fun t => fst (fst t)) a) b
  | _, _ => false
  end.

Definition check_case (k : case) : bool :=
  match k with Hist _ ops obs => list_eqb out_eqb (snd (run [] ops)) obs end.

(* the property on the observations: replay the history against the SPECIFICATION
   (first successful registration), not against the list model *)
Fixpoint oracle_walk (past : list op) (ops : list op) (obs : list out) : bool :=
  match ops, obs with
  | [], [] => true
  | o :: ops', x :: obs' =>
      (match o, x with
       | Reg d h i, ODone => i && match first_reg (d_name d) past with None => true | Some _ => false end
       | Reg d h i, OPanic => negb i || match first_reg (d_name d) past with None => false | Some _ => true end
       | Query n, OQuery r =>
           option_eqb (fun x y => (fst x =? fst y) && (snd x =? snd y))
                      (option_map (fun e => (d_id (e_desc e), e_handler e)) (first_reg n past)) r
       | Each, OEach l =>
           forallb (fun t => let '(n, d, h) := t in
                             match first_reg n past with
                             | Some e => (d_id (e_desc e) =? d) && (e_handler e =? h)
                             | None => false
                             end) l
           && (Z.of_nat (length l) =? Z.of_nat (length (final past)))
       | Info, OInfo l =>
           forallb (fun t => let '(n, ms, x) := t in
                             match first_reg n past with
                             | Some e => (d_meta (e_desc e) =? x) && list_eqb minfo_eqb (methods_info (e_desc e)) ms
                             | None => false
                             end) l
           && (Z.of_nat (length l) =? Z.of_nat (length (final past)))
       | _, _ => false
       end) && oracle_walk (past ++ [o]) ops' obs'
  | _, _ => false
  end.

Definition oracle_case (k : case) : bool :=
  match k with Hist _ ops obs => oracle_walk [] ops obs end.
