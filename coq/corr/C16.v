From Coq Require Import ZArith String List Bool.
From Grpchan Require Import lib.Cases lib.Hex.
From Grpchan Require Export model.Intercept.
Import ListNotations.
Open Scope Z_scope.

(* interceptors as scripts, interpreted on both sides *)
Record script := { sc_tag : Z; sc_dreq : Z; sc_dctx : Z; sc_calls : Z; sc_dresp : Z; sc_fail : Z }.

Definition post (s : script) (o : outcome) : outcome :=
  if sc_fail s =? 0 then match o with Ok r => Ok (r + sc_dresp s) | Err c => Err c end else Err (sc_fail s).

Definition script_uint (s : script) : uint :=
  fun ctx req i h l =>
    let l1 := l ++ [Enter (sc_tag s) i ctx req] in
    if sc_calls s =? 0 then ((if sc_fail s =? 0 then Ok (sc_dresp s) else Err (sc_fail s)), l1 ++ [Leave (sc_tag s)])
    else let '(o1, l2) := h (ctx + sc_dctx s) (req + sc_dreq s) l1 in
         let '(o, l3) := if sc_calls s =? 1 then (o1, l2) else h (ctx + sc_dctx s) (req + sc_dreq s) l2 in
         (post s o, l3 ++ [Leave (sc_tag s)]).

Definition script_sint (s : script) : sint :=
  fun stream i h l =>
    let l1 := l ++ [Enter (sc_tag s) i stream 0] in
    if sc_calls s =? 0 then ((if sc_fail s =? 0 then Ok 0 else Err (sc_fail s)), l1 ++ [Leave (sc_tag s)])
    else let '(o1, l2) := h (stream + sc_dctx s) l1 in
         let '(o, l3) := if sc_calls s =? 1 then (o1, l2) else h (stream + sc_dctx s) l2 in
         ((if sc_fail s =? 0 then o else Err (sc_fail s)), l3 ++ [Leave (sc_tag s)]).

Inductive case :=
| UCase (carrier svc name : string) (transport : option script) (decor : list script) (* innermost first *)
        (ctx0 req : Z) (obs : outcome) (obs_log : list event)
| SCase (carrier svc name : string) (cs ss : bool) (transport : option script) (decor : list script)
        (stream0 : Z) (obs : outcome) (obs_log : list event)
      (* a stream handler that fails: hret > 0 a status code, -3 / -4 a bare context.Canceled / DeadlineExceeded value *)
| SRet (carrier svc name : string) (cs ss : bool) (transport : option script) (decor : list script)
       (stream0 hret : Z) (obs : outcome) (obs_log : list event).

Definition logging_method (name : string) : uhandler :=
  fun ctx req l => (Ok (req * 2 + ctx), l ++ [Handled name ctx req]).
Definition logging_stream_ret (name : string) (hret : Z) : shandler :=
  fun stream l => ((if hret =? 0 then Ok 0 else Err hret), l ++ [Handled name stream 0]).
Definition logging_stream (name : string) : shandler := logging_stream_ret name 0.

Definition info_eqb (a b : info) : bool :=
  String.eqb (i_method a) (i_method b) && Bool.eqb (i_cs a) (i_cs b) && Bool.eqb (i_ss a) (i_ss b).
Definition zl_eqb := list_eqb Z.eqb.
Definition event_eqb (a b : event) : bool :=
  match a, b with
  | Enter t i c r, Enter t' i' c' r' => (t =? t') && info_eqb i i' && (c =? c') && (r =? r')
  | Leave t, Leave t' => t =? t'
  | Handled n c r, Handled n' c' r' => String.eqb n n' && (c =? c') && (r =? r')
  | BaseCall m r o, BaseCall m' r' o' => String.eqb m m' && (r =? r') && zl_eqb o o'
  | ClientEnter t m r o g, ClientEnter t' m' r' o' g' => (t =? t') && String.eqb m m' && (r =? r') && zl_eqb o o' && Bool.eqb g g'
  | _, _ => false
  end.
Definition outcome_eqb (a b : outcome) : bool :=
  match a, b with Ok x, Ok y => x =? y | Err x, Err y => x =? y | _, _ => false end.

Definition run_unary svc name transport decor ctx0 req : outcome * log :=
  let d0 := {| sv_name := svc;
               sv_methods := [{| m_name := name; m_handler := generated_handler svc name (logging_method name) |}];
               sv_streams := []; sv_meta := 0 |} in
  let d := fold_left (fun d s => intercepted d (Some (script_uint s)) None) decor d0 in
  match sv_methods d with
  | m :: _ => m_handler m (option_map script_uint transport) ctx0 req []
  | [] => (Err (-1), [])
  end.

Definition run_stream_ret svc name cs ss transport decor stream0 hret : outcome * log :=
  let d0 := {| sv_name := svc; sv_methods := [];
               sv_streams := [{| s_name := name; s_cs := cs; s_ss := ss; s_handler := logging_stream_ret name hret |}]; sv_meta := 0 |} in
  let d := fold_left (fun d s => intercepted d None (Some (script_sint s))) decor d0 in
  match sv_streams d with
  | x :: _ => dispatch_stream svc x (option_map script_sint transport) stream0 []
  | [] => (Err (-1), [])
  end.

Definition run_stream svc name cs ss transport decor stream0 := run_stream_ret svc name cs ss transport decor stream0 0.

Definition check_case (k : case) : bool :=
  match k with
  | SRet _ svc name cs ss t dec s hret obs ol =>
      let '(o, l) := run_stream_ret svc name cs ss t dec s hret in outcome_eqb o obs && list_eqb event_eqb l ol
  | UCase _ svc name t dec c r obs ol =>
      let '(o, l) := run_unary svc name t dec c r in outcome_eqb o obs && list_eqb event_eqb l ol
  | SCase _ svc name cs ss t dec s obs ol =>
      let '(o, l) := run_stream svc name cs ss t dec s in outcome_eqb o obs && list_eqb event_eqb l ol
  end.

(* the property on the observation alone *)
Definition transparent (s : script) : bool :=
  (sc_dreq s =? 0) && (sc_dctx s =? 0) && (sc_calls s =? 1) && (sc_dresp s =? 0) && (sc_fail s =? 0).

Definition info_ok (want : info) (l : log) : bool :=
  forallb (fun e => match e with Enter _ i _ _ => info_eqb i want | _ => true end) l.

(* the observation must be what THE SPECIFICATION of dispatch gives for these scripts *)
Definition oracle_case (k : case) : bool :=
  match k with
  | UCase _ svc name t dec c r obs ol =>
      let want := {| i_method := full_method svc name; i_cs := false; i_ss := false |} in
      let chain := opt_list t ++ rev dec in      (* transport first, outermost decoration next *)
      let '(o, l) := spec_chain (map script_uint chain) want (logging_method name) c r [] in
      info_ok want ol && outcome_eqb o obs && list_eqb event_eqb l ol
  | SCase _ svc name cs ss t dec s0 obs ol =>
      let want := {| i_method := full_method svc name; i_cs := cs; i_ss := ss |} in
      let chain := opt_list t ++ rev dec in
      let '(o, l) := spec_schain (map script_sint chain) want (logging_stream name) s0 [] in
      info_ok want ol && outcome_eqb o obs && list_eqb event_eqb l ol
  | SRet _ svc name cs ss t dec s0 hret obs ol =>
      (* the handler's error reaches every interceptor, and the dispatcher, as the value it is *)
      let want := {| i_method := full_method svc name; i_cs := cs; i_ss := ss |} in
      let chain := opt_list t ++ rev dec in
      let '(o, l) := spec_schain (map script_sint chain) want (logging_stream_ret name hret) s0 [] in
      info_ok want ol && outcome_eqb o obs && list_eqb event_eqb l ol
  end.
