From Coq Require Import ZArith String List Bool.
From Grpchan Require Import lib.Cases lib.Hex.
From Grpchan Require Export model.Plugin.
Import ListNotations.
Open Scope Z_scope.

(* what the harness extracted from the AST of the file the plugin binary emitted *)
Record obs_stub := { ob_path : string; ob_shape : Z (* 0 unary, 1 server-stream, 2 client/bidi *);
                     ob_index : option Z; ob_desc : string (* description var the Streams index refers to *) }.
Record obs_svc := { ob_register : string; ob_reg_desc : string; ob_stubs : list obs_stub }.

Inductive case :=
| Gen (legacy_stubs legacy_names : bool) (svcs : list service) (valid_go : bool) (obs : list obs_svc)
| Regen (identical : bool).   (* regenerating the checked-in stubs reproduces them byte for byte *)

Definition shape_code (s : shape) : Z := match s with Unary => 0 | ServerStream => 1 | ClientOrBidi => 2 end.

Definition stub_eqb (desc : string) (m : stub) (o : obs_stub) : bool :=
  String.eqb (st_path m) (ob_path o) && (shape_code (st_shape m) =? ob_shape o) &&
  option_eqb Z.eqb (st_index m) (ob_index o) &&
  match st_index m with Some _ => String.eqb (ob_desc o) desc | None => true end.

Definition svc_eqb (m : svc_out) (o : obs_svc) : bool :=
  String.eqb (o_register m) (ob_register o) && String.eqb (o_desc m) (ob_reg_desc o) &&
  list_eqb2 (stub_eqb (o_desc m)) (o_stubs m) (ob_stubs o).

Definition check_case (k : case) : bool :=
  match k with
  | Gen ls ln svcs valid obs =>
      valid && match svcs with
               | [] => match obs with [] => true | _ => false end   (* no services: no file *)
               | _ => list_eqb2 svc_eqb (gen_file ls ln svcs) obs
               end
  | Regen identical => identical
  end.

(* the property on the observation: stated with the SPECIFICATION (position among the streaming
   methods), not with the generator's counter *)
Fixpoint count_streaming_before (ms : list method) (k : nat) : Z :=
  match ms, k with
  | _, O => 0
  | [], _ => 0
  | m :: rest, S k' => (if streaming m then 1 else 0) + count_streaming_before rest k'
  end.

Fixpoint stubs_ok (fq desc : string) (all : list method) (k : nat) (ms : list method) (obs : list obs_stub) : bool :=
  match ms, obs with
  | [], [] => true
  | m :: ms', o :: obs' =>
      String.eqb (ob_path o) (path_of fq (me_name m)) &&
      (ob_shape o =? (if me_cs m then 2 else if me_ss m then 1 else 0)) &&
      (if streaming m
       then option_eqb Z.eqb (ob_index o) (Some (count_streaming_before all k)) && String.eqb (ob_desc o) desc
       else match ob_index o with None => true | Some _ => false end) &&
      stubs_ok fq desc all (S k) ms' obs'
  | _, _ => false
  end.

Fixpoint svcs_ok (ls ln : bool) (svcs : list service) (obs : list obs_svc) : bool :=
  match svcs, obs with
  | [], [] => true
  | s :: svcs', o :: obs' =>
      String.eqb (ob_register o) ("RegisterHandler" ++ sv_go s) &&
      String.eqb (ob_reg_desc o) (desc_var ln (sv_go s)) &&
      (if ls then stubs_ok (sv_fq s) (desc_var ln (sv_go s)) (sv_ms s) 0 (sv_ms s) (ob_stubs o)
       else match ob_stubs o with [] => true | _ => false end) &&
      svcs_ok ls ln svcs' obs'
  | _, _ => false
  end.

Definition oracle_case (k : case) : bool :=
  match k with
  | Gen ls ln svcs valid obs => valid && match svcs with [] => match obs with [] => true | _ => false end | _ => svcs_ok ls ln svcs obs end
  | Regen identical => identical
  end.
