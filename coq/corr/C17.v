From Coq Require Import ZArith String List Bool.
From Grpchan Require Import lib.Cases lib.Hex.
From Grpchan Require Export model.Intercept.
From Grpchan Require Import corr.C16.
Import ListNotations.
Open Scope Z_scope.

(* client interceptor scripts: add to the request, append an option, call onward 0/1/2 times *)
Record cscript := { cs_tag : Z; cs_dreq : Z; cs_opt : Z (* 0 = none *); cs_calls : Z; cs_dresp : Z; cs_fail : Z;
                    cs_cc : Z (* connection argument handed onward: 0 its own, 1 nil, 2 another connection; ignored by the library *) }.

Definition script_cint (s : cscript) : ucint :=
  fun m req cc next opts l =>
    let l1 := l ++ [ClientEnter (cs_tag s) m req opts cc] in
    let opts' := if cs_opt s =? 0 then opts else opts ++ [cs_opt s] in
    if cs_calls s =? 0 then ((if cs_fail s =? 0 then Ok (cs_dresp s) else Err (cs_fail s)), l1)
    else let '(o1, l2) := next m (req + cs_dreq s) opts' l1 in
         let '(o, l3) := if cs_calls s =? 1 then (o1, l2) else next m (req + cs_dreq s) opts' l2 in
         ((if cs_fail s =? 0 then match o with Ok r => Ok (r + cs_dresp s) | Err c => Err c end else Err (cs_fail s)), l3).

(* layers outermost first; each with optional unary and stream scripts *)
Inductive case :=
| CCase (stream : bool) (layers : list (option cscript * option cscript)) (base_grpc : bool) (base_tag : Z)
        (method : string) (req : Z) (opts : list Z) (obs : outcome) (obs_log : list event)
        (ident_ok : bool). (* nil/nil layers returned the same channel; Unwrap of every wrapper returned the wrapped one *)

Fixpoint build (layers : list (option cscript * option cscript)) (base : chan) : chan :=
  match layers with
  | [] => base
  | (u, s) :: rest => intercept_client (build rest base) (option_map script_cint u) (option_map script_cint s)
  end.

Definition check_case (k : case) : bool :=
  match k with
  | CCase stream layers g tag m req opts obs ol ident =>
      let c := build layers (Base g tag) in
      let '(o, l) := (if stream then new_stream c else invoke c) m req opts [] in
      outcome_eqb o obs && list_eqb event_eqb l ol && ident
  end.

Definition ctransparent (s : cscript) : bool :=
  (cs_dreq s =? 0) && (cs_opt s =? 0) && (cs_calls s =? 1) && (cs_dresp s =? 0) && (cs_fail s =? 0).

Definition oracle_case (k : case) : bool :=
  match k with
  | CCase stream layers g tag m req opts obs ol ident =>
      let sel := fun (x : option cscript * option cscript) => if stream then snd x else fst x in
      let chain := flat_map (fun x => opt_list (sel x)) layers in
      ident &&
      (* the connection argument is the base's at every layer *)
      forallb (fun e => match e with ClientEnter _ _ _ _ cc => Bool.eqb cc g | _ => true end) ol &&
      (* what the outermost interceptor returns is what the caller gets, as it is (a bare context error
         stays a bare context error) *)
      (match chain with
       | s :: _ => if cs_fail s =? 0 then true else outcome_eqb obs (Err (cs_fail s))
       | [] => true
       end) &&
      (if forallb ctransparent chain then
         outcome_eqb obs (Ok (req + tag)) &&
         list_eqb event_eqb ol (map (fun s => ClientEnter (cs_tag s) m req opts g) chain ++ [BaseCall m req opts])
       else true)
  end.
