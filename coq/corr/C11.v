From Coq Require Import ZArith String List Bool.
From Grpchan Require Import lib.Cases lib.Hex gen.Wire gen.Codes model.StatusHttp.
From Grpchan Require Export model.HttpGate.
Import ListNotations.
Open Scope Z_scope.

Inductive case :=
| UReq (r : req) (hcode : Z) (obs : ureply) (panicked : bool)
| SReq (r : req) (nsend : Z) (hcode : Z) (obs_status : Z) (obs_allow : bool) (obs_calls : Z)
       (obs_data obs_trailers : Z) (trailer_last : bool) (trailer_code : Z) (panicked : bool)
| NotFoundCase (status : Z) (calls : Z)    (* unknown path through the server's mux *)
      (* a streaming request body of [want] well-formed frames followed by a well-formed end (ok) or by a
         malformed frame, read to the end by the handler: messages received, HTTP status, trailer code *)
| SBody (ok : bool) (want seen : Z) (status : Z) (trailer_code : Z)
      (* a comparison made on the Go side (replies of overlapping calls) *)
| GoSide (what : string) (ok : bool).

Definition oz_eqb := option_eqb Z.eqb.

Definition check_case (k : case) : bool :=
  match k with
  | UReq r h o p =>
      let m := handle_method r h in
      negb p && (u_status m =? u_status o) && Bool.eqb (u_allow_post m) (u_allow_post o) &&
      (u_user_calls m =? u_user_calls o) && oz_eqb (u_grpc_code m) (u_grpc_code o) &&
      Bool.eqb (u_echo_ctype m) (u_echo_ctype o)
  | SReq r n h st al calls nd nt tl tc p =>
      let m := handle_stream r (Z.to_nat n) h in
      negb p && (s_status m =? st) && Bool.eqb (s_allow_post m) al && (s_user_calls m =? calls) &&
      match s_frames m with
      | [] => (nd =? 0) && (nt =? 0)
      | fs => (nd =? n) && (nt =? 1) && tl &&
              match last fs Data with Trailer c => tc =? c | Data => false end
      end
  | NotFoundCase st calls => (st =? 404) && (calls =? 0)
  | SBody ok want seen st tc => (st =? 200) && (seen =? want) && (if ok then tc =? 0 else negb (tc =? 0) && (0 <? tc))
  | GoSide _ ok => ok
  end.

(* the property on the observation, from the request alone *)
Definition oracle_case (k : case) : bool :=
  match k with
  | UReq r h o p =>
      negb p && (0 <=? u_user_calls o) && (u_user_calls o <=? 1) &&
      (if u_user_calls o =? 1 then valid_unary r && body_ok r else true) &&
      (if negb (is_post r) then (u_status o =? 405) && u_allow_post o
       else if negb (valid_unary r) then ((u_status o =? 415) || (u_status o =? 400)) && (u_user_calls o =? 0)
       else if negb (body_ok r) then oz_eqb (u_grpc_code o) (Some 3) && (400 <=? u_status o) && (u_user_calls o =? 0)
       else (u_user_calls o =? 1) && (if h =? 0 then u_status o =? 200 else (400 <=? u_status o) || (u_status o =? 499)))
  | SReq r n h st al calls nd nt tl tc p =>
      negb p && (0 <=? calls) && (calls <=? 1) &&
      (if calls =? 1 then valid_stream r else true) &&
      (if negb (is_post r) then (st =? 405) && al
       else if negb (valid_stream r) then ((st =? 415) || (st =? 400)) && (calls =? 0)
       else (calls =? 1) && (st =? 200) && (nt =? 1) && tl && (nd =? n) &&
            (tc =? (if h =? 0 then 0 else if h =? 0 then 13 else h)))
  | NotFoundCase st calls => (st =? 404) && (calls =? 0)
  | SBody ok want seen st tc => (seen <=? want) && (if ok then (tc =? 0) && (seen =? want) else 0 <? tc)
  | GoSide _ ok => ok
  end.
