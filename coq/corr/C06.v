From Coq Require Import ZArith String List Bool.
From Grpchan Require Import lib.Cases lib.Hex.
From Grpchan Require Export model.LateRead.
From Grpchan Require model.LateWrite.
Import ListNotations.
Open Scope Z_scope.

(* cloner configurations: 0 default, 1 codec, 2 clone-func, 3 copy-func *)
Inductive case :=
| Iso (cloner : Z) (what : string) (dyn : bool) (isolated overwritten : bool)
      (* the mutation probe in both directions and the overwrite check, made on the real objects *)
| Late (cloner : Z) (cancelled : bool) (read_after_return : bool)
      (* a unary call abandoned by its caller (context cancelled while the handler runs) whose handler
         answers later all the same: was the caller's response message written after Invoke returned *)
| LateWrite (cloner : Z) (returned_error : bool) (written_after_return : bool).

(* sharing is predicted by the cloner model only for dynamic messages with the non-codec strategies (F22) *)
Definition check_case (k : case) : bool :=
  match k with
  | Iso c _ dyn iso ow => (if dyn && negb (c =? 1) then true else iso) && ow
  | Late _ cancelled late => if cancelled then true else negb late
  | LateWrite _ err written =>
      (* the observed event trace of the call must be one the LTS of model/LateWrite.v can produce *)
      err && Grpchan.model.LateWrite.possible 8 Grpchan.model.LateWrite.init
               (if written then [Grpchan.model.LateWrite.Ret; Grpchan.model.LateWrite.WriteResp]
                else [Grpchan.model.LateWrite.Ret])
  end.

Definition oracle_case (k : case) : bool :=
  match k with
  | Iso c _ dyn iso ow => (iso || (dyn && negb (c =? 1))) && ow
  | Late _ cancelled late => negb late || cancelled
  | LateWrite _ _ written => negb written
  end.

Definition finding_case (k : case) : option string :=
  match k with
  | Iso c _ true false _ => if negb (c =? 1) then Some "F22"%string else None
  | Late _ true true => Some "F13"%string
  | _ => None
  end.
