From Coq Require Import ZArith String Ascii List Bool.
From Grpchan Require Import lib.Cases lib.Hex lib.Str.
From Grpchan Require Export model.Routing.
Import ListNotations.
Open Scope Z_scope.
Open Scope string_scope.

Inductive obs := ORun (service method : string) | OCode (c : Z) | OPanic.

Inductive case :=
| Inproc (reg : registry) (unary : bool) (name : string) (o : obs)
| Http (carrier : string) (server_base client_base : string) (reg : registry) (unary : bool) (name : string) (o : obs)
| JoinCase (base name : string) (got : string).   (* path.Join itself, against the model of it *)

Definition obs_eqb (a b : obs) : bool :=
  match a, b with
  | ORun s m, ORun s' m' => String.eqb s s' && String.eqb m m'
  | OCode c, OCode c' => (c =? c')%Z
  | OPanic, OPanic => true
  | _, _ => false
  end.

Definition check_case (k : case) : bool :=
  match k with
  | Inproc reg unary name o =>
      obs_eqb o match route_inproc reg unary name with
                | Run s m => ORun s m
                | Unimplemented => OCode 12
                | PanicIdx => OPanic
                end
  | Http _ sb cb reg unary name o =>
      obs_eqb o match route_http sb cb reg unary name with
                | HRun s m => ORun s m
                | HKindMismatch => OCode 3      (* 415 Unsupported Media Type -> InvalidArgument *)
                | HNotFound => OCode 5
                end
  | JoinCase base name got => String.eqb (join base name) got
  end.

Definition registered (reg : registry) (unary : bool) (s m : string) : bool :=
  match find_svc s reg with
  | Some sv => str_mem m (if unary then r_unary sv else r_streams sv)
  | None => false
  end.

Definition own_name (name s m : string) : bool :=
  String.eqb name ("/" ++ s ++ "/" ++ m) || String.eqb name (s ++ "/" ++ m).

(* does the name denote a registered method of the right kind? *)
Definition denotes (reg : registry) (unary : bool) (name : string) : option (string * string) :=
  let fix go (r : registry) :=
    match r with
    | [] => None
    | sv :: r' =>
        match find (fun m => own_name name (r_name sv) m) (if unary then r_unary sv else r_streams sv) with
        | Some m => Some (r_name sv, m)
        | None => go r'
        end
    end in go reg.

(* the property on the observation.  Over HTTP a handler reached through a name that is not its
   own (empty or dot segments normalised away) is the known finding F17, reported separately. *)
Definition oracle_case (k : case) : bool :=
  match k with
  | Inproc reg unary name o =>
      match o with
      | OPanic => false
      | ORun s m => own_name name s m && registered reg unary s m
      | OCode c => negb (c =? 0)%Z &&
                   match denotes reg unary name with
                   | Some _ => false                 (* a registered name must run its handler *)
                   | None => true
                   end
      end
  | Http _ sb cb reg unary name o =>
      match o with
      | OPanic => false
      | ORun s m => registered reg unary s m   (* own_name is checked by finding_case *)
      | OCode c => negb (c =? 0)%Z &&
                   (if String.eqb sb cb
                    then match denotes reg unary name with Some _ => false | None => true end
                    else true)
      end
  | JoinCase _ _ _ => true
  end.

Definition finding_case (k : case) : option string :=
  match k with
  | Http _ sb cb reg unary name (ORun s m) =>
      if own_name name s m then None else Some "F17"
  | _ => None
  end.
