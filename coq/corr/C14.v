(* Correspondence for C14: the model's prediction against what /repo did. *)
From Coq Require Import ZArith String List Bool.
From Grpchan Require Import lib.Cases lib.Dec gen.Codes model.StatusHttp.
From Grpchan Require model.UnaryMeta.   (* case terms name UnaryMeta.agrees *)
Import ListNotations.
Open Scope Z_scope.

Inductive case :=
| HttpOfCode (c obs : Z)                       (* httpStatusFromCode c = obs *)
| CodeOfHttp (s obs : Z)                       (* codeFromHttpStatus s = obs *)
| Render (c : Z) (ended : bool) (obs_http : Z) (obs_hdr : string)
                                               (* real server, default renderer: HTTP status and the code part of X-GRPC-Status *)
| Client (hs : Z) (hdr : option string) (obs : Z)
                                               (* real client on a synthetic reply: resulting code *)
| Agrees (what : string) (ok : bool)           (* a comparison evaluated in the case file: UnaryMeta.agrees on a real reply *)
| EndToEnd (c : Z) (renderer_http : Z) (obs : Z). (* handler returns c, renderer writes renderer_http (0 = default), client sees obs *)

Definition check_case (k : case) : bool :=
  match k with
  | HttpOfCode c obs => http_of_code c =? obs
  | CodeOfHttp s obs => code_of_http s =? obs
  | Render c ended oh ohdr =>
      (renderer_status (server_err_code c) ended =? oh) && String.eqb (status_header_code c) ohdr
  | Client hs hdr obs => client_code hs hdr =? obs
  | Agrees _ ok => ok
  | EndToEnd c rh obs =>
      client_code (if rh =? 0 then renderer_status (server_err_code c) false else rh)
                  (Some (status_header_code c)) =? obs
  end.

(* the property's own oracle, on the observations alone *)
Definition oracle_case (k : case) : bool :=
  match k with
  | HttpOfCode c obs =>
      (if c =? 0 then true else (400 <=? obs) && (obs <? 600)) &&
      match doc_status c with
      | Some h => obs =? h
      | None => (c =? 0) || (obs =? 500)
      end
  | CodeOfHttp s obs => Bool.eqb (obs =? 0) ((200 <=? s) && (s <? 300))
  | Render c ended oh _ =>
      let c' := server_err_code c in
      if ended && starred c' then oh =? 499
      else match doc_status c' with
           | Some h => oh =? h
           | None => oh =? 500
           end
  | Agrees _ ok => ok
  | Client hs None obs => Bool.eqb (obs =? 0) ((200 <=? hs) && (hs <? 300))
  | Client _ (Some h) obs =>
      (* a status header that names one of the defined failure codes in its canonical spelling decides the code,
         whatever else is wrong with the reply *)
      forallb (fun c => negb (String.eqb (status_header_code c) h) || (obs =? c))
              [1;2;3;4;5;6;7;8;9;10;11;12;13;14;15;16]
  | EndToEnd c _ obs => obs =? (if c =? 0 then 13 else c)
  end.
