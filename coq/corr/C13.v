From Coq Require Import ZArith String List Bool.
From Grpchan Require Import lib.Cases lib.Hex lib.Str.
From Grpchan Require Export model.Creds.
Import ListNotations.
Open Scope Z_scope.

Record obs := { o_failed : bool; o_requests : Z (* -1: not observable (in-process) *);
                o_handler_md : option md (* restricted to the caller's and credential's keys *);
                o_peer_addr : option string (* the grpc.Peer option, if requested *);
                o_peer_auth : bool; o_handler_peer_auth : bool; o_handler_peer_addr_set : bool }.

Inductive case :=
| CallCase (transport : string) (https inproc stream : bool) (c : option cred) (out : option md)
           (want_peer : bool) (host : string) (has_port : bool) (o : obs).

Definition md_eqb (a b : md) : bool :=
  list_eqb (fun x y => String.eqb (fst x) (fst y) && list_eqb String.eqb (snd x) (snd y)) a b.

Fixpoint ins_md (x : string * list string) (l : md) : md :=
  match l with
  | [] => [x]
  | y :: r => if String.leb (fst x) (fst y) then x :: l else y :: ins_md x r
  end.
Definition sort_md (m : md) : md := fold_right ins_md [] m.
Definition nonempty (m : option md) : option md := match m with Some [] => None | Some x => Some (sort_md x) | None => None end.

Definition check_case (k : case) : bool :=
  match k with
  | CallCase _ https inproc stream c out want host has_port o =>
      let r := call https inproc c out in
      Bool.eqb (failed r) (o_failed o) &&
      ((o_requests o =? -1) || (o_requests o =? requests r)) &&
      (if failed r then true else option_eqb md_eqb (nonempty (handler_md r)) (nonempty (o_handler_md o))) &&
      (if failed r || negb want then true
       else if inproc then true
       else option_eqb String.eqb (Some (peer_addr host has_port https)) (o_peer_addr o) &&
            Bool.eqb (peer_has_auth https) (o_peer_auth o)) &&
      (if failed r || inproc then true else Bool.eqb (peer_has_auth https) (o_handler_peer_auth o) && o_handler_peer_addr_set o)
  end.

Definition keys_of (m : option md) : list string := match m with Some l => map fst l | None => [] end.

(* the property on the observation *)
Definition oracle_case (k : case) : bool :=
  match k with
  | CallCase _ https inproc stream c out want host has_port o =>
      let secure := inproc || https in
      match c with
      | Some cr =>
          if require_secure cr && negb secure
          then o_failed o && ((o_requests o =? 0) || (o_requests o =? -1))     (* fails before any request *)
          else match cred_md cr with
               | None => o_failed o && ((o_requests o =? 0) || (o_requests o =? -1))
               | Some m =>
                   negb (o_failed o) &&
                   forallb (fun key => list_eqb String.eqb
                                         (md_get key (match o_handler_md o with Some h => h | None => [] end))
                                         (md_get key (match out with Some x => x | None => [] end) ++ md_get key m))
                           (keys_of out ++ map fst m)
               end
      | None =>
          negb (o_failed o) &&
          forallb (fun key => list_eqb String.eqb
                                (md_get key (match o_handler_md o with Some h => h | None => [] end))
                                (md_get key (match out with Some x => x | None => [] end)))
                  (keys_of out)
      end &&
      (if o_failed o || inproc then true
       else Bool.eqb https (o_handler_peer_auth o) && o_handler_peer_addr_set o &&
            (if want then Bool.eqb https (o_peer_auth o) &&
                          (* the remote address: the URL's host and port, the scheme's default port when it names none *)
                          match o_peer_addr o with
                          | Some a => String.eqb a (if has_port then host else (host ++ (if https then ":443" else ":80"))%string)
                          | None => false
                          end
             else true))
  end.
