From Coq Require Import ZArith String List Bool.
From Grpchan Require Import lib.Cases lib.Hex gen.Inproc.
From Grpchan Require Export corr.Stream.
Import ListNotations.
Open Scope Z_scope.

(* the property on the trace: at every settled point, per direction, sends that returned nil
   exceed the messages the peer has received by at most one buffered message (plus the one data
   frame a client Header() call may have peeked, in the response direction) *)
Definition header_called (c : list (actor * op * res)) : bool :=
  existsb (fun t => match t with (_, CHeader, _) => true | _ => false end) c.

Definition recv_started (rounds : list round) : bool :=
  existsb (fun ao => match ao with (_, CRecv) => true | _ => false end) (started rounds).

(* frames the client's LIBRARY may hold besides the messages it has delivered: the one frame a
   Header() call peeks, and on a single-response method the two frames a receive consumes (the
   response and the probe for the end of the stream) *)
(* did the handler have headers pending when it first sent a message?  Then the first frame is the
   header frame and that is what a Header() call takes; otherwise the first frame is a message *)
Fixpoint headers_before_first_send (c : list (actor * op * res)) : bool :=
  match c with
  | [] => false
  | (_, HSend _, _) :: _ => false
  | (_, HSetHeader (_ :: _), RNil) :: _ => true
  | (_, HSendHeader (_ :: _), RNil) :: _ => true
  | _ :: r => headers_before_first_send r
  end.

(* Header() looks at the channel once: the first call, when no header frame has been seen, may take a
   message off and keep it until the next receive hands it over; later calls return what is known.
   0: no Header() call yet; 1: the first call has been made and no message delivered since; 2: after that *)
Fixpoint peek_state (c : list (actor * op * res)) (st : nat) : nat :=
  match c with
  | [] => st
  | (_, CHeader, _) :: r => peek_state r (match st with O => 1%nat | _ => st end)
  | (_, CRecv, RMsg _) :: r => peek_state r (match st with S O => 2%nat | _ => st end)
  | _ :: r => peek_state r st
  end.

Definition client_slack (resp_stream : bool) (rounds : list round) : Z :=
  (if negb (headers_before_first_send (completed rounds)) && Nat.eqb (peek_state (completed rounds) 0) 1 then 1 else 0) +
  (if negb resp_stream && recv_started rounds then 2 else 0).

Definition bound_ok (resp_stream : bool) (rounds : list round) : bool :=
  let c := completed rounds in
  (Z.of_nat (length (client_sent_ok c)) - Z.of_nat (length (handler_got c)) <=? 1) &&
  (Z.of_nat (length (handler_sent_ok c)) - Z.of_nat (length (client_got c)) <=? 1 + client_slack resp_stream rounds).

(* which actors have an operation in flight at the end of a trace *)
Fixpoint busy_after (rounds : list round) (busy : list actor) : list actor :=
  match rounds with
  | [] => busy
  | r :: rest =>
      let b1 := match r_start r with Call a _ => a :: busy | _ => busy end in
      busy_after rest (filter (fun a => negb (existsb (fun ar => actor_eqb (fst ar) a) (r_rets r))) b1)
  end.

(* a blocked send is released when the peer finishes or the context ends: at no settled point after
   the handler function returned, or after the context ended, is a client send still in flight *)
Definition released_ok (rounds : list round) : bool :=
  let handler_returned := existsb (fun ao => match ao with (_, HReturn _) => true | _ => false end) (started rounds) in
  if handler_returned || ctx_ended rounds
  then negb (existsb (fun a => match a with CS => true | _ => false end) (busy_after rounds []))
  else true.

Definition oracle_case (k : case) : bool :=
  match k with
  | Sched _ rs rounds p _ => negb p && forallb (fun pre => bound_ok rs pre && released_ok pre) (prefixes rounds)
  | GoChecked _ _ ok => ok
  | Http _ => true
  end.
