From Coq Require Import ZArith String List Bool.
From Grpchan Require Import lib.Cases lib.Hex gen.Inproc.
From Grpchan Require Export corr.Stream.
Import ListNotations.
Open Scope Z_scope.

(* the property on the trace: at every settled point, per direction, sends that returned nil
   exceed the messages the peer has received by at most one buffered message (plus the one data
   frame a client Header() call may have peeked, in the response direction) *)
Definition header_called (c : list (actor * op * res)) : bool :=
  existsb (fun t => match t with (_, CHeader, _) => true | _ => false end) c.

Definition recv_started (rounds : list round) : bool :=
  existsb (fun ao => match ao with (_, CRecv) => true | _ => false end) (started rounds).

(* frames the client's LIBRARY may hold besides the messages it has delivered: the one frame a
   Header() call peeks, and on a single-response method the two frames a receive consumes (the
   response and the probe for the end of the stream) *)
(* did the handler have headers pending when it first sent a message?  Then the first frame is the
   header frame and that is what a Header() call takes; otherwise the first frame is a message *)
Fixpoint headers_before_first_send (c : list (actor * op * res)) : bool :=
  match c with
  | [] => false
  | (_, HSend _, _) :: _ => false
  | (_, HSetHeader (_ :: _), RNil) :: _ => true
  | (_, HSendHeader (_ :: _), RNil) :: _ => true
  | _ :: r => headers_before_first_send r
  end.

Definition client_slack (resp_stream : bool) (rounds : list round) : Z :=
  (if header_called (completed rounds) && negb (headers_before_first_send (completed rounds)) then 1 else 0) +
  (if negb resp_stream && recv_started rounds then 2 else 0).

Definition bound_ok (resp_stream : bool) (rounds : list round) : bool :=
  let c := completed rounds in
  (Z.of_nat (length (client_sent_ok c)) - Z.of_nat (length (handler_got c)) <=? 1) &&
  (Z.of_nat (length (handler_sent_ok c)) - Z.of_nat (length (client_got c)) <=? 1 + client_slack resp_stream rounds).

Definition oracle_case (k : case) : bool :=
  match k with Sched _ rs rounds p _ => negb p && forallb (bound_ok rs) (prefixes rounds) | GoChecked _ _ ok => ok end.
