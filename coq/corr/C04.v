From Coq Require Import ZArith String List Bool.
From Grpchan Require Import lib.Cases lib.Hex.
From Grpchan Require Export corr.Script.
From Grpchan Require corr.Stream model.InprocStream.
From Grpchan Require Export model.HttpUnary.   (* case files evaluate HttpUnary.possible on observed outcomes *)
Import ListNotations.
Open Scope Z_scope.

(* rounds before and after the context ended *)
Fixpoint split_at_end (rounds : list Stream.round) (before : list Stream.round) : list Stream.round * list Stream.round * Z :=
  match rounds with
  | [] => (before, [], 0)
  | r :: rest => match Stream.r_start r with
                 | InprocStream.Cancel => (before, r :: rest, 1)
                 | InprocStream.Deadline => (before, r :: rest, 4)
                 | _ => split_at_end rest (before ++ [r])
                 end
  end.

(* every receive that returns after the context ended returns the matching status (or the call's
   real final status), never io.EOF short of the complete result, never a raw context error; one
   message that Header() had already taken off before the end may still be delivered; handler-side
   receives fail and the handler's context error is reported with the matching code *)
Definition lts_cancel_ok (c : Stream.case) : bool :=
  match c with
  | Stream.Sched _ _ rounds p _ =>
      negb p &&
      (* no receive ever returns a bare context error, cancelled call or not: a handler that fails with
         one (return codes -3, -4: the error value of some context of its own) is reported with the
         matching status *)
      forallb (fun t => match t with (_, InprocStream.CRecv, InprocStream.RCtx _) => false | _ => true end) (Stream.completed rounds) &&
      let '(before, after, code) := split_at_end rounds [] in
      if code =? 0 then
        match flat_map (fun ao => match ao with (_, InprocStream.HReturn c) => [c] | _ => [] end) (Stream.started rounds) with
        | [c] => if (c =? -3) || (c =? -4)
                 then forallb (fun t => match t with
                                        | (_, InprocStream.CRecv, InprocStream.RStatus s) => (s =? (if c =? -3 then 1 else 4)) || (s =? 13)
                                        | (_, InprocStream.CRecv, InprocStream.REOF) => false
                                        | _ => true
                                        end) (Stream.completed rounds)
                 else true
        | _ => true
        end
      else
        let peeked := existsb (fun t => match t with (_, InprocStream.CHeader, _) => true | _ => false end) (Stream.completed before) in
        let ret := flat_map (fun ao => match ao with (_, InprocStream.HReturn c) => [c] | _ => [] end) (Stream.started rounds) in
        let late := flat_map Stream.r_rets after in
        (* pair late returns with their operations using the whole trace *)
        let all := Stream.completed rounds in
        let nb := length (Stream.completed before) in
        let late_ops := skipn nb all in
        forallb (fun t => match t with
                          | (_, InprocStream.CRecv, InprocStream.RStatus s) =>
                              (s =? code) || match ret with [c] => (s =? (if c =? -1 then 2 else if c =? -2 then code else if c =? -3 then 1 else if c =? -4 then 4 else c)) || (s =? 13) | _ => s =? 13 end
                          | (_, InprocStream.CRecv, InprocStream.RMsg _) => peeked
                          | (_, InprocStream.CRecv, InprocStream.REOF) => false
                          | (_, InprocStream.CRecv, _) => false
                          | (_, InprocStream.HRecv, InprocStream.RMsg _) => false
                          | (_, InprocStream.HRecv, InprocStream.REOF) => false
                          | _ => true
                          end) late_ops
  | Stream.GoChecked _ _ ok => ok
  | Stream.Http c => HttpSched.oracle_case c
  end.

Definition oracle_case (k : case) : bool :=
  match k with
  | Lts c => lts_cancel_ok c
  | HLts c => HttpSched.oracle_case c
  | Checked _ _ ok => ok
  | _ => true
  end.

(* a probe made on the Go side that reproduces a known finding (F24: over HTTP a handler that has not read
   its request to the end is not told of the caller's cancellation) *)
Definition is_finding_kind (k : string) : bool := String.eqb k "F24".

Definition check_c04 (k : case) : bool :=
  match k with
  | Checked kind _ ok => if is_finding_kind kind then true else ok
  | _ => check_case k
  end.

Definition oracle_c04 (k : case) : bool :=
  match k with
  | Checked kind _ ok => if is_finding_kind kind then true else ok
  | _ => oracle_case k
  end.

Definition finding_c04 (k : case) : option string :=
  match k with
  | Checked kind _ false => if is_finding_kind kind then Some kind else None
  | _ => None
  end.
