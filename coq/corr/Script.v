(* Cooperative scripts on both transports against the sequential content model, plus the
   in-process schedules (corr/Stream.v) -- shared by C02, C03, C08 and C04. *)
From Coq Require Import ZArith String List Bool.
From Grpchan Require Import lib.Cases lib.Hex.
From Grpchan Require Export model.StreamSeq.
From Grpchan Require corr.Stream corr.HttpSched.
Import ListNotations.
Open Scope Z_scope.

Record sobs := {
  o_acks : list bool;          (* which handler operations returned nil *)
  o_msgs : list Z; o_fin : fin;
  o_hdr : md; o_tlr : md;      (* Header() / Trailer() at the end *)
  o_hdr_early : md;            (* Header() asked before the first RecvMsg (equal to o_hdr when not asked) *)
  o_opts_ok : bool             (* every grpc.Header / grpc.Trailer call-option target, duplicates included, got the same metadata *)
}.

Inductive case :=
| Script (http : bool) (header_first : bool) (script : list hop) (code : Z) (o : sobs)
| Single (http : bool) (script : list hop) (code : Z) (res : single) (tlr : md)
| Lts (c : Stream.case)
| HLts (c : HttpSched.case)        (* a schedule of the HTTP client stream against a scripted transport *)
| Checked (kind : string) (id : Z) (ok : bool)   (* a comparison made on the Go side *)
| UnaryStatus (http : bool) (code : Z) (msg_class : Z) (details : Z)
              (obs_code : Z) (msg_same details_same : bool) (hdr_ok tlr_ok : bool)
  (* a streaming handler (kind 1 SS, 2 BD, 3 CS) sends [sends] messages and then fails; msg_class 6 is
     an error value whose status carries the OK code *)
| StreamStatus (http : bool) (kind sends : Z) (code : Z) (msg_class : Z) (details : Z)
               (failed : bool) (obs_code obs_msgs : Z) (msg_same details_same : bool) (hdr_ok tlr_ok : bool).
  (* msg_class: 0 plain, 1 empty, 2 with ':' and '%', 3 non-ASCII, 4 CR/LF or edge white-space, 5 invalid UTF-8 *)

Definition keys : list Z := [1; 2; 3].
Definition md_eqb (a b : md) : bool :=
  forallb (fun k => list_eqb Z.eqb (values_of k a) (values_of k b)) keys.

Definition fin_eqb (a b : fin) : bool :=
  match a, b with FinEOF, FinEOF => true | FinStatus x, FinStatus y => x =? y | _, _ => false end.
Definition single_eqb (a b : single) : bool :=
  match a, b with OneOk x, OneOk y => x =? y | OneEOF, OneEOF => true | OneStatus x, OneStatus y => x =? y | _, _ => false end.

(* over HTTP a trailer value that is not valid UTF-8 (ids >= 200 stand for such byte strings)
   cannot be put into the trailer message: nothing is written (known finding F5b) *)
Definition bad_value (p : Z * Z) : bool := 200 <=? snd p.
Definition trailer_unmarshalable (script : list hop) : bool :=
  existsb (fun o => match o with SetTrailer m => existsb bad_value m | _ => false end) script.

Definition predicted (http : bool) (script : list hop) (code : Z) : view :=
  let v := client_view (server_emit script code) in
  if http && trailer_unmarshalable script
  then {| v_msgs := v_msgs v; v_fin := FinStatus 2; v_hdr := v_hdr v; v_tlr := [] |}
  else v.

(* the code the client reports for a failing streaming handler: the handler's own, except that an
   OK-coded error value is turned into Internal by the HTTP server, while the in-process channel hands
   the error value itself over (a non-nil error, so a failure, whose GRPCStatus still says OK) *)
Definition stream_status_code (http : bool) (code cls oc : Z) : bool :=
  if cls =? 6 then oc =? (if http then 13 else 0) else oc =? code.

Definition check_case (k : case) : bool :=
  match k with
  | Script http hf script code o =>
      let v := predicted http script code in
      list_eqb Bool.eqb (acks (run_script script)) (o_acks o) &&
      list_eqb Z.eqb (v_msgs v) (o_msgs o) && fin_eqb (v_fin v) (o_fin o) &&
      md_eqb (v_hdr v) (o_hdr o) && md_eqb (v_tlr v) (o_tlr o) && md_eqb (v_hdr v) (o_hdr_early o) && o_opts_ok o
  | Single http script code res t =>
      let fs := server_emit script code in
      (* F5b: nothing of the trailer message is written, so the client sees the data frames and then the end
         of the body: the truncation error (whatever the handler returned); with a second message the
         library's own Internal races with it (the reader goes on to the end of the body while the receiver
         fetches the lock for its verdict: model/HttpClient.v, PGot2) *)
      if http && trailer_unmarshalable script
      then single_eqb res (OneStatus 2) || ((2 <=? Z.of_nat (length (datas fs))) && single_eqb res (OneStatus 13))
      else single_eqb (single_recv fs) res &&
           (* when the server sent more than one response the client stops at the second one and the
              call fails with the library's own Internal error: the trailers are never read *)
           (if (2 <=? Z.of_nat (length (datas fs))) then true else md_eqb (v_tlr (client_view fs)) t)
  | Lts c => Stream.check_case c
  | HLts c => HttpSched.check_case c
  | Checked _ _ ok => ok
  | UnaryStatus http code cls det oc ms ds h t =>
      (oc =? (if code =? 0 then 13 else code)) && ds && h && t &&
      (if http && ((cls =? 4)) then true else ms)
  | StreamStatus http kind sends code cls det failed oc om ms ds h t =>
      failed && stream_status_code http code cls oc && ms && ds && h && t &&
      (om =? (if kind =? 3 then 0 else sends))
  end.

(* what the script asks for, independently of the emission model *)
Definition sent_msgs (script : list hop) : list Z := flat_map (fun o => match o with SendMsg x => [x] | _ => [] end) script.
Definition all_trailers (script : list hop) : md := flat_map (fun o => match o with SetTrailer m => m | _ => [] end) script.
Fixpoint headers_before_send (script : list hop) : md :=
  match script with
  | [] => []
  | SetHeader m :: r => m ++ headers_before_send r
  | SendHeader m :: _ => m
  | SendMsg _ :: _ => []
  | SetTrailer _ :: r => headers_before_send r
  end.
Fixpoint expected_acks (script : list hop) (sent : bool) : list bool :=
  match script with
  | [] => []
  | SetHeader _ :: r => negb sent :: expected_acks r sent
  | SendHeader _ :: r => negb sent :: expected_acks r true
  | SendMsg _ :: r => true :: expected_acks r true
  | SetTrailer _ :: r => true :: expected_acks r sent
  end.

Definition finding_case (k : case) : option string :=
  match k with
  | Script true _ script _ _ => if trailer_unmarshalable script then Some "F5b"%string else None
  | Single true script _ _ _ => if trailer_unmarshalable script then Some "F5b"%string else None
  | UnaryStatus true _ 4 _ _ false _ _ _ => Some "F9"%string
  | _ => None
  end.
