From Coq Require Import ZArith String List Bool.
From Grpchan Require Import lib.Cases lib.Hex gen.Inproc.
From Grpchan Require Export corr.Stream.
Import ListNotations.
Open Scope Z_scope.

(* which actors have an operation in flight at the end of the trace *)
Fixpoint busy_after (rounds : list round) (busy : list actor) : list actor :=
  match rounds with
  | [] => busy
  | r :: rest =>
      let b1 := match r_start r with Call a _ => a :: busy | _ => busy end in
      busy_after rest (filter (fun a => negb (existsb (fun ar => actor_eqb (fst ar) a) (r_rets r))) b1)
  end.

(* the handler function has returned (the library's finish may still be running) *)
Definition handler_finished (rounds : list round) : bool :=
  existsb (fun ao => match ao with (_, HReturn _) => true | _ => false end) (started rounds).

(* once the handler has returned or the context is done, no client operation stays blocked, and
   with the context done no handler operation either (a Return in progress may wait for the
   client to make room only while the context is live) -- at every settled point *)
Definition terminated_ok (rounds : list round) : bool :=
  let busy := busy_after rounds [] in
  (if handler_finished rounds || ctx_ended rounds
   then forallb (fun a => match a with H => true | _ => false end) busy else true) &&
  (if ctx_ended rounds then match busy with [] => true | _ => false end else true).

Definition oracle_case (k : case) : bool :=
  match k with Sched _ _ rounds p l => negb p && negb l && forallb terminated_ok (prefixes rounds) | GoChecked _ _ ok => ok | Http c => HttpSched.oracle_case c end.

(* probes of the HTTP transport made on the Go side; three of them reproduce known findings *)
Definition is_finding_kind (k : string) : bool :=
  String.eqb k "F14" || String.eqb k "F15" || String.eqb k "F21".

Definition check_c05 (k : case) : bool :=
  match k with
  | GoChecked kind _ ok => if is_finding_kind kind then true else ok
  | _ => check_case k
  end.

Definition oracle_c05 (k : case) : bool :=
  match k with
  | GoChecked kind _ ok => if is_finding_kind kind then true else ok
  | _ => oracle_case k
  end.

Definition finding_case (k : case) : option string :=
  match k with
  | GoChecked kind _ false => if is_finding_kind kind then Some kind else None
  | _ => None
  end.
