(* Correspondence for C07: bodies fed to the real client and the real server. *)
From Coq Require Import ZArith String List Bool.
From Grpchan Require Import lib.Cases lib.Hex lib.Int gen.Wire model.Framing.
Import ListNotations.
Open Scope Z_scope.

(* final outcome classes as the harness sees them:
   0 = io.EOF (for the client: success), 1 = io.ErrUnexpectedEOF, 2 = any other error,
   100 + c = gRPC status with code c *)
Inductive case :=
| Cli (bs : bytes) (abrupt : bool) (cut : bool) (tparse : list (bytes * Z))
      (obs_msgs : list bytes) (obs_fin : Z)
      (* tparse: trailer byte strings found by the harness's own frame walk, with the code the
         real protobuf codec decodes from them (-1: does not unmarshal) *)
| Srv (single : bool) (bs : bytes) (abrupt : bool) (obs_msgs : list bytes) (obs_fin : Z)
      (* the client of a single-response method: one RecvMsg; success with the message, or failure *)
| CliSingle (bs : bytes) (abrupt : bool) (cut : bool) (tparse : list (bytes * Z)) (obs_ok : bool) (obs_msg : bytes)
      (* a comparison made on the Go side (bodies too large to be written out as terms) *)
| GoSide (kind : string) (id : Z) (ok : bool).

Definition ending_of (abrupt : bool) := if abrupt then Abrupt else Clean.

Definition bytes_eqb := list_eqb Z.eqb.

Fixpoint lookup_trailer (t : bytes) (tp : list (bytes * Z)) : option Z :=
  match tp with
  | [] => None
  | (b, c) :: r => if bytes_eqb b t then Some c else lookup_trailer t r
  end.

Definition rerr_class (e : rerr) : Z := match e with EEOF => 0 | EUnexpected => 1 | EOther => 2 end.

Definition check_case (k : case) : bool :=
  match k with
  | Cli bs abrupt _ tp om ofin =>
      let r := client_decode size_rejected client_size_rejected bs (ending_of abrupt) in
      list_eqb bytes_eqb (c_msgs r) om &&
      match c_fin r with
      | CErr e => ofin =? rerr_class e
      | CBadSize => ofin =? 2
      | CTrailer t =>
          match lookup_trailer t tp with
          | Some c => if c <? 0 then ofin =? 2 else if c =? 0 then ofin =? 0 else ofin =? 100 + c
          | None => false
          end
      | CFuel => false
      end
  | Srv single bs abrupt om ofin =>
      let r := if single then server_decode_single size_rejected bs (ending_of abrupt)
               else server_decode size_rejected bs (ending_of abrupt) in
      list_eqb bytes_eqb (s_msgs r) om &&
      match s_fin r with
      | SErr e => ofin =? rerr_class e
      | SBadSize => ofin =? 2
      | STooMany => ofin =? 103
      | SFuel => false
      end
  | CliSingle bs abrupt _ tp ok om =>
      (* success exactly when the reply holds one message followed by a complete trailer that says OK *)
      let r := client_decode size_rejected client_size_rejected bs (ending_of abrupt) in
      match c_msgs r, c_fin r with
      | [m], CTrailer t =>
          match lookup_trailer t tp with
          | Some c => if c =? 0 then ok && bytes_eqb om m else negb ok
          | None => false
          end
      | _, CFuel => false
      | _, _ => negb ok
      end
  | GoSide _ _ ok => ok
  end.

Fixpoint drop_prefix (a b : bytes) : option bytes :=
  match a, b with
  | [], _ => Some b
  | x :: a', y :: b' => if x =? y then drop_prefix a' b' else None
  | _ :: _, [] => None
  end.

(* does the remaining input start with a complete trailer frame? *)
Definition has_trailer_frame (rest : bytes) : bool :=
  match rest with
  | b0 :: b1 :: b2 :: b3 :: r =>
      let sz := of_be32 [b0; b1; b2; b3] in
      (sz <? 0) && (- sz <=? blen r) && (- sz <=? max_size)
  | _ => false
  end.

(* the property on the observations alone *)
Definition oracle_case (k : case) : bool :=
  match k with
  | Cli bs _ cut _ om ofin =>
      (* delivered messages are literally in the input, each after its own length prefix *)
      match drop_prefix (enc_msgs om) bs with
      | None => false
      | Some rest =>
          (* success or a status needs a complete trailer frame right there *)
          (if (ofin =? 0) || (100 <=? ofin) then has_trailer_frame rest else true)
      end &&
      (* a cut reply is never a success *)
      (if cut then negb (ofin =? 0) else true) &&
      forallb (fun m => blen m <=? max_size) om
  | Srv _ bs _ om _ =>
      match drop_prefix (enc_msgs om) bs with None => false | Some _ => true end &&
      forallb (fun m => blen m <=? max_size) om
  | CliSingle bs _ cut _ ok om =>
      (* a cut reply is never a success; a success delivers the message that opens the reply, followed by a trailer *)
      if ok then negb cut && match drop_prefix (enc_msgs [om]) bs with Some rest => has_trailer_frame rest | None => false end
      else true
  | GoSide _ _ ok => ok
  end.
