(* C10 — in-process handlers get metadata, peer, deadline, but no caller context values. *)
From Coq Require Import ZArith String List Bool.
From Grpchan Require Import model.Ctx proofs.C10.
Import ListNotations.
Open Scope Z_scope.

(* for ALL caller chains and ALL keys other than the four the library itself installs *)
Theorem C10_no_values : forall k m c, library_key k = false -> lookup k (server_ctx m c) = None.
Proof. exact no_values. Qed.
Print Assumptions C10_no_values.

Theorem C10_metadata : forall m c, lookup KInMD (server_ctx m c) = option_map VMD (out_md c).
Proof. exact incoming_is_callers_outgoing. Qed.
Print Assumptions C10_metadata.

Theorem C10_peer : forall m c, lookup KPeer (server_ctx m c) = Some (VZ 1).
Proof. exact peer_is_inproc. Qed.

Theorem C10_transport_stream : forall m c, lookup KSTS (server_ctx m c) = Some (VStr m).
Proof. exact own_transport_stream. Qed.

Theorem C10_deadline : forall m c, deadline (server_ctx m c) = deadline c.
Proof. exact deadline_kept. Qed.
Print Assumptions C10_deadline.

Theorem C10_cancellation : forall m c, cancelled (server_ctx m c) = cancelled c.
Proof. exact cancel_kept. Qed.

Theorem C10_client_context : forall m c, client_context (server_ctx m c) = Some c.
Proof. exact client_context_is_callers. Qed.
Print Assumptions C10_client_context.

(* a call made from inside another handler: nothing of the outer call leaks, at any depth *)
Theorem C10_nested_no_leak : forall k m1 m2 c extra,
  library_key k = false -> lookup k (server_ctx m2 (extra ++ server_ctx m1 c)) = None.
Proof. exact nested_no_leak. Qed.
Theorem C10_nested_incoming : forall m1 m2 c extra,
  lookup KInMD (server_ctx m2 (extra ++ server_ctx m1 c)) = option_map VMD (out_md (extra ++ server_ctx m1 c)).
Proof. exact nested_incoming. Qed.

Theorem C10_example :
  let c := [LVal 3 33; LOutMD [("k"%string, ["v"%string])]; LInMD [("outer"%string, ["x"%string])]; LDeadline 9] in
  lookup (KUser 3) (server_ctx "/s/m" c) = None /\
  lookup KInMD (server_ctx "/s/m" c) = Some (VMD [("k"%string, ["v"%string])]) /\
  deadline (server_ctx "/s/m" c) = Some 9 /\ client_context (server_ctx "/s/m" c) = Some c.
Proof. exact example. Qed.
