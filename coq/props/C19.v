(* C19 — generated stubs bind each method to its own path and stream descriptor. *)
From Coq Require Import ZArith String List Bool.
From Grpchan Require Import model.Plugin proofs.C19.
Import ListNotations.
Open Scope Z_scope.

(* any number and interleaving of methods: the stub of the k-th method has that method's path
   "/<full service name>/<method>" and the call shape of its streaming flags *)
Theorem C19_path_and_shape : forall s k m,
  nth_error (sv_ms s) k = Some m ->
  exists st, nth_error (gen_methods (sv_fq s) (sv_ms s) 0) k = Some st /\
             st_path st = path_of (sv_fq s) (me_name m) /\ st_shape st = shape_of m.
Proof. exact path_and_shape. Qed.
Print Assumptions C19_path_and_shape.

Theorem C19_shape_flags : forall m,
  (shape_of m = Unary <-> me_cs m = false /\ me_ss m = false) /\
  (shape_of m = ServerStream <-> me_cs m = false /\ me_ss m = true) /\
  (shape_of m = ClientOrBidi <-> me_cs m = true).
Proof. exact shape_flags. Qed.

(* the stream index of a streaming method selects that very method among the service's
   streaming methods in declaration order *)
Theorem C19_index : forall s k m,
  nth_error (sv_ms s) k = Some m -> streaming m = true ->
  exists st i, nth_error (gen_methods (sv_fq s) (sv_ms s) 0) k = Some st /\ st_index st = Some i /\ 0 <= i /\
               nth_error (streams_of s) (Z.to_nat i) = Some m.
Proof. exact index_selects_method. Qed.
Print Assumptions C19_index.

Theorem C19_unary_no_index : forall s k m,
  nth_error (sv_ms s) k = Some m -> streaming m = false ->
  exists st, nth_error (gen_methods (sv_fq s) (sv_ms s) 0) k = Some st /\ st_index st = None /\ st_shape st = Unary.
Proof. exact unary_has_no_index. Qed.

(* any number of services per file: one registration function each, for its own description,
   and each service's stream indices start from zero *)
Theorem C19_one_registration : forall ls ln svcs j s,
  nth_error svcs j = Some s ->
  exists o, nth_error (gen_file ls ln svcs) j = Some o /\
            o_register o = ("RegisterHandler" ++ sv_go s)%string /\ o_desc o = desc_var ln (sv_go s) /\
            length (gen_file ls ln svcs) = length svcs.
Proof. exact one_registration. Qed.
Print Assumptions C19_one_registration.

Theorem C19_per_service_counter : forall ls ln svcs j s,
  nth_error svcs j = Some s ->
  exists o, nth_error (gen_file ls ln svcs) j = Some o /\
            o_stubs o = if ls then gen_methods (sv_fq s) (sv_ms s) 0 else [].
Proof. exact per_service_counter. Qed.

Theorem C19_example : map st_index (gen_methods "p.S" (sv_ms ex_svc) 0) = [None; Some 0; None; Some 1; Some 2].
Proof. exact example. Qed.
