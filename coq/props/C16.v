(* C16 — server interceptors wrap every handler once, in order, without side effects. *)
From Coq Require Import ZArith String List Bool.
From Grpchan Require Import model.Intercept proofs.C16.
Import ListNotations.
Open Scope Z_scope.

(* for ANY description, original handlers and interceptors: the decorated i-th method is the
   original one run with the combined interceptor (transport first, then the decorating one) *)
Theorem C16_compose_unary : forall d u s i m,
  nth_error (sv_methods d) i = Some m ->
  exists m', nth_error (sv_methods (intercepted d (Some u) s)) i = Some m' /\ m_name m' = m_name m /\
             forall t ctx req, m_handler m' t ctx req = m_handler m (Some (combine t u)) ctx req.
Proof. exact compose_unary. Qed.
Print Assumptions C16_compose_unary.

Theorem C16_compose_stream : forall d u s i x,
  nth_error (sv_streams d) i = Some x ->
  exists x', nth_error (sv_streams (intercepted d u (Some s))) i = Some x' /\
             s_name x' = s_name x /\ s_cs x' = s_cs x /\ s_ss x' = s_ss x /\
             forall stream, s_handler x' stream =
                            s stream {| i_method := full_method (sv_name d) (s_name x); i_cs := s_cs x; i_ss := s_ss x |} (s_handler x).
Proof. exact compose_stream. Qed.
Print Assumptions C16_compose_stream.

(* kinds without an interceptor are left alone *)
Theorem C16_no_unary_same : forall d s, sv_methods (intercepted d None s) = sv_methods d.
Proof. exact no_unary_same. Qed.
Theorem C16_no_stream_same : forall d u, sv_streams (intercepted d u None) = sv_streams d.
Proof. exact no_stream_same. Qed.

(* with no interceptors the original is returned as is; otherwise a new description with the
   same names, flags and metadata *)
Theorem C16_nil_identity : forall d, intercept_server d None None = None.
Proof. exact nil_identity. Qed.
Theorem C16_names_preserved : forall d u s,
  sv_name (intercepted d u s) = sv_name d /\ sv_meta (intercepted d u s) = sv_meta d /\
  map m_name (sv_methods (intercepted d u s)) = map m_name (sv_methods d) /\
  map (fun x => (s_name x, s_cs x, s_ss x)) (sv_streams (intercepted d u s)) =
  map (fun x => (s_name x, s_cs x, s_ss x)) (sv_streams d).
Proof. exact names_preserved. Qed.

(* decoration nested to ANY depth around a generated-shape method: every interceptor entered
   exactly once, transport first, outermost decoration next, the method last, context and request
   passed on unchanged, the response returned unchanged, info = "/service/method" *)
Theorem C16_nested_dispatch : forall svc name tags t0 ctx req l d i,
  nth_error (sv_methods d) i = Some {| m_name := name; m_handler := generated_handler svc name (logging_method name) |} ->
  exists m', nth_error (sv_methods (decorate d tags)) i = Some m' /\ m_name m' = name /\
    m_handler m' (Some (log_uint t0)) ctx req l =
    (Ok (req * 2 + ctx),
     l ++ Enter t0 (ui svc name) ctx req :: enters (ui svc name) ctx req (rev tags)
       ++ [Handled name ctx req] ++ leaves tags ++ [Leave t0]).
Proof. exact nested_dispatch. Qed.
Print Assumptions C16_nested_dispatch.

(* the handler runs only if the interceptors call onward *)
Theorem C16_short_circuit : forall svc name (u : uint) code ctx req l,
  generated_handler svc name (logging_method name) (Some (combine (Some (short_uint 0 code)) u)) ctx req l =
  (Err code, l ++ [Enter 0 (ui svc name) ctx req; Leave 0]).
Proof. exact short_circuit. Qed.

Theorem C16_stream_dispatch : forall d (s t : sint) i x stream,
  nth_error (sv_streams d) i = Some x ->
  exists x', nth_error (sv_streams (intercepted d None (Some s))) i = Some x' /\
    dispatch_stream (sv_name d) x' (Some t) stream =
    t stream {| i_method := full_method (sv_name d) (s_name x); i_cs := s_cs x; i_ss := s_ss x |} (s_handler x') /\
    forall st, s_handler x' st =
               s st {| i_method := full_method (sv_name d) (s_name x); i_cs := s_cs x; i_ss := s_ss x |} (s_handler x).
Proof. exact stream_dispatch. Qed.

(* THE GENERAL STATEMENT.  For ANY interceptor functions us (decorations, innermost first), ANY
   transport interceptor t (or none), ANY method body and ANY nesting depth, dispatching through
   the decorated description equals the specification: t first, then the decorations from the
   outermost in, then the method; each receives exactly what its predecessor passed on and
   returns to it exactly what it produced *)
Theorem C16_dispatch_spec : forall svc name method us t ctx req d i,
  nth_error (sv_methods d) i = Some {| m_name := name; m_handler := generated_handler svc name method |} ->
  exists m', nth_error (sv_methods (decorate_with d us)) i = Some m' /\ m_name m' = name /\
             m_handler m' t ctx req = spec_chain (opt_list t ++ rev us) (ui svc name) method ctx req.
Proof. exact dispatch_spec. Qed.
Print Assumptions C16_dispatch_spec.
