(* C13 — per-RPC credentials never cross an insecure transport; peer info is reported. *)
From Coq Require Import ZArith String List Bool.
From Grpchan Require Import lib.Str model.Creds proofs.C13.
Import ListNotations.
Open Scope Z_scope.

(* credentials that require transport security over plain http: the call fails, NO request is issued *)
Theorem C13_insecure_refused : forall c out,
  require_secure c = true -> call false false (Some c) out = {| requests := 0; failed := true; handler_md := None |}.
Proof. exact insecure_refused. Qed.
Print Assumptions C13_insecure_refused.

Theorem C13_cred_error : forall https inproc rs out,
  call https inproc (Some {| require_secure := rs; cred_md := None |}) out =
  {| requests := 0; failed := true; handler_md := None |}.
Proof. exact cred_error_refused. Qed.

Theorem C13_no_creds : forall https inproc out,
  call https inproc None out = {| requests := 1; failed := false; handler_md := out |}.
Proof. exact no_creds_unchanged. Qed.

(* otherwise, for EVERY key, the handler sees the caller's values followed by the credential's *)
Theorem C13_merge : forall https inproc c m out k,
  cred_md c = Some m -> m <> [] -> NoDup (map fst m) -> (require_secure c && negb (inproc || https)) = false ->
  exists h, handler_md (call https inproc (Some c) out) = Some h /\
            md_get k h = md_get k (match out with Some o => o | None => [] end) ++ md_get k m.
Proof. exact merged_for_handler. Qed.
Print Assumptions C13_merge.

Theorem C13_peer_tls : forall conn_tls, peer_has_auth conn_tls = true <-> conn_tls = true.
Proof. exact peer_auth_iff_tls. Qed.
Theorem C13_peer_addr : forall host https, peer_addr host false https = (host ++ (if https then ":443" else ":80"))%string.
Proof. exact peer_default_port. Qed.

Theorem C13_example :
  call false false (Some {| require_secure := false; cred_md := Some [("k"%string, ["c"%string]); ("t"%string, ["tok"%string])] |})
       (Some [("k"%string, ["a"%string; "b"%string])]) =
  {| requests := 1; failed := false; handler_md := Some [("k"%string, ["a"; "b"; "c"]%string); ("t"%string, ["tok"%string])] |}.
Proof. exact example. Qed.
