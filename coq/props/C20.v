(* C20 — in-process streams apply back-pressure with a small fixed buffer.
   The capacities are GENERATED from NewStream's make(chan frame, N) (gen/Inproc.v); the
   theorems are those of the one-direction channel LTS (model/Chan1.v) at those capacities. *)
From Coq Require Import ZArith List Bool Lia.
From Grpchan Require Import gen.Inproc model.Chan1 proofs.Chan1.
From Grpchan Require proofs.StreamOrder proofs.StreamDeliver proofs.StreamFlow.
From Grpchan Require model.InprocStream proofs.StreamInv.
Import ListNotations.
Close Scope Z_scope.

Definition req_n : nat := Z.to_nat req_cap.
Definition resp_n : nat := Z.to_nat resp_cap.

(* obligation on the source as it is now: one buffered message per direction *)
Theorem C20_cap_is_one : req_cap = 1%Z /\ resp_cap = 1%Z.
Proof. split; reflexivity. Qed.

(* in EVERY reachable state, whatever the number of attempted sends and the timing of the peer:
   sends acknowledged so far exceed what the peer's library has taken off by at most the capacity *)
Theorem C20_bound_requests : forall s, reachable req_n s -> length (sent_ok s) <= length (taken s) + 1.
Proof. intros s R. apply (backpressure req_n s R). Qed.
Print Assumptions C20_bound_requests.
Theorem C20_bound_responses : forall s, reachable resp_n s -> length (sent_ok s) <= length (taken s) + 1.
Proof. intros s R. apply (backpressure resp_n s R). Qed.

(* with the buffer full a further send has no enabled completion until the peer receives, the
   peer finishes, or the context ends -- and each of those three enables one *)
Theorem C20_blocks : forall cap s x,
  length (q s) = cap -> ctx s = false -> remote s = false -> send_closed s = false -> send_enabled cap s x = false.
Proof. exact full_blocks. Qed.
Print Assumptions C20_blocks.
Theorem C20_unblocked_by : forall cap s x,
  send_closed s = false -> (length (q s) < cap \/ ctx s = true \/ remote s = true) -> send_enabled cap s x = true.
Proof. exact unblocked_by. Qed.

(* memory held by a stalled direction is the buffer: at most the capacity, however many sends were attempted *)
Theorem C20_memory : forall cap s, reachable cap s -> length (q s) <= cap.
Proof. exact buffer_bounded. Qed.
Print Assumptions C20_memory.

Theorem C20_tight : exists s, reachable 1 s /\ length (sent_ok s) = 2 /\ length (taken s) = 1 /\ got s = [7%Z].
Proof. exact tight_run. Qed.

(* The complete in-process stream (model/InprocStream.v), every reachable state: each direction
   buffers at most the generated capacity, whatever the four actors do and in whatever order. *)
Theorem C20_full_stream_buffers : forall rs s,
  StreamInv.reachable rs s ->
  length (InprocStream.reqQ s) <= InprocStream.req_capn /\ length (InprocStream.respQ s) <= InprocStream.resp_capn.
Proof. exact StreamInv.reachable_queues_bounded. Qed.
Print Assumptions C20_full_stream_buffers.
Theorem C20_full_stream_caps : InprocStream.req_capn = 1 /\ InprocStream.resp_capn = 1.
Proof. split; reflexivity. Qed.

(* back-pressure over the COMPLETE in-process stream LTS in terms of what the operations did (ghost histories and
   the operation log), every interleaving, cancellation and deadline included: what was put on a channel exceeds
   what was taken off it by at most the capacity, and so do the sends that returned nil on either side *)
Theorem C20_full_stream_responses_in_flight : forall rs s h,
  Grpchan.proofs.StreamDeliver.lreach rs s h ->
  length (Grpchan.proofs.StreamDeliver.hp h) <= length (Grpchan.proofs.StreamDeliver.hq h) + InprocStream.resp_capn.
Proof. exact Grpchan.proofs.StreamFlow.responses_in_flight. Qed.
Print Assumptions C20_full_stream_responses_in_flight.

Theorem C20_full_stream_requests_in_flight : forall rs s h,
  Grpchan.proofs.StreamDeliver.lreach rs s h ->
  length (Grpchan.proofs.StreamDeliver.rp h) <= length (Grpchan.proofs.StreamDeliver.rq h) + InprocStream.req_capn.
Proof. exact Grpchan.proofs.StreamFlow.requests_in_flight. Qed.
Print Assumptions C20_full_stream_requests_in_flight.

Theorem C20_full_stream_handler_sends_ahead : forall rs s h,
  Grpchan.proofs.StreamDeliver.lreach rs s h ->
  length (Grpchan.proofs.StreamDeliver.handler_acked (Grpchan.proofs.StreamDeliver.lg h)) <=
  length (Grpchan.proofs.StreamOrder.datas (Grpchan.proofs.StreamDeliver.hq h)) + InprocStream.resp_capn.
Proof. exact Grpchan.proofs.StreamFlow.handler_sends_ahead. Qed.
Print Assumptions C20_full_stream_handler_sends_ahead.

Theorem C20_full_stream_client_sends_ahead : forall rs s h,
  Grpchan.proofs.StreamDeliver.lreach rs s h ->
  length (Grpchan.proofs.StreamDeliver.client_acked (Grpchan.proofs.StreamDeliver.lg h)) <=
  length (Grpchan.proofs.StreamDeliver.rq h) + InprocStream.req_capn.
Proof. exact Grpchan.proofs.StreamFlow.client_sends_ahead. Qed.
Print Assumptions C20_full_stream_client_sends_ahead.
