(* C04 — cancellation and deadlines end calls with the right code and reach the handler. *)
From Coq Require Import ZArith List Bool.
From Grpchan Require Import model.InprocUnary proofs.C04.
From Grpchan Require model.HttpUnary proofs.HttpUnary.
From Grpchan Require model.InprocStream.
Import ListNotations.
Open Scope Z_scope.

(* in-process unary calls, every interleaving of the server goroutine's writes, the caller's
   select and the cancellation instant (all reachable states of model/InprocUnary.v) *)
Theorem C04_no_mixture : forall frames s s',
  reachable frames s -> step s CClosed = Some s' -> res s' = RetNil ->
  cctx s = 0 /\ recvd s' = frames /\ got_resp s' = true.
Proof. exact success_is_complete. Qed.
Print Assumptions C04_no_mixture.

Theorem C04_closed_after_cancel : forall s s',
  cctx s <> 0 -> step s CClosed = Some s' -> res s' = RetStatus (ctx_status (cctx s)).
Proof. exact closed_after_cancel_is_status. Qed.
Print Assumptions C04_closed_after_cancel.

Theorem C04_ctx_branch : forall s s', step s CCtx = Some s' -> res s' = RetStatus (ctx_status (cctx s)) /\ cctx s <> 0.
Proof. exact ctx_branch_is_status. Qed.

Theorem C04_prompt_unary : forall s, res s = Pending -> cctx s <> 0 -> step s CCtx <> None.
Proof. exact prompt. Qed.

(* the state the repaired defect mishandled is reachable (non-vacuity of the re-check) *)
Theorem C04_skipped_write_reachable :
  exists s, reachable [UData; UTlr] s /\ skipped s = true /\ closed s = true /\ q s = [] /\ got_resp s = true /\ res s = Pending /\ cctx s = 1.
Proof. exact unchecked_close_witness. Qed.

(* in-process streams: for EVERY state of the stream LTS in which the context has ended *)
Theorem C04_stream_recv_after_done : forall s s' r,
  InprocStream.cctx s <> 0 -> (forall x, InprocStream.cLast s <> Some (InprocStream.FData x)) ->
  In (s', Some r) (InprocStream.steps_of s InprocStream.CR (InprocStream.PStart InprocStream.CRecv)) -> is_status r.
Proof. exact stream_recv_after_done. Qed.
Print Assumptions C04_stream_recv_after_done.

Theorem C04_stream_probe_after_done : forall s s' r x,
  InprocStream.cctx s <> 0 -> In (s', Some r) (InprocStream.steps_of s InprocStream.CR (InprocStream.PProbe x)) -> is_status r.
Proof. exact stream_probe_after_done. Qed.

Theorem C04_prompt_stream : forall s,
  InprocStream.cctx s <> 0 -> (forall x, InprocStream.cLast s <> Some (InprocStream.FData x)) ->
  InprocStream.steps_of s InprocStream.CR (InprocStream.PStart InprocStream.CRecv) <> [].
Proof. exact stream_recv_prompt. Qed.

Theorem C04_handler_ctx : forall s, InprocStream.cctx s <> 0 -> InprocStream.sctx s <> 0.
Proof. exact handler_ctx_follows. Qed.

Theorem C04_handler_ctx_error : forall s, InprocStream.err_code_of_return s (-2) = InprocStream.ctx_status (InprocStream.sctx s).
Proof. exact handler_ctx_error_code. Qed.
Theorem C04_codes : InprocStream.ctx_status 1 = 1 /\ InprocStream.ctx_status 2 = 4.
Proof. exact ctx_status_codes. Qed.

(* the tail of the unary HTTP call as a concurrent system (model/HttpUnary.v: the goroutine that reads the reply
   body, the caller reaching its select, the context ending at any moment, reads failing with the context's
   error or on their own), every interleaving: the caller is never handed the bare context error, and a
   status it gets for the context says how the context ended *)
Theorem C04_http_unary_never_the_bare_context_error : forall s k,
  Grpchan.model.HttpUnary.reachable true s ->
  Grpchan.model.HttpUnary.result s <> Some (Grpchan.model.HttpUnary.ORawCtx k).
Proof. exact Grpchan.proofs.HttpUnary.never_the_bare_context_error. Qed.
Print Assumptions C04_http_unary_never_the_bare_context_error.

Theorem C04_http_unary_context_status : forall s c,
  Grpchan.model.HttpUnary.reachable true s ->
  Grpchan.model.HttpUnary.result s = Some (Grpchan.model.HttpUnary.OStatus c) ->
  Grpchan.model.HttpUnary.ctx s <> 0%Z /\ c = Grpchan.model.HttpUnary.ctx_status (Grpchan.model.HttpUnary.ctx s).
Proof. exact Grpchan.proofs.HttpUnary.context_status_is_the_contexts. Qed.
Print Assumptions C04_http_unary_context_status.

(* the code as it was before the repair of F29: the read arm of the select wins against the ended context *)
Theorem C04_http_unary_unrepaired_refuted : exists s,
  Grpchan.model.HttpUnary.reachable false s /\
  Grpchan.model.HttpUnary.result s = Some (Grpchan.model.HttpUnary.ORawCtx 1%Z).
Proof. exact Grpchan.proofs.HttpUnary.unrepaired_returns_the_bare_context_error. Qed.

(* what the correspondence check evaluates on observed outcomes never admits the bare context error *)
Theorem C04_http_unary_acceptance_excludes_raw : forall k,
  Grpchan.model.HttpUnary.possible true (Grpchan.model.HttpUnary.ORawCtx k) = false.
Proof. exact Grpchan.proofs.HttpUnary.possible_excludes_raw. Qed.
Print Assumptions C04_http_unary_acceptance_excludes_raw.
